"""Allocation skeletons (property C09): token-level extraction, from the CURRENT /repo sources, of the
control structure + allocation-relevant statements of every function in the call tree below the roots
listed in ROOTS, into `BV/Gen/LedgerSkel.lean` (a value of `BV.Skel.Sk` per function, see
`lean/BV/Model/AllocSkel.lean`).  Called from gen_ledger.emit (i.e. from gen_source.py, on every check).

What is recognised (everything else in a function body is ignored as allocation-neutral):
  * allocation primitives `allocate`, `alloc_cell`, `alloc_or_default`, `alloc_if` as the WHOLE right-hand side
    of `let x = …` / `path = …` / a struct-literal field / a function's tail expression;
  * `free_cell(.., X)` with X = `core::mem::take(&mut P)`, `core::mem::replace(&mut P, V)` or a plain path;
  * `core::mem::swap`, moves `a = b` / `let a = b` between paths, aliases `let a = &mut P`;
  * `if`/`else`, `match` (nondeterministic choice), `for`/`while`/`loop` (any iteration count), `return`, `?`;
  * calls of functions defined in src/enc (free functions by name, methods by receiver type where the
    name is ambiguous), arguments `&mut P` / `P` bound to the callee's parameter names, the callee's
    result bound through the pseudo-parameter `$ret`.
Robustness rule: anything the extractor is not sure about (allocation primitive in an unsupported
position, `break`/`continue` in a loop that allocates, ambiguous callee, closure that allocates, …) makes
that FUNCTION unavailable: its calls become `opaque` (hypothesis ScopedBalanced, checked at run time only)
and the reason is reported — never a wrong skeleton, never a failing check.
"""
import os

ALLOC_PRIMS = {"allocate", "alloc_cell", "alloc_or_default", "alloc_if"}
KEYWORDS = {"if", "else", "match", "for", "while", "loop", "return", "let", "mut", "ref", "in", "as", "fn", "impl", "struct",
            "enum", "trait", "mod", "use", "pub", "crate", "super", "self", "Self", "where", "unsafe", "move", "break",
            "continue", "const", "static", "type", "dyn", "true", "false"}

# (root function, impl type or None, file, parameter atoms through which blocks may enter / leave)
ROOTS = [
    ("WriteMetaBlockInternal", None, "src/enc/encode.rs", []),
    ("BrotliStoreMetaBlock", None, "src/enc/brotli_bit_stream.rs", ["mb"]),
    ("BrotliBuildMetaBlockGreedy", None, "src/enc/metablock.rs", ["mb"]),
    ("BrotliBuildMetaBlock", None, "src/enc/metablock.rs", ["mb", "lit_scratch_space", "cmd_scratch_space", "dst_scratch_space"]),
    ("BrotliSplitBlock", None, "src/enc/block_splitter.rs", ["literal_split", "insert_and_copy_split", "dist_split"]),
    ("BrotliCreateZopfliBackwardReferences", None, "src/enc/backward_references/hq.rs", []),
    ("BrotliCreateHqZopfliBackwardReferences", None, "src/enc/backward_references/hq.rs", []),
    ("BrotliStoreMetaBlockTrivial", None, "src/enc/brotli_bit_stream.rs", []),
    ("BrotliStoreMetaBlockFast", None, "src/enc/brotli_bit_stream.rs", []),
    ("BrotliStoreUncompressedMetaBlock", None, "src/enc/brotli_bit_stream.rs", []),
    # methods of the IR logger's option structures that re-allocate a field of a LIVE object (`if len > capacity
    # { new = alloc; copy; free_cell(replace(&mut self.f, new)) }`): 5th entry = parameters under which places may
    # already hold a block at entry
    ("update_block_type", "StrideEval", "src/enc/stride_eval.rs", ["self"], ["self"]),
    ("push", "CommandQueue", "src/enc/brotli_bit_stream.rs", ["self"], ["self"]),
]
# Not yet a root: BrotliEncoderStateStruct::encode_data (entry = out = `self`).  Its skeleton is extracted (hasher_setup,
# get_brotli_storage, command growth, CreateBackwardReferences, WriteMetaBlockInternal), but it allocates into fields
# under data guards (`if self.command_buf_.slice().is_empty()`, `if let UnionHasher::Uninit = ..`), which the
# path-insensitive checker reads as "overwrites a place that may hold a block"; it needs an assume-empty node.


# Functions that are opaque on the pinned baseline (allocation-wise self-contained: they free what they
# allocate and do not release places of their callers).  An opaque callee OUTSIDE this list means the extractor
# lost a function after a refactoring; since such a function may release places of its caller (e.g. a `cleanup`),
# a root that reaches one makes NO claim (dropped from skelRoots, noted) instead of risking a false alarm.
EXPECTED_OPAQUE = {
    "EntropyTally::new", "EntropyPyramid::new", "StrideEval::new", "compute_huffman_table_index_for_context_map",
    "process_command_queue", "PriorEval::new", "EntropyPyramid::free", "LogMetaBlock", "BrotliBuildMetaBlock",
    "FindAllMatchesH10", "UpdateNodes", "BrotliZopfliComputeShortestPath", "ZopfliIterate",
}


# Layering assumption used ONLY when a method is known by name alone (receiver type unknown): the encoder core never
# calls into the I/O adapters and the threading layer, so e.g. `x.unwrap()` / `x.into_inner()` inside the core is not
# `OwnedRetriever::unwrap` / `CompressorWriter::into_inner`.  (Calls whose receiver type is known are resolved exactly.)
OUTER_FILES = {"src/enc/threading.rs", "src/enc/multithreading.rs", "src/enc/singlethreading.rs", "src/enc/worker_pool.rs",
               "src/enc/writer.rs", "src/enc/reader.rs", "src/enc/mod.rs", "src/enc/fixed_queue.rs"}


class Unavailable(Exception):
    pass


# ------------------------------------------------------------------------------------------------ index
class Fn:
    def __init__(self, name, impl, path, sig, body, trait=None):
        self.name, self.impl, self.path, self.sig, self.body = name, impl, path, sig, body
        self.trait = trait
        self.params = None
        self.key = (path, impl, name)


def _match(toks, i, op, cl):
    """index of the token closing the bracket opened at toks[i]"""
    d = 0
    n = len(toks)
    while i < n:
        t = toks[i][1]
        if t == op:
            d += 1
        elif t == cl:
            d -= 1
            if d == 0:
                return i
        i += 1
    raise Unavailable("unbalanced %s" % op)


def _skip_angles(toks, i):
    """toks[i] == '<': index after the matching '>' (handles '>>', ignores '->' tokens)"""
    d = 0
    n = len(toks)
    while i < n:
        t = toks[i][1]
        if t == "<":
            d += 1
        elif t == ">":
            d -= 1
        elif t == ">>":
            d -= 2
        elif t in ("<<",):
            d += 2
        if d <= 0:
            return i + 1
        if t in (";", "{"):
            return i
        i += 1
    return i


def _type_name(ttoks):
    """last path identifier before the first '<' of a type token list (after & mut lifetimes)"""
    out = None
    for k, t in ttoks:
        if t == "<" and out is not None:
            break
        if k == "id" and t not in ("mut", "dyn", "const", "crate", "super", "impl"):
            out = t
        elif t == "<" and out is None:
            # `<Alloc as Allocator<T>>::AllocatedMemory`: a block type
            return "$mem"
    return out


def index_items(toks, path, fns, structs, i=0, end=None, impl=None, trait=None):
    end = len(toks) if end is None else end
    while i < end:
        t = toks[i][1]
        if t == "impl":
            j = i + 1
            if toks[j][1] == "<":
                j = _skip_angles(toks, j)
            hdr = []
            d = 0
            while not (toks[j][1] == "{" and d == 0):
                if toks[j][1] in ("(", "["):
                    d += 1
                elif toks[j][1] in (")", "]"):
                    d -= 1
                hdr.append(toks[j])
                j += 1
            # cut `where`
            cut = [k for k, x in enumerate(hdr) if x[1] == "where"]
            if cut:
                hdr = hdr[:cut[0]]
            # `Trait for Type`
            ad = 0
            fpos = None
            for k, x in enumerate(hdr):
                if x[1] == "<":
                    ad += 1
                elif x[1] == ">":
                    ad -= 1
                elif x[1] == ">>":
                    ad -= 2
                elif x[1] == "for" and ad == 0:
                    fpos = k
            tr = None
            if fpos is not None:
                tr = _type_name(hdr[:fpos])
                hdr = hdr[fpos + 1:]
            ty = _type_name(hdr)
            k = _match(toks, j, "{", "}")
            index_items(toks, path, fns, structs, j + 1, k, ty, tr)
            i = k + 1
            continue
        if t == "fn" and i + 1 < end and toks[i + 1][0] == "id":
            name = toks[i + 1][1]
            j = i + 2
            d = 0
            while not ((toks[j][1] == "{" or toks[j][1] == ";") and d == 0):
                if toks[j][1] in ("(", "["):
                    d += 1
                elif toks[j][1] in (")", "]"):
                    d -= 1
                j += 1
            if toks[j][1] == ";":
                i = j + 1
                continue
            k = _match(toks, j, "{", "}")
            fns.append(Fn(name, impl, path, toks[i:j], toks[j:k + 1], trait))
            i = k + 1
            continue
        if t == "mod" and i + 2 < end and toks[i + 2][1] == "{":
            k = _match(toks, i + 2, "{", "}")
            index_items(toks, path, fns, structs, i + 3, k, None)
            i = k + 1
            continue
        if t == "struct" and i + 1 < end and toks[i + 1][0] == "id":
            name = toks[i + 1][1]
            j = i + 2
            ad = 0
            while j < end and not (toks[j][1] in ("{", ";", "(") and ad <= 0):
                if toks[j][1] == "<":
                    ad += 1
                elif toks[j][1] == ">":
                    ad -= 1
                elif toks[j][1] == ">>":
                    ad -= 2
                j += 1
            if j < end and toks[j][1] == "{":
                k = _match(toks, j, "{", "}")
                fields = {}
                p = j + 1
                while p < k:
                    # attributes
                    if toks[p][1] == "#":
                        p = _match(toks, p + 1, "[", "]") + 1
                        continue
                    if toks[p][1] == "pub":
                        p += 1
                        if toks[p][1] == "(":
                            p = _match(toks, p, "(", ")") + 1
                        continue
                    if toks[p][0] == "id" and toks[p + 1][1] == ":":
                        fname = toks[p][1]
                        q = p + 2
                        d = 0
                        ty = []
                        while q < k and not (toks[q][1] == "," and d == 0):
                            if toks[q][1] in ("<", "(", "["):
                                d += 1
                            elif toks[q][1] in (">", ")", "]"):
                                d -= 1
                            elif toks[q][1] == ">>":
                                d -= 2
                            ty.append(toks[q])
                            q += 1
                        fields[fname] = _type_name(ty)
                        p = q + 1
                        continue
                    p += 1
                structs[name] = fields
                i = k + 1
                continue
            i = j + 1
            continue
        if t == "{":
            i = _match(toks, i, "{", "}") + 1
            continue
        i += 1


def parse_params(fn):
    """[(name, type name)] incl. self"""
    sig = fn.sig
    j = 2
    if sig[j][1] == "<":
        j = _skip_angles(sig, j)
    while sig[j][1] != "(":
        j += 1
    k = _match(sig, j, "(", ")")
    out = []
    p = j + 1
    cur = []
    d = 0
    items = []
    while p < k:
        t = sig[p][1]
        if t in ("(", "[", "<"):
            d += 1
        elif t in (")", "]", ">"):
            d -= 1
        elif t == ">>":
            d -= 2
        if t == "," and d == 0:
            items.append(cur)
            cur = []
        else:
            cur.append(sig[p])
        p += 1
    if cur:
        items.append(cur)
    for it in items:
        names = [x[1] for x in it]
        if "self" in names and ":" not in names:
            out.append(("self", fn.impl))
            continue
        if ":" not in names:
            continue
        c = names.index(":")
        nm = [x for x in it[:c] if x[0] == "id" and x[1] != "mut"]
        if len(nm) != 1:
            out.append((None, None))
            continue
        out.append((nm[0][1], _type_name(it[c + 1:])))
    return out


# ------------------------------------------------------------------------------------------------ skeleton terms
def seq(*xs):
    out = []
    for x in xs:
        if x is None or x == ("skip",):
            continue
        if x[0] == "seq":
            out.extend(x[1])
        else:
            out.append(x)
    # nothing after a `ret`
    for n, x in enumerate(out):
        if x == ("ret",) or x == ("exit",):
            out = out[:n + 1]
            break
    if not out:
        return ("skip",)
    if len(out) == 1:
        return out[0]
    return ("seq", out)


def alt(xs):
    ys = []
    for x in xs:
        if x not in ys:
            ys.append(x)
    if len(ys) == 1:
        return ys[0]
    return ("alt", ys)


def loop(x):
    if x == ("skip",):
        return x
    return ("loop", x)


def has_effect(x):
    return x != ("skip",)


def _related(p, q):
    n = min(len(p), len(q))
    return p[:n] == q[:n]


def prune_moves(node, extra):
    """drop `move`s between paths that no allocation / free / call binding / kept move ever touches
    (plain data: counters, flags, slices); `$ret` and `self` paths are always kept"""
    tracked = []

    def collect(n):
        if n[0] in ("alloc", "free"):
            tracked.append(n[2])
        elif n[0] in ("seq", "alt"):
            for x in n[1]:
                collect(x)
        elif n[0] == "loop":
            collect(n[1])
        elif n[0] == "scope":
            collect(n[2])
        elif n[0] == "call":
            for _, q in n[3]:
                tracked.append(q)
    collect(node)
    moves = []

    def allmoves(n):
        if n[0] == "move":
            moves.append(n)
        elif n[0] in ("seq", "alt"):
            for x in n[1]:
                allmoves(x)
        elif n[0] == "loop":
            allmoves(n[1])
        elif n[0] == "scope":
            allmoves(n[2])
    allmoves(node)
    # a call binding of a plain-data path alone does not make a path interesting: only paths related to
    # an alloc/free, to a path some callee may write (all bindings: conservative), or to `$ret`
    keep = set()
    changed = True
    while changed:
        changed = False
        for m in moves:
            key = (tuple(m[1]), tuple(m[2]))
            if key in keep:
                continue
            if any(_related(m[1], t) or _related(m[2], t) for t in tracked):
                keep.add(key)
                tracked.append(m[1])
                tracked.append(m[2])
                changed = True

    def rebuild(n):
        if n[0] == "move":
            return n if (tuple(n[1]), tuple(n[2])) in keep else ("skip",)
        if n[0] == "seq":
            return seq(*[rebuild(x) for x in n[1]])
        if n[0] == "alt":
            return alt([rebuild(x) for x in n[1]])
        if n[0] == "loop":
            return loop(rebuild(n[1]))
        if n[0] == "scope":
            b = rebuild(n[2])
            return ("scope", n[1], b) if b != ("skip",) else b
        if n[0] == "exit":
            return ("skip",)
        return n
    return rebuild(node)


# ------------------------------------------------------------------------------------------------ body parser
class Body:
    def __init__(self, gen, fn):
        self.gen = gen
        self.fn = fn
        self.t = fn.body
        self.types = {}     # local / param name -> type name
        self.alias = {}     # local name -> path it borrows
        self.site = 0
        for nm, ty in fn.params:
            if nm:
                self.types[nm] = ty

    def val(self, i):
        return self.t[i][1]

    # -- paths -------------------------------------------------------------------------------------
    def norm(self, path):
        if path and path[0] in self.alias:
            return self.norm(self.alias[path[0]] + path[1:])
        return path

    def as_path(self, i, j):
        """tokens [i,j) as a plain place path (`*`/`&mut`/parens stripped) or None"""
        ts = [self.t[k] for k in range(i, j)]
        while ts and ts[0][1] in ("*", "&", "mut", "(", "ref"):
            if ts[0][1] == "(":
                if ts[-1][1] != ")":
                    return None
                ts = ts[1:-1]
            else:
                ts = ts[1:]
        if not ts:
            return None
        path = []
        expect_id = True
        for k, v in ts:
            if expect_id:
                if not (k == "id" or (k == "num" and path)):
                    return None
                if k == "id" and v in KEYWORDS and v not in ("self",):
                    return None
                path.append(v)
                expect_id = False
            else:
                if v != ".":
                    return None
                expect_id = True
        if expect_id:
            return None
        return self.norm(path)

    def type_of(self, path):
        if not path:
            return None
        ty = self.types.get(path[0])
        for f in path[1:]:
            if ty is None:
                return None
            ty = self.gen.structs.get(ty, {}).get(f)
        return ty

    # -- scanning helpers --------------------------------------------------------------------------
    def find_brace(self, i, end):
        """first `{` at paren/bracket depth 0 in [i,end)"""
        d = 0
        while i < end:
            v = self.val(i)
            if v in ("(", "["):
                d += 1
            elif v in (")", "]"):
                d -= 1
            elif v == "{" and d == 0:
                return i
            i += 1
        raise Unavailable("no block found")

    def split_top(self, i, end, sep):
        """split [i,end) at `sep` tokens of depth 0 -> list of (a,b)"""
        out = []
        d = 0
        a = i
        k = i
        while k < end:
            v = self.val(k)
            if v == "::" and k + 1 < end and self.val(k + 1) == "<":
                k = _skip_angles(self.t, k + 1)      # a turbofish `::<A, B>` is not a separator context
                continue
            if v in ("(", "[", "{"):
                d += 1
            elif v in (")", "]", "}"):
                d -= 1
            elif v == sep and d == 0:
                out.append((a, k))
                a = k + 1
            k += 1
        if a < end:
            out.append((a, end))
        return out

    def raw_sites(self, i, end):
        for k in range(i, end):
            v = self.val(k)
            if v in ALLOC_PRIMS or v == "free_cell":
                return True
        return False

    # -- statements --------------------------------------------------------------------------------
    def block(self, i):
        """self.t[i] == '{' -> (node, value, index after '}')"""
        k = _match(self.t, i, "{", "}")
        node, value = self.stmts(i + 1, k)
        return node, value, k + 1

    def stmts(self, i, end):
        nodes = []
        value = None
        while i < end:
            v = self.val(i)
            if v == ";":
                i += 1
                value = None
                continue
            if v == "#":   # attribute
                i = _match(self.t, i + 1, "[", "]") + 1
                continue
            # nested items are not executed here
            if v == "fn":
                j = self.find_brace(i, end)
                i = _match(self.t, j, "{", "}") + 1
                continue
            if v in ("use", "const", "static", "type"):
                while self.val(i) != ";":
                    i += 1
                continue
            # statement extent: up to `;` at depth 0, or a block-like expression that ends a statement
            j = i
            d = 0
            blocklike = v in ("if", "match", "for", "while", "loop", "{", "unsafe") or (self.t[i][0] == "life")
            while j < end:
                w = self.val(j)
                if w in ("(", "[", "{"):
                    d += 1
                elif w in (")", "]", "}"):
                    d -= 1
                    if d == 0 and w == "}" and blocklike:
                        # `if … {} else {}` / `match … {}` continue with else; a following `.`/`?` continues the expression
                        nxt = self.val(j + 1) if j + 1 < end else ";"
                        if nxt == "else":
                            j += 1
                            continue
                        if nxt in (".", "?", "as"):
                            blocklike = False
                            j += 1
                            continue
                        j += 1
                        break
                elif w == ";" and d == 0:
                    break
                j += 1
            n, value = self.statement(i, j)
            nodes.append(n)
            if j < end and self.val(j) == ";":
                value = None
                j += 1
            i = j
        return seq(*nodes), value

    def statement(self, i, j):
        v = self.val(i)
        if v == "let":
            # let PAT [: TY] = EXPR   |   let PAT [: TY]
            eqs = [k for (a, k) in [(0, 0)] if False]
            d = 0
            eq = None
            for k in range(i + 1, j):
                w = self.val(k)
                if w in ("(", "[", "{", "<"):
                    d += 1
                elif w in (")", "]", "}", ">"):
                    d -= 1
                elif w == ">>":
                    d -= 2
                elif w == "=" and d <= 0:
                    eq = k
                    break
            pend = eq if eq is not None else j
            colon = None
            d = 0
            for k in range(i + 1, pend):
                w = self.val(k)
                if w in ("(", "[", "<"):
                    d += 1
                elif w in (")", "]", ">"):
                    d -= 1
                elif w == ":" and d == 0:
                    colon = k
                    break
            pat = [self.t[k] for k in range(i + 1, colon if colon is not None else pend)]
            names = [x[1] for x in pat if x[0] == "id" and x[1] not in ("mut", "ref")]
            simple = len(names) == 1 and all(x[1] in ("mut", "ref") or x[0] == "id" for x in pat)
            name = names[0] if simple else None
            if name:
                self.alias.pop(name, None)
                if colon is not None:
                    self.types[name] = _type_name([self.t[k] for k in range(colon + 1, pend)])
                else:
                    self.types.pop(name, None)
            if eq is None:
                return ("skip",), None
            # alias: let x = &mut PATH
            if name and self.val(eq + 1) == "&":
                p = self.as_path(eq + 1, j)
                if p is not None:
                    self.alias[name] = p
                    ty = self.type_of(p)
                    if ty:
                        self.types[name] = ty
                    return ("skip",), None
            node, value = self.expr(eq + 1, j)
            if name:
                if colon is None:
                    ty = self.ctor_type(eq + 1, j)
                    if ty:
                        self.types[name] = ty
                return seq(node, self.assign([name], value)), None
            if self.owning(value):
                raise Unavailable("allocation bound by a pattern")
            if value is not None and value[0] == "callret":
                pass
            return node, None
        # assignment  PATH = EXPR   (not ==, <=, …: those are distinct tokens)
        d = 0
        for k in range(i, j):
            w = self.val(k)
            if w in ("(", "[", "{"):
                d += 1
            elif w in (")", "]", "}"):
                d -= 1
            elif w == "=" and d == 0:
                lhs = self.as_path(i, k)
                node, value = self.expr(k + 1, j)
                if lhs is None:
                    if self.owning(value):
                        raise Unavailable("allocation assigned to a non-path place")
                    lnode, _ = self.expr(i, k)
                    return seq(lnode, node, self.dropval(value)), None
                return seq(node, self.assign(lhs, value)), None
            elif w in ("if", "match", "while", "for", "loop", "return") and d == 0:
                break
        node, value = self.expr(i, j)
        return node, value

    def has_ret(self, n):
        """a `ret` that would leave this loop's function (not caught by a scope inside `n`)"""
        if n == ("ret",):
            return True
        if n[0] in ("seq", "alt"):
            return any(self.has_ret(x) for x in n[1])
        if n[0] == "loop":
            return self.has_ret(n[1])
        return False

    def nested_loop(self, b, k):
        """a `break`/`continue` inside a nested loop of [b,k) would refer to that loop"""
        for q in range(b + 1, k):
            if self.val(q) in ("for", "while", "loop"):
                e = self.find_brace(q + 1, k)
                e2 = _match(self.t, e, "{", "}")
                if any(self.val(x) in ("break", "continue") for x in range(e, e2)):
                    return True
        return False

    def exits_to_ret(self, n):
        if n == ("exit",):
            return ("ret",)
        if n[0] in ("seq", "alt"):
            xs = [self.exits_to_ret(x) for x in n[1]]
            return seq(*xs) if n[0] == "seq" else alt(xs)
        if n[0] == "loop":
            return ("loop", self.exits_to_ret(n[1]))
        if n[0] == "scope":
            return n
        return n

    def ctor_type(self, i, j):
        """`T::new(..)`, `T::<..>::new(..)`, `T { .. }` -> T"""
        if self.t[i][0] == "id" and self.val(i)[:1].isupper() and self.val(i) not in ("Some", "Ok", "Err", "None"):
            return self.val(i) if self.val(i) != "Self" else self.fn.impl
        return None

    @staticmethod
    def owning(v):
        if v is None or v[0] == "var":
            return False
        if v[0] == "struct":
            return any(Body.owning(x) for _, x in v[1])
        return True

    def dropval(self, value):
        """a value that is computed and not stored anywhere"""
        if not self.owning(value):
            return ("skip",)
        if value[0] == "callret":
            return value[1](None)
        if value[0] == "replace":
            # `mem::replace(&mut P, V);` as a statement: the old content of P is dropped without free_cell
            tmp = ["$dropped%d" % self.site]
            self.site += 1
            return seq(("move", value[1], tmp), self.assign(value[1], value[2]))
        raise Unavailable("allocated value is discarded")

    def assign(self, lhs, value):
        if value is None:
            return ("skip",)
        k = value[0]
        if k == "fresh":
            return ("alloc", value[1], lhs)
        if k == "var":
            if value[1] == lhs:
                return ("skip",)
            return ("move", value[1], lhs)
        if k == "replace":
            return seq(("move", value[1], lhs), self.assign(value[1], value[2]))
        if k == "struct":
            return seq(*[self.assign(lhs + [f], fv) for f, fv in value[1]])
        if k == "callret":
            return value[1](lhs)
        raise Unavailable("assign " + k)

    # -- expressions -------------------------------------------------------------------------------
    def expr(self, i, j):
        """effects and value of tokens [i,j)"""
        while i < j and self.val(i) == "(" and _match(self.t, i, "(", ")") == j - 1:
            i, j = i + 1, j - 1
        if i >= j:
            return ("skip",), None
        v = self.val(i)
        if self.t[i][0] == "life" and i + 1 < j and self.val(i + 1) == ":":
            i += 2
            v = self.val(i)
        if v == "unsafe" and self.val(i + 1) == "{":
            i += 1
            v = "{"
        if v == "{":
            k = _match(self.t, i, "{", "}")
            if k == j - 1:
                n, val, _ = self.block(i)
                return n, val
        if v == "if":
            return self.if_expr(i, j)
        if v == "match":
            return self.match_expr(i, j)
        if v in ("while", "for", "loop"):
            b = self.find_brace(i + 1, j)
            k = _match(self.t, b, "{", "}")
            hdr, _ = self.scan(i + 1, b)
            body, _, _ = self.block(b)
            if has_effect(body) or has_effect(hdr):
                # exits of THIS loop: `break` / `continue` tokens outside nested loop bodies (those of a nested loop were
                # resolved when that loop was parsed); a `return` / `?` anywhere inside leaves the function
                kinds = set()
                q = b + 1
                while q < k:
                    w = self.val(q)
                    if w in ("for", "while", "loop"):
                        e = self.find_brace(q + 1, k)
                        q = _match(self.t, e, "{", "}") + 1
                        continue
                    if w in ("break", "continue"):
                        kinds.add(w)
                    q += 1
                if self.has_ret(body):
                    kinds.add("return")
                # a `break` leaves the loop like a `ret` leaves a scope; a `continue` leaves one iteration.
                # Only one kind of non-local exit per loop is expressible.
                if "break" in kinds or "continue" in kinds:
                    if len(kinds) > 1:
                        raise Unavailable("break/continue mixed with other exits in a loop that allocates")
                    body = self.exits_to_ret(body)
                    tag = ["$loop%d" % self.site]
                    self.site += 1
                    if "continue" in kinds:
                        body = ("scope", tag, body)
                        if v == "while":
                            return seq(hdr, loop(seq(body, hdr))), None
                        return seq(hdr, loop(body)), None
                    if v == "while":
                        return seq(hdr, ("scope", tag, loop(seq(body, hdr)))), None
                    return seq(hdr, ("scope", tag, loop(body))), None
            rest = ("skip",)
            if k + 1 < j:
                rest, _ = self.scan(k + 1, j)
            if v == "while":
                return seq(hdr, loop(seq(body, hdr)), rest), None
            return seq(hdr, loop(body), rest), None
        if v == "return":
            n, val = self.expr(i + 1, j)
            return seq(n, self.assign(["$ret"], val) if val is not None else None, ("ret",)), None
        if v in ("break", "continue"):
            return ("exit",), None
        # plain path / take / replace / alloc primitive / struct literal / call as the WHOLE expression
        p = self.as_path(i, j)
        if p is not None:
            return ("skip",), ("var", p)
        whole = self.whole_call(i, j)
        if whole is not None:
            return whole
        sl = self.struct_literal(i, j)
        if sl is not None:
            return sl
        # `EXPR?`
        if self.val(j - 1) == "?":
            n, val = self.expr(i, j - 1)
            return seq(n, alt([("skip",), ("ret",)])), val
        n, _ = self.scan(i, j)
        return n, None

    def const_cond(self, i, j):
        """value of a condition made of literals only (`!(0i32 == 0)`: the c2rust residue of BROTLI_IS_OOM), else None"""
        out = []
        for k in range(i, j):
            kind, v = self.t[k]
            if kind == "num":
                m = v.replace("_", "")
                for suf in ("i8", "i16", "i32", "i64", "isize", "u8", "u16", "u32", "u64", "usize"):
                    if m.endswith(suf):
                        m = m[:-len(suf)]
                if not m.isdigit():
                    return None
                out.append(m)
            elif v in ("(", ")", "==", "!="):
                out.append(v)
            elif v == "!":
                out.append(" not ")
            elif v == "&&":
                out.append(" and ")
            elif v == "||":
                out.append(" or ")
            elif v in ("true", "false"):
                out.append(v.capitalize())
            else:
                return None
        try:
            return bool(eval("".join(out), {"__builtins__": {}}, {}))
        except Exception:
            return None

    def if_expr(self, i, j):
        b = self.find_brace(i + 1, j)
        cond, _ = self.scan(i + 1, b)
        then, tval, k = self.block(b)
        cc = self.const_cond(i + 1, b)
        if cc is False and not (k < j and self.val(k) == "else"):
            # dead branch: the condition is a literal constant
            if k < j:
                rest, _ = self.scan(k, j)
                return rest, None
            return ("skip",), None
        branches = [(then, tval)]
        if k < j and self.val(k) == "else":
            if self.val(k + 1) == "if":
                n, val = self.if_expr(k + 1, j)
                branches.append((n, val))
                k = j
            else:
                n, val, k = self.block(k + 1)
                branches.append((n, val))
        else:
            branches.append((("skip",), None))
        if k < j:
            rest, _ = self.scan(k, j)
            for _, v in branches:
                if v is not None and v[0] != "var":
                    raise Unavailable("allocated value of an if-expression used in a larger expression")
            return seq(cond, alt([n for n, _ in branches]), rest), None
        return self.join_branches(cond, branches)

    def join_branches(self, pre, branches):
        vals = [v for _, v in branches if v is not None and v[0] != "var"]
        if not vals:
            return seq(pre, alt([n for n, _ in branches])), None
        # the value of the whole expression: delivered by a continuation applied inside each branch
        def deliver(lhs, branches=branches, pre=pre):
            outs = []
            for n, v in branches:
                if lhs is None:
                    outs.append(seq(n, self.dropval(v)))
                else:
                    outs.append(seq(n, self.assign(lhs, v)))
            return seq(pre, alt(outs))
        return ("skip",), ("callret", deliver)

    def match_expr(self, i, j):
        b = self.find_brace(i + 1, j)
        k = _match(self.t, b, "{", "}")
        if k != j - 1:
            raise Unavailable("tokens after match-expression")
        scrut, _ = self.scan(i + 1, b)
        p = b + 1
        branches = []
        while p < k:
            # pattern up to `=>` at depth 0
            d = 0
            q = p
            while not (self.val(q) == "=>" and d == 0):
                if self.val(q) in ("(", "[", "{"):
                    d += 1
                elif self.val(q) in (")", "]", "}"):
                    d -= 1
                q += 1
                if q >= k:
                    raise Unavailable("match arm without =>")
            q += 1
            if self.val(q) == "{":
                e = _match(self.t, q, "{", "}")
                nxt = self.val(e + 1) if e + 1 < k else ","
                if nxt == "," or e + 1 >= k or self.t[e + 1][0] in ("id", "num", "str", "char") or nxt in ("&", "(", "_", "[", "-"):
                    n, val, _ = self.block(q)
                    branches.append((n, val))
                    p = e + 1
                    if p < k and self.val(p) == ",":
                        p += 1
                    continue
            # expression arm up to `,` at depth 0
            d = 0
            e = q
            while e < k and not (self.val(e) == "," and d == 0):
                if self.val(e) in ("(", "[", "{"):
                    d += 1
                elif self.val(e) in (")", "]", "}"):
                    d -= 1
                e += 1
            n, val = self.expr(q, e)
            branches.append((n, val))
            p = e + 1
        if not branches:
            return scrut, None
        return self.join_branches(scrut, branches)

    def struct_literal(self, i, j):
        """`Path { f: e, … }` as the whole expression"""
        if self.val(j - 1) != "}":
            return None
        k = i
        while k < j and (self.t[k][0] == "id" or self.val(k) == "::"):
            k += 1
        if k == i:
            return None
        if k < j and self.val(k) == "<":
            k = _skip_angles(self.t, k)
        if k < j and self.val(k) == "::" and self.val(k + 1) == "<":
            k = _skip_angles(self.t, k + 1)
        if k >= j or self.val(k) != "{" or _match(self.t, k, "{", "}") != j - 1:
            return None
        if self.val(k - 1) in KEYWORDS and self.val(k - 1) != "Self":
            return None
        nodes = []
        fields = []
        for (a, b) in self.split_top(k + 1, j - 1, ","):
            if a >= b:
                continue
            if self.val(a) == "..":
                n, _ = self.scan(a + 1, b)
                nodes.append(n)
                continue
            if self.t[a][0] in ("id", "num") and a + 1 < b and self.val(a + 1) == ":":
                n, val = self.expr(a + 2, b)
                nodes.append(n)
                if val is not None:
                    fields.append((self.val(a), val))
            else:
                # shorthand `field`
                if b == a + 1 and self.t[a][0] == "id":
                    fields.append((self.val(a), ("var", self.norm([self.val(a)]))))
                else:
                    n, _ = self.scan(a, b)
                    nodes.append(n)
        return seq(*nodes), ("struct", fields)

    def call_head(self, i, j):
        """if [i,j) is `HEAD ( ARGS )` with HEAD a path / method chain ending in an identifier (optional
        turbofish) return (name, head_start, head_end(exclusive, index of ident), paren index)"""
        if self.val(j - 1) != ")":
            return None
        # find the `(` matching the final `)`
        d = 0
        k = j - 1
        while k >= i:
            w = self.val(k)
            if w == ")":
                d += 1
            elif w == "(":
                d -= 1
                if d == 0:
                    break
            k -= 1
        if k <= i:
            return None
        par = k
        h = par - 1
        # turbofish `::<…>`
        if self.val(h) in (">", ">>"):
            d = 0
            while h >= i:
                w = self.val(h)
                if w == ">":
                    d += 1
                elif w == ">>":
                    d += 2
                elif w == "<":
                    d -= 1
                    if d <= 0:
                        break
                h -= 1
            if h - 1 <= i or self.val(h - 1) != "::":
                return None
            h -= 2
        if self.t[h][0] != "id" or (self.val(h) in KEYWORDS and self.val(h) not in ("Self",)):
            return None
        return (self.val(h), h, par)

    def whole_call(self, i, j):
        ch = self.call_head(i, j)
        if ch is None:
            return None
        name, h, par = ch
        # receiver / qualifier = tokens [i,h)
        args = self.split_top(par + 1, j - 1, ",")
        qual = [self.val(k) for k in range(i, h)]
        # the qualifier must be a pure path prefix (`a::b::`, `<X as Y<Z>>::`, `recv.`)
        method_recv = None
        if qual and qual[-1] == ".":
            method_recv = self.as_path(i, h - 1)
            if method_recv is None:
                # receiver is a compound expression: scan it, then treat as a call with unknown receiver
                pre, _ = self.scan(i, h - 1)
                n, v = self.apply_call(name, None, True, args, qual)
                return seq(pre, n), v
        elif qual:
            if qual[-1] != "::":
                return None
            # only path tokens allowed
            d = 0
            for w in qual:
                if w in ("(", "{", "[", "=", ";", "+", "-", "*", "/", "!", "&&", "||", "==", ".", "&"):
                    if w == "&" or w == "*":
                        continue
                    return None
        return self.apply_call(name, method_recv, method_recv is not None, args, qual)

    def elem_type(self, qual, h_end_tokens):
        return None

    def type_arg(self, qual, i, j):
        """element type of an alloc/free primitive: `allocate::<T,_>`, `<A as Allocator<T>>::free_cell`"""
        toks = [self.val(k) for k in range(i, j)]
        # turbofish after the name
        for n, w in enumerate(toks):
            if w in ALLOC_PRIMS and n + 2 < len(toks) and toks[n + 1] == "::" and toks[n + 2] == "<":
                return self.first_type(toks[n + 3:])
        if "Allocator" in qual:
            k = qual.index("Allocator")
            if k + 1 < len(qual) and qual[k + 1] == "<":
                return self.first_type(qual[k + 2:])
        return None

    @staticmethod
    def first_type(toks):
        out = None
        for w in toks:
            if w in ("<", ",", ">", ">>"):
                break
            if w == "::":
                continue
            if w[:1].isalpha() or w[:1] == "_":
                out = w
        if out in (None, "_"):
            return None
        return out

    def arg_value(self, a, b):
        return self.expr(a, b)

    def apply_call(self, name, recv, is_method, args, qual):
        gen = self.gen
        # ---- primitives
        if name in ("take", "replace", "swap") and "mem" in qual:
            if name == "take" and len(args) == 1:
                p = self.as_path(*args[0])
                if p is None:
                    raise Unavailable("mem::take of a non-path")
                return ("skip",), ("var", p)
            if name == "replace" and len(args) == 2:
                p = self.as_path(*args[0])
                n, v = self.expr(*args[1])
                if p is None:
                    if v is not None and v[0] != "var":
                        raise Unavailable("mem::replace of a non-path")
                    return n, None
                if not self.owning(v) and v is not None and v[0] != "var":
                    v = None
                if v is not None and v[0] not in ("var", "fresh"):
                    raise Unavailable("mem::replace with a compound value")
                return n, ("replace", p, v)
            if name == "swap" and len(args) == 2:
                p, q = self.as_path(*args[0]), self.as_path(*args[1])
                if p is None or q is None:
                    n1, _ = self.scan(*args[0])
                    n2, _ = self.scan(*args[1])
                    return seq(n1, n2), None
                tmp = ["$swap%d" % self.site]
                self.site += 1
                return seq(("move", p, tmp), ("move", q, p), ("move", tmp, q)), None
        if name in ALLOC_PRIMS:
            nodes = []
            for (a, b) in args:
                if self.raw_sites(a, b):
                    raise Unavailable("allocation primitive nested in the arguments of another")
                n, _ = self.scan(a, b)
                nodes.append(n)
            i0 = args[0][0] if args else 0
            ty = self.type_arg(qual, i0 - 8 if i0 >= 8 else 0, i0) if args else None
            return seq(*nodes), ("fresh", ty)
        if name == "free_cell":
            if not args:
                raise Unavailable("free_cell without arguments")
            a, b = args[-1]
            nodes = []
            for (x, y) in args[:-1]:
                n, _ = self.scan(x, y)
                nodes.append(n)
            n, v = self.expr(a, b)
            nodes.append(n)
            i0 = args[0][0]
            ty = self.type_arg(qual, i0, i0)
            if v is None:
                raise Unavailable("free_cell of an expression that is not a path / take / replace")
            if v[0] == "var":
                return seq(*(nodes + [("free", ty, v[1])])), None
            if v[0] == "replace":
                return seq(*(nodes + [("free", ty, v[1]), self.assign(v[1], v[2])])), None
            raise Unavailable("free_cell of " + v[0])
        # ---- calls of indexed functions
        cands = gen.resolve(name, recv, is_method, qual, self)
        argnodes = []
        argvals = []
        for (a, b) in args:
            n, v = self.expr(a, b)
            argnodes.append(n)
            argvals.append(v)
        if cands is None:
            # unknown function: allocation-neutral by assumption (not defined under src/enc); a fresh block
            # handed to it cannot be followed
            if name[:1].isupper() and any(self.owning(v) for v in argvals):
                # enum variant / tuple struct constructor (`UnionHasher::H2(h)`, `Some(x)`): the wrapper owns what
                # its arguments owned; one argument keeps its paths, several become the fields 0, 1, …
                if len(argvals) == 1:
                    return seq(*argnodes), argvals[0]
                return seq(*argnodes), ("struct", [(str(n), v) for n, v in enumerate(argvals) if v is not None])
            for v in argvals:
                if self.owning(v):
                    if name[:1].isupper() or name in ("Some", "Ok", "Err", "from", "into", "plain", "ctx"):
                        raise Unavailable("allocated value wrapped by `%s`" % name)
                    raise Unavailable("allocated value passed to unknown function `%s`" % name)
            return seq(*argnodes), None
        rr = gen.raw_relevant_names()
        cands = [c for c in cands if c.key in rr]
        live = [c for c in cands if gen.relevant(c)]
        if not live:
            for v in argvals:
                if self.owning(v):
                    raise Unavailable("allocated value passed to `%s`" % name)
            return seq(*argnodes), None
        if len(cands) > 1:
            raise Unavailable("ambiguous callee `%s` (%d candidates)" % (name, len(cands)))
        callee = cands[0]
        if not gen.available(callee):
            return seq(*(argnodes + [("opaque", gen.fn_id(callee))])), None
        params = list(callee.params)
        binds = []
        if params and params[0][0] == "self":
            if is_method:
                if recv is not None:
                    binds.append(("self", recv))
                params = params[1:]
            # `Type::method(recv, …)`: self is the first argument
        pre = []
        for (pn, _pt), v, (a, b) in zip(params, argvals, args):
            if pn is None:
                continue
            if v is None:
                continue
            if v[0] == "var":
                binds.append((pn, v[1]))
            elif not self.owning(v):
                continue
            elif v[0] == "fresh":
                tmp = ["$arg%d" % self.site, pn]
                pre.append(("alloc", v[1], tmp))
                binds.append((pn, tmp))
            else:
                raise Unavailable("compound allocated value passed to `%s`" % name)
        site = self.site
        self.site += 1
        fid = gen.fn_id(callee)

        def deliver(lhs, binds=binds, site=site, fid=fid):
            b2 = list(binds)
            if lhs is not None:
                b2.append(("$ret", lhs))
            return ("call", fid, site, b2)
        if gen.returns_owned(callee):
            return seq(*(argnodes + pre)), ("callret", deliver)
        return seq(*(argnodes + pre + [deliver(None)])), None

    def scan(self, i, j):
        """effects of an arbitrary token run: control keywords and calls, left to right; value unknown"""
        nodes = []
        k = i
        while k < j:
            v = self.val(k)
            if v in ("if", "match", "while", "for", "loop", "unsafe") or (v == "{" and (k == i or self.val(k - 1) in ("=", "(", ",", "=>", ";", "{", "}", "else", "return"))):
                # extent of the block-like expression
                if v == "{":
                    e = _match(self.t, k, "{", "}") + 1
                else:
                    b = self.find_brace(k + 1, j)
                    e = _match(self.t, b, "{", "}") + 1
                    while e < j and self.val(e) == "else":
                        b = self.find_brace(e + 1, j)
                        e = _match(self.t, b, "{", "}") + 1
                n, val = self.expr(k, e)
                nodes.append(seq(n, self.dropval(val)))
                k = e
                continue
            if v == "return":
                n, val = self.expr(k, j)
                nodes.append(n)
                k = j
                continue
            if v == "?":
                nodes.append(alt([("skip",), ("ret",)]))
                k += 1
                continue
            if v in ("|", "||") and (k == i or self.val(k - 1) in ("(", ",", "=", "move")):
                # closure: parameters, then body
                if v == "|":
                    q = k + 1
                    while self.val(q) != "|":
                        q += 1
                    q += 1
                else:
                    q = k + 1
                if q < j and self.val(q) == "{":
                    e = _match(self.t, q, "{", "}") + 1
                else:
                    d = 0
                    e = q
                    while e < j and not (self.val(e) in (",", ";") and d == 0):
                        if self.val(e) in ("(", "[", "{"):
                            d += 1
                        elif self.val(e) in (")", "]", "}"):
                            if d == 0:
                                break
                            d -= 1
                        e += 1
                n, _ = self.scan(q, e)
                if has_effect(n):
                    raise Unavailable("closure with allocation effects")
                k = e
                continue
            if self.t[k][0] == "id" and v not in KEYWORDS or v == "Self":
                # maximal call expression starting here?  find `(` after a path / turbofish
                q = k + 1
                while q < j and (self.val(q) == "::" or self.val(q) == "." or self.t[q][0] in ("id", "num")):
                    if self.val(q) == "::" and q + 1 < j and self.val(q + 1) == "<":
                        q = _skip_angles(self.t, q + 1)
                        continue
                    q += 1
                if q < j and self.val(q) == "(" and self.t[q - 1][0] == "id" or (q < j and self.val(q) == "(" and self.val(q - 1) in (">", ">>")):
                    e = _match(self.t, q, "(", ")") + 1
                    r = self.whole_call(k, e)
                    if r is None:
                        n, _ = self.scan(q + 1, e - 1)
                        nodes.append(n)
                    else:
                        nodes.append(seq(r[0], self.dropval(r[1])))
                    k = e
                    continue
                # struct literal inside an expression
                if q < j and self.val(q) == "{" and v[:1].isupper() and (k == i or self.val(k - 1) not in ("if", "while", "match", "for", "in")):
                    e = _match(self.t, q, "{", "}") + 1
                    r = self.struct_literal(k, e)
                    if r is None:
                        n, _ = self.scan(q + 1, e - 1)
                        nodes.append(n)
                    else:
                        nodes.append(seq(r[0], self.dropval(r[1])))
                    k = e
                    continue
                k = q if q > k else k + 1
                continue
            if v == "<" and k + 1 < j and self.t[k + 1][0] == "id" and "as" in [self.val(x) for x in range(k, min(k + 4, j))]:
                # `<A as Trait<T>>::f(args)`
                q = _skip_angles(self.t, k)
                while q < j and (self.val(q) == "::" or self.t[q][0] == "id"):
                    if self.val(q) == "::" and q + 1 < j and self.val(q + 1) == "<":
                        q = _skip_angles(self.t, q + 1)
                        continue
                    q += 1
                if q < j and self.val(q) == "(":
                    e = _match(self.t, q, "(", ")") + 1
                    r = self.whole_call(k, e)
                    if r is None:
                        n, _ = self.scan(q + 1, e - 1)
                        nodes.append(n)
                    else:
                        nodes.append(seq(r[0], self.dropval(r[1])))
                    k = e
                    continue
                k = q if q > k else k + 1
                continue
            k += 1
        return seq(*nodes), None


# ------------------------------------------------------------------------------------------------ whole program
class Gen:
    def __init__(self, tokens_of, repo_files):
        self.fns = []
        self.structs = {}
        for path in repo_files:
            try:
                index_items(tokens_of(path), path, self.fns, self.structs)
            except (Unavailable, IndexError):
                pass
        self.by_name = {}
        for f in self.fns:
            try:
                f.params = parse_params(f)
            except (Unavailable, IndexError):
                f.params = []
            self.by_name.setdefault(f.name, []).append(f)
        self.skel = {}        # key -> node  |  Unavailable
        self.why = {}
        self.ids = {}
        self.order = []
        self.in_progress = set()
        self.ret_owned = {}

    def fn_id(self, f):
        if f.key not in self.ids:
            self.ids[f.key] = len(self.order)
            self.order.append(f)
        return self.ids[f.key]

    def resolve(self, name, recv, is_method, qual, body):
        cands = self.by_name.get(name)
        if not cands:
            return None
        if is_method:
            ms = [c for c in cands if c.params and c.params[0][0] == "self"]
            if not ms:
                return None
            ty = body.type_of(recv) if recv is not None else None
            if ty == "Self":
                ty = body.fn.impl
            if ty is not None:
                exact = [c for c in ms if c.impl == ty]
                if exact:
                    return exact
                if ty in self.structs:
                    return None     # a type of ours without such a method: a std / trait method
            if body.fn.path not in OUTER_FILES:
                ms = [c for c in ms if c.path not in OUTER_FILES]
            return ms or None
        # `Type::f(..)` / `Self::f(..)` / `module::f(..)` / `f(..)`: path segments outside `<…>`
        segs = []
        d = 0
        for w in qual:
            if w == "<":
                d += 1
            elif w == ">":
                d -= 1
            elif w == ">>":
                d -= 2
            elif d == 0 and (w[:1].isalpha() or w[:1] == "_"):
                segs.append(w)
        if qual and qual[0] == "<":
            # `<A as Trait<T>>::f`: a trait method on a type parameter
            segs = []
        if segs:
            ty = segs[-1] if segs[-1] != "Self" else body.fn.impl
            exact = [c for c in cands if c.impl == ty]
            if exact:
                return exact
            if ty[:1].isupper():
                return None      # associated function of a type that has no such fn under src/enc (std, enum variant)
        free = [c for c in cands if c.impl is None]
        if free:
            same = [c for c in free if c.path == body.fn.path]
            return same or free
        if qual and qual[0] == "<":
            # `<X as Trait<..>>::f(..)`: the implementations of that trait
            st = [c for c in cands if not (c.params and c.params[0][0] == "self")]
            if "as" in qual:
                k = qual.index("as")
                tr = next((w for w in qual[k + 1:] if w[:1].isalpha()), None)
                byt = [c for c in st if c.trait == tr]
                if byt:
                    st = byt
            return st or None
        return None

    # key-level over-approximation of "may reach an allocation primitive" (no parsing: token mentions of
    # `.name(`, `Type::name(`, `name(` resolved to every candidate definition), used to DISCARD candidates of
    # a callee that is only known by name (trait methods like `slice`, `len`, `from`) and to skip functions
    # that cannot matter
    def raw_relevant_names(self):
        if hasattr(self, "_rawrel"):
            return self._rawrel
        impls = set(f.impl for f in self.fns if f.impl)
        mentions = {}
        direct = set()
        for f in self.fns:
            ms = set()
            b = f.body
            n = len(b)
            for k in range(n - 1):
                if b[k][0] != "id":
                    continue
                v = b[k][1]
                if v in ALLOC_PRIMS or v == "free_cell":
                    direct.add(f.key)
                    continue
                if v not in self.by_name:
                    continue
                nx = b[k + 1][1]
                if not (nx == "(" or (nx == "::" and k + 2 < n and b[k + 2][1] == "<")):
                    continue
                prev = b[k - 1][1] if k > 0 else ""
                cands = self.by_name[v]
                if prev == ".":
                    sel = [c for c in cands if c.params and c.params[0][0] == "self"]
                    if f.path not in OUTER_FILES:
                        sel = [c for c in sel if c.path not in OUTER_FILES]
                elif prev == "::":
                    # qualifier: identifier before `::`, skipping a turbofish
                    q = k - 2
                    if q >= 0 and b[q][1] in (">", ">>"):
                        d = 0
                        while q >= 0:
                            w = b[q][1]
                            if w == ">":
                                d += 1
                            elif w == ">>":
                                d += 2
                            elif w == "<":
                                d -= 1
                                if d <= 0:
                                    break
                            q -= 1
                        q -= 1
                        if q >= 0 and b[q][1] == "::":
                            q -= 1
                    ty = b[q][1] if q >= 0 and b[q][0] == "id" else None
                    if ty == "Self":
                        ty = f.impl
                    if ty in impls:
                        sel = [c for c in cands if c.impl == ty]
                    elif ty is not None and ty[:1].isupper():
                        sel = []          # a type without impl here (std, type parameter, enum variant)
                        if q >= 1 and b[q - 1][1] in ("as",) or ty in ("Alloc",):
                            sel = [c for c in cands]
                    elif ty is None:
                        sel = [c for c in cands]     # `<A as Trait>::f`
                    else:
                        sel = [c for c in cands if c.impl is None]
                else:
                    sel = [c for c in cands if c.impl is None]
                for c in sel:
                    ms.add(c.key)
            mentions[f.key] = ms
        rel = set(direct)
        changed = True
        while changed:
            changed = False
            for f in self.fns:
                if f.key not in rel and mentions[f.key] & rel:
                    rel.add(f.key)
                    changed = True
        self._rawrel = rel
        return rel

    def build(self, f):
        if f.key in self.skel:
            return
        if f.key in self.in_progress:
            raise Unavailable("recursive call of %s" % f.name)
        self.in_progress.add(f.key)
        try:
            b = Body(self, f)
            node, value, _ = b.block(0)
            node = prune_moves(node, [value[1]] if value is not None and value[0] == "var" else [])
            owned = False
            if value is not None and value[0] != "var":
                node = seq(node, b.assign(["$ret"], value))
                owned = True
            elif value is not None and self._tracked(node, value[1]):
                # a local (struct) that owns blocks is returned by value: its sub-paths move to the result
                node = seq(node, ("move", value[1], ["$ret"]))
                owned = True
            self.ret_owned[f.key] = owned or self._mentions_ret(node)
            self.skel[f.key] = node
        except Unavailable as e:
            self.skel[f.key] = None
            self.why[f.key] = str(e)
            self.ret_owned[f.key] = False
        except (IndexError, RecursionError) as e:
            self.skel[f.key] = None
            self.why[f.key] = "parser: %s" % type(e).__name__
            self.ret_owned[f.key] = False
        finally:
            self.in_progress.discard(f.key)

    @staticmethod
    def _tracked(node, p):
        """does some allocation / move / call binding in `node` write a path with prefix `p`?"""
        n = len(p)
        if node[0] == "alloc":
            return node[2][:n] == p
        if node[0] == "move":
            return node[2][:n] == p
        if node[0] in ("seq", "alt"):
            return any(Gen._tracked(x, p) for x in node[1])
        if node[0] == "loop":
            return Gen._tracked(node[1], p)
        if node[0] == "scope":
            return Gen._tracked(node[2], p)
        if node[0] == "call":
            return any(q[:n] == p or p[:len(q)] == q for _, q in node[3])
        return False

    @staticmethod
    def _mentions_ret(node):
        if node[0] in ("alloc", "free"):
            return node[2][:1] == ["$ret"]
        if node[0] == "move":
            return node[1][:1] == ["$ret"] or node[2][:1] == ["$ret"]
        if node[0] in ("seq", "alt"):
            return any(Gen._mentions_ret(x) for x in node[1])
        if node[0] == "loop":
            return Gen._mentions_ret(node[1])
        if node[0] == "scope":
            return Gen._mentions_ret(node[2])
        if node[0] == "call":
            return any(p[:1] == ["$ret"] for _, p in node[3])
        return False

    def relevant(self, f):
        if f.key not in self.raw_relevant_names():
            return False
        try:
            self.build(f)
        except Unavailable as e:
            self.skel[f.key] = None
            self.why[f.key] = str(e)
            self.ret_owned[f.key] = False
        n = self.skel[f.key]
        if n is None:
            return True
        return self._has_sites(n)

    def _has_sites(self, n):
        if n[0] in ("alloc", "free", "call", "opaque"):
            return True
        if n[0] == "move":
            return False
        if n[0] in ("seq", "alt"):
            return any(self._has_sites(x) for x in n[1])
        if n[0] == "loop":
            return self._has_sites(n[1])
        if n[0] == "scope":
            return self._has_sites(n[2])
        return False

    def available(self, f):
        if not self.relevant(f):
            return True
        return self.skel[f.key] is not None

    def returns_owned(self, f):
        if not self.relevant(f):
            return False
        return self.ret_owned.get(f.key, False)


# ------------------------------------------------------------------------------------------------ Lean output
def emit_lean(gen, roots_found):
    atoms = {}
    types = {"?": 0}

    def atom(a):
        if a not in atoms:
            atoms[a] = len(atoms) + 2     # 0, 1 are never atoms (1 = root activation tag)
        return atoms[a]

    prims = {"u8", "u16", "u32", "u64", "u128", "i8", "i16", "i32", "i64", "i128", "usize", "isize", "f32", "f64", "bool"}

    def ty(t):
        # a type parameter (`HistogramType`) or an alias (`floatX`) says nothing about the run-time type name
        if t is None or (t not in prims and t not in gen.structs):
            return 0
        if t not in types:
            types[t] = len(types)
        return types[t]

    def var(p):
        return "[" + ", ".join(str(atom(a)) for a in p) + "]"

    def term(n):
        k = n[0]
        if k == "skip":
            return ".skip"
        if k == "ret":
            return ".ret"
        if k == "alloc":
            return "(.alloc %d %s)" % (ty(n[1]), var(n[2]))
        if k == "free":
            return "(.free %d %s)" % (ty(n[1]), var(n[2]))
        if k == "move":
            return "(.move %s %s)" % (var(n[1]), var(n[2]))
        if k == "loop":
            return "(.loop %s)" % term(n[1])
        if k == "opaque":
            return "(.opaque %d)" % n[1]
        if k == "scope":
            return "(.scope %d %s)" % (atom(n[1][0]), term(n[2]))
        if k == "exit":
            return ".skip"
        if k == "call":
            return "(.call %d %d [%s])" % (n[1], n[2], ", ".join("(%d, %s)" % (atom(a), var(p)) for a, p in n[3]))
        if k in ("seq", "alt"):
            xs = [term(x) for x in n[1]]
            out = xs[-1]
            for x in reversed(xs[:-1]):
                out = "(.%s %s %s)" % (k, x, out)
            return out
        raise ValueError(k)

    # functions in id order; ids may grow while terms are rendered? no: ids are assigned during build
    lines = ["-- GENERATED by tools/gen_skel.py (via gen_source.py). Do not edit.", "import BV.Model.AllocSkel",
             "namespace BV.Gen", "open BV.Skel", ""]
    bodies = []
    for f in gen.order:
        n = gen.skel.get(f.key)
        bodies.append((f, term(n) if n is not None else None))
    lines.append("/-- allocation skeleton per function (index = function id); an unavailable function has `.opaque id` -/")
    lines.append("def skelFns : List Sk := [")
    rows = []
    for i, (f, t) in enumerate(bodies):
        rows.append("  -- %d: %s%s (%s)\n  %s" % (i, (f.impl + "::") if f.impl else "", f.name, f.path, t if t is not None else "(.opaque %d)" % i))
    lines.append(",\n".join(rows))
    lines.append("]")
    lines.append("")
    lines.append("def skelFnNames : List String := [%s]" % ", ".join('"%s%s"' % ((f.impl + "::") if f.impl else "", f.name) for f, _ in bodies))
    lines.append("")
    inv = sorted(atoms.items(), key=lambda x: x[1])
    lines.append("/-- atom number ↦ Rust identifier (atoms start at 2) -/")
    lines.append("def skelAtoms : List (Nat × String) := [%s]" % ", ".join('(%d, "%s")' % (v, k) for k, v in inv))
    lines.append("")
    tl = sorted(types.items(), key=lambda x: x[1])
    lines.append("/-- element type number ↦ Rust type name (0 = not known at the site) -/")
    lines.append("def skelTypes : List String := [%s]" % ", ".join('"%s"' % k for k, _ in tl))
    lines.append("")
    lines.append("/-- (root function, function id, atoms of the parameters through which blocks may enter / leave) -/")
    lines.append("def skelRoots : List (String × Nat × List Nat) := [%s]" % ", ".join(
        '("%s", %d, [%s])' % (nm, fid, ", ".join(str(atom(a)) for a in esc)) for nm, fid, esc, inn in roots_found))
    lines.append("")
    lines.append("/-- per root (same order): atoms of the parameters under which places may already hold a block at ENTRY -/")
    lines.append("def skelRootsIn : List (List Nat) := [%s]" % ", ".join(
        "[%s]" % ", ".join(str(atom(a)) for a in inn) for nm, fid, esc, inn in roots_found))
    lines.append("")
    un = [(f, gen.why.get(f.key, "?")) for f in gen.order if gen.skel.get(f.key) is None]
    lines.append("/-- functions of the call trees whose skeleton could not be extracted (their calls are `opaque`) -/")
    lines.append("def skelUnavailable : List (String × String) := [%s]" % ", ".join(
        '("%s%s", "%s")' % ((f.impl + "::") if f.impl else "", f.name, w.replace('"', "'").replace("\\", "/")) for f, w in un))
    lines.append("")
    lines.append("end BV.Gen")
    return "\n".join(lines) + "\n", un


def repo_enc_files(repo):
    out = []
    for d in ("src/enc", "src/enc/backward_references"):
        full = os.path.join(repo, d)
        try:
            names = sorted(os.listdir(full))
        except OSError:
            continue
        for n in names:
            if n.endswith(".rs") and n not in ("test.rs", "benchmark.rs", "verif_sched.rs"):
                out.append(d + "/" + n)
    return out


def generate(tokens_of, repo, outdir):
    """writes BV/Gen/LedgerSkel.lean; returns a list of notes (never raises)"""
    notes = []
    try:
        gen = Gen(tokens_of, repo_enc_files(repo))
        roots_found = []
        for root in ROOTS:
            nm, impl, path, esc = root[:4]
            inn = root[4] if len(root) > 4 else []
            nm_q = ((impl + "::") if impl else "") + nm
            cands = [f for f in gen.by_name.get(nm, []) if f.impl == impl and f.path == path]
            if len(cands) != 1:
                notes.append("skeleton root %s: %d definitions in %s (not covered by proof; run-time check decides)" % (nm, len(cands), path))
                continue
            f = cands[0]
            fid = gen.fn_id(f)
            if not gen.available(f):
                notes.append("skeleton unavailable for root %s: %s (not covered by proof; run-time check decides)" % (nm, gen.why.get(f.key)))
                continue
            roots_found.append((nm_q, fid, esc, inn))
        # build everything that got an id (callees are built on demand while their callers are parsed)
        k = 0
        while k < len(gen.order):
            gen.relevant(gen.order[k])
            k += 1
        # drop the roots that reach an unexpected opaque callee
        def qname(f):
            return ((f.impl + "::") if f.impl else "") + f.name

        def reach(fid, seen):
            if fid in seen:
                return
            seen.add(fid)
            n = gen.skel.get(gen.order[fid].key)

            def walk(x):
                if x is None:
                    return
                if x[0] in ("seq", "alt"):
                    for y in x[1]:
                        walk(y)
                elif x[0] == "loop":
                    walk(x[1])
                elif x[0] == "scope":
                    walk(x[2])
                elif x[0] in ("call", "opaque"):
                    reach(x[1], seen)
            walk(n)
        kept = []
        for nm, fid, esc, inn in roots_found:
            seen = set()
            reach(fid, seen)
            bad = sorted(qname(gen.order[i]) for i in seen
                         if gen.skel.get(gen.order[i].key) is None and qname(gen.order[i]) not in EXPECTED_OPAQUE)
            if bad:
                notes.append("skeleton root %s makes no claim: unexpected opaque callee(s) %s (run-time check decides)" % (nm, ", ".join(bad)))
            else:
                kept.append((nm, fid, esc, inn))
        roots_found = kept
        text, un = emit_lean(gen, roots_found)
        for f, w in un:
            notes.append("skeleton unavailable for %s%s (%s): %s — its calls are opaque (run-time check decides)" % ((f.impl + "::") if f.impl else "", f.name, f.path, w))
    except Exception as e:   # the generator must never take the check down
        text = ("-- GENERATED by tools/gen_skel.py: extraction failed (%s)\nimport BV.Model.AllocSkel\nnamespace BV.Gen\nopen BV.Skel\n"
                "def skelFns : List Sk := []\ndef skelFnNames : List String := []\ndef skelAtoms : List (Nat × String) := []\n"
                "def skelTypes : List String := [\"?\"]\ndef skelRoots : List (String × Nat × List Nat) := []\ndef skelRootsIn : List (List Nat) := []\n"
                "def skelUnavailable : List (String × String) := []\nend BV.Gen\n" % type(e).__name__)
        notes.append("skeleton extraction failed entirely (%s: %s): nothing covered by proof, run-time check decides" % (type(e).__name__, e))
    p = os.path.join(outdir, "LedgerSkel.lean")
    try:
        if open(p).read() == text:
            return notes
    except OSError:
        pass
    with open(p, "w") as fh:
        fh.write(text)
    return notes


if __name__ == "__main__":
    import sys
    sys.path.insert(0, os.path.dirname(os.path.abspath(__file__)))
    import gen_source
    out = sys.argv[1] if len(sys.argv) > 1 else "/var/tmp/w-ledger2-skel"
    os.makedirs(out, exist_ok=True)
    for n in generate(gen_source.tokens_of, gen_source.REPO, out):
        print("NOTE", n)
