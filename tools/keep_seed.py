#!/usr/bin/env python3
"""keep_seed.py <seed dir> <name> <property> "<needs>" "<caught-by summary>" [confirm-json-line]
copies patch.diff + demo + notes into /verif/seeded/<name>/ and writes meta.json"""
import json, os, shutil, sys, glob
sd, name, prop, needs, caught = sys.argv[1:6]
confirm = json.loads(sys.argv[6]) if len(sys.argv) > 6 else {}
dst = os.path.join("/verif/seeded", name)
os.makedirs(dst, exist_ok=True)
shutil.copy(os.path.join(sd, "patch.diff"), os.path.join(dst, "patch.diff"))
for f in glob.glob(os.path.join(sd, "demo*.rs")):
    shutil.copy(f, os.path.join(dst, os.path.basename(f)))
if os.path.exists(os.path.join(sd, "notes.md")):
    shutil.copy(os.path.join(sd, "notes.md"), os.path.join(dst, "notes.md"))
meta = {"property": prop, "needs_to_manifest": needs,
        "confirmed": {"suite_with_change": confirm.get("suite_with_change"), "demo_with_change": confirm.get("demo_with_change"),
                      "demo_without_change": confirm.get("demo_without_change"),
                      "how": "tools/confirm_seed.sh in a scratch worktree: cargo test --workspace --offline with the change; demo as tests/seed_demo.rs with and without the change"},
        "checks": caught,
        "source": "written by a fresh sub-agent that saw only the property text and a scratch worktree of /repo"}
json.dump(meta, open(os.path.join(dst, "meta.json"), "w"), indent=1)
print("kept", dst)
