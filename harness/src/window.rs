//! engine `window` — C15, the window half: the parameters `ensure_initialized` leaves for the command
//! generators vs the window the header declares, and the copy distances the real encoder emits.
//!
//! `bvh window c15 --tier quick|thorough --seed N --out DIR`
//!
//! Correspondence lines (Lean driver `BV/Drive/Window.lean`; model side = the rs2lean-GENERATED
//! `SanitizeParams` / `ComputeLgBlock` / `ChooseDistanceParams` / `EncodeWindowBits` composed as
//! `BV.Props.C15Window.genInit` does, then `BV.HeaderSpec.readWbits`):
//!   window init <q> <lgwin> <lw> <mode> <np> <nd>
//!        real `BrotliEncoderStateStruct` with those raw fields (`params.dist.distance_postfix_bits` /
//!        `num_direct_distance_codes` pre-set to np / nd, `params.mode` = 0..6), `input_block_size()` (which
//!        runs the real `ensure_initialized`), then the pub fields:
//!        → `<quality> <lgwin> <lgblock> <np'> <nd'> <alphabet_size> <max_distance> <last_bytes> <last_bytes_bits> decl=<W> form=<0|1>`
//!        (`decl`/`form` of the implementation line come from the independent §9.1 reader below applied
//!        to the low `last_bytes_bits` bits of `last_bytes`)
//!
//! Search-stage oracles (real code only):
//!   * grid: `params.lgwin <= W` with equality from quality 2 on; `(1 << lgwin) - 16 <= (1 << W) - 16`;
//!     quality < 4 or (mode != FONT and np = nd = 0) implies np' = nd' = 0 and
//!     `max_distance == 0x3FFFFFC` (0x7FFFFFC with large_window);
//!   * streams: quality 2..11 x lgwin 10..16 (18 thorough) x large_window x inputs made of three periods of
//!     P = 2^lgwin - 16 - {0, 1} / 2^lgwin - 15 random bytes (the only matches lie at distance P, i.e. exactly
//!     at / just inside / just beyond the window) and a repetitive text, one FINISH call, `log_meta_block` on:
//!     every `Copy` command handed to the meta-block callback (the decoder-visible LZ77 copies, after
//!     distance-cache resolution) has `1 <= distance <= 2^W - 16` for the W read from the stream's own first
//!     bytes, and the stream decodes (brotli-decompressor) to the input.
//!
//! non-trivial case: a grid point whose `ensure_initialized` returned and whose header parsed, or a stream
//! that produced at least one Copy command and decoded.
//! Corpus: none (everything is enumerated or derived from the seed).
use crate::dec;
use crate::prng::Rng;
use crate::util::*;
use brotli::enc::backward_references::BrotliEncoderMode;
use brotli::enc::encode::{BrotliEncoderDestroyInstance, BrotliEncoderOperation, BrotliEncoderStateStruct};
use brotli::enc::interface;
use brotli::enc::StandardAlloc;
use brotli::InputReferenceMut;
use std::panic::{catch_unwind, AssertUnwindSafe};

fn mode_of(m: u32) -> BrotliEncoderMode {
    match m {
        0 => BrotliEncoderMode::BROTLI_MODE_GENERIC,
        1 => BrotliEncoderMode::BROTLI_MODE_TEXT,
        2 => BrotliEncoderMode::BROTLI_MODE_FONT,
        3 => BrotliEncoderMode::BROTLI_FORCE_LSB_PRIOR,
        4 => BrotliEncoderMode::BROTLI_FORCE_MSB_PRIOR,
        5 => BrotliEncoderMode::BROTLI_FORCE_UTF8_PRIOR,
        _ => BrotliEncoderMode::BROTLI_FORCE_SIGNED_PRIOR,
    }
}

/// RFC 7932 section 9.1 (+ large-window extension) on an LSB-first bit source: (WBITS, large form)
fn read_wbits(bit: &dyn Fn(usize) -> Option<u32>) -> Option<(u32, bool)> {
    let take = |from: usize, n: usize| -> Option<u32> {
        let mut v = 0u32;
        for i in 0..n { v |= bit(from + i)? << i; }
        Some(v)
    };
    if take(0, 1)? == 0 { return Some((16, false)); }
    let n = take(1, 3)?;
    if n != 0 { return Some((17 + n, false)); }
    let m = take(4, 3)?;
    if m == 0 { return Some((17, false)); }
    if m == 1 {
        if take(7, 1)? != 0 { return None; }
        let w = take(8, 6)?;
        if (10..=30).contains(&w) { return Some((w, true)); }
        return None;
    }
    Some((8 + m, false))
}

struct Init { q: i32, lgwin: i32, lgblock: i32, np: u32, nd: u32, alpha: u32, maxd: usize, lb: u16, lbb: u8 }

fn real_init(q: i32, lgwin: i32, lw: bool, mode: u32, np: u32, nd: u32) -> Option<Init> {
    catch_unwind(AssertUnwindSafe(|| {
        let mut s = BrotliEncoderStateStruct::new(StandardAlloc::default());
        s.params.quality = q; s.params.lgwin = lgwin; s.params.large_window = lw; s.params.mode = mode_of(mode);
        s.params.dist.distance_postfix_bits = np; s.params.dist.num_direct_distance_codes = nd;
        let _ = s.input_block_size();
        let r = Init { q: s.params.quality, lgwin: s.params.lgwin, lgblock: s.params.lgblock,
            np: s.params.dist.distance_postfix_bits, nd: s.params.dist.num_direct_distance_codes,
            alpha: s.params.dist.alphabet_size, maxd: s.params.dist.max_distance, lb: s.last_bytes_, lbb: s.last_bytes_bits_ };
        BrotliEncoderDestroyInstance(&mut s);
        r
    })).ok()
}

struct StreamOut { out: Vec<u8>, copies: u64, max_copy: u32, min_copy: u32, dicts: u64 }

fn real_stream(q: i32, lgwin: i32, lw: bool, input: &[u8]) -> Result<StreamOut, String> {
    let r = catch_unwind(AssertUnwindSafe(|| {
        let mut s = BrotliEncoderStateStruct::new(StandardAlloc::default());
        s.params.quality = q; s.params.lgwin = lgwin; s.params.large_window = lw; s.params.log_meta_block = true;
        let (mut copies, mut max_copy, mut min_copy, mut dicts) = (0u64, 0u32, u32::MAX, 0u64);
        let mut out: Vec<u8> = Vec::new();
        let mut buf = vec![0u8; 1 << 16];
        let mut pos = 0usize;
        let mut res: Result<(), String> = Ok(());
        let mut steps = 0usize;
        loop {
            steps += 1;
            if steps > 64 + 8 * (input.len() / buf.len() + 2) { res = Err("livelock".into()); break; }
            let mut avail_in = input.len() - pos;
            let mut in_off = 0usize;
            let mut avail_out = buf.len();
            let mut out_off = 0usize;
            let mut total = None;
            let mut cb = |_a: &mut interface::PredictionModeContextMap<InputReferenceMut>, cmds: &mut [interface::StaticCommand],
                          _c: interface::InputPair, _d: &mut StandardAlloc| {
                for c in cmds.iter() {
                    match c {
                        interface::Command::Copy(cc) => { copies += 1; max_copy = max_copy.max(cc.distance); min_copy = min_copy.min(cc.distance); }
                        interface::Command::Dict(_) => { dicts += 1; }
                        _ => {}
                    }
                }
            };
            let ok = s.compress_stream(BrotliEncoderOperation::BROTLI_OPERATION_FINISH, &mut avail_in, &input[pos..], &mut in_off,
                &mut avail_out, &mut buf, &mut out_off, &mut total, &mut cb);
            out.extend_from_slice(&buf[..out_off]);
            pos += in_off;
            let _ = brotli::enc::encode::verif_stream_hook::take();
            if !ok { res = Err("compress_stream returned false".into()); break; }
            if s.is_finished() { break; }
        }
        BrotliEncoderDestroyInstance(&mut s);
        res.map(|_| StreamOut { out, copies, max_copy, min_copy, dicts })
    }));
    match r {
        Ok(x) => x,
        Err(_) => { let _ = brotli::enc::encode::verif_stream_hook::take(); Err("panic".into()) }
    }
}

fn b(x: bool) -> u32 { x as u32 }

pub fn run_cmd(args: &Args) {
    let thorough = args.tier == "thorough";
    let seed = args.seed;
    let mut corr = Corr::new(&args.out);
    let mut rep = Report::default();

    // ---- (1) the whole parameter grid: real ensure_initialized vs the generated composition
    let dists: [(u32, u32); 8] = [(0, 0), (1, 12), (2, 4), (3, 120), (4, 0), (0, 121), (1, 3), (0, 15)];
    for q in -2..=13i32 {
        for lgwin in -5..=40i32 {
            for lw in [false, true] {
                for mode in 0..=6u32 {
                    for &(np, nd) in &dists {
                        if mode > 2 && (np, nd) != (0, 0) && (np, nd) != (1, 12) { continue; }
                        rep.evaluations += 1;
                        let op = format!("window init {} {} {} {} {} {}", q, lgwin, b(lw), mode, np, nd);
                        let case = format!("{{\"quality\":{},\"lgwin\":{},\"large_window\":{},\"mode\":{},\"np\":{},\"nd\":{}}}", q, lgwin, lw, mode, np, nd);
                        match real_init(q, lgwin, lw, mode, np, nd) {
                            None => { corr.case(&op, "panic"); rep.violation("window:init-panic", "ensure_initialized panics", case); }
                            Some(i) => {
                                let lbv = i.lb as u32; let lbb = i.lbb as usize;
                                let hdr = read_wbits(&|k| if k < lbb { Some((lbv >> k) & 1) } else { None });
                                let (w, form) = match hdr { Some(x) => x, None => {
                                    corr.case(&op, &format!("{} {} {} {} {} {} {} {} {} decl=? form=?", i.q, i.lgwin, i.lgblock, i.np, i.nd, i.alpha, i.maxd, i.lb, i.lbb));
                                    rep.violation("window:header-unreadable", "the pending header bits are not an RFC 9.1 window field", case); continue; } };
                                corr.case(&op, &format!("{} {} {} {} {} {} {} {} {} decl={} form={}", i.q, i.lgwin, i.lgblock, i.np, i.nd, i.alpha, i.maxd, i.lb, i.lbb, w, b(form)));
                                let mut ok = true;
                                if form != lw { ok = false; rep.violation("window:form", "large-window header form != requested", case.clone()); }
                                if i.lgwin < 10 || i.lgwin > 30 || i.lgwin as u32 > w || (i.q >= 2 && i.lgwin as u32 != w) {
                                    ok = false;
                                    rep.violation("window:used-vs-declared", &format!("params.lgwin {} vs declared {} at quality {}", i.lgwin, w, i.q), case.clone());
                                } else if (1u64 << i.lgwin) - 16 > (1u64 << w) - 16 {
                                    ok = false; rep.violation("window:backward-limit", "max_backward_limit exceeds the declared window", case.clone());
                                }
                                let plain = q < 4 || (mode != 2 && np == 0 && nd == 0);
                                if plain && (i.np != 0 || i.nd != 0 || i.maxd != if lw { 0x7ff_fffc } else { 0x3ff_fffc }) {
                                    ok = false;
                                    rep.violation("window:dist-params", &format!("plain request left npostfix {} ndirect {} max_distance {:#x}", i.np, i.nd, i.maxd), case.clone());
                                }
                                if ok { rep.nontrivial += 1; }
                                rep.count(&format!("init.decl.{}", w));
                                if i.np != 0 || i.nd != 0 { rep.count("init.font-or-custom-dist"); }
                                if (i.lgwin as u32) < w { rep.count("init.declared-above-used"); }
                            }
                        }
                    }
                }
            }
        }
    }

    // ---- (2) real streams: the copies the decoder sees stay inside the declared window
    let max_lgwin = if thorough { 18 } else { 16 };
    let mut plans: Vec<(i32, i32, bool, u32)> = Vec::new();
    for q in 2..=11i32 { for lgwin in 10..=max_lgwin { for lw in [false, true] { for kind in 0..4u32 {
        if (q >= 10) && lgwin > 14 && !thorough { continue; }
        plans.push((q, lgwin, lw, kind));
    } } } }
    let n = plans.len();
    let results = par_tasks(n, move |ix| {
        let (q, lgwin, lw, kind) = plans[ix];
        let mut rng = Rng::new(seed ^ 0x77696e646f77u64 ^ ((ix as u64) << 20));
        let win = (1usize << lgwin) - 16;
        let input: Vec<u8> = if kind < 3 {
            let p = match kind { 0 => win, 1 => win - 1, _ => win + 1 };
            let period: Vec<u8> = (0..p).map(|_| rng.next() as u8).collect();
            let mut v = Vec::with_capacity(3 * p);
            for _ in 0..3 { v.extend_from_slice(&period); }
            v
        } else {
            let words: [&[u8]; 6] = [b"the window ", b"declared ", b"by the header ", b"bounds every ", b"backward reference; ", b"0123456789"];
            let mut v = Vec::new();
            while v.len() < 3 * win + 100 { v.extend_from_slice(words[(rng.next() % 6) as usize]); }
            v
        };
        let mut r = Report::default();
        r.evaluations += 1;
        let case = format!("{{\"quality\":{},\"lgwin\":{},\"large_window\":{},\"kind\":{},\"seed\":{},\"ix\":{}}}", q, lgwin, lw, kind, seed, ix);
        match real_stream(q, lgwin, lw, &input) {
            Err(e) => r.violation(&format!("window:stream-{}", e.split(' ').next().unwrap_or("err")), &e, case),
            Ok(so) => {
                let data = &so.out;
                let hdr = read_wbits(&|k| if k / 8 < data.len() { Some(((data[k / 8] >> (k & 7)) & 1) as u32) } else { None });
                match hdr {
                    None => r.violation("window:stream-header-unreadable", "first bytes are not an RFC 9.1 window field", case),
                    Some((w, _)) => {
                        let limit = (1u64 << w) - 16;
                        let mut ok = true;
                        if so.copies > 0 && (so.max_copy as u64 > limit || so.min_copy < 1) {
                            ok = false;
                            r.violation("window:copy-beyond-declared-window", &format!("copy distance {} (min {}) with declared window 2^{} - 16 = {}", so.max_copy, so.min_copy, w, limit), case.clone());
                        }
                        match dec::decode(data, input.len() + 16) {
                            dec::DResult::Ok(d) if d == input => {}
                            _ => { ok = false; r.violation("window:stream-decode", "brotli-decompressor does not reproduce the input", case.clone()); }
                        }
                        if ok && so.copies > 0 { r.nontrivial += 1; }
                        if so.copies > 0 && so.max_copy as u64 == limit { r.count("stream.copy-at-window-edge"); }
                        if so.copies > 0 { r.count("stream.with-copies"); } else { r.count("stream.no-copies"); }
                        if so.dicts > 0 { r.count("stream.with-dict-refs"); }
                        r.count(&format!("stream.q{}", q));
                    }
                }
            }
        }
        r
    });
    for r in results { rep.merge(r); }

    corr.finish();
    rep.write(&args.out);
}
