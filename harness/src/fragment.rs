//! Engine `fragment` (C01, third module): the quality-0/1 fragment writers
//! `brotli::enc::compress_fragment_two_pass` (q1) and `brotli::enc::compress_fragment` (q0), called
//! directly (the deprecated `pub` entry points `BrotliCompressFragmentTwoPass` /
//! `BrotliCompressFragmentFast`, and the `#[cfg(brotli_verif)] verif_hooks` of both files).
//!
//! A *scenario* is what `compress_stream_fast` does with one stream: 1..3 fragment calls, each on
//! its own input piece with a zeroed hash table of the size `GetHashTable` picks (or a forced
//! size), on a storage whose first two bytes are the carry of the previous call (`last_bytes_`)
//! and whose other bytes are stale (filled with a non-zero byte), starting at bit `last_bytes_bits_`;
//! whole bytes are appended to the stream, the partial byte is carried.  The first call starts
//! behind the 4-bit stream header of lgwin 18 (window 2^18 − 16 = the writers' maximum distance).
//!
//! Correspondence lines (see lean/BV/Drive/Fragment.lean for the protocol): every q1 call as a
//! `fragment q1` line (bytes written, final bit position, carry byte; the `ShouldCompress`
//! answers come from the hook's event log); `q1cc`, `q1store`, `q1replay` on the REAL command
//! buffers of small blocks (the hypothesis of the Lean round-trip theorem evaluated on what the
//! real `CreateCommands` produced); `rewind`, `unc`, `upd`, `lithisto`, `litcode` for the pieces.
//!
//! Search oracle (real code only): every call returns without panic on a storage of exactly the
//! `2·n + 503` bytes the caller allocates; the assembled stream decodes with brotli-decompressor
//! and libbrotlidec to exactly the bytes fed; q0: every literal of a merged block has a code
//! (depth > 0) in the literal code in force (checked from the hook's event log).
//!
//! Non-trivial case (counted in `nontrivial`): a scenario in which at least one compressed
//! meta-block with a copy command was written.
//! Corpus: /verif/corpus/fragment/*.txt, one scenario per file:
//! `<q> <forced_table_bits|0> <stale> <is_last 0|1> <cls:seed:size>[,<cls:seed:size>…]`.
use crate::prng::Rng;
use crate::util::*;
use brotli::enc::StandardAlloc;
use std::panic::{catch_unwind, AssertUnwindSafe};

fn mix(z0: u64) -> u64 {
    let mut z = z0;
    z = (z ^ (z >> 30)).wrapping_mul(0xBF58476D1CE4E5B9);
    z = (z ^ (z >> 27)).wrapping_mul(0x94D049BB133111EB);
    z ^ (z >> 31)
}
fn hh(seed: u64, x: u64) -> u64 { mix(seed.wrapping_add(x.wrapping_mul(0x9E3779B97F4A7C15))) }
fn text_byte(seed: u64, i: usize) -> u8 {
    let l = 5 + (seed % 11) as usize;
    let j = i / l;
    let p = (hh(seed ^ 1, j as u64) % 40) as usize;
    let r = (hh(seed ^ 2, (p * 64 + i % l) as u64) % 29) as u8;
    if r >= 26 { 32 } else { 97 + r }
}
/// mirrors `genByte` of lean/BV/Drive/Fragment.lean
fn gen_byte(cls: u32, seed: u64, n: usize, i: usize) -> u8 {
    match cls {
        0 => (hh(seed, i as u64) % 256) as u8,
        1 => text_byte(seed, i),
        2 => if i < n * 3 / 4 { 97 + (hh(seed, i as u64) % 4) as u8 } else { (hh(seed, i as u64) % 256) as u8 },
        3 => if hh(seed ^ 3, i as u64) % 1024 == 0 { (hh(seed, i as u64) % 256) as u8 }
             else { (hh(seed, (i / (1 + (seed % 97) as usize * 13)) as u64) % 256) as u8 },
        4 => if (i / 65536) % 2 == 0 { text_byte(seed, i) } else { (hh(seed, i as u64) % 256) as u8 },
        5 => (seed % 256) as u8,
        6 => text_byte(seed, i % 70000),
        7 => text_byte(seed, i % 263000),
        8 => if (i / 65536) % 2 == 1 { text_byte(seed, i) } else { (hh(seed, i as u64) % 256) as u8 },
        _ => 0,
    }
}
pub fn gen_input(cls: u32, seed: u64, n: usize) -> Vec<u8> { (0..n).map(|i| gen_byte(cls, seed, n, i)).collect() }

fn fnv_bytes(b: &[u8]) -> u64 { b.iter().fold(FNV_INIT, |h, x| fnv_step(h, *x as u64)) }
fn fnv_u32(b: &[u32]) -> u64 { b.iter().fold(FNV_INIT, |h, x| fnv_step(h, *x as u64)) }

#[derive(Clone, Debug)]
pub struct Piece { pub cls: u32, pub seed: u64, pub size: usize }
impl Piece {
    fn spec(&self) -> String { format!("gen:{}:{}:{}", self.cls, self.seed, self.size) }
    fn bytes(&self) -> Vec<u8> { gen_input(self.cls, self.seed, self.size) }
}

/// what `HashTableSize` + the q0 odd-bits rule of `GetHashTableInternal` pick
fn table_size_for(q: u32, input_size: usize) -> usize {
    let max = if q == 0 { 1usize << 15 } else { 1usize << 17 };
    let mut ht = 256usize;
    while ht < max && ht < input_size { ht <<= 1; }
    if q == 0 && ht & 0xaaaaa == 0 { ht <<= 1; }
    ht
}

pub struct Q0State { depth: [u8; 128], bits: [u16; 128], code: [u8; 512], numbits: usize }
fn q0_initial() -> Q0State {
    use brotli::enc::encode::{BrotliEncoderOperation, BrotliEncoderParameter, BrotliEncoderStateStruct};
    let mut e = BrotliEncoderStateStruct::new(StandardAlloc::default());
    e.set_parameter(BrotliEncoderParameter::BROTLI_PARAM_QUALITY, 0);
    let (mut ai, mut io, mut ao, mut oo) = (0usize, 0usize, 64usize, 0usize);
    let mut buf = vec![0u8; 64];
    let mut total: Option<usize> = None;
    let mut cb = |_: &mut brotli::interface::PredictionModeContextMap<brotli::InputReferenceMut>, _: &mut [brotli::interface::StaticCommand], _: brotli::interface::InputPair, _: &mut StandardAlloc| ();
    e.compress_stream(BrotliEncoderOperation::BROTLI_OPERATION_PROCESS, &mut ai, &[], &mut io, &mut ao, &mut buf, &mut oo, &mut total, &mut cb);
    Q0State { depth: e.cmd_depths_, bits: e.cmd_bits_, code: e.cmd_code_, numbits: e.cmd_code_numbits_ }
}

pub struct CallOut {
    pub storage: Vec<u8>,
    pub ix: usize,
    pub dec: String,                 // q1: ShouldCompress answers
    pub q1_events: Vec<(usize, usize, bool, Vec<u32>, Vec<u8>)>,
    pub q0_lit_unsafe: Option<String>, // q0: a merged block used a literal without a code
    pub q0_merges: usize,
    pub q0_unc: usize,
}

/// one fragment call as `compress_stream_fast` makes it; Err = panic message
fn call(q: u32, input: &[u8], is_last: bool, table_size: usize, cap: usize, ix0: usize, b0: u8, b1: u8,
        storlen: usize, stale: u8, q0: &mut Q0State) -> Result<CallOut, String> {
    let mut storage = vec![stale; storlen];
    if storlen > 0 { storage[0] = b0; }
    if storlen > 1 { storage[1] = b1; }
    let mut ix = ix0;
    let mut table = vec![0i32; table_size.max(1)];
    let mut m = StandardAlloc::default();
    let n = input.len();
    let r = catch_unwind(AssertUnwindSafe(|| {
        if q == 1 {
            let mut cmd = vec![0u32; cap];
            let mut lit = vec![0u8; cap];
            #[cfg(fragment_hook)]
            brotli::enc::compress_fragment_two_pass::verif_hooks::start();
            #[allow(deprecated)]
            brotli::enc::compress_fragment_two_pass::BrotliCompressFragmentTwoPass(&mut m, input, n, is_last as i32, &mut cmd, &mut lit, &mut table, table_size, &mut ix, &mut storage);
        } else {
            #[cfg(fragment_hook)]
            brotli::enc::compress_fragment::verif_hooks::start();
            #[allow(deprecated)]
            brotli::enc::compress_fragment::BrotliCompressFragmentFast(&mut m, input, n, is_last as i32, &mut table, table_size, &mut q0.depth, &mut q0.bits, &mut q0.numbits, &mut q0.code, &mut ix, &mut storage);
        }
    }));
    let mut out = CallOut { storage: vec![], ix: 0, dec: String::new(), q1_events: vec![], q0_lit_unsafe: None, q0_merges: 0, q0_unc: 0 };
    #[cfg(fragment_hook)]
    {
        if q == 1 {
            for ev in brotli::enc::compress_fragment_two_pass::verif_hooks::take() {
                out.dec.push(if ev.should_compress { '1' } else { '0' });
                out.q1_events.push((ev.input_index, ev.block_size, ev.should_compress, ev.commands, ev.literals));
            }
        } else {
            use brotli::enc::compress_fragment::verif_hooks::Event;
            // replay of the block structure: a LiteralCode event opens a meta-block of min(rest, 3<<15)
            // bytes at `pos`; every Merge(true) extends it by min(rest, 1<<16)
            let mut cur: Option<[u8; 256]> = None;
            let mut pos = 0usize;      // start of the part not yet covered by a literal code
            let mut covered = 0usize;  // end of the bytes covered so far
            for ev in brotli::enc::compress_fragment::verif_hooks::take() {
                match ev {
                    Event::LiteralCode { input_size, depths } => { cur = Some(depths); pos = covered; covered = pos + input_size; }
                    Event::Merge(yes) => {
                        if yes {
                            out.q0_merges += 1;
                            let ext = (n - covered).min(1 << 16);
                            if let Some(d) = &cur {
                                if let Some(i) = (covered..covered + ext).find(|&i| d[input[i] as usize] == 0) {
                                    if out.q0_lit_unsafe.is_none() { out.q0_lit_unsafe = Some(format!("byte {:#x} at {} of a merged block has depth 0", input[i], i)); }
                                }
                            }
                            covered += ext;
                        }
                    }
                    Event::Uncompressed { len, .. } => {
                        out.q0_unc += 1;
                        // the meta-block that started at `pos` is replaced by `len` raw bytes; the
                        // writer continues at `pos + len`
                        covered = pos + len;
                    }
                }
            }
        }
    }
    if out.dec.is_empty() { out.dec.push('-'); }
    match r {
        Ok(()) => { out.storage = storage; out.ix = ix; Ok(out) }
        Err(e) => Err(e.downcast_ref::<String>().cloned().or_else(|| e.downcast_ref::<&str>().map(|s| s.to_string())).unwrap_or_default()),
    }
}

#[derive(Clone, Debug)]
pub struct Scenario { pub q: u32, pub forced_bits: u32, pub stale: u8, pub is_last: bool, pub pieces: Vec<Piece> }
impl Scenario {
    fn json(&self) -> String {
        format!("{{\"q\":{},\"forced_table_bits\":{},\"stale\":{},\"is_last\":{},\"pieces\":{}}}", self.q, self.forced_bits, self.stale, self.is_last,
            jstr(&self.pieces.iter().map(|p| format!("{}:{}:{}", p.cls, p.seed, p.size)).collect::<Vec<_>>().join(",")))
    }
}

fn run_scenario(sc: &Scenario, lines: &mut Vec<(String, String)>, rep: &mut Report) {
    rep.evaluations += 1;
    let mut stream: Vec<u8> = vec![];
    // stream header of lgwin 18: 4 bits 0b0011
    let (mut bits, mut b0, mut b1) = (4usize, 0x03u8, 0u8);
    let mut fed: Vec<u8> = vec![];
    let mut q0 = q0_initial();
    let mut any_copy = false;
    let np = sc.pieces.len();
    for (k, p) in sc.pieces.iter().enumerate() {
        let input = p.bytes();
        let n = input.len();
        let last = sc.is_last && k + 1 == np;
        if sc.q == 0 && n == 0 && !last { continue; } // the caller never makes this call
        let ts = if sc.forced_bits != 0 { 1usize << sc.forced_bits } else { table_size_for(sc.q, n) };
        let cap = n.min(1 << 17);
        let storlen = 2 * n + 503;
        rep.count(&format!("q{}.calls", sc.q));
        rep.count(&format!("q{}.table_bits.{}", sc.q, ts.trailing_zeros()));
        if bits % 8 == 0 { rep.count("start.aligned"); } else { rep.count("start.unaligned"); }
        if b0 != 0 { rep.count("start.carry_nonzero"); }
        let res = call(sc.q, &input, last, ts, cap, bits, b0, b1, storlen, sc.stale, &mut q0);
        let req = format!("fragment q1 {} {} {} {} {} {} {} {} {}", p.spec(), last as u32, ts, cap, bits, b0, b1, storlen, sc.stale);
        match res {
            Err(msg) => {
                if sc.q == 1 { lines.push((format!("{} -", req), "panic".into())); }
                rep.violation(&format!("fragment:q{}-panic", sc.q), &format!("fragment writer panicked: {}", msg), sc.json());
                return;
            }
            Ok(o) => {
                let nb = (o.ix + 7) / 8;
                if sc.q == 1 {
                    let tb = ts.trailing_zeros();
                    let rp = if n <= 4096 && (8..=17).contains(&tb) { "1" } else { "x" };
                    let rd = if n <= 400 && bits == 0 { "1" } else { "x" };
                    lines.push((format!("{} {}", req, o.dec),
                        format!("ok {} {} {} rp={} cc={} rd={}", o.ix, fnv_bytes(&o.storage[..nb]), o.storage[o.ix >> 3], rp, rp, rd)));
                    for (ii, bs, sc_, cmds, lits) in &o.q1_events {
                        rep.count(if *sc_ { "q1.block.compressed" } else { "q1.block.uncompressed" });
                        if *sc_ && cmds.iter().any(|c| (c & 0xff) >= 24 && (c & 0xff) < 64) { any_copy = true; rep.count("q1.block.with_copy"); }
                        // the hypothesis of the Lean theorem on the REAL command buffer (small blocks; the
                        // history is what this call has fed before the block, distances never reach further)
                        if *sc_ && *bs <= 1200 && *ii <= 1200 {
                            let cs = if cmds.is_empty() { "-".to_string() } else { cmds.iter().map(|c| c.to_string()).collect::<Vec<_>>().join(",") };
                            lines.push((format!("fragment q1replay 18 {} {} {} {}", hex(&input[..*ii]), hex(&input[*ii..*ii + *bs]), hex(lits), cs), "1".into()));
                            rep.count("q1.replay_lines");
                        }
                    }
                    // the size fallback was taken iff the output is ONE stored meta-block although the block
                    // loop wrote something else (a compressed block, or more than one block)
                    let compressed_any = o.q1_events.iter().any(|e| e.2);
                    let hdr = 1 + 2 + (if n <= 1 << 16 { 16 } else if n <= 1 << 20 { 20 } else { 24 }) + 1;
                    let unc_ix = ((bits + hdr + 7) & !7) + 8 * n;
                    let want = if last { (unc_ix + 2 + 7) & !7 } else { unc_ix };
                    if n > 0 && (compressed_any || o.q1_events.len() > 1) && o.ix == want {
                        rep.count("q1.rewind_fallback");
                        if bits % 8 == 0 { rep.count("q1.rewind_fallback.aligned_start"); }
                        if o.q1_events.len() > 1 { rep.count("q1.rewind_fallback.multi_block"); }
                    }
                } else {
                    rep.add("q0.merges", o.q0_merges as u64);
                    rep.add("q0.uncompressed_fallbacks", o.q0_unc as u64);
                    if o.q0_merges > 0 { any_copy = true; }
                    if let Some(w) = &o.q0_lit_unsafe {
                        rep.violation("fragment:q0-merged-literal-without-code", w, sc.json());
                    }
                }
                // storage bound actually needed
                if nb + 8 > storlen { rep.count("storage.within_8_of_end"); }
                stream.extend_from_slice(&o.storage[..o.ix >> 3]);
                bits = o.ix & 7;
                b0 = o.storage[o.ix >> 3];
                b1 = o.storage[(o.ix >> 3) + 1];
                fed.extend_from_slice(&input);
            }
        }
    }
    if !sc.is_last {
        // ISLAST = 1, ISLASTEMPTY = 1 behind the carried bits
        let v = (b0 as u32) | (3u32 << bits);
        stream.push(v as u8);
        if bits + 2 > 8 { stream.push((v >> 8) as u8); }
    } else if bits != 0 {
        rep.violation("fragment:last-call-not-byte-aligned", "is_last call ended off a byte boundary", sc.json());
    }
    if any_copy { rep.nontrivial += 1; }
    rep.add("bytes.fed", fed.len() as u64);
    if let Err(e) = crate::dec::decode_both(&stream, false, &fed) {
        rep.violation(&format!("fragment:q{}-roundtrip", sc.q), &e, sc.json());
    } else { rep.count(&format!("q{}.roundtrip_ok", sc.q)); }
}

fn piece_lines(rng: &mut Rng, thorough: bool, lines: &mut Vec<(String, String)>, rep: &mut Report) {
    // RewindBitPosition / EmitUncompressedMetaBlock / UpdateBits on random storages
    #[cfg(fragment_hook)]
    {
        use brotli::enc::compress_fragment as cf;
        use brotli::enc::compress_fragment_two_pass as tp;
        let reps = if thorough { 4000 } else { 600 };
        for _ in 0..reps {
            let len = rng.range(1, 12) as usize;
            let st: Vec<u8> = (0..len).map(|_| rng.next() as u8).collect();
            let new_ix = rng.below((len * 8) as u64) as usize;
            let mut s = st.clone();
            let mut ix = 0usize;
            tp::verif_hooks::rewind_bit_position(new_ix, &mut ix, &mut s);
            lines.push((format!("fragment rewind {} {}", new_ix, hex(&st)), format!("ok {}", hex(&s))));
            let mut s2 = st.clone();
            let mut ix2 = 0usize;
            cf::verif_hooks::rewind_bit_position(new_ix, &mut ix2, &mut s2);
            if s2 != s || ix2 != ix { rep.violation("fragment:rewind-q0-q1-differ", "the two RewindBitPosition copies differ", format!("{{\"new_ix\":{},\"storage\":{}}}", new_ix, jstr(&hex(&st)))); }
            rep.count("piece.rewind");
        }
        for _ in 0..reps {
            let dl = rng.below(20) as usize;
            let data: Vec<u8> = (0..dl).map(|_| rng.next() as u8).collect();
            let ix0 = rng.below(16) as usize;
            let len = dl + 16 + rng.below(4) as usize;
            let mut st: Vec<u8> = (0..len).map(|_| rng.next() as u8).collect();
            // (W1) holds in half of the cases, stale bits above the start in the other half
            if rng.chance(1, 2) { st[ix0 >> 3] &= ((1u32 << (ix0 & 7)) - 1) as u8; }
            let mut s = st.clone();
            let mut ix = ix0;
            let r = catch_unwind(AssertUnwindSafe(|| tp::verif_hooks::emit_uncompressed_meta_block(&data, dl, &mut ix, &mut s)));
            lines.push((format!("fragment unc {} {} {}", ix0, hex(&st), hex(&data)), if r.is_ok() { format!("ok {} {}", ix, hex(&s)) } else { "panic".into() }));
            rep.count("piece.unc");
        }
        for _ in 0..reps {
            let len = rng.range(4, 10) as usize;
            let st: Vec<u8> = (0..len).map(|_| rng.next() as u8).collect();
            let nb = rng.range(0, 24) as usize;
            let pos = rng.below((len * 8 - 24) as u64) as usize;
            let bits = (rng.next() as u32) & 0xffffff;
            let mut s = st.clone();
            cf::verif_hooks::update_bits(nb, bits, pos, &mut s);
            lines.push((format!("fragment upd {} {} {} {}", nb, bits, pos, hex(&st)), format!("ok {}", hex(&s))));
            // oracle on the real code: exactly the bits [pos, pos+nb) changed, to the low nb bits of `bits`
            let get = |a: &[u8], i: usize| (a[i >> 3] >> (i & 7)) & 1;
            let mut ok = true;
            for i in 0..len * 8 {
                let want = if i >= pos && i < pos + nb { ((bits >> (i - pos)) & 1) as u8 } else { get(&st, i) };
                if get(&s, i) != want { ok = false; }
            }
            if !ok { rep.violation("fragment:update-bits-touches-neighbours", "UpdateBits changed a bit outside [pos, pos+n) or wrote a wrong bit", format!("{{\"n\":{},\"bits\":{},\"pos\":{},\"storage\":{}}}", nb, bits, pos, jstr(&hex(&st)))); }
            rep.count("piece.upd");
        }
        // q0 literal code: histogram + depths; every byte value has a code when sampled
        let sizes: &[usize] = if thorough { &[1, 2, 100, 5000, 32767, 32768, 32769, 65536, 98304] } else { &[1, 2, 100, 5000, 32767, 32768, 40000, 98304] };
        for &n in sizes {
            for cls in [0u32, 1, 2, 3, 5] {
                let p = Piece { cls, seed: rng.below(1000), size: n };
                let input = p.bytes();
                let mut m = StandardAlloc::default();
                let mut d = [0u8; 256];
                let mut b = [0u16; 256];
                let mut st = vec![0u8; 1024];
                let mut ix = 0usize;
                cf::verif_hooks::start();
                let ratio = cf::verif_hooks::build_and_store_literal_prefix_code(&mut m, &input, n, &mut d, &mut b, &mut ix, &mut st);
                let _ = cf::verif_hooks::take();
                lines.push((format!("fragment litcode {}", p.spec()), format!("ok {} {} {}", ix, ratio, hex(&d))));
                if n >= 32768 {
                    if d.iter().any(|x| *x == 0) { rep.violation("fragment:q0-sampled-literal-code-incomplete", "a sampled literal code leaves a byte value without a code", format!("{{\"input\":{}}}", jstr(&p.spec()))); }
                    rep.count("piece.litcode.sampled");
                } else { rep.count("piece.litcode.exact"); }
            }
        }
        // q1 CreateCommands / StoreCommands on their own
        let ccs = if thorough { 400 } else { 80 };
        for i in 0..ccs {
            let cls = [0u32, 1, 2, 3, 5, 6][i % 6];
            let n = [16usize, 17, 40, 100, 300, 1000, 5000][rng.below(7) as usize];
            let tb = rng.range(8, 17) as usize;
            let p = Piece { cls, seed: rng.below(1 << 20), size: n };
            let input = p.bytes();
            let mut table = vec![0i32; 1 << tb];
            let mut lit = vec![0u8; n];
            let mut cmd = vec![0u32; n];
            let mm = if tb < 15 { 4 } else { 6 };
            let r = catch_unwind(AssertUnwindSafe(|| tp::verif_hooks::create_commands(0, n, n, &input, &mut table, tb, mm, &mut lit, &mut cmd)));
            match r {
                Ok((nl, nc)) => {
                    lines.push((format!("fragment q1cc {} 0 {} {} {} {}", p.spec(), n, n, tb, n), format!("ok {} {} {} {}", nl, nc, fnv_bytes(&lit[..nl]), fnv_u32(&cmd[..nc]))));
                    if n <= 1000 {
                        let ix0 = rng.below(8) as usize;
                        let b0 = (rng.next() as u8) & (((1u32 << ix0) - 1) as u8);
                        let storlen = 2 * n + 503;
                        let mut st = vec![0xa5u8; storlen];
                        st[0] = b0;
                        let mut ix = ix0;
                        let mut m = StandardAlloc::default();
                        let r2 = catch_unwind(AssertUnwindSafe(|| tp::verif_hooks::store_commands(&mut m, &lit[..nl], nl, &cmd[..nc], nc, &mut ix, &mut st)));
                        let cs = cmd[..nc].iter().map(|c| c.to_string()).collect::<Vec<_>>().join(",");
                        lines.push((format!("fragment q1store {} {} {} {} {} {}", ix0, b0, storlen, 0xa5, hex(&lit[..nl]), cs),
                            if r2.is_ok() { format!("ok {} {}", ix, hex(&st[..(ix + 7) / 8])) } else { "panic".into() }));
                        rep.count("piece.q1store");
                    }
                    rep.count("piece.q1cc");
                }
                Err(_) => { lines.push((format!("fragment q1cc {} 0 {} {} {} {}", p.spec(), n, n, tb, n), "panic".into())); rep.violation("fragment:q1-create-commands-panic", "CreateCommands panicked", format!("{{\"input\":{},\"table_bits\":{}}}", jstr(&p.spec()), tb)); }
            }
        }
    }
    let _ = (rng, thorough, lines, rep);
}

fn scenarios(seed: u64, thorough: bool) -> Vec<Scenario> {
    let mut v = vec![];
    let mut rng = Rng::new(seed ^ 0xf4a6);
    let small = [0usize, 1, 2, 3, 15, 16, 17, 40, 100, 400, 4000];
    let edges = [32767usize, 32768, 32769, 65535, 65536, 65537, 98303, 98304, 98305, 131071, 131072, 131073, 262143, 262144, 262145];
    for q in [1u32, 0] {
        // single small fragments, every class, is_last both ways, aligned start (ix0 = 0 via a second call is covered below)
        for &n in &small { for cls in [0u32, 1, 3, 5] { for last in [true, false] {
            if q == 0 && n == 0 && !last { continue; }
            v.push(Scenario { q, forced_bits: 0, stale: 0xaa, is_last: last, pieces: vec![Piece { cls, seed: rng.below(1 << 16), size: n }] });
        } } }
        // every table size on a mid-size text
        let tbs: Vec<u32> = if q == 1 { (8..=17).collect() } else { vec![9, 11, 13, 15] };
        for &tb in &tbs { for cls in [1u32, 2] {
            v.push(Scenario { q, forced_bits: tb, stale: 0xff, is_last: true, pieces: vec![Piece { cls, seed: rng.below(1 << 16), size: 20000 + rng.below(3000) as usize }] });
        } }
        // block-size edges
        let ne = if thorough { edges.len() } else { edges.len() };
        for (i, &n) in edges[..ne].iter().enumerate() {
            let classes: Vec<u32> = if thorough { vec![0, 1, 2, 3, 4, 5, 6, 7, 8] } else { vec![[1u32, 2, 4][i % 3], [0u32, 3, 8, 6, 7, 5][i % 6]] };
            for cls in classes {
                v.push(Scenario { q, forced_bits: 0, stale: 0x55, is_last: i % 2 == 0, pieces: vec![Piece { cls, seed: rng.below(1 << 16), size: n }] });
            }
        }
        // byte-aligned start (behind a stored block) + a multi-block fragment that ends in the size fallback:
        // the rewind position is aligned and the first byte of the abandoned attempt differs from the new header
        for (a, b) in [(300usize, 131073usize), (1000, 200000), (40, 262145), (300, 131072 + 65536)] {
            v.push(Scenario { q, forced_bits: 0, stale: 0xff, is_last: true, pieces: vec![
                Piece { cls: 0, seed: rng.below(1 << 16), size: a }, Piece { cls: 0, seed: rng.below(1 << 16), size: b }] });
        }
        // multi-call streams (carry byte, cmd state of q0 carried)
        let nm = if thorough { 200 } else { 40 };
        for _ in 0..nm {
            let k = rng.range(2, 3) as usize;
            let pieces = (0..k).map(|_| Piece { cls: *rng.pick(&[0u32, 1, 1, 2, 3, 4, 5, 6]), seed: rng.below(1 << 16),
                size: *rng.pick(&[1usize, 5, 17, 300, 3000, 20000, 40000, 70000]) }).collect();
            v.push(Scenario { q, forced_bits: 0, stale: *rng.pick(&[0u8, 0xff, 0x5a]), is_last: rng.chance(1, 2), pieces });
        }
    }
    v
}

fn parse_scenario(s: &str) -> Option<Scenario> {
    let t: Vec<&str> = s.split_whitespace().collect();
    if t.len() != 5 { return None; }
    let pieces = t[4].split(',').filter_map(|p| { let f: Vec<&str> = p.split(':').collect(); if f.len() == 3 { Some(Piece { cls: f[0].parse().ok()?, seed: f[1].parse().ok()?, size: f[2].parse().ok()? }) } else { None } }).collect();
    Some(Scenario { q: t[0].parse().ok()?, forced_bits: t[1].parse().ok()?, stale: t[2].parse().ok()?, is_last: t[3] == "1", pieces })
}

pub fn run_cmd(args: &Args) {
    let thorough = args.tier == "thorough";
    let mut corr = Corr::new(&args.out);
    let mut rep = Report::default();
    let mut scs: Vec<Scenario> = vec![];
    if let Ok(rd) = std::fs::read_dir("/verif/corpus/fragment") {
        let mut files: Vec<_> = rd.filter_map(|e| e.ok()).map(|e| e.path()).collect();
        files.sort();
        for f in files { if let Ok(txt) = std::fs::read_to_string(&f) { for l in txt.lines() { if let Some(sc) = parse_scenario(l) { scs.push(sc); rep.count("corpus.cases"); } } } }
    }
    scs.extend(scenarios(args.seed, thorough));
    let scs = std::sync::Arc::new(scs);
    let n = scs.len();
    let scs2 = scs.clone();
    let results = par_tasks(n, move |i| {
        let mut lines = vec![];
        let mut r = Report::default();
        run_scenario(&scs2[i], &mut lines, &mut r);
        (lines, r)
    });
    for (lines, r) in results {
        for (a, b) in lines { corr.case(&a, &b); }
        rep.merge(r);
    }
    let mut lines = vec![];
    let mut rng = Rng::new(args.seed ^ 0x9e11);
    piece_lines(&mut rng, thorough, &mut lines, &mut rep);
    for (a, b) in lines { corr.case(&a, &b); }
    #[cfg(not(fragment_hook))]
    rep.count("hooks.absent");
    corr.finish();
    rep.write(&args.out);
}
