//! engine `recoder` (C14): the meta-block callback (IR) replays to exactly the input.
//!
//! Search stage (property oracle on the real code alone): the real encoder runs with `params.log_meta_block = true`
//! and a callback that records, per meta-block, the IR command list (literals thawed against the `InputPair`) and the
//! `InputPair` bytes.  An independent replay in this file (literals appended, copies resolved byte by byte against
//! everything produced so far preceded by the effective custom-dictionary tail, dictionary commands expanded with
//! brotli-decompressor's dictionary + `TransformDictionaryWord`, block switches ignored) must
//!   * reproduce every meta-block's `InputPair` bytes and, in total, the input, byte for byte;
//!   * find every copy distance in 1..=min(bytes produced + dictionary tail, 2^lgwin-16);
//!   * find every dictionary command well formed (word length 4..24, id < 2^bits, transform < 121) and expanding to
//!     exactly `final_size` bytes;
//!   * find every literal's frozen offset equal to the replay cursor inside the meta-block (so literals, copies and
//!     dictionary words tile the meta-block) and the meta-block slices tile the input (concatenation == input).
//! Grid: quality 2..11 x lgwin {10,12,14,16,18,20,22} x mode x stride/high-entropy/cdf/prior detection levels x
//! catable/appendable/magic/use_dictionary/large_window/lgblock x custom dictionary (none, 1, 2, mid, > window) x input
//! kinds of engine `dict` incl. inputs longer than the ring buffer x chunking.
//! plus streaming HISTORIES: 2..6 chunks (tiny incompressible pieces of 20..200 random bytes — the compressed attempt is logged and then
//! replaced by a stored meta-block — mixed with dictionary-word-rich text), each fed with PROCESS and followed by FLUSH, then FINISH,
//! quality 2..11, with/without custom dictionary; same oracle, and the hook lines chain `num_bytes_encoded` from one meta-block to the next.
//! non-trivial case = the encoder finished and at least one meta-block with a copy or dictionary command was replayed.
//!
//! Correspondence stage: `recoder pcq ...` — `process_command_queue` reached through the public (deprecated) wrappers
//! `BrotliStoreMetaBlockFast / BrotliStoreMetaBlockTrivial / BrotliStoreMetaBlock / BrotliStoreUncompressedMetaBlock`
//! with CRAFTED raw `Command` arrays (valid by construction, truncated, mutated), block-split descriptions (valid
//! partitions and broken ones), ring masks 63..4095 with wrap positions everywhere, distance parameters, distance
//! caches and recoder positions; the IR handed to the callback (and the returned recoder position, or `panic`)
//! against `BV.Recoder.processCommandQueue`.  Dictionary-word expansions are recorded answers of the real
//! `TransformDictionaryWord` on the real dictionary (field `words`), the two small dictionary tables are compared by
//! `recoder tables`.  `recoder stride <n> <withLits>`: the real `StrideEval` (epochs, score sizing, `choose_stride`) for every
//! block count 0..260 against `BV.Recoder.stridePass`.
//! Line format:
//!   recoder pcq <variant> <lgwin> <npostfix> <ndirect> <hedq> <nbe> <dc0,dc1,dc2,dc3> <mask> <pos> <len> <ringhex>
//!               <cmds ins:copyfield:extra:cmdprefix:distprefix;...|-> <btl> <btc> <btd> <words len:offset:hex|!,...|->
//!   bt = <num_types>/<types,|->/<lengths,|->          variant = fast|trivial|full|unc
//!   answer: `ok <nbe'> <ir tokens...>` | `panic`      tokens: L<off>,<len>,<he> C<dist>,<n> D<ws>,<tr>,<fs>,<id> l<t> c<t> d<t>
//! Corpus: /verif/corpus/recoder/*.txt (lines in the `recoder pcq` request format are replayed first).
use crate::util::*;
use crate::prng::Rng;
use crate::dict::{self, encode_stream_x, encode_oneshot, gen_dict, base_params, panic_msg, TEXT};
use brotli::enc::BrotliEncoderParams;
use brotli::enc::interface;
use brotli::enc::interface::{Command as IrCmd, Unfreezable};
use brotli::enc::StandardAlloc as EncAlloc;
use brotli::enc::command::{BrotliDistanceParams, Command, ComputeDistanceCode};
use brotli::enc::brotli_bit_stream::{self as bbs, MetaBlockSplit, RecoderState};
use brotli::InputReferenceMut;
use brotli::interface::InputPair;
use brotli_decompressor::dictionary::{kBrotliDictionary, kBrotliDictionaryOffsetsByLength, kBrotliDictionarySizeBitsByLength};
use brotli_decompressor::transform::TransformDictionaryWord;
use alloc_no_stdlib::{Allocator, SliceWrapper, SliceWrapperMut};
use std::panic::{catch_unwind, AssertUnwindSafe};

#[derive(Clone, Debug, PartialEq)]
pub enum Ir {
    Lit { off: usize, len: usize, he: bool, bytes: Option<Vec<u8>> },
    Copy { dist: u32, n: u32 },
    Dict { ws: u8, tr: u8, fs: u8, id: u32 },
    BsL(u8, u8),
    BsC(u8),
    BsD(u8),
    Pm,
}
impl Ir {
    pub fn token(&self) -> String {
        match self {
            Ir::Lit { off, len, he, .. } => format!("L{},{},{}", off, len, *he as u8),
            Ir::Copy { dist, n } => format!("C{},{}", dist, n),
            Ir::Dict { ws, tr, fs, id } => format!("D{},{},{},{}", ws, tr, fs, id),
            Ir::BsL(t, _) => format!("l{}", t),
            Ir::BsC(t) => format!("c{}", t),
            Ir::BsD(t) => format!("d{}", t),
            Ir::Pm => "P".to_string(),
        }
    }
}
#[derive(Clone, Debug)]
pub struct Mb { pub ir: Vec<Ir>, pub bytes: Vec<u8>, pub len0: usize }

pub fn record(cmds: &[interface::StaticCommand], mb: &InputPair) -> Mb {
    let mut bytes = mb.0.data.to_vec();
    bytes.extend_from_slice(mb.1.data);
    let mut ir = Vec::with_capacity(cmds.len());
    for c in cmds.iter() {
        ir.push(match c {
            IrCmd::Literal(l) => {
                let th = l.data.thaw_pair(mb);
                Ir::Lit { off: l.data.offset(), len: l.data.len(), he: l.high_entropy, bytes: th.ok().map(|r| r.data.to_vec()) }
            }
            IrCmd::Copy(c) => Ir::Copy { dist: c.distance, n: c.num_bytes },
            IrCmd::Dict(d) => Ir::Dict { ws: d.word_size, tr: d.transform, fs: d.final_size, id: d.word_id },
            IrCmd::BlockSwitchLiteral(b) => Ir::BsL(b.block_type(), b.stride()),
            IrCmd::BlockSwitchCommand(b) => Ir::BsC(b.0),
            IrCmd::BlockSwitchDistance(b) => Ir::BsD(b.0),
            IrCmd::PredictionMode(_) => Ir::Pm,
        });
    }
    Mb { ir, bytes, len0: mb.0.data.len() }
}

/// expansion of a static-dictionary word, `None` if the reference is malformed
pub fn expand_word(ws: usize, id: usize, tr: usize) -> Option<Vec<u8>> {
    if ws < 4 || ws > 24 || tr >= 121 { return None; }
    let bits = kBrotliDictionarySizeBitsByLength[ws] as usize;
    if id >= (1usize << bits) { return None; }
    let start = kBrotliDictionaryOffsetsByLength[ws] as usize + id * ws;
    let raw = &kBrotliDictionary[start..start + ws];
    let mut dst = [0u8; 64];
    let n = TransformDictionaryWord(&mut dst[..], raw, ws as i32, tr as i32);
    Some(dst[..n as usize].to_vec())
}

pub struct ReplayStats { pub copies: u64, pub dicts: u64, pub lits: u64, pub copies_into_prefix: u64, pub split_literals: u64, pub block_switches: u64, pub wrapped_mbs: u64 }

/// Independent replay of the logged IR. `prefix` = effective custom-dictionary tail. Err((kind, description)).
pub fn replay(mbs: &[Mb], prefix: &[u8], input: &[u8], lgwin: i32) -> Result<ReplayStats, (String, String)> {
    let window = (1usize << lgwin) - 16;
    let mut out: Vec<u8> = prefix.to_vec();
    let mut st = ReplayStats { copies: 0, dicts: 0, lits: 0, copies_into_prefix: 0, split_literals: 0, block_switches: 0, wrapped_mbs: 0 };
    let mut consumed = 0usize;
    for (mi, mb) in mbs.iter().enumerate() {
        // slices tile the input
        if consumed + mb.bytes.len() > input.len() || input[consumed..consumed + mb.bytes.len()] != mb.bytes[..] {
            return Err(("slices-do-not-tile".into(), format!("meta-block {} slice ({} bytes) is not the input at offset {}", mi, mb.bytes.len(), consumed)));
        }
        if mb.len0 != mb.bytes.len() { st.wrapped_mbs += 1; }
        let start = out.len();
        let mut prev_lit = false;
        for (ci, c) in mb.ir.iter().enumerate() {
            let cursor = out.len() - start;
            match c {
                Ir::Lit { off, len, bytes, .. } => {
                    let b = match bytes { Some(b) => b, None => return Err(("literal-unthawable".into(), format!("mb {} cmd {}: literal ({},{}) does not thaw against the InputPair", mi, ci, off, len))) };
                    if *off != cursor || b.len() != *len || *len == 0 {
                        return Err(("literal-offset".into(), format!("mb {} cmd {}: literal offset {} len {} (thawed {}) but replay cursor is {}", mi, ci, off, len, b.len(), cursor)));
                    }
                    out.extend_from_slice(b);
                    st.lits += 1;
                    if prev_lit { st.split_literals += 1; }
                }
                Ir::Copy { dist, n } => {
                    let d = *dist as usize;
                    if d == 0 || d > out.len() || d > window || *n == 0 {
                        return Err(("copy-distance".into(), format!("mb {} cmd {}: copy distance {} num_bytes {} with {} bytes produced (+{} dictionary), window {}", mi, ci, d, n, out.len() - prefix.len(), prefix.len(), window)));
                    }
                    if d > out.len() - prefix.len() { st.copies_into_prefix += 1; }
                    for _ in 0..*n { let b = out[out.len() - d]; out.push(b); }
                    st.copies += 1;
                }
                Ir::Dict { ws, tr, fs, id } => {
                    match expand_word(*ws as usize, *id as usize, *tr as usize) {
                        Some(w) if w.len() == *fs as usize => { out.extend_from_slice(&w); st.dicts += 1; }
                        Some(w) => return Err(("dict-final-size".into(), format!("mb {} cmd {}: dictionary word ({},{},{}) expands to {} bytes, final_size says {}", mi, ci, ws, id, tr, w.len(), fs))),
                        None => return Err(("dict-malformed".into(), format!("mb {} cmd {}: dictionary command ({},{},{}) is not a valid reference", mi, ci, ws, id, tr))),
                    }
                }
                Ir::BsL(..) | Ir::BsC(..) | Ir::BsD(..) => { st.block_switches += 1; }
                Ir::Pm => {}
            }
            prev_lit = matches!(c, Ir::Lit { .. });
            if out.len() - start > mb.bytes.len() {
                return Err(("overrun".into(), format!("mb {} cmd {}: replay produced {} bytes, the meta-block slice has {}", mi, ci, out.len() - start, mb.bytes.len())));
            }
        }
        if out[start..] != mb.bytes[..] {
            let produced = &out[start..];
            let fd = crate::dec::first_diff(produced, &mb.bytes);
            return Err(("replay-mismatch".into(), format!("mb {}: replay produced {} bytes, slice has {}, first difference at {}", mi, produced.len(), mb.bytes.len(), fd)));
        }
        consumed += mb.bytes.len();
    }
    if consumed != input.len() {
        return Err(("slices-do-not-tile".into(), format!("meta-block slices cover {} of {} input bytes", consumed, input.len())));
    }
    Ok(st)
}

// ------------------------------------------------------------------------------------------------ search

#[derive(Clone, Debug)]
struct RCase { hist: bool, lgwin: i32, q: i32, mode: u32, stride: u8, hedq: u8, cdf: u8, prior: u8, catable: bool, appendable: bool, magic: bool, use_dict: bool, large: bool, lgblock: i32, size_hint: usize, d: usize, dseed: u64, kind: u32, api: u32, iseed: u64 }
impl RCase {
    fn json(&self) -> String {
        format!("{{\"history\": {}, \"lgwin\": {}, \"quality\": {}, \"mode\": {}, \"stride\": {}, \"hedq\": {}, \"cdf\": {}, \"prior\": {}, \"catable\": {}, \"appendable\": {}, \"magic\": {}, \"use_dictionary\": {}, \"large_window\": {}, \"lgblock\": {}, \"size_hint\": {}, \"d\": {}, \"dict_seed\": {}, \"kind\": {}, \"api\": {}, \"input_seed\": {}}}",
            self.hist, self.lgwin, self.q, self.mode, self.stride, self.hedq, self.cdf, self.prior, self.catable, self.appendable, self.magic, self.use_dict, self.large, self.lgblock, self.size_hint, self.d, self.dseed, self.kind, self.api, self.iseed)
    }
    fn params(&self) -> BrotliEncoderParams {
        let mut p = base_params(self.q, self.lgwin);
        p.mode = match self.mode { 1 => brotli::enc::backward_references::BrotliEncoderMode::BROTLI_MODE_TEXT, 2 => brotli::enc::backward_references::BrotliEncoderMode::BROTLI_MODE_FONT, _ => brotli::enc::backward_references::BrotliEncoderMode::BROTLI_MODE_GENERIC };
        p.log_meta_block = true;
        p.stride_detection_quality = self.stride;
        p.high_entropy_detection_quality = self.hedq;
        p.cdf_adaptation_detection = self.cdf;
        p.prior_bitmask_detection = self.prior;
        p.catable = self.catable;
        p.appendable = self.appendable || self.catable;
        p.magic_number = self.magic;
        p.use_dictionary = self.use_dict;
        p.large_window = self.large;
        p.lgblock = self.lgblock;
        p.size_hint = self.size_hint;
        p
    }
}

/// correspondence through the `verif_recoder_hook` dump (real encoder's raw commands + block splits):
/// `recoder lmb <lgwin> <npostfix> <ndirect> <hedq> <ctx> <nbe> <dc> <input0hex> <input1hex> <cmds> <btl> <btc> <btd> <words>`
/// answered by `ok <nbe'> <ir…>`
#[cfg(recoder_hook)]
fn hook_lines(dumps: &[bbs::verif_recoder_hook::LogMetaBlockDump], mbs: &[Mb], lines: &mut Vec<(String, String)>, rep: &mut Report) {
    if dumps.len() != mbs.len() { rep.count("hook.dump_count_mismatch"); return; }
    for (i, (d, mb)) in dumps.iter().zip(mbs.iter()).enumerate() {
        if mb.bytes.len() > 12000 || d.commands.len() > 1500 { rep.count("hook.mb_too_long_for_a_line"); continue; }
        if d.input0_len != mb.len0 || d.input0_len + d.input1_len != mb.bytes.len() { rep.count("hook.slice_mismatch"); continue; }
        let sp = |s: &bbs::verif_recoder_hook::SplitDump| Split { num_types: s.num_types as usize, types: s.types.clone(), lengths: s.lengths.clone() };
        let cmds: Vec<Command> = d.commands.iter().map(|c| Command { insert_len_: c.0, copy_len_: c.1, dist_extra_: c.2, cmd_prefix_: c.3, dist_prefix_: c.4 }).collect();
        // reuse the crafted-case word walk: a flat ring holding the meta-block bytes
        let cr = Crafted { variant: 2, lgwin: d.lgwin, npostfix: d.distance_postfix_bits, ndirect: d.num_direct_distance_codes, hedq: d.high_entropy_detection_quality,
            nbe: d.num_bytes_encoded, dc: d.dist_cache, mask: usize::MAX >> 1, pos: 0, len: mb.bytes.len(), ring: vec![], cmds, btl: sp(&d.btypel), btc: sp(&d.btypec), btd: sp(&d.btyped) };
        let cm = if cr.cmds.is_empty() { "-".to_string() } else { cr.cmds.iter().map(cmd_tok).collect::<Vec<_>>().join(";") };
        let mut words: Vec<String> = Vec::new();
        let mut seen = std::collections::BTreeSet::new();
        for (l, o) in needed_words(&cr) { if seen.insert((l, o)) { if let Some(h) = word_answer(l, o) { words.push(format!("{}:{}:{}", l, o, h)); } } }
        let op = format!("recoder lmb {} {} {} {} {} {} {},{},{},{} {} {} {} {} {} {} {}", d.lgwin, d.distance_postfix_bits, d.num_direct_distance_codes, d.high_entropy_detection_quality,
            d.context_type_is_some as u8, d.num_bytes_encoded, d.dist_cache[0], d.dist_cache[1], d.dist_cache[2], d.dist_cache[3],
            hex(&mb.bytes[..mb.len0]), hex(&mb.bytes[mb.len0..]), cm, cr.btl.tok(), cr.btc.tok(), cr.btd.tok(), if words.is_empty() { "-".to_string() } else { words.join(",") });
        if op.len() >= 65000 { rep.count("hook.mb_too_long_for_a_line"); continue; }
        let nbe2 = if i + 1 < dumps.len() { dumps[i + 1].num_bytes_encoded } else { d.num_bytes_encoded + mb.bytes.len() };
        let mut ans = format!("ok {}", nbe2);
        for t in mb.ir.iter() { if !matches!(t, Ir::Pm) { ans.push(' '); ans.push_str(&t.token()); } }
        lines.push((op, ans));
        rep.count("hook.lmb_lines");
        if d.btypel.types.len() > 1 { rep.count("hook.lmb_with_literal_block_split"); }
        if d.input1_len != 0 { rep.count("hook.lmb_wrapped_input_pair"); }
    }
}

/// chunks of a streaming history: tiny incompressible pieces (20..200 random bytes: the compressed attempt is larger than
/// raw, so `WriteMetaBlockInternal` logs it and then falls back to a stored meta-block) mixed with text rich in
/// static-dictionary words; a function of the seed alone
fn history_chunks(iseed: u64) -> Vec<Vec<u8>> {
    let mut rng = Rng::new(iseed ^ 0x4157);
    let n = rng.range(2, 6) as usize;
    let mut v = Vec::new();
    let mut kind = rng.below(2);
    for _ in 0..n {
        let mut c: Vec<u8> = Vec::new();
        if kind == 0 {
            for _ in 0..rng.range(20, 200) { c.push(rng.next() as u8); }
        } else {
            let o = rng.below(120) as usize;
            let l = rng.range(40, (TEXT.len() - o) as u64) as usize;
            c.extend_from_slice(&TEXT[o..o + l]);
            if rng.chance(1, 3) { c.extend_from_slice(b" The international government of information and development. "); }
        }
        v.push(c);
        kind = if rng.chance(3, 4) { 1 - kind } else { kind };
    }
    v
}

/// streaming history through the encoder state API: each chunk is fed with PROCESS, then FLUSH is driven to completion;
/// FINISH at the end.  Output window `out_chunk` bytes.
fn encode_history<Cb>(chunks: &[Vec<u8>], dictv: &[u8], params: &BrotliEncoderParams, out_chunk: usize, cb: &mut Cb) -> Result<Vec<u8>, String>
where Cb: FnMut(&mut interface::PredictionModeContextMap<InputReferenceMut>, &mut [interface::StaticCommand], InputPair, &mut EncAlloc) {
    use brotli::enc::encode::{BrotliEncoderOperation, BrotliEncoderStateStruct, BrotliEncoderDestroyInstance};
    let r = catch_unwind(AssertUnwindSafe(|| {
        let mut s = BrotliEncoderStateStruct::new(EncAlloc::default());
        s.params = params.clone();
        if !dictv.is_empty() { s.set_custom_dictionary(dictv.len(), dictv); }
        let mut out: Vec<u8> = Vec::new();
        let mut obuf = vec![0u8; out_chunk.max(1)];
        let mut steps = 0usize;
        let total: usize = chunks.iter().map(|c| c.len()).sum();
        let limit = 4096 + 16 * (total + 1024) / out_chunk.max(1) + 64 * chunks.len();
        let mut ops: Vec<(BrotliEncoderOperation, &[u8])> = Vec::new();
        for c in chunks.iter() { ops.push((BrotliEncoderOperation::BROTLI_OPERATION_PROCESS, &c[..])); ops.push((BrotliEncoderOperation::BROTLI_OPERATION_FLUSH, &[])); }
        ops.push((BrotliEncoderOperation::BROTLI_OPERATION_FINISH, &[]));
        for (op, data) in ops {
            let mut pos = 0usize;
            let is_finish = matches!(op, BrotliEncoderOperation::BROTLI_OPERATION_FINISH);
            let is_process = matches!(op, BrotliEncoderOperation::BROTLI_OPERATION_PROCESS);
            loop {
                steps += 1;
                if steps > limit { BrotliEncoderDestroyInstance(&mut s); return Err("livelock".to_string()); }
                let mut avail_in = data.len() - pos;
                let mut in_off = 0usize;
                let mut avail_out = obuf.len();
                let mut out_off = 0usize;
                let mut tot = None;
                let ok = s.compress_stream(op, &mut avail_in, &data[pos..], &mut in_off, &mut avail_out, &mut obuf, &mut out_off, &mut tot, cb);
                pos += in_off;
                out.extend_from_slice(&obuf[..out_off]);
                if !ok { BrotliEncoderDestroyInstance(&mut s); return Err("compress_stream returned false".to_string()); }
                if is_finish { if s.is_finished() { break; } }
                else if is_process { if pos == data.len() { break; } }
                else if !s.has_more_output() { break; }   // flush complete
            }
        }
        BrotliEncoderDestroyInstance(&mut s);
        Ok(out)
    }));
    match r { Ok(x) => x, Err(e) => Err(format!("panic: {}", panic_msg(&e))) }
}

fn run_rcase(c: &RCase, rep: &mut Report, lines: &mut Vec<(String, String)>) {
    let dictv = gen_dict(c.dseed, c.d);
    let dc = dict::Case { lgwin: c.lgwin, q: c.q, d: c.d, seed: c.dseed, magic: c.magic, kind: c.kind, api: c.api, iseed: c.iseed };
    let chunks: Vec<Vec<u8>> = if c.hist { history_chunks(c.iseed) } else { vec![] };
    let input = if c.hist { chunks.concat() } else { dict::make_input(&dc, &dictv) };
    let p = c.params();
    let mut mbs: Vec<Mb> = Vec::new();
    let mut rng = Rng::new(c.iseed ^ 0x7ec0);
    #[cfg(recoder_hook)]
    bbs::verif_recoder_hook::start();
    let enc: Result<Vec<u8>, String> = {
        let mut cb = |_pm: &mut interface::PredictionModeContextMap<InputReferenceMut>, cmds: &mut [interface::StaticCommand], mb: InputPair, _a: &mut EncAlloc| { mbs.push(record(cmds, &mb)); };
        if c.hist { encode_history(&chunks, &dictv, &p, if c.api == 0 { 1 << 16 } else { rng.range(1, 300) as usize }, &mut cb) } else { match c.api {
            0 => encode_stream_x(&input, &dictv, false, &p, &[1 << 22], 1 << 16, &mut cb).map(|x| x.0),
            1 => { let chunks: Vec<usize> = (0..5).map(|_| rng.range(1, 40000) as usize).collect(); let oc = rng.range(1, 9000) as usize; encode_stream_x(&input, &dictv, false, &p, &chunks, oc, &mut cb).map(|x| x.0) }
            _ => encode_oneshot(&input, &dictv, &p, rng.range(1, 70000) as usize, rng.range(1, 70000) as usize, &mut cb),
        } }
    };
    #[cfg(recoder_hook)]
    { let dumps = bbs::verif_recoder_hook::take(); if enc.is_ok() { hook_lines(&dumps, &mbs, lines, rep); } }
    rep.evaluations += 1;
    rep.count(&format!("quality.{}", c.q));
    rep.count(&format!("lgwin.{}", c.lgwin));
    if c.hist { rep.count("history.flush_after_each_chunk"); rep.add("history.chunks", chunks.len() as u64); } else { rep.count(&format!("kind.{}", dict::KINDS[c.kind as usize])); }
    if c.d > 0 { rep.count("with_custom_dict"); }
    if c.stride != 0 { rep.count(&format!("stride.{}", c.stride)); }
    if c.hedq != 0 { rep.count("high_entropy_detection"); }
    if c.cdf != 0 { rep.count("cdf_adaptation_detection"); }
    if c.prior != 0 { rep.count("prior_bitmask_detection"); }
    if c.catable { rep.count("catable"); } else if c.appendable { rep.count("appendable"); }
    if c.large { rep.count("large_window"); }
    let dtag = if c.d > 0 { "custom-dict" } else { "no-dict" };
    let out = match enc {
        Ok(o) => o,
        Err(e) => {
            let sig = if e.contains("stride_data.len() << 3") { "recoder:panic:choose-stride-assert".to_string() }
                else if e.contains("copy_len") { format!("recoder:panic:copy-len-assert:{}", dtag) }
                else if e.contains("left == right") { format!("recoder:panic:assert-eq:{}", dtag) }   // e.g. the expanded dictionary word != input (wrong position)
                else if e.starts_with("panic") { format!("recoder:panic:other:{}", dtag) }
                else if e == "livelock" { format!("recoder:livelock:{}", dtag) } else { format!("recoder:encode-fail:{}", dtag) };
            rep.violation(&sig, &format!("encoder with log_meta_block: {}", e), c.json());
            return;
        }
    };
    let w = (1usize << c.lgwin) - 16;
    let prefix: &[u8] = if c.q >= 2 && c.d >= 1 { &dictv[c.d - c.d.min(w)..] } else { &[] };
    match replay(&mbs, prefix, &input, c.lgwin) {
        Ok(st) => {
            rep.count("replay.ok");
            rep.add("ir.copies", st.copies); rep.add("ir.dict_words", st.dicts); rep.add("ir.literals", st.lits);
            rep.add("ir.copies_into_custom_dict", st.copies_into_prefix); rep.add("ir.literals_split_at_wrap_or_block", st.split_literals);
            rep.add("ir.block_switches", st.block_switches); rep.add("mb.wrapped_input_pair", st.wrapped_mbs); rep.add("mb.count", mbs.len() as u64);
            if st.copies + st.dicts > 0 { rep.nontrivial += 1; }
            if input.len() > (1usize << (1 + c.lgwin.max(if c.q < 4 { 14 } else { 16 }))) { rep.count("input_longer_than_ring"); }
        }
        Err((kind, what)) => { rep.violation(&format!("recoder:{}:{}", kind, dtag), &what, c.json()); return; }
    }
    // the stream itself still decodes (callback must not disturb the stream)
    if !matches!(crate::dec::decode_dict(&out, &dictv, input.len() + 1000), crate::dec::DResult::Ok(v) if v == input) {
        rep.violation(&format!("recoder:stream-not-decodable:{}", dtag), "stream produced with log_meta_block does not decode to the input", c.json());
    }
}

fn rcases(thorough: bool, seed: u64) -> Vec<RCase> {
    let mut rng = Rng::new(seed ^ 0x4ec0_de4);
    let mut cs = Vec::new();
    let n = if thorough { 12000 } else { 2000 };
    for i in 0..n {
        let q = 2 + (i % 10) as i32;
        let lgwin = *rng.pick(&[10i32, 10, 12, 12, 14, 16, 16, 18, 20, 22]);
        let w = 1usize << lgwin;
        let d = match rng.below(8) { 0 | 1 | 2 => 0, 3 => 1, 4 => 2, 5 => rng.range(3, (w - 20) as u64) as usize, 6 => *rng.pick(&[w - 17, w - 16, w - 15]), _ => w + rng.range(1, 5000) as usize };
        let long = rng.chance(1, 12) && lgwin <= 16 && (q < 10 || lgwin <= 12);
        let catable = rng.chance(1, 5);
        cs.push(RCase {
            hist: false, lgwin, q, mode: rng.below(3) as u32,
            stride: *rng.pick(&[0u8, 0, 0, 1, 2, 3, 4]), hedq: *rng.pick(&[0u8, 0, 1, 2]), cdf: *rng.pick(&[0u8, 0, 0, 1, 2]), prior: *rng.pick(&[0u8, 0, 1]),
            catable, appendable: rng.chance(1, 4), magic: rng.chance(1, 3), use_dict: if catable { rng.chance(1, 4) } else { !rng.chance(1, 6) },
            large: rng.chance(1, 8), lgblock: *rng.pick(&[0i32, 0, 0, 16, 17, 18, 20]), size_hint: *rng.pick(&[0usize, 0, 0, 1 << 20, 1 << 23]),
            d, dseed: rng.below(251), kind: if long { 4 } else { rng.below(4) as u32 }, api: rng.below(3) as u32, iseed: rng.next() >> 16,
        });
    }
    // ring-wrap class: stream longer than the encoder ring behind a dictionary whose length is not a block multiple, so
    // that meta-blocks straddle the ring end (InputPair with two non-empty halves); incompressible input (stored
    // meta-blocks, context_type None) and mixed input; high-entropy detection on and off
    let nw = if thorough { 160 } else { 40 };
    for i in 0..nw {
        let q = [2, 3, 4, 5, 6, 9, 7, 10][i % 8];
        let lgwin = if q >= 10 { 10 } else { *rng.pick(&[10i32, 10, 12]) };
        let d = *rng.pick(&[1usize, 3, 17, 333, 999, 1001, 1007]);
        cs.push(RCase {
            hist: false, lgwin, q, mode: rng.below(3) as u32,
            stride: *rng.pick(&[0u8, 0, 1]), hedq: *rng.pick(&[1u8, 1, 2, 0]), cdf: *rng.pick(&[0u8, 0, 1]), prior: 0,
            catable: false, appendable: rng.chance(1, 4), magic: false, use_dict: true,
            large: false, lgblock: 0, size_hint: 0,
            d, dseed: rng.below(251), kind: if i % 2 == 0 { 7 } else { 6 }, api: rng.below(3) as u32, iseed: rng.next() >> 16,
        });
    }
    // streaming histories: PROCESS chunk / FLUSH / ... / FINISH with the callback installed
    let nh = if thorough { 6000 } else { 1200 };
    for i in 0..nh {
        let q = 2 + (i % 10) as i32;
        let lgwin = *rng.pick(&[10i32, 12, 16, 18, 22]);
        let w = 1usize << lgwin;
        let d = match rng.below(6) { 0 => 1, 1 => rng.range(2, 300) as usize, 2 => w + 7, _ => 0 };
        let catable = rng.chance(1, 8);
        cs.push(RCase {
            hist: true, lgwin, q, mode: rng.below(3) as u32,
            stride: *rng.pick(&[0u8, 0, 0, 1, 3]), hedq: *rng.pick(&[0u8, 0, 1]), cdf: *rng.pick(&[0u8, 0, 0, 1]), prior: *rng.pick(&[0u8, 0, 1]),
            catable, appendable: rng.chance(1, 5), magic: rng.chance(1, 4), use_dict: !catable,
            large: false, lgblock: 0, size_hint: 0,
            d, dseed: rng.below(251), kind: 0, api: rng.below(2) as u32, iseed: rng.next() >> 16,
        });
    }
    cs
}

// ------------------------------------------------------------------------------------------------ correspondence (crafted)

#[derive(Clone, Debug, Default)]
struct Split { num_types: usize, types: Vec<u8>, lengths: Vec<u32> }
impl Split {
    fn tok(&self) -> String {
        let j = |v: Vec<String>| if v.is_empty() { "-".to_string() } else { v.join(",") };
        format!("{}/{}/{}", self.num_types, j(self.types.iter().map(|x| x.to_string()).collect()), j(self.lengths.iter().map(|x| x.to_string()).collect()))
    }
}
#[derive(Clone, Debug)]
struct Crafted { variant: u32, lgwin: i32, npostfix: u32, ndirect: u32, hedq: u8, nbe: usize, dc: [i32; 4], mask: usize, pos: usize, len: usize, ring: Vec<u8>, cmds: Vec<Command>, btl: Split, btc: Split, btd: Split }
const VARIANTS: [&str; 4] = ["fast", "trivial", "full", "unc"];

fn cmd_tok(c: &Command) -> String { format!("{}:{}:{}:{}:{}", c.insert_len_, c.copy_len_, c.dist_extra_, c.cmd_prefix_, c.dist_prefix_) }

/// what `TransformDictionaryWord` answers for (copy_len, dictionary_offset): recorded for the model
fn word_answer(copy_len: usize, off: usize) -> Option<String> {
    if copy_len < 4 || copy_len >= 25 { return None; }
    let bits = kBrotliDictionarySizeBitsByLength[copy_len] as usize;
    let action = off >> bits;
    let sub = off & ((1 << bits) - 1);
    let idx = sub * copy_len + kBrotliDictionaryOffsetsByLength[copy_len] as usize;
    if idx + copy_len > kBrotliDictionary.len() { return None; }
    if action >= 121 { return Some("!".to_string()); }
    let mut dst = [0u8; 64];
    let n = TransformDictionaryWord(&mut dst[..], &kBrotliDictionary[idx..idx + copy_len], copy_len as i32, action as i32);
    Some(hex(&dst[..n as usize]))
}

/// which (copy_len, dictionary_offset) pairs can be asked for: a walk with the recoder's arithmetic (only to attach
/// recorded answers; a missing answer shows up as `missing-word` in the model's reply)
fn needed_words(c: &Crafted) -> Vec<(usize, usize)> {
    let mut need = Vec::new();
    let mut cache = c.dc;
    let mut nbe = c.nbe;
    let mut mb_len = c.len;
    let window = (1usize << c.lgwin).wrapping_sub(16);
    let dist = BrotliDistanceParams { distance_postfix_bits: c.npostfix, num_direct_distance_codes: c.ndirect, alphabet_size: 0, max_distance: 0 };
    let cmds: Vec<Command> = if c.variant == 3 { vec![Command { insert_len_: c.len as u32, copy_len_: 0, dist_extra_: 0, cmd_prefix_: 0, dist_prefix_: 0 }] } else { c.cmds.clone() };
    for cmd in cmds.iter() {
        let ins = (cmd.insert_len_ as usize).min(mb_len);
        nbe += ins;
        mb_len -= ins;
        let r = catch_unwind(|| (bbs::verif_hooks::copy_len_code(cmd) as usize, cmd.distance_index_and_offset(&dist)));
        let (copy_len, (idx, off)) = match r { Ok(x) => x, Err(_) => break };
        let fd = if idx == 0 { off as usize } else { (cache[idx - 1] as isize).wrapping_add(off) as usize };
        let maxd = nbe.min(window);
        let actual;
        if fd > maxd {
            let o = fd - maxd - 1;
            need.push((copy_len, o));
            match word_answer(copy_len, o) { Some(h) if h != "!" => { let n = if h == "-" { 0 } else { h.len() / 2 }; if n <= mb_len { actual = n; } else { actual = mb_len; } } _ => break }
            mb_len -= actual;
        } else {
            actual = mb_len.min(copy_len);
            mb_len -= actual;
            if idx != 1 || off != 0 { cache = [fd as i32, cache[0], cache[1], cache[2]]; }
        }
        nbe += actual;
    }
    need
}

fn crafted_line(c: &Crafted) -> String {
    let cm = if c.cmds.is_empty() { "-".to_string() } else { c.cmds.iter().map(cmd_tok).collect::<Vec<_>>().join(";") };
    let mut words: Vec<String> = Vec::new();
    let mut seen = std::collections::BTreeSet::new();
    for (l, o) in needed_words(c) { if seen.insert((l, o)) { if let Some(h) = word_answer(l, o) { words.push(format!("{}:{}:{}", l, o, h)); } } }
    format!("recoder pcq {} {} {} {} {} {} {},{},{},{} {} {} {} {} {} {} {} {} {}",
        VARIANTS[c.variant as usize], c.lgwin, c.npostfix, c.ndirect, c.hedq, c.nbe, c.dc[0], c.dc[1], c.dc[2], c.dc[3], c.mask, c.pos, c.len, hex(&c.ring),
        cm, c.btl.tok(), c.btc.tok(), c.btd.tok(), if words.is_empty() { "-".to_string() } else { words.join(",") })
}

fn parse_split(s: &str) -> Option<Split> {
    let f: Vec<&str> = s.split('/').collect();
    if f.len() != 3 { return None; }
    let l = |x: &str| -> Vec<u64> { if x == "-" { vec![] } else { x.split(',').filter_map(|y| y.parse().ok()).collect() } };
    Some(Split { num_types: f[0].parse().ok()?, types: l(f[1]).iter().map(|x| *x as u8).collect(), lengths: l(f[2]).iter().map(|x| *x as u32).collect() })
}
fn parse_crafted(line: &str) -> Option<Crafted> {
    let f: Vec<&str> = line.split_whitespace().collect();
    if f.len() != 19 || f[0] != "recoder" || f[1] != "pcq" { return None; }
    let variant = VARIANTS.iter().position(|v| *v == f[2])? as u32;
    let dcv: Vec<i32> = f[8].split(',').filter_map(|x| x.parse().ok()).collect();
    if dcv.len() != 4 { return None; }
    let cmds = if f[13] == "-" { vec![] } else { f[13].split(';').filter_map(|t| { let v: Vec<u64> = t.split(':').filter_map(|x| x.parse().ok()).collect(); if v.len() == 5 { Some(Command { insert_len_: v[0] as u32, copy_len_: v[1] as u32, dist_extra_: v[2] as u32, cmd_prefix_: v[3] as u16, dist_prefix_: v[4] as u16 }) } else { None } }).collect() };
    Some(Crafted { variant, lgwin: f[3].parse().ok()?, npostfix: f[4].parse().ok()?, ndirect: f[5].parse().ok()?, hedq: f[6].parse().ok()?, nbe: f[7].parse().ok()?, dc: [dcv[0], dcv[1], dcv[2], dcv[3]],
        mask: f[9].parse().ok()?, pos: f[10].parse().ok()?, len: f[11].parse().ok()?, ring: unhex(f[12]), cmds, btl: parse_split(f[14])?, btc: parse_split(f[15])?, btd: parse_split(f[16])? })
}

struct Stop;

/// run the real recoder on a crafted case: Some((nbe', ir)) or None = panic before the callback
fn run_crafted(c: &Crafted) -> Option<(usize, Vec<Ir>)> {
    let mut got: Option<Vec<Ir>> = None;
    let mut rs = RecoderState { num_bytes_encoded: c.nbe };
    let mut p = base_params(5, c.lgwin);
    p.log_meta_block = true;
    p.high_entropy_detection_quality = c.hedq;
    p.dist = BrotliDistanceParams { distance_postfix_bits: c.npostfix, num_direct_distance_codes: c.ndirect, alphabet_size: 16 + c.ndirect + (48 << c.npostfix), max_distance: 0x3ff_fffc };
    let _ = catch_unwind(AssertUnwindSafe(|| {
        let mut alloc = EncAlloc::default();
        let mut storage = vec![0u8; 4 * c.len + 4096];
        let mut six = 0usize;
        let mut cb = |_pm: &mut interface::PredictionModeContextMap<InputReferenceMut>, cmds: &mut [interface::StaticCommand], mb: InputPair, _a: &mut EncAlloc| {
            let m = record(cmds, &mb);
            got = Some(m.ir.into_iter().map(|x| match x { Ir::Lit { off, len, he, .. } => Ir::Lit { off, len, he, bytes: None }, o => o }).collect());
            std::panic::panic_any(Stop);
        };
        match c.variant {
            0 => bbs::BrotliStoreMetaBlockFast(&mut alloc, &c.ring, c.pos, c.len, c.mask, 0, &p, &c.dc, &c.cmds, c.cmds.len(), &mut rs, &mut six, &mut storage, &mut cb),
            1 => bbs::BrotliStoreMetaBlockTrivial(&mut alloc, &c.ring, c.pos, c.len, c.mask, 0, &p, &c.dc, &c.cmds, c.cmds.len(), &mut rs, &mut six, &mut storage, &mut cb),
            2 => {
                let mut mb = MetaBlockSplit::<EncAlloc>::new();
                let fill = |a: &mut EncAlloc, s: &Split, dst: &mut brotli::enc::block_split::BlockSplit<EncAlloc>| {
                    dst.num_types = s.num_types;
                    dst.num_blocks = s.types.len().min(s.lengths.len());
                    let mut t = <EncAlloc as Allocator<u8>>::alloc_cell(a, s.types.len());
                    t.slice_mut().copy_from_slice(&s.types);
                    let mut l = <EncAlloc as Allocator<u32>>::alloc_cell(a, s.lengths.len());
                    l.slice_mut().copy_from_slice(&s.lengths);
                    dst.types = t;
                    dst.lengths = l;
                };
                fill(&mut alloc, &c.btl, &mut mb.literal_split);
                fill(&mut alloc, &c.btc, &mut mb.command_split);
                fill(&mut alloc, &c.btd, &mut mb.distance_split);
                bbs::BrotliStoreMetaBlock(&mut alloc, &c.ring, c.pos, c.len, c.mask, 0, 0, 0, &p, brotli::enc::histogram::ContextType::CONTEXT_UTF8, &c.dc, &c.cmds, c.cmds.len(), &mut mb, &mut rs, &mut six, &mut storage, &mut cb)
            }
            _ => bbs::BrotliStoreUncompressedMetaBlock(&mut alloc, 0, &c.ring, c.pos, c.mask, &p, c.len, &mut rs, &mut six, &mut storage, false, &mut cb),
        }
    }));
    got.map(|ir| (rs.num_bytes_encoded, ir))
}

fn answer(r: &Option<(usize, Vec<Ir>)>) -> String {
    match r { None => "panic".to_string(), Some((nbe, ir)) => { let mut s = format!("ok {}", nbe); for t in ir { s.push(' '); s.push_str(&t.token()); } s } }
}

/// `allow_zero`: zero-length blocks are generated only for the literal split: for the command / distance splits a zero
/// count makes `btypec_sub -= 1` underflow (panic under debug semantics = the model's outcome, silent wrap in this
/// release build), so those inputs are outside the overflow-free domain of the correspondence.
fn gen_split(rng: &mut Rng, total: usize, broken: bool, allow_zero: bool) -> Split {
    // a partition of `total` items into blocks with types; sometimes trivially one type
    if total == 0 || rng.chance(1, 3) { return if rng.chance(1, 2) { Split { num_types: 1, types: vec![], lengths: vec![] } } else { Split { num_types: 1, types: vec![0], lengths: vec![total as u32] } }; }
    let nb = rng.range(2, 6.min(total as u64).max(2)) as usize;
    let nt = rng.range(2, 4) as usize;
    let mut lengths = Vec::new();
    let mut left = total;
    for i in 0..nb { let l = if i + 1 == nb { left } else { rng.range(if left > 0 { 1 } else { 0 }, (left / 2).max(1) as u64).min(left as u64) as usize }; if l == 0 && !allow_zero { break; } lengths.push(l as u32); left -= l; }
    let nb = lengths.len();
    if nb == 0 { return Split { num_types: 1, types: vec![], lengths: vec![] }; }
    let mut types: Vec<u8> = (0..nb).map(|i| if i < nt { i as u8 } else { rng.below(nt as u64) as u8 }).collect();
    types[0] = 0;
    let num_types = *types.iter().max().unwrap() as usize + 1;
    let mut s = Split { num_types, types, lengths };
    if broken {
        match rng.below(5) {
            0 => { let k = s.lengths.len() - 1; s.lengths[k] = s.lengths[k].saturating_sub(rng.range(1, 3) as u32).max(if allow_zero { 0 } else { 1 }); } // too short: runs out of blocks
            1 => { s.lengths.truncate(s.lengths.len() - 1); s.types.truncate(s.types.len() - 1); s.num_types = *s.types.iter().max().unwrap_or(&0) as usize + 1; }
            2 => { s.num_types += 1; }                       // assert in LogMetaBlock
            3 => { let k = rng.below(s.lengths.len() as u64) as usize; if allow_zero { s.lengths[k] = 0; } }
            _ => { s.lengths.push(7); s.types.push(0); }
        }
    }
    s
}

fn gen_crafted(rng: &mut Rng) -> Crafted {
    let lgwin = *rng.pick(&[10i32, 10, 11, 12, 16, 22]);
    let window = (1usize << lgwin) - 16;
    let (npostfix, ndirect) = match rng.below(4) { 0 | 1 => (0u32, 0u32), 2 => (1, 12), _ => { let np = rng.below(4) as u32; (np, (rng.below(16) as u32) << np) } };
    let mask = (1usize << rng.range(6, 12)) - 1;
    let len = if rng.chance(1, 10) { rng.below(4) as usize } else { rng.range(4, (mask + 1).min(1500) as u64) as usize };
    let pos = match rng.below(4) { 0 => rng.below(3 * (mask as u64 + 1)) as usize, 1 => (mask + 1 - (len / 2).min(mask)) + (mask + 1) * rng.below(3) as usize, 2 => (mask + 1) * rng.below(3) as usize, _ => (mask + 1).saturating_sub(len) };
    let nbe = match rng.below(5) { 0 => 0, 1 => rng.below(40) as usize, 2 => window + rng.below(100) as usize, 3 => window.saturating_sub(rng.below(len as u64 + 20) as usize), _ => rng.below(3000) as usize };
    let mut dc = [4i32, 11, 15, 16];
    if rng.chance(1, 3) { for x in dc.iter_mut() { *x = rng.range(1, 200) as i32; } }
    if rng.chance(1, 12) { dc = [0x7ffffff0; 4]; }
    let variant = *rng.pick(&[0u32, 1, 2, 2, 2, 2, 3]);
    let hedq = *rng.pick(&[0u8, 0, 1]);
    let mut ring: Vec<u8> = (0..mask + 1).map(|_| rng.next() as u8).collect();
    let dist = BrotliDistanceParams { distance_postfix_bits: npostfix, num_direct_distance_codes: ndirect, alphabet_size: 0, max_distance: 0 };
    // build commands + bytes together
    let mut cmds: Vec<Command> = Vec::new();
    let mut bytes: Vec<u8> = Vec::new();
    let mut cache = dc;
    let mut run = nbe;
    let truncating = rng.chance(1, 6);
    let mut n_lit = 0usize; let mut n_dist = 0usize;
    while bytes.len() < len && cmds.len() < 60 {
        let rem = len - bytes.len();
        let ins = if rng.chance(1, 4) { 0 } else { rng.range(1, 30.min(rem as u64)) as usize };
        for _ in 0..ins { bytes.push(rng.next() as u8); }
        n_lit += ins;
        run += ins;
        let rem = len - bytes.len();
        if rem == 0 && !truncating { let mut c = Command::default(); c.init_insert(ins); cmds.push(c); break; }
        let maxd = run.min(window);
        if rng.chance(1, 5) {
            // static dictionary word
            let ws = rng.range(4, 24) as usize;
            let bits = kBrotliDictionarySizeBitsByLength[ws] as usize;
            let id = rng.below(1 << bits) as usize;
            let tr = if rng.chance(1, 2) { 0 } else { rng.below(121) as usize };
            let w = expand_word(ws, id, tr).unwrap();
            let distance = maxd + 1 + id + (tr << bits);
            cmds.push(Command::new(&dist, ins, w.len(), ws, distance + 15));
            if w.len() <= rem || truncating { let k = w.len().min(rem); bytes.extend_from_slice(&w[..k]); run += k; } else { bytes.extend_from_slice(&w[..rem]); run += rem; }
        } else {
            let clen = if truncating && rng.chance(1, 3) { rem + rng.range(1, 20) as usize } else { rng.range(2, (rem as u64).max(2).min(70)) as usize };
            let distance = match rng.below(6) { 0 => cache[rng.below(4) as usize] as usize, 1 => (cache[rng.below(2) as usize] as usize).wrapping_add(rng.below(7) as usize).wrapping_sub(3), 2 => rng.range(1, 16) as usize, 3 => maxd, _ => rng.range(1, maxd.max(1) as u64) as usize };
            let distance = if distance == 0 || distance > 0x3ff_fff0 { 1 } else { distance };
            let code = ComputeDistanceCode(distance, maxd, &cache);
            if distance <= maxd && code > 0 { cache = [distance as i32, cache[0], cache[1], cache[2]]; }
            let c = Command::new(&dist, ins, clen, clen, code);
            if c.cmd_prefix_ >= 128 { n_dist += 1; }
            cmds.push(c);
            let k = clen.min(rem);
            for _ in 0..k { bytes.push(rng.next() as u8); }
            run += k;
        }
    }
    bytes.resize(len, 0x55);
    // place the bytes into the ring at pos (wrapping)
    for (i, b) in bytes.iter().enumerate() { ring[(pos + i) & mask] = *b; }
    // mutations
    if rng.chance(1, 7) && !cmds.is_empty() {
        let k = rng.below(cmds.len() as u64) as usize;
        match rng.below(6) {
            0 => cmds[k].insert_len_ = cmds[k].insert_len_.wrapping_add(rng.range(1, 2000) as u32),
            1 => cmds[k].copy_len_ = rng.next() as u32,
            2 => cmds[k].dist_prefix_ = ((rng.range(1, 24) as u16) << 10) | (rng.below(1024) as u16), // nbits 1..24: no u32 overflow in distance_index_and_offset
            3 => cmds[k].dist_extra_ = rng.next() as u32 & 0xffffff,
            4 => { cmds.truncate(k); }
            _ => cmds[k].cmd_prefix_ = rng.next() as u16 % 704,
        }
    }
    if rng.chance(1, 25) { ring.truncate(mask + 1 - rng.range(1, 8) as usize); }
    let broken = rng.chance(1, 8);
    let (b1, b2, b3) = (rng.chance(1, 2), rng.chance(1, 2), rng.chance(1, 2));
    let btl = if variant == 2 { gen_split(rng, n_lit, broken && b1, true) } else { Split { num_types: 1, types: vec![], lengths: vec![] } };
    let btc = if variant == 2 { gen_split(rng, cmds.len(), broken && b2, false) } else { Split { num_types: 1, types: vec![], lengths: vec![] } };
    let btd = if variant == 2 { gen_split(rng, n_dist, broken && b3, false) } else { Split { num_types: 1, types: vec![], lengths: vec![] } };
    Crafted { variant, lgwin, npostfix, ndirect, hedq, nbe, dc, mask, pos, len, ring, cmds, btl, btc, btd }
}

/// `recoder stride <n> <withLits>`: the REAL `StrideEval` after `n` `BlockSwitchLiteral` pushes (types cycling 0..3), each
/// optionally followed by a 3-byte literal, then `choose_stride` on `num_types()` slots: `ok <num_types>` | `panic`
fn stride_answer(n: usize, with_lits: bool) -> String {
    use brotli::enc::interface::{CommandProcessor, LiteralBlockSwitch, LiteralCommand, LiteralPredictionModeNibble, PredictionModeContextMap, FeatureFlagSliceType};
    use brotli::InputReference;
    let r = catch_unwind(AssertUnwindSafe(|| {
        let data: Vec<u8> = (0..1024usize).map(|i| (i * 7) as u8).collect();   // the interpreter reads input[local_byte_offset - k]: 3 bytes per literal pushed
        let input = InputPair(InputReference { data: &data[..], orig_offset: 0 }, InputReference { data: &[], orig_offset: data.len() });
        let mut lcm = [0u8; 0];
        let mut dcm = vec![0u8; PredictionModeContextMap::<InputReference>::size_of_combined_array(0)];
        let mut pm = PredictionModeContextMap::<InputReferenceMut> {
            literal_context_map: InputReferenceMut { data: &mut lcm[..], orig_offset: 0 },
            predmode_speed_and_distance_context_map: InputReferenceMut { data: &mut dcm[..], orig_offset: 0 },
        };
        pm.set_literal_prediction_mode(LiteralPredictionModeNibble(0));
        let mut alloc = EncAlloc::default();
        let params = base_params(9, 18);
        let mut se = brotli::enc::stride_eval::StrideEval::<EncAlloc>::new(&mut alloc, input, &pm, &params);
        for k in 0..n {
            se.push(IrCmd::BlockSwitchLiteral(LiteralBlockSwitch::new((k % 4) as u8, 0)));
            if with_lits {
                se.push(IrCmd::Literal(LiteralCommand { data: InputReference { data: &data[0..3], orig_offset: 0 }, prob: FeatureFlagSliceType::<InputReference>::default(), high_entropy: false }));
            }
        }
        let nt = se.num_types();
        let mut strides = vec![0u8; nt];
        se.choose_stride(&mut strides[..]);
        nt
    }));
    match r { Ok(nt) => format!("ok {}", nt), Err(_) => "panic".to_string() }
}

fn tables_answer() -> String {
    format!("bits={} offsets={} dictlen={}", kBrotliDictionarySizeBitsByLength.iter().map(|x| x.to_string()).collect::<Vec<_>>().join(","),
        kBrotliDictionaryOffsetsByLength.iter().map(|x| x.to_string()).collect::<Vec<_>>().join(","), kBrotliDictionary.len())
}

/// smallest-input search for the `choose_stride` assertion (stride_detection_quality >= 3 and 3, 7, 15, .. literal blocks)
fn probe() {
    std::panic::set_hook(Box::new(|_| {}));
    let mut rng = Rng::new(77);
    for q in [5, 6, 9, 10, 11] {
        for size in [600usize, 1200, 2500, 5000, 10000, 20000, 40000] {
            for trial in 0..40 {
                // three regimes: text, noise-ish small alphabet, digits
                let mut v: Vec<u8> = Vec::new();
                let seg = size / 3;
                while v.len() < seg { v.extend_from_slice(TEXT); }
                v.truncate(seg);
                for _ in 0..seg { v.push(128 + (rng.next() % 64) as u8); }
                for i in 0..seg { v.push(b'0' + ((i * 7 + trial) % 10) as u8); }
                let mut p = base_params(q, 18);
                p.log_meta_block = true;
                p.stride_detection_quality = 3;
                let mut nbl = 0usize;
                let r = encode_stream_x(&v, &[], false, &p, &[1 << 22], 1 << 16, &mut |_, cmds: &mut [interface::StaticCommand], _, _| { nbl = cmds.iter().filter(|c| matches!(c, IrCmd::BlockSwitchLiteral(_))).count(); });
                if let Err(e) = r { println!("q{} size {} trial {}: {}", q, v.len(), trial, e); println!("  (text x {} ++ {} bytes 128+(prng%64) ++ {} digits)", seg, seg, seg); return; }
                if trial == 0 { println!("q{} size {}: ok, {} literal block switches", q, v.len(), nbl); }
            }
        }
    }
}

pub fn run_cmd(args: &Args) {
    if args.rest.first().map(|s| s.as_str()) == Some("probe") { probe(); return; }
    let thorough = args.tier == "thorough";
    let mut corr = Corr::new(&args.out);
    let mut rep = Report::default();
    std::panic::set_hook(Box::new(|_| {}));

    // ---- correspondence
    corr.case("recoder tables", &tables_answer());
    // StrideEval bookkeeping for every block count 0..=260 (score array 32 -> 4096), with and without literals
    for n in 0..=260usize { for wl in [false, true] { corr.case(&format!("recoder stride {} {}", n, wl as u8), &stride_answer(n, wl)); } }
    rep.add("corr.stride_lines", 522);
    if let Ok(rd) = std::fs::read_dir("/verif/corpus/recoder") {
        let mut files: Vec<_> = rd.filter_map(|e| e.ok()).map(|e| e.path()).collect();
        files.sort();
        for f in files { if let Ok(t) = std::fs::read_to_string(&f) { for l in t.lines() { if let Some(c) = parse_crafted(l) { corr.case(&crafted_line(&c), &answer(&run_crafted(&c))); rep.count("corr.corpus"); } } } }
    }
    let n = if thorough { 200_000 } else { 24_000 };
    let seed = args.seed;
    let res = par_tasks(64, move |t| {
        let mut rng = Rng::new(seed ^ 0xc4af7ed ^ ((t as u64) << 20));
        let mut lines = Vec::new();
        let mut r = Report::default();
        for _ in 0..n / 64 {
            let c = gen_crafted(&mut rng);
            let got = run_crafted(&c);
            let line = crafted_line(&c);
            if line.len() >= 65000 { continue; }
            match &got {
                None => r.count("corr.panic"),
                Some((_, ir)) => {
                    r.count("corr.ok");
                    r.count(&format!("corr.variant.{}", VARIANTS[c.variant as usize]));
                    if ir.iter().any(|x| matches!(x, Ir::Dict { .. })) { r.count("corr.with_dict_word"); }
                    if ir.iter().any(|x| matches!(x, Ir::BsL(t, _) if *t != 0)) { r.count("corr.with_literal_block_switch"); }
                    if ir.iter().any(|x| matches!(x, Ir::BsC(_))) { r.count("corr.with_command_block_switch"); }
                    if ir.iter().any(|x| matches!(x, Ir::BsD(_))) { r.count("corr.with_distance_block_switch"); }
                    if (c.pos & c.mask) + c.len > c.mask + 1 { r.count("corr.wrapped_input_pair"); }
                    if ir.iter().any(|x| matches!(x, Ir::Lit { he: true, .. })) { r.count("corr.high_entropy_literal"); }
                }
            }
            lines.push((line, answer(&got)));
        }
        (lines, r)
    });
    for (lines, r) in res { for (o, a) in lines { corr.case(&o, &a); } rep.merge(r); }

    // ---- search
    let cs = std::sync::Arc::new(rcases(thorough, args.seed));
    let cs2 = cs.clone();
    let reps = par_tasks(cs.len(), move |i| { let mut r = Report::default(); let mut l = Vec::new(); run_rcase(&cs2[i], &mut r, &mut l); (r, l) });
    for (r, l) in reps { rep.merge(r); for (o, a) in l { corr.case(&o, &a); } }
    let _ = std::panic::take_hook();
    corr.finish();
    rep.write(&args.out);
}
