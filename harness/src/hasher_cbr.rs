//! engine `hasher cbr` — `CreateBackwardReferences` (quality 2–9) on the real hasher types: the command
//! arrays the real loop produces replay, under an independent transcription of the RFC 7932 decoder
//! rules, to exactly the input block (supports C01: `cmdOK` / `lockstep` of BV.MetaBlock hold for
//! the commands of the real loop).  H10 / Zopfli (quality 10, 11) is out of scope.
//!
//! Search stage: a generated stream is held in a ring buffer as the encoder keeps it; the hasher is
//! primed with `StoreRange` over the history; `BrotliCreateBackwardReferences` runs over a block of
//! <= 4 KiB at a position that may lie beyond a ring wrap / beyond 2 GiB, with an encoder-reachable
//! distance cache, a pending `last_insert_len`, with or without the static dictionary, and
//! literal_byte_score variants.  Oracle: every command's fields are in range (the `cmdOK` conditions),
//! the commands + the closing insert-only command replay (literals from the block, copies from the
//! text produced so far, dictionary words expanded with the RFC cut-off transforms) to exactly the
//! block, in lock step with the encoder's position bookkeeping; `num_literals` and `last_insert_len`
//! add up; no panic.
//!
//! Correspondence: request line
//!   `hasher cbr <kind> <mask> <data> <pre-ops…> C <quality> <lgwin> <max_distance> <np> <nd> <position>
//!        <num_bytes> <cache,16> <last_insert_len> <num_literals> <lookups:hits:use_dict> <num_last> <lbs> [D<cm>=slots]…`
//! answer: `<n_cmds> <cmd_digest> <cache,16> <last_insert_len> <num_literals> <num_digest> <buckets_digest> <lookups> <hits>` | `panic`
//! (`cmd_digest` = FNV over the five fields of every command in order).
//!
//! non-trivial case: the real call produced at least one copy command.
use super::flm::*;
use super::*;
use brotli::enc::backward_references::BrotliCreateBackwardReferences;
use brotli::enc::command::Command;
use brotli::enc::dictionary_hash::kStaticDictionaryHash;
use brotli::enc::static_dict::kBrotliEncDictionary;

const CUTOFF: [usize; 10] = [0, 12, 27, 23, 42, 63, 56, 48, 59, 64];

pub struct CbrCase {
    pub mask: usize,
    pub data: Vec<u8>,
    pub pre: Vec<String>,
    pub quality: i32,
    pub lgwin: i32,
    pub position: usize,
    pub num_bytes: usize,
    pub cache: [i32; 16],
    pub last_insert_len: usize,
    pub num_literals: usize,
    pub use_dict: bool,
    pub lbs: u32,
}

pub struct CbrOut {
    pub cmds: Vec<Command>,
    pub cache: [i32; 16],
    pub last_insert_len: usize,
    pub num_literals: usize,
}

fn set_lbs(h: &mut UH, lbs: u32) {
    match h {
        UnionHasher::H2(x) => x.h9_opts.literal_byte_score = lbs,
        UnionHasher::H3(x) => x.h9_opts.literal_byte_score = lbs,
        UnionHasher::H4(x) => x.h9_opts.literal_byte_score = lbs,
        UnionHasher::H54(x) => x.h9_opts.literal_byte_score = lbs,
        UnionHasher::H5(x) => x.h9_opts.literal_byte_score = lbs,
        UnionHasher::H5q5(x) => x.h9_opts.literal_byte_score = lbs,
        UnionHasher::H5q7(x) => x.h9_opts.literal_byte_score = lbs,
        UnionHasher::H6(x) => x.h9_opts.literal_byte_score = lbs,
        UnionHasher::H9(x) => x.h9_opts.literal_byte_score = lbs,
        _ => {}
    }
}

fn params_of(c: &CbrCase) -> brotli::enc::BrotliEncoderParams {
    let mut p = brotli::enc::encode::BrotliEncoderInitParams();
    p.quality = c.quality;
    p.lgwin = c.lgwin;
    p.use_dictionary = c.use_dict;
    p
}

/// run the real code; None = panic
pub fn cbr_run(ctx: &mut Ctx, c: &CbrCase) -> Option<(CbrOut, String)> {
    let h = &mut ctx.h;
    zero_tables(h);
    {
        let cm = h.GetHasherCommon();
        cm.dict_num_lookups = 0;
        cm.dict_num_matches = 0;
    }
    set_lbs(h, c.lbs);
    if !apply_pre(h, &c.data, c.mask, &c.pre) { return None; }
    let params = params_of(c);
    let mut cache = c.cache;
    let mut last = c.last_insert_len;
    let mut cmds = vec![Command::default(); c.num_bytes + 8];
    let mut ncmd = 0usize;
    let mut nlit = c.num_literals;
    let mut alloc = StandardAlloc::default();
    let r = catch_unwind(AssertUnwindSafe(|| {
        BrotliCreateBackwardReferences(&mut alloc, &kBrotliEncDictionary, c.num_bytes, c.position, &c.data, c.mask, &params, h, &mut cache, &mut last, &mut cmds, &mut ncmd, &mut nlit)
    }));
    if r.is_err() { return None; }
    cmds.truncate(ncmd);
    let mut d = FNV_INIT;
    for x in &cmds {
        for v in [x.insert_len_ as u64, x.copy_len_ as u64, x.dist_extra_ as u64, x.cmd_prefix_ as u64, x.dist_prefix_ as u64] { d = fnv_step(d, v); }
    }
    let (dn, _) = digest_u16(num_slice(h));
    let (db, _) = digest_u32(bucket_slice(h));
    let cm = h.GetHasherCommon();
    let ans = format!("{} {} {} {} {} {} {} {} {}", cmds.len(), d, cache.iter().map(|x| x.to_string()).collect::<Vec<_>>().join(","), last, nlit, dn, db, cm.dict_num_lookups, cm.dict_num_matches);
    Some((CbrOut { cmds, cache, last_insert_len: last, num_literals: nlit }, ans))
}

fn slots_token(data: &[u8], cm: usize, shallow: bool) -> Option<String> {
    if cm + 4 > data.len() { return None; }
    let w = u32::from_le_bytes([data[cm], data[cm + 1], data[cm + 2], data[cm + 3]]);
    let key = ((w.wrapping_mul(0x1e35a7bd) >> 18) << 1) as usize;
    let d = &kBrotliEncDictionary;
    let mut items = vec![];
    let mut any = false;
    for k in 0..(if shallow { 1 } else { 2 }) {
        let item = kStaticDictionaryHash[key + k] as usize;
        let len = item & 0x1f;
        let dist = item >> 5;
        let (bits, word) = if item != 0 && len < 25 {
            any = true;
            let off = d.offsets_by_length[len] as usize + len * dist;
            (d.size_bits_by_length[len] as usize, hex(&d.data[off..(off + len).min(d.data.len())]))
        } else { (0, "-".to_string()) };
        items.push(format!("{}.{}.{}", item, bits, word));
    }
    if any { Some(items.join("+")) } else { None }
}

pub fn cbr_request(kind: &Kind, ctx: &Ctx, c: &CbrCase) -> Option<String> {
    let spec = kind.spec.as_ref()?;
    let shallow = matches!(kind.family, Family::Basic { .. });
    let cache = c.cache.iter().map(|x| x.to_string()).collect::<Vec<_>>().join(",");
    let mut r = format!(
        "hasher cbr {} {} {}{} C {} {} {} 0 0 {} {} {} {} {} 0:0:{} {} {}",
        spec, mask_token(c.mask), hex(&c.data), c.pre.iter().map(|t| format!(" {}", t)).collect::<String>(),
        c.quality, c.lgwin, 0x3ff_fffcusize, c.position, c.num_bytes, cache, c.last_insert_len, c.num_literals,
        c.use_dict as u8, ctx.num_last, c.lbs
    );
    if c.use_dict {
        let mut seen = std::collections::BTreeSet::new();
        for p in c.position..c.position + c.num_bytes {
            let cm = p & c.mask;
            if seen.insert(cm) {
                if let Some(t) = slots_token(&c.data, cm, shallow) { r.push_str(&format!(" D{}={}", cm, t)); }
            }
        }
    }
    if r.len() < 65000 { Some(r) } else { None }
}

/// RFC 7932 section 4 (transcribed independently): distance of a distance symbol
fn rfc_distance(sym: usize, extra: usize, np: usize, nd: usize, ring: &[i64; 4]) -> Option<(i64, bool)> {
    Some(match sym {
        0 => (ring[0], false),
        1 => (ring[1], true), 2 => (ring[2], true), 3 => (ring[3], true),
        4 => (ring[0] - 1, true), 5 => (ring[0] + 1, true), 6 => (ring[0] - 2, true), 7 => (ring[0] + 2, true),
        8 => (ring[0] - 3, true), 9 => (ring[0] + 3, true),
        10 => (ring[1] - 1, true), 11 => (ring[1] + 1, true), 12 => (ring[1] - 2, true), 13 => (ring[1] + 2, true),
        14 => (ring[1] - 3, true), 15 => (ring[1] + 3, true),
        _ => {
            if sym < 16 + nd { ((sym - 15) as i64, true) } else {
                let x = sym - nd - 16;
                let hcode = x >> np;
                let lcode = x & ((1 << np) - 1);
                let nbits = 1 + (hcode >> 1);
                let offset = ((2 + (hcode & 1)) << nbits) - 4;
                ((((offset + extra) << np) + lcode + nd + 1) as i64, true)
            }
        }
    })
}

/// the soundness oracle: cmdOK-style field checks + lock-step replay; Err(signature suffix, text)
pub fn judge_cbr(c: &CbrCase, o: &CbrOut, stream: &[u8], base: usize) -> Result<u64, (String, String)> {
    let window = (1usize << c.lgwin) - 16;
    let blk0 = c.position - base;                       // index of the block in the stream
    let start = blk0 - c.last_insert_len;               // pending literals precede the block
    let end = blk0 + c.num_bytes;
    let mut out: Vec<u8> = stream[..start].to_vec();    // text produced so far (history)
    let mut ring: [i64; 4] = [c.cache[0] as i64, c.cache[1] as i64, c.cache[2] as i64, c.cache[3] as i64];
    let mut ncopy = 0u64;
    let mut nlit = c.num_literals;
    for (k, cmd) in o.cmds.iter().enumerate() {
        let ins = cmd.insert_len_ as usize;
        let copy_len = (cmd.copy_len_ & 0x1ff_ffff) as usize;
        let delta = (cmd.copy_len_ >> 25) as u8;
        let delta = (delta | ((delta & 0x40) << 1)) as i8;
        let code_len = (copy_len as i64 + delta as i64) as usize;
        let sym = (cmd.dist_prefix_ & 0x3ff) as usize;
        let nbits = (cmd.dist_prefix_ >> 10) as usize;
        if ins > 1 << 24 || code_len < 2 || copy_len == 0 { return Err(("cbr-field-range".into(), format!("command {}: insert {} copy {} code {}", k, ins, copy_len, code_len))); }
        if sym >= 64 { return Err(("cbr-distance-symbol".into(), format!("command {}: distance symbol {} outside the 64-symbol alphabet", k, sym))); }
        if cmd.cmd_prefix_ < 128 && sym != 0 { return Err(("cbr-implicit-distance".into(), format!("command {}: cmd_prefix {} with distance symbol {}", k, cmd.cmd_prefix_, sym))); }
        if sym >= 16 && (cmd.dist_extra_ as u64) >= (1u64 << nbits) { return Err(("cbr-extra-bits".into(), format!("command {}: extra {} does not fit {} bits", k, cmd.dist_extra_, nbits))); }
        if out.len() + ins > end { return Err(("cbr-insert-overrun".into(), format!("command {}: insert {} beyond the block", k, ins))); }
        let at = out.len();
        out.extend_from_slice(&stream[at..at + ins]);
        nlit += ins;
        let (d, upd) = rfc_distance(sym, cmd.dist_extra_ as usize, 0, 0, &ring).unwrap();
        if d <= 0 { return Err(("cbr-distance-nonpositive".into(), format!("command {}: distance {}", k, d))); }
        let d = d as usize;
        let maxd = (base + out.len()).min(window);
        ncopy += 1;
        if d <= maxd {
            if code_len != copy_len { return Err(("cbr-copy-len-code".into(), format!("command {}: copy {} code {}", k, copy_len, code_len))); }
            if out.len() + copy_len > end { return Err(("cbr-copy-overrun".into(), format!("command {}: copy {} beyond the block", k, copy_len))); }
            if d > out.len() { return Err(("cbr-distance-before-stream".into(), format!("command {}: distance {} at text length {}", k, d, out.len()))); }
            for _ in 0..copy_len { let b = out[out.len() - d]; out.push(b); }
            if upd { ring = [d as i64, ring[0], ring[1], ring[2]]; }
        } else {
            if !c.use_dict { return Err(("cbr-distance-beyond-window".into(), format!("command {}: distance {} > {} without a dictionary", k, d, maxd))); }
            if !(4..=24).contains(&code_len) { return Err(("cbr-dict-word-length".into(), format!("command {}: word length {}", k, code_len))); }
            let dd = &kBrotliEncDictionary;
            let bits = dd.size_bits_by_length[code_len] as usize;
            let wid = d - maxd - 1;
            let (idx, tid) = (wid & ((1 << bits) - 1), wid >> bits);
            let cut = match CUTOFF.iter().position(|&t| t == tid) { Some(x) => x, None => return Err(("cbr-dict-transform".into(), format!("command {}: transform {}", k, tid))) };
            if code_len - cut != copy_len { return Err(("cbr-dict-copy-len".into(), format!("command {}: word {} cut {} copy_len {}", k, code_len, cut, copy_len))); }
            let off = dd.offsets_by_length[code_len] as usize + code_len * idx;
            if out.len() + copy_len > end { return Err(("cbr-copy-overrun".into(), format!("command {}: word beyond the block", k))); }
            out.extend_from_slice(&dd.data[off..off + copy_len]);
        }
        if out[at..] != stream[at..out.len()] { return Err(("cbr-replay-differs".into(), format!("command {} (insert {} copy {} distance {}): replayed bytes differ from the input", k, ins, copy_len, d))); }
    }
    if out.len() + o.last_insert_len != end { return Err(("cbr-lockstep".into(), format!("commands cover {} bytes + last_insert_len {} != {}", out.len() - start, o.last_insert_len, end - start))); }
    if nlit != o.num_literals { return Err(("cbr-num-literals".into(), format!("num_literals {} but the commands insert {}", o.num_literals, nlit))); }
    for k in 0..4 { if ring[k] != o.cache[k] as i64 { return Err(("cbr-cache-differs".into(), format!("distance cache {:?} but the decoder's ring is {:?}", &o.cache[..4], ring))); } }
    Ok(ncopy)
}

fn gen_cbr(kind: &Kind, ctx: &Ctx, rng: &mut Rng) -> (CbrCase, Vec<u8>, usize) {
    let lg = *rng.pick(&[11u32, 12, 13]);
    let size = 1usize << lg;
    let mask = size - 1;
    let tail = size / 2;
    let lgwin = lg as i32 - 1;
    let use_dict = rng.chance(1, 3);
    let nb_max = if use_dict { 200 } else { (size / 2).min(4096) };
    let num_bytes = match rng.below(6) { 0 => rng.range(0, 12) as usize, 1 => rng.range(12, 80) as usize, _ => rng.range(20, nb_max as u64) as usize };
    let high = rng.chance(1, 5);
    // beyond 2 GiB the whole ring must have been written (the text before the local stream is not kept)
    let wraps = if high { 1 + rng.below(2) as usize } else { rng.below(3) as usize };
    let n = size * wraps + num_bytes + 16 + rng.below((size / 2) as u64) as usize;
    let (mut stream, dists) = gen_stream(rng, n);
    if use_dict {
        // sprinkle dictionary words over the block
        let d = &kBrotliEncDictionary;
        let mut p = n - num_bytes;
        while p + 30 < n {
            if rng.chance(1, 2) {
                let wlen = rng.range(4, 24) as usize;
                let idx = rng.below(1u64 << d.size_bits_by_length[wlen]) as usize;
                let off = d.offsets_by_length[wlen] as usize + wlen * idx;
                let keep = wlen - (rng.below(3) as usize).min(wlen - 4);
                stream[p..p + keep].copy_from_slice(&d.data[off..off + keep]);
                p += keep;
            }
            p += 1 + rng.below(12) as usize;
        }
    }
    let base: usize = if high { (*rng.pick(&[1usize << 31, (1usize << 31) + (1 << 30)])) & !mask } else { 0 };
    let data = ring_view(&stream, n, lg, tail, base, rng.chance(1, 2));
    let blk0 = n - num_bytes;
    let last_insert_len = if rng.chance(1, 3) { (rng.below(20) as usize).min(blk0) } else { 0 };
    let position = base + blk0;
    let la = kind.lookahead;
    let mut pre = vec![];
    let lo = n.saturating_sub(size).min(blk0);
    let hi = blk0.min(n.saturating_sub(la + 3));
    if hi > lo && rng.chance(7, 8) { pre.push(format!("R:{}:{}", base + lo, base + hi)); }
    let mut cache = [0i32; 16];
    let mut c4 = [4i32, 11, 15, 16];
    for k in 0..4 {
        if rng.chance(1, 2) && !dists.is_empty() { let d = *rng.pick(&dists); if d > 0 && d <= position.min((1usize << lgwin) - 16) { c4[k] = d as i32; } }
    }
    for k in 0..4 { if (c4[k] as usize) > position { c4[k] = if position > 0 { 1 + rng.below(position.min(1000) as u64) as i32 } else { 0x7ffffff0u32 as i32 }; } }
    if rng.chance(1, 10) { c4 = [0x7ffffff0; 4]; }
    cache[..4].copy_from_slice(&c4);
    let quality = match &kind.build { Build::Setup { q, .. } => *q, _ => *rng.pick(&[5, 6, 7, 8, 9]) };
    let lbs = *rng.pick(&[ctx.lbs, ctx.lbs, ctx.lbs, 1, 100, 2000, 60000]);
    (CbrCase { mask, data, pre, quality, lgwin, position, num_bytes, cache, last_insert_len, num_literals: rng.below(50) as usize, use_dict, lbs }, stream, base)
}

pub fn run(args: &Args) {
    let thorough = args.tier == "thorough";
    let seed = args.seed;
    if std::env::var("VERIF_VERBOSE_PANIC").is_err() { std::panic::set_hook(Box::new(|_| {})); }
    let mut corr = Corr::new(&args.out);
    let mut rep = Report::default();
    let mut kinds: Vec<Kind> = selected_kinds(false).into_iter().filter(|k| k.family != Family::H10).collect();
    kinds.extend(small_kinds());
    rep.add("kinds.total", kinds.len() as u64);
    let scale = if thorough { 10 } else { 1 };
    let mut tasks: Vec<(Kind, usize)> = vec![];
    for k in &kinds {
        let shards = if k.table_bytes > (4 << 20) { 4 } else { 2 };
        for sh in 0..shards { tasks.push((k.clone(), sh)); }
    }
    let nt = tasks.len();
    let results = par_tasks(nt, move |i| {
        let (kind, _sh) = tasks[i].clone();
        let mut rng = Rng::new(seed ^ 0xCB2 ^ ((i as u64) << 20));
        let mut rep = Report::default();
        let mut lines: Vec<(String, String)> = vec![];
        let big = kind.table_bytes > (4 << 20);
        let mid = kind.table_bytes > (600 << 10);
        let ncases = (if big { 150 } else if mid { 600 } else { 1500 }) * scale;
        // the model's bucket scans of the deep kinds (block_bits 8/9, H9) cost seconds per line
        let ncorr = (if big { 2 } else if mid { 6 } else { 30 }) * scale.min(3);
        let every = (ncases / ncorr).max(1);
        let mut ctx = Ctx::new(&kind);
        let mut want = false;
        for ci in 0..ncases {
            if ci % every == 0 { want = true; }
            // deep-bucket kinds: only short blocks go to the (slow) model; the oracle below judges every case
            let (c, stream, base) = gen_cbr(&kind, &ctx, &mut rng);
            let emit = want && (!(big || mid) || c.num_bytes <= 256);
            if emit { want = false; }
            rep.evaluations += 1;
            rep.count(&format!("kind.{}", kind.variant));
            rep.count(&format!("quality.{}", c.quality));
            if c.use_dict { rep.count("dict.on"); }
            if c.position >= (1 << 31) - 16 { rep.count("pos.beyond_2g"); }
            if c.last_insert_len > 0 { rep.count("last_insert_len.pending"); }
            let req = cbr_request(&kind, &ctx, &c);
            let case_json = format!("{{\"kind\": {}, \"request\": {}, \"seed\": {}}}", jstr(kind.variant), jstr(&req.clone().map(|r| if r.len() > 6000 { format!("{}…({} chars)", &r[..6000], r.len()) } else { r }).unwrap_or_else(|| format!("(too long) q{} lgwin{} position {} num_bytes {} cache {:?}", c.quality, c.lgwin, c.position, c.num_bytes, &c.cache[..4]))), seed);
            match cbr_run(&mut ctx, &c) {
                None => {
                    rep.count("panic");
                    let sig = "cbr:panic".to_string();
                    if !rep.violations.iter().any(|v| v.signature == sig) { rep.violations.push(Violation { signature: sig, what: "CreateBackwardReferences panicked".into(), case: case_json.clone() }); }
                    if emit { if let Some(rq) = req.clone() { lines.push((rq, "panic".into())); } }
                }
                Some((o, ans)) => {
                    rep.add("commands", o.cmds.len() as u64);
                    match judge_cbr(&c, &o, &stream, base) {
                        Ok(ncopy) => { if ncopy > 0 { rep.nontrivial += 1; } }
                        Err((sig, what)) => {
                            let sig = format!("cbr:{}", sig);
                            rep.count(&format!("viol.{}", sig));
                            if !rep.violations.iter().any(|v| v.signature == sig) { rep.violations.push(Violation { signature: sig, what, case: case_json.clone() }); }
                        }
                    }
                    if o.cmds.iter().any(|x| (x.copy_len_ >> 25) != 0) { rep.count("dict.reference_with_cut"); }
                    if emit { if let Some(rq) = req.clone() { lines.push((rq, ans)); } }
                }
            }
        }
        (lines, rep)
    });
    let mut per_sig: std::collections::BTreeMap<String, usize> = Default::default();
    for (lines, mut r) in results {
        for (rq, an) in lines { corr.case(&rq, &an); }
        let vs = std::mem::take(&mut r.violations);
        rep.merge(r);
        for v in vs {
            let c = per_sig.entry(v.signature.clone()).or_insert(0);
            *c += 1;
            if *c <= 2 { rep.violations.push(v); }
        }
    }
    corr.finish();
    rep.write(&args.out);
}
