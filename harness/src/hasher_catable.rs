//! engine `hasher catable` (w-compose) — the CATABLE PROMISE at the command level (supports C03:
//! `BV.Props.C03Catable`): the commands `CreateBackwardReferences` (quality 2–9, real hasher types) produces for a
//! member in catable mode replay to `h' ++ member` for a FOREIGN decoder history `h'`, a FOREIGN decoder distance
//! ring and a window at least as large, i.e. they are position independent.
//!
//! What "catable mode" is taken to be (read off encode.rs, and compared with it by the `catable …` lines below):
//! `BROTLI_PARAM_CATABLE = 1` sets `catable`, `appendable` and clears `use_dictionary`; `ensure_initialized` then
//! fills all 16 `dist_cache_` and the 4 `saved_dist_cache_` entries with 0x7ffffff0; the first two bytes of the
//! member are stored (uncompressed meta-block) and `last_processed_pos_` starts at 2; positions count from the
//! member start (so `max_distance = min(position, window)` never reaches before the member).
//!
//! Search stage (the real code alone): a generated member is cut into blocks (<= one ring tail each); block after
//! block `BrotliCreateBackwardReferences` runs on the real hasher with the distance cache / `last_insert_len`
//! carried over, starting from the poisoned cache at position 2, dictionary off.  Oracle 1 (`judge_cbr` of
//! `hasher cbr`): per block, lock-step replay under the encoder's own view.  Oracle 2 (here): the WHOLE command
//! sequence is replayed by an independent RFC 7932 decoder that starts with a random foreign history (0..5000
//! bytes), a random foreign distance ring and a window >= the encoder's: no short code may read a ring entry the
//! member has not written itself, no distance may reach before the member start or beyond the encoder's window
//! (a larger one would be a static-dictionary reference), and the output must be `h' ++ member`.
//! non-trivial case: the member produced at least one copy command.
//!
//! Correspondence:
//!  * `catable setparam <catable> <appendable> <use_dictionary> <C|A> <value>` -> `<catable> <appendable> <use_dictionary>`
//!    (real `brotli::enc::encode::set_parameter` vs `BV.Catable.setCatable/setAppendable`);
//!  * `catable init <catable> <appendable> <use_dictionary> <quality>` -> the three flags, `dist_cache_` (16) and
//!    `saved_dist_cache_` (4) of a real encoder after `ensure_initialized` (reached through a zero-length
//!    `compress_stream` call) vs `BV.Catable.sanitize/distCacheAfterInit/savedDistCacheAfterInit`;
//!  * `hasher cbr …` lines (format of `hasher cbr`, answered by the same Lean handler) for blocks of the catable
//!    runs: the real loop vs `BV.Cbr.createBackwardReferences` on the catable parameter set (all-poison cache at
//!    the first block, the carried cache later, dictionary off, position >= 2).
use super::cbr::*;
use super::flm::*;
use super::*;
use brotli::enc::encode::{set_parameter, BrotliEncoderOperation, BrotliEncoderStateStruct};
use brotli::enc::encode::BrotliEncoderParameter;
use brotli::enc::static_dict::kBrotliEncDictionary;

const POISON: i32 = 0x7ffffff0;

fn flags_line(c: bool, a: bool, d: bool) -> String { format!("{} {} {}", c as u8, a as u8, d as u8) }

/// the flag / cache part of the catable parameter set on the real code
fn param_lines(lines: &mut Vec<(String, String)>) {
    for bits in 0..8u32 {
        let (c0, a0, d0) = (bits & 1 != 0, bits & 2 != 0, bits & 4 != 0);
        for (tag, which) in [("C", BrotliEncoderParameter::BROTLI_PARAM_CATABLE), ("A", BrotliEncoderParameter::BROTLI_PARAM_APPENDABLE)] {
            for value in [0u32, 1, 2, 7] {
                let mut p = brotli::enc::encode::BrotliEncoderInitParams();
                p.catable = c0; p.appendable = a0; p.use_dictionary = d0;
                let ok = set_parameter(&mut p, which, value);
                let ans = if ok { flags_line(p.catable, p.appendable, p.use_dictionary) } else { "rejected".to_string() };
                lines.push((format!("catable setparam {} {} {} {} {}", c0 as u8, a0 as u8, d0 as u8, tag, value), ans));
            }
        }
        for quality in [0i32, 1, 2, 5, 9, 10, 11] {
            let r = catch_unwind(AssertUnwindSafe(|| {
                let mut s = BrotliEncoderStateStruct::new(StandardAlloc::default());
                s.params.catable = c0; s.params.appendable = a0; s.params.use_dictionary = d0;
                s.params.quality = quality; s.params.lgwin = 16;
                let mut avail_in = 0usize; let mut in_off = 0usize;
                let mut obuf = [0u8; 64]; let mut avail_out = obuf.len(); let mut out_off = 0usize; let mut total = None;
                let mut nop = |_: &mut brotli::interface::PredictionModeContextMap<brotli::InputReferenceMut>, _: &mut [brotli::interface::StaticCommand], _: brotli::InputPair, _: &mut StandardAlloc| ();
                let ok = s.compress_stream(BrotliEncoderOperation::BROTLI_OPERATION_PROCESS, &mut avail_in, &[], &mut in_off, &mut avail_out, &mut obuf, &mut out_off, &mut total, &mut nop);
                let ans = if !ok { "compress_stream-false".to_string() } else { format!("{} {} {}", flags_line(s.params.catable, s.params.appendable, s.params.use_dictionary),
                    s.dist_cache_.iter().map(|x| x.to_string()).collect::<Vec<_>>().join(","),
                    s.saved_dist_cache_.iter().map(|x| x.to_string()).collect::<Vec<_>>().join(",")) };
                brotli::enc::encode::BrotliEncoderDestroyInstance(&mut s);
                ans
            }));
            lines.push((format!("catable init {} {} {} {}", c0 as u8, a0 as u8, d0 as u8, quality), r.unwrap_or_else(|_| "panic".to_string())));
        }
    }
}

/// RFC 7932 section 4 for NPOSTFIX = NDIRECT = 0 (own transcription): (distance, ring is updated)
fn rfc_distance(sym: usize, extra: usize, _np: usize, _nd: usize, ring: &[i64; 4]) -> Option<(i64, bool)> {
    const IDX: [usize; 16] = [0, 1, 2, 3, 0, 0, 0, 0, 0, 0, 1, 1, 1, 1, 1, 1];
    const OFF: [i64; 16] = [0, 0, 0, 0, -1, 1, -2, 2, -3, 3, -1, 1, -2, 2, -3, 3];
    if sym < 16 { return Some((ring[IDX[sym]] + OFF[sym], sym != 0)); }
    let hcode = sym - 16;
    let nbits = 1 + (hcode >> 1);
    let offset = ((2 + (hcode & 1)) << nbits) - 4;
    Some(((offset + extra + 1) as i64, true))
}

struct Member {
    stream: Vec<u8>,
    cmds: Vec<brotli::enc::command::Command>,
    last_insert_len: usize,
    start: usize, // bytes stored before the first command (the catable prelude: min(2, n))
    window: usize,
}

/// oracle 2: replay behind a foreign history with a foreign ring; Err(signature suffix, text)
fn judge_foreign(m: &Member, rng: &mut Rng) -> Result<u64, (String, String)> {
    let hl = match rng.below(4) { 0 => 0, 1 => 1 + rng.below(8) as usize, _ => 20 + rng.below(5000) as usize };
    let foreign: Vec<u8> = (0..hl).map(|_| rng.below(256) as u8).collect();
    let window2 = match rng.below(3) { 0 => m.window, 1 => 2 * m.window + 16, _ => (1usize << 24) - 16 };
    let mut ring: [i64; 4] = [0; 4];
    let mut own = [false; 4]; // has the member itself written this ring slot?
    for k in 0..4 { ring[k] = if rng.chance(1, 3) { [4i64, 11, 15, 16][k] } else { 1 + rng.below((hl as u64 + 50).max(2)) as i64 }; }
    let mut out = foreign.clone();
    out.extend_from_slice(&m.stream[..m.start]);
    let n = m.stream.len();
    let mut ncopy = 0u64;
    for (k, cmd) in m.cmds.iter().enumerate() {
        let ins = cmd.insert_len_ as usize;
        let copy_len = (cmd.copy_len_ & 0x1ff_ffff) as usize;
        let sym = (cmd.dist_prefix_ & 0x3ff) as usize;
        let at = out.len() - hl;
        if at + ins > n { return Err(("insert-overrun".into(), format!("command {}: insert {} beyond the member", k, ins))); }
        out.extend_from_slice(&m.stream[at..at + ins]);
        let used: Option<usize> = match sym { 0 | 4..=9 => Some(0), 1 | 10..=15 => Some(1), 2 => Some(2), 3 => Some(3), _ => None };
        if let Some(slot) = used {
            if !own[slot] { return Err(("foreign-ring-entry".into(), format!("command {}: distance symbol {} reads ring slot {} which the member has not written", k, sym, slot))); }
        }
        let (d, upd) = rfc_distance(sym, cmd.dist_extra_ as usize, 0, 0, &ring).unwrap();
        if d <= 0 { return Err(("distance-nonpositive".into(), format!("command {}: distance {}", k, d))); }
        let d = d as usize;
        let produced = out.len() - hl; // member bytes the decoder holds
        if d > m.window { return Err(("distance-beyond-window".into(), format!("command {}: distance {} > encoder window {} (a static-dictionary reference or an out-of-window copy)", k, d, m.window))); }
        if d > produced { return Err(("distance-into-foreign-history".into(), format!("command {}: distance {} at member position {}", k, d, produced))); }
        if d > out.len().min(window2) { return Err(("distance-beyond-decoder-window".into(), format!("command {}: distance {}", k, d))); }
        if produced + copy_len > n { return Err(("copy-overrun".into(), format!("command {}: copy {} beyond the member", k, copy_len))); }
        for _ in 0..copy_len { let b = out[out.len() - d]; out.push(b); }
        if upd { ring = [d as i64, ring[0], ring[1], ring[2]]; own = [true, own[0], own[1], own[2]]; }
        ncopy += 1;
    }
    let at = out.len() - hl;
    if at + m.last_insert_len != n { return Err(("lockstep".into(), format!("commands cover {} bytes + last_insert_len {} != {}", at, m.last_insert_len, n))); }
    out.extend_from_slice(&m.stream[at..]);
    if out[..hl] != foreign[..] || out[hl..] != m.stream[..] { return Err(("replay-differs".into(), "replay behind the foreign history differs from foreign ++ member".into())); }
    Ok(ncopy)
}

pub fn run(args: &Args) {
    let thorough = args.tier == "thorough";
    let seed = args.seed;
    if std::env::var("VERIF_VERBOSE_PANIC").is_err() { std::panic::set_hook(Box::new(|_| {})); }
    let mut corr = Corr::new(&args.out);
    let mut rep = Report::default();
    {
        let mut lines = vec![];
        param_lines(&mut lines);
        rep.add("param_lines", lines.len() as u64);
        for (rq, an) in lines { corr.case(&rq, &an); }
    }
    let mut kinds: Vec<Kind> = selected_kinds(false).into_iter().filter(|k| k.family != Family::H10).collect();
    kinds.extend(small_kinds());
    rep.add("kinds.total", kinds.len() as u64);
    let scale = if thorough { 10 } else { 1 };
    let mut tasks: Vec<(Kind, usize)> = vec![];
    for k in &kinds { for sh in 0..2 { tasks.push((k.clone(), sh)); } }
    let nt = tasks.len();
    let results = par_tasks(nt, move |i| {
        let (kind, _sh) = tasks[i].clone();
        let mut rng = Rng::new(seed ^ 0xCA7AB1E ^ ((i as u64) << 20));
        let mut rep = Report::default();
        let mut lines: Vec<(String, String)> = vec![];
        let big = kind.table_bytes > (4 << 20);
        let mid = kind.table_bytes > (600 << 10);
        let nmembers = (if big { 30 } else if mid { 120 } else { 300 }) * scale;
        let mut corr_budget = (if big { 1 } else if mid { 3 } else { 12 }) * scale.min(3);
        let mut ctx = Ctx::new(&kind);
        for mi in 0..nmembers {
            let lg = *rng.pick(&[11u32, 12, 13]);
            let size = 1usize << lg;
            let mask = size - 1;
            let tail = size / 2;
            let lgwin = lg as i32 - 1;
            let n = match rng.below(8) { 0 => rng.below(12) as usize, 1 => 12 + rng.below(100) as usize, _ => 100 + rng.below((3 * size) as u64) as usize };
            let (mut stream, _) = gen_stream(&mut rng, n);
            if rng.chance(1, 3) && n > 60 {
                // tempt the encoder: static-dictionary words in the text (the dictionary is off, none may be referenced)
                let d = &kBrotliEncDictionary;
                let mut p = 2usize;
                while p + 30 < n {
                    let wlen = rng.range(4, 24) as usize;
                    let idx = rng.below(1u64 << d.size_bits_by_length[wlen]) as usize;
                    let off = d.offsets_by_length[wlen] as usize + wlen * idx;
                    stream[p..p + wlen].copy_from_slice(&d.data[off..off + wlen]);
                    p += wlen + 1 + rng.below(40) as usize;
                }
            }
            let quality = match &kind.build { Build::Setup { q, .. } => *q, _ => *rng.pick(&[5, 6, 7, 8, 9]) };
            let lbs = *rng.pick(&[ctx.lbs, ctx.lbs, ctx.lbs, 1, 100, 2000, 60000]);
            let mirror = rng.chance(1, 2);
            rep.evaluations += 1;
            rep.count(&format!("kind.{}", kind.variant));
            let start = n.min(2);
            let mut pos = start;
            let mut cache = [POISON; 16];
            let mut last = 0usize;
            let mut nlit = 0usize;
            let mut all: Vec<brotli::enc::command::Command> = vec![];
            let mut failed = false;
            let mut nblocks = 0u64;
            while pos < n {
                let nb = (1 + rng.below(((n - pos).min(tail).min(4096)) as u64) as usize).min(n - pos);
                let nb = if rng.chance(1, 4) { (n - pos).min(tail).min(4096) } else { nb };
                let written = pos + nb;
                let data = ring_view(&stream, written, lg, tail, 0, mirror);
                let la = kind.lookahead;
                let lo = written.saturating_sub(size).min(pos);
                let hi = pos.min(written.saturating_sub(la + 3));
                let mut pre = vec![];
                if hi > lo && rng.chance(7, 8) { pre.push(format!("R:{}:{}", lo, hi)); }
                let c = CbrCase { mask, data, pre, quality, lgwin, position: pos, num_bytes: nb, cache, last_insert_len: last, num_literals: nlit, use_dict: false, lbs };
                let req = cbr_request(&kind, &ctx, &c);
                let case_json = format!("{{\"kind\": {}, \"member\": {}, \"block_position\": {}, \"request\": {}, \"seed\": {}}}", jstr(kind.variant), mi, pos,
                    jstr(&req.clone().map(|r| if r.len() > 6000 { format!("{}…({} chars)", &r[..6000], r.len()) } else { r }).unwrap_or_default()), seed);
                let emit = corr_budget > 0 && (!(big || mid) || nb <= 256) && (nblocks == 0 || rng.chance(1, 3));
                match cbr_run(&mut ctx, &c) {
                    None => {
                        rep.count("panic");
                        let sig = "catable:panic".to_string();
                        if !rep.violations.iter().any(|v| v.signature == sig) { rep.violations.push(Violation { signature: sig, what: "CreateBackwardReferences panicked on the catable parameter set".into(), case: case_json }); }
                        if emit { if let Some(rq) = req { lines.push((rq, "panic".into())); corr_budget -= 1; } }
                        failed = true;
                        break;
                    }
                    Some((o, ans)) => {
                        if let Err((sig, what)) = judge_cbr(&c, &o, &stream, 0) {
                            let sig = format!("catable:own-view:{}", sig);
                            rep.count(&format!("viol.{}", sig));
                            if !rep.violations.iter().any(|v| v.signature == sig) { rep.violations.push(Violation { signature: sig, what, case: case_json.clone() }); }
                        }
                        if emit { if let Some(rq) = req { lines.push((rq, ans)); corr_budget -= 1; rep.count("corr.cbr_lines"); } }
                        if nblocks == 0 { rep.count("first_block.poisoned_cache"); }
                        if o.cache[..4].iter().any(|&x| x == POISON) && !o.cmds.is_empty() { rep.count("block.ends_with_poison_left"); }
                        all.extend(o.cmds.iter().cloned());
                        cache = o.cache;
                        last = o.last_insert_len;
                        nlit = o.num_literals;
                        pos = written;
                        nblocks += 1;
                    }
                }
            }
            if failed { continue; }
            rep.add("blocks", nblocks);
            rep.add("commands", all.len() as u64);
            if all.iter().any(|x| (x.dist_prefix_ & 0x3ff) < 16) { rep.count("member.uses_short_codes"); }
            let m = Member { stream, cmds: all, last_insert_len: last, start, window: (1usize << lgwin) - 16 };
            for _ in 0..3 {
                match judge_foreign(&m, &mut rng) {
                    Ok(ncopy) => { if ncopy > 0 { rep.count("foreign_replays.with_copies"); } }
                    Err((sig, what)) => {
                        let sig = format!("catable:{}", sig);
                        rep.count(&format!("viol.{}", sig));
                        let case_json = format!("{{\"kind\": {}, \"member\": {}, \"quality\": {}, \"lgwin\": {}, \"stream\": {}, \"seed\": {}}}", jstr(kind.variant), mi, quality, lgwin,
                            jstr(&if m.stream.len() <= 3000 { hex(&m.stream) } else { format!("({} bytes)", m.stream.len()) }), seed);
                        if !rep.violations.iter().any(|v| v.signature == sig) { rep.violations.push(Violation { signature: sig, what, case: case_json }); }
                        break;
                    }
                }
            }
            if !m.cmds.is_empty() { rep.nontrivial += 1; }
        }
        (lines, rep)
    });
    let mut per_sig: std::collections::BTreeMap<String, usize> = Default::default();
    for (lines, mut r) in results {
        for (rq, an) in lines { corr.case(&rq, &an); }
        let vs = std::mem::take(&mut r.violations);
        rep.merge(r);
        for v in vs {
            let c = per_sig.entry(v.signature.clone()).or_insert(0);
            *c += 1;
            if *c <= 2 { rep.violations.push(v); }
        }
    }
    corr.finish();
    rep.write(&args.out);
}
