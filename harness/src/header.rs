//! engine `header` — C15 (stream header / magic block) and C08 (advertised size bound).
//!
//! `bvh header c15|c08|all --tier quick|thorough --seed N --out DIR`
//!
//! Correspondence lines (Lean driver `BV/Drive/Header.lean`):
//!   header stream <q> <lgwin> <lw> <cat> <app> <dict> <magic> <hint> <inhex> <outhex>
//!          real encoder (streaming API, params struct set directly, one FINISH call) on the
//!          WHOLE grid; answer `<whole|prefix> <hex> lgwin=<d> bits=<b> magic=<0|1>` where the
//!          d/b/magic fields of the implementation line come from the independent RFC reader below
//!   header b128 <v>, header bound <start> <count>, header boundv <n>, header boundm <n> <t>
//!   header stored <n> <gen>   (MakeUncompressedStream reached through the one-shot fallback)
//!   header oneshot <n> <cap> <T|big>
//!
//! Search-stage oracles (real code only):
//!   C15: declared window == clamp(requested) (max 18 at q0/q1) read by an independent RFC 7932
//!        §9.1 reader; large-window header iff requested; libbrotlidec WITHOUT the large-window
//!        option accepts iff not large-window; both decoders decode; magic block present with
//!        the right bytes iff requested; inputs with matches at the far end of the window decode
//!        under the declared window.
//!   C08: bound formula vs an independent transcription + monotonicity; stored stream fits the
//!        bound and its framing alone yields the input; one-shot contract for every buffer class
//!        (Rust API and C ABI, canary behind the C buffer); never-flushed stream at q>=2 within
//!        the bound.
//!
//! non-trivial case (rep.nontrivial): a configuration/input whose real output was produced without
//! panic, parsed by the RFC reader and (where a decode applies) decoded to the input.
//!
//! Hooks used (cfg brotli_verif): `verif_hooks::base_128`, `encode::verif_make_uncompressed_stream`,
//! `encode::verif_stream_hook` (thread-local event log of payload-encoder invocations: drained after
//! EVERY encoder call made on a harness thread, it panics after 2^20 undrained events; the events
//! of the never-flushed streams are used to check the hypotheses Guard / BlocksOK of the Lean
//! theorem `stream_total_le_bound_partial`).
//!
//! Replay aid: `bvh header probe <q> <lgwin> <lw> <cat> <app> <magic> <hint> <n> <content kind> [chunk] --seed S`
//! prints the stream length, the bound and the first bytes of one never-flushed stream.
//!
//! Corpus: none (every case is enumerated or derived from the seed).
use crate::prng::Rng;
use crate::util::*;
use crate::{dec, gdec};
use brotli::enc::backward_references::BrotliEncoderMode;
use brotli::enc::encode::{
    BrotliEncoderDestroyInstance, BrotliEncoderMaxCompressedSize, BrotliEncoderMaxCompressedSizeMulti,
    BrotliEncoderOperation, BrotliEncoderStateStruct,
};
use brotli::enc::interface;
use brotli::enc::{BrotliEncoderParams, StandardAlloc};
use brotli::InputReferenceMut;
use std::panic::{catch_unwind, AssertUnwindSafe};

fn nop_cb(
    _a: &mut interface::PredictionModeContextMap<InputReferenceMut>,
    _b: &mut [interface::StaticCommand],
    _c: interface::InputPair,
    _d: &mut StandardAlloc,
) {
}

// ------------------------------------------------------------------------------------------
// real encoder, streaming API
// ------------------------------------------------------------------------------------------

/// Feed `input` in `chunk`-byte PROCESS calls (the last one FINISH), never FLUSH.
pub type Ev = brotli::enc::encode::verif_stream_hook::EncodeEvent;
pub fn stream_encode(p: &BrotliEncoderParams, input: &[u8], chunk: usize) -> Result<Vec<u8>, String> {
    stream_encode_ev(p, input, chunk).map(|x| x.0)
}
/// same, with the recorded payload-encoder invocations (verif_stream_hook)
pub fn stream_encode_ev(p: &BrotliEncoderParams, input: &[u8], chunk: usize) -> Result<(Vec<u8>, Vec<Ev>), String> {
    let r = catch_unwind(AssertUnwindSafe(|| {
        let mut s = BrotliEncoderStateStruct::new(StandardAlloc::default());
        s.params = p.clone();
        let mut out: Vec<u8> = Vec::new();
        let mut events: Vec<brotli::enc::encode::verif_stream_hook::EncodeEvent> = Vec::new();
        let mut buf = vec![0u8; if input.len() < 2048 { 4096 } else { 1 << 16 }];
        let mut pos = 0usize;
        let mut steps = 0usize;
        let limit = 64 + 4 * (input.len() / chunk.max(1) + input.len() / buf.len() + 2);
        let mut res: Result<(), String> = Ok(());
        loop {
            steps += 1;
            if steps > limit {
                res = Err("livelock".into());
                break;
            }
            let end = (pos + chunk.max(1)).min(input.len());
            let op = if end == input.len() { BrotliEncoderOperation::BROTLI_OPERATION_FINISH } else { BrotliEncoderOperation::BROTLI_OPERATION_PROCESS };
            let mut avail_in = end - pos;
            let mut in_off = 0usize;
            let mut avail_out = buf.len();
            let mut out_off = 0usize;
            let mut total = None;
            let ok = s.compress_stream(op, &mut avail_in, &input[pos..end], &mut in_off, &mut avail_out, &mut buf, &mut out_off, &mut total, &mut nop_cb);
            out.extend_from_slice(&buf[..out_off]);
            pos += in_off;
            events.extend(brotli::enc::encode::verif_stream_hook::take());
            if !ok {
                res = Err("compress_stream returned false".into());
                break;
            }
            if s.is_finished() {
                break;
            }
        }
        BrotliEncoderDestroyInstance(&mut s);
        res.map(|_| (out, events))
    }));
    match r {
        Ok(x) => x,
        Err(_) => { let _ = brotli::enc::encode::verif_stream_hook::take(); Err("panic".into()) }
    }
}

// ------------------------------------------------------------------------------------------
// independent reader: RFC 7932 section 9.1 / 9.2 (+ large-window extension), no entropy decoding
// ------------------------------------------------------------------------------------------

pub struct BitReader<'a> {
    pub data: &'a [u8],
    pub pos: usize, // in bits
}
impl<'a> BitReader<'a> {
    pub fn new(data: &'a [u8]) -> Self { BitReader { data, pos: 0 } }
    pub fn bits(&mut self, n: usize) -> Option<u64> {
        if self.pos + n > self.data.len() * 8 { return None; }
        let mut v = 0u64;
        for i in 0..n {
            let p = self.pos + i;
            v |= (((self.data[p >> 3] >> (p & 7)) & 1) as u64) << i;
        }
        self.pos += n;
        Some(v)
    }
    /// skip to a byte boundary; the skipped bits must be zero
    pub fn align(&mut self) -> Option<()> {
        while self.pos & 7 != 0 {
            if self.bits(1)? != 0 { return None; }
        }
        Some(())
    }
}

/// WBITS per RFC 7932 section 9.1; the pattern 0010001 (reserved in the RFC) opens the
/// large-window extension: one zero bit, then 6 bits of lgwin in 10..=30.
/// Returns (lgwin, large).
pub fn read_wbits(r: &mut BitReader) -> Option<(u32, bool)> {
    if r.bits(1)? == 0 { return Some((16, false)); }
    let n = r.bits(3)?;
    if n != 0 { return Some((17 + n as u32, false)); }
    let m = r.bits(3)?;
    if m == 0 { return Some((17, false)); }
    if m == 1 {
        if r.bits(1)? != 0 { return None; }
        let w = r.bits(6)? as u32;
        if !(10..=30).contains(&w) { return None; }
        return Some((w, true));
    }
    Some((8 + m as u32, false))
}

#[derive(Debug, Clone, PartialEq)]
pub enum Block {
    Meta(Vec<u8>),
    Raw(Vec<u8>),
    LastEmpty,
    /// a compressed meta-block starts at this bit (MLEN given): the reader stops here
    Compressed { at: usize, mlen: usize, last: bool },
}

/// Read meta-block headers while they need no entropy decoding.
pub fn read_framing(r: &mut BitReader) -> Option<Vec<Block>> {
    let mut v = vec![];
    loop {
        let at = r.pos;
        let last = r.bits(1)? == 1;
        if last && r.bits(1)? == 1 {
            r.align()?;
            v.push(Block::LastEmpty);
            return Some(v);
        }
        let mn = r.bits(2)?;
        if mn == 3 {
            if last { return None; }
            if r.bits(1)? != 0 { return None; }
            let sb = r.bits(2)? as usize;
            let len = if sb == 0 { 0 } else {
                let x = r.bits(8 * sb)?;
                if sb > 1 && (x >> (8 * (sb - 1))) == 0 { return None; }
                x as usize + 1
            };
            r.align()?;
            if r.pos / 8 + len > r.data.len() { return None; }
            v.push(Block::Meta(r.data[r.pos / 8..r.pos / 8 + len].to_vec()));
            r.pos += 8 * len;
            continue;
        }
        let nib = 4 + mn as usize;
        let x = r.bits(4 * nib)?;
        if nib > 4 && (x >> (4 * (nib - 1))) == 0 { return None; }
        let mlen = x as usize + 1;
        if !last && r.bits(1)? == 1 {
            r.align()?;
            if r.pos / 8 + mlen > r.data.len() { return None; }
            v.push(Block::Raw(r.data[r.pos / 8..r.pos / 8 + mlen].to_vec()));
            r.pos += 8 * mlen;
            continue;
        }
        v.push(Block::Compressed { at, mlen, last });
        return Some(v);
    }
}

pub fn base128_len(v: u64) -> usize { let mut k = 1; let mut x = v >> 7; while x != 0 { k += 1; x >>= 7; } k }

pub fn base128_decode(b: &[u8]) -> Option<u64> {
    let mut v: u128 = 0;
    for (i, x) in b.iter().enumerate() {
        v |= ((x & 0x7f) as u128) << (7 * i);
        let more = x & 0x80 != 0;
        if more != (i + 1 < b.len()) { return None; }
    }
    if b.is_empty() || v >> 64 != 0 { return None; }
    Some(v as u64)
}

// ------------------------------------------------------------------------------------------
// specification side (independent transcriptions)
// ------------------------------------------------------------------------------------------

/// the window a stream must declare
pub fn spec_declared(q: i32, lgwin: i32, lw: bool) -> u32 {
    let hi = if lw { 30 } else { 24 };
    let w = lgwin.clamp(10, hi);
    let qc = q.clamp(0, 11);
    (if qc <= 1 { w.max(18) } else { w }) as u32
}
/// third magic byte by concatenation mode
pub fn spec_mode_byte(cat: bool, app: bool, dict: bool) -> u8 {
    if cat && !dict { 0x81 } else if app || cat { 0x82 } else { 0x80 }
}
/// closed form of the advertised bound for n < 2^54
pub fn spec_bound(n: u64) -> u64 {
    if n == 0 { 17 } else if n < (1 << 14) { n + 22 } else { n + 4 * (n >> 14) + 23 }
}

pub fn gen_bytes(n: usize, gen: u64) -> Vec<u8> {
    let mut st: u64 = gen.wrapping_mul(0x9E3779B97F4A7C15).wrapping_add(1);
    let mut v = Vec::with_capacity(n);
    for _ in 0..n {
        v.push((st >> 56) as u8);
        st = st.wrapping_mul(6364136223846793005).wrapping_add(1442695040888963407);
    }
    v
}

fn b(x: bool) -> u8 { x as u8 }

/// at most 4 violations per signature are kept (so that a rare signature is never crowded out by a
/// frequent one); every occurrence is counted in `violations.<signature>`
trait Viol { fn viol(&mut self, signature: &str, what: &str, case_json: String); }
impl Viol for Report {
    fn viol(&mut self, signature: &str, what: &str, case_json: String) {
        self.count(&format!("violations.{}", signature));
        if self.violations.iter().filter(|x| x.signature == signature).count() < 4 {
            self.violations.push(Violation { signature: signature.to_string(), what: what.to_string(), case: case_json });
        }
    }
}
fn merge_rep(dst: &mut Report, mut src: Report) {
    let vs = std::mem::take(&mut src.violations);
    for v in vs {
        if dst.violations.iter().filter(|x| x.signature == v.signature).count() < 4 { dst.violations.push(v); }
    }
    dst.merge(src);
}

fn tick(label: &str, t0: &std::time::Instant) {
    if std::env::var("VERIF_TIMING").is_ok() { eprintln!("[header] {:>8.2}s {}", t0.elapsed().as_secs_f64(), label); }
}

#[derive(Clone, Copy)]
struct Cfg { q: i32, lgwin: i32, lw: bool, cat: bool, app: bool, dict: bool, magic: bool, hint: u64 }
impl Cfg {
    fn params(&self) -> BrotliEncoderParams {
        let mut p = BrotliEncoderParams::default();
        p.quality = self.q;
        p.lgwin = self.lgwin;
        p.large_window = self.lw;
        p.catable = self.cat;
        p.appendable = self.app;
        p.use_dictionary = self.dict;
        p.magic_number = self.magic;
        p.size_hint = self.hint as usize;
        p
    }
    fn line(&self) -> String {
        format!("{} {} {} {} {} {} {} {}", self.q, self.lgwin, b(self.lw), b(self.cat), b(self.app), b(self.dict), b(self.magic), self.hint)
    }
    fn json(&self, input: &[u8]) -> String {
        format!("{{\"quality\":{},\"lgwin\":{},\"large_window\":{},\"catable\":{},\"appendable\":{},\"use_dictionary\":{},\"magic_number\":{},\"size_hint\":\"{}\",\"input\":{}}}",
            self.q, self.lgwin, self.lw, self.cat, self.app, self.dict, self.magic, self.hint, jstr(&hex(&input[..input.len().min(64)])))
    }
}

const HINTS: [u64; 7] = [0, 1, 127, 128, 1 << 14, 1 << 21, (1u64 << 32) - 1];

/// one configuration x one input: correspondence line + oracles
fn c15_case(c: &Cfg, input: &[u8], lines: &mut Vec<(String, String)>, rep: &mut Report, decode: bool) {
    rep.evaluations += 1;
    let p = c.params();
    let out = match stream_encode(&p, input, usize::MAX / 2) {
        Ok(o) => o,
        Err(e) => {
            lines.push((format!("header stream {} {} -", c.line(), hex(input)), e.clone()));
            rep.viol(&format!("header:c15:encoder-{}", if e == "panic" { "panic" } else { "failed" }), &e, c.json(input));
            return;
        }
    };
    // independent reader
    let mut r = BitReader::new(&out);
    let wb = read_wbits(&mut r);
    let nbits = r.pos;
    let (declared, large) = match wb {
        Some(x) => x,
        None => {
            rep.viol("header:c15:unreadable-wbits", "the RFC reader rejects the window bits", c.json(input));
            (0, false)
        }
    };
    let framing = read_framing(&mut r);
    let first_meta: Option<Vec<u8>> = match &framing {
        Some(v) => match v.first() { Some(Block::Meta(m)) => Some(m.clone()), _ => None },
        None => None,
    };
    let is_magic = first_meta.as_ref().map_or(false, |m| m.len() >= 4 && m[0] == 0xe1 && m[1] == 0x97 && (m[2] & 0xf0) == 0x80);
    // correspondence
    let whole = input.is_empty() || (c.cat && input.len() <= 2);
    let shown = if whole { &out[..] } else { &out[..out.len().min(40)] };
    lines.push((
        format!("header stream {} {} {}", c.line(), hex(input), hex(shown)),
        format!("{} {} lgwin={} bits={} magic={}", if whole { "whole" } else { "prefix" }, hex(shown), declared, nbits, b(is_magic)),
    ));
    // ---- oracles
    let want = spec_declared(c.q, c.lgwin, c.lw);
    if wb.is_some() && declared != want {
        rep.viol("header:c15:declared-window", &format!("declared lgwin {} != clamp(requested) {}", declared, want), c.json(input));
    }
    if wb.is_some() && large != c.lw {
        rep.viol("header:c15:large-header-mismatch", &format!("large-window header {} but large_window requested {}", large, c.lw), c.json(input));
    }
    rep.count(&format!("c15.header_bits.{}", nbits));
    if c.magic {
        let hint_eff = if c.hint != 0 { c.hint } else { (input.len() as u64).min(1 << 30) };
        match &first_meta {
            Some(m) if is_magic => {
                let ok = m[2] == spec_mode_byte(c.cat, c.app, c.dict) && m[3] == brotli::VERSION && base128_decode(&m[4..]) == Some(hint_eff);
                if !ok {
                    rep.viol("header:c15:magic-content", &format!("magic block payload {} does not state mode {:02x}, version {}, size hint {}", hex(m), spec_mode_byte(c.cat, c.app, c.dict), brotli::VERSION, hint_eff), c.json(input));
                } else {
                    rep.count("c15.magic.ok");
                    rep.count(&format!("c15.magic.hint_bytes.{}", m.len() - 4));
                }
            }
            _ => {
                let qc = c.q.clamp(0, 11);
                let sig = if qc <= 1 && !c.cat { "header:c15:magic-missing:q0-q1-fast-path" } else { "header:c15:magic-missing" };
                rep.viol(sig, "magic_number requested but the stream does not start with the magic metadata block", c.json(input));
            }
        }
    } else if is_magic {
        rep.viol("header:c15:magic-unrequested", "magic block present although magic_number is off", c.json(input));
    }
    if !decode { rep.nontrivial += 1; return; }
    // libbrotlidec without the large-window option accepts iff not large-window
    if gdec::available() {
        let max = input.len() + (1 << 16);
        let plain = gdec::decode(&out, false, max);
        match (&plain, c.lw) {
            (gdec::GResult::Ok(v), false) => { if v != input { rep.viol("header:c15:decode-mismatch", "libbrotlidec decoded different bytes", c.json(input)); } }
            (gdec::GResult::Ok(_), true) => rep.viol("header:c15:large-accepted-by-plain-decoder", "libbrotlidec without the large-window option accepted a large-window stream", c.json(input)),
            (_, false) => rep.viol("header:c15:plain-decoder-rejects", "libbrotlidec (no large-window option) rejects a stream made without large_window", c.json(input)),
            (_, true) => rep.count("c15.large_rejected_by_plain_decoder"),
        }
    }
    match dec::decode_both(&out, c.lw, input) {
        Ok(()) => { rep.nontrivial += 1; }
        Err(e) => rep.viol("header:c15:undecodable", &e, c.json(input)),
    }
}

fn run_c15(args: &Args, corr: &mut Corr, rep: &mut Report) {
    let t0 = std::time::Instant::now();
    let thorough = args.tier == "thorough";
    let seed = args.seed;
    // the whole grid: task = (quality, lgwin)
    let tasks: Vec<(i32, i32)> = (0..=11).flat_map(|q| (-5..=40).map(move |w| (q, w))).collect();
    let n = tasks.len();
    let res = par_tasks(n, move |i| {
        let (q, lgwin) = tasks[i];
        let mut lines = vec![];
        let mut rep = Report::default();
        let text: &[u8] = b"the quick brown fox jumps over the lazy dog 0123456789";
        for lw in [false, true] {
            for flags in 0..8u32 {
                let (cat, app, dict) = (flags & 1 != 0, flags & 2 != 0, flags & 4 != 0);
                for magic in [false, true] {
                    for (hi, &hint) in HINTS.iter().enumerate() {
                        let c = Cfg { q, lgwin, lw, cat, app, dict, magic, hint };
                        c15_case(&c, &[], &mut lines, &mut rep, true);
                        c15_case(&c, b"ab", &mut lines, &mut rep, true);
                        // longer inputs: every configuration in the thorough tier, a third of them otherwise
                        if thorough || (hi + flags as usize + (lgwin + 5) as usize) % 3 == 0 {
                            c15_case(&c, b"a", &mut lines, &mut rep, true);
                            c15_case(&c, text, &mut lines, &mut rep, true);
                        }
                    }
                }
            }
        }
        (lines, rep)
    });
    for (lines, r) in res {
        for (a, bb) in lines { corr.case(&a, &bb); }
        merge_rep(rep, r);
    }
    tick("c15 grid done", &t0);
    // inputs with matches at the far end of the window: a decoder limited to the declared window
    let mut far: Vec<(i32, i32, bool, usize)> = vec![];
    for q in 0..=11 {
        let top = if thorough { 20 } else { 17 };
        for lgwin in 10..=top {
            for delta in [0usize, 1] { far.push((q, lgwin, false, delta)); }
        }
        far.push((q, 12, true, 0));
        if thorough && q <= 9 { far.push((q, 25, true, 0)); }
    }
    let nf = far.len();
    let res = par_tasks(nf, move |i| {
        let (q, lgwin, lw, delta) = far[i];
        let mut rep = Report::default();
        let mut rng = Rng::new(seed ^ 0xfa5 ^ ((i as u64) << 20));
        let win = 1usize << lgwin.min(22);
        let period = win - 16 - delta;
        let mut block = vec![0u8; period];
        for x in block.iter_mut() { *x = rng.next() as u8; }
        let mut input = Vec::with_capacity(3 * period + 5);
        for _ in 0..3 { input.extend_from_slice(&block); }
        input.extend_from_slice(b"tail!");
        let c = Cfg { q, lgwin, lw, cat: false, app: false, dict: true, magic: false, hint: 0 };
        rep.evaluations += 1;
        match stream_encode(&c.params(), &input, 60000) {
            Err(e) => rep.viol("header:c15:encoder-failed", &e, c.json(&input)),
            Ok(out) => {
                let mut r = BitReader::new(&out);
                let wb = read_wbits(&mut r);
                if wb != Some((spec_declared(q, lgwin, lw), lw)) {
                    rep.viol("header:c15:declared-window", &format!("declared {:?}", wb), c.json(&input));
                }
                if out.len() < input.len() / 2 { rep.count("c15.far.used_long_distance"); }
                match dec::decode_both(&out, lw, &input) {
                    Ok(()) => { rep.nontrivial += 1; rep.count("c15.far.decoded"); }
                    Err(e) => rep.viol("header:c15:window-exceeded-or-undecodable", &e, c.json(&input)),
                }
            }
        }
        rep
    });
    for r in res { merge_rep(rep, r); }
    tick("c15 far done", &t0);
    // the one-shot entry points (Rust API and C ABI): no large_window argument, lgwin > 24 requests it
    {
        let tasks: Vec<(i32, i32)> = (0..=11).flat_map(|q| (-5..=40).map(move |w| (q, w))).collect();
        let nt = tasks.len();
        let res = par_tasks(nt, move |i| {
            let (q, lgwin) = tasks[i];
            let mut lines = vec![];
            let mut rep = Report::default();
            let lw = lgwin > 24;
            let text: &[u8] = b"the quick brown fox jumps over the lazy dog 0123456789";
            for input in [&b""[..], &b"ab"[..], text] {
                for api in ["rust", "c"] {
                    rep.evaluations += 1;
                    let cap = BrotliEncoderMaxCompressedSize(input.len()) + 64;
                    let case = format!("{{\"api\":{},\"quality\":{},\"lgwin\":{},\"input\":{}}}", jstr(api), q, lgwin, jstr(&hex(input)));
                    let (ret, size, out) = if api == "rust" {
                        match oneshot_rust(q, lgwin, input, cap) { Ok(x) => x, Err(e) => { rep.viol("header:c15:oneshot-panic", &e, case); continue; } }
                    } else { let (r, s2, o, _) = oneshot_c(q, lgwin, input, cap); (r, s2, o) };
                    if ret != 1 || size > cap { rep.viol("header:c15:oneshot-failed", "one-shot call failed with a buffer above the bound", case); continue; }
                    if input.is_empty() {
                        // the empty input is answered with the fixed one-byte stream 06 (window 16, empty last block)
                        if out != [6u8] { rep.viol("header:c15:oneshot-empty", "empty input not answered with the stream 06", case.clone()); }
                        else { rep.count("c15.oneshot.empty"); }
                    } else {
                        let mut r = BitReader::new(&out);
                        let wb = read_wbits(&mut r);
                        let nbits = r.pos;
                        let shown = &out[..out.len().min(40)];
                        if api == "rust" {
                            lines.push((format!("header oneshothdr {} {} {} {}", q, lgwin, hex(input), hex(shown)),
                                format!("prefix {} lgwin={} bits={} magic=0", hex(shown), wb.map_or(0, |x| x.0), nbits)));
                        }
                        match wb {
                            None => rep.viol("header:c15:unreadable-wbits", "the RFC reader rejects the window bits of a one-shot stream", case.clone()),
                            Some((declared, large)) => {
                                let want = spec_declared(q, lgwin, lw);
                                if declared != want { rep.viol("header:c15:oneshot-declared-window", &format!("one-shot: declared lgwin {} != clamp(requested) {}", declared, want), case.clone()); }
                                if large != lw { rep.viol("header:c15:oneshot-large-header-mismatch", &format!("one-shot: large-window header {} but lgwin {} {} 24", large, lgwin, if lw { ">" } else { "<=" }), case.clone()); }
                                rep.count(&format!("c15.oneshot.header_bits.{}", nbits));
                            }
                        }
                    }
                    if gdec::available() {
                        let plain = gdec::decode(&out, false, input.len() + (1 << 16));
                        let accepted = matches!(&plain, gdec::GResult::Ok(v) if v == input);
                        let want_accept = !lw || input.is_empty();
                        if accepted != want_accept {
                            rep.viol("header:c15:oneshot-plain-decoder", &format!("libbrotlidec without the large-window option {} a one-shot stream made with lgwin {}", if accepted { "accepts" } else { "rejects" }, lgwin), case.clone());
                        }
                    }
                    match dec::decode_both(&out, lw && !input.is_empty(), input) {
                        Ok(()) => rep.nontrivial += 1,
                        Err(e) => rep.viol("header:c15:oneshot-undecodable", &e, case),
                    }
                }
            }
            (lines, rep)
        });
        for (lines, r) in res { for (a, bb) in lines { corr.case(&a, &bb); } merge_rep(rep, r); }
    }
    tick("c15 oneshot done", &t0);
    // base-128 (hook)
    let mut vals: Vec<u64> = (0..300).collect();
    for k in 0..64 { let p = 1u64 << k; vals.extend_from_slice(&[p.wrapping_sub(1), p, p + 1]); }
    vals.push(u64::MAX);
    let mut rng = Rng::new(seed ^ 0xb128);
    for _ in 0..2000 { let sh = rng.below(64); vals.push(rng.next() >> sh); }
    for v in vals {
        let (cnt, arr) = brotli::enc::brotli_bit_stream::verif_hooks::base_128(v);
        corr.case(&format!("header b128 {}", v), &hex(&arr[..cnt]));
        rep.evaluations += 1;
        if base128_decode(&arr[..cnt]) != Some(v) || cnt > 10 {
            rep.viol("header:c15:base128", "encode_base_128 does not round-trip", format!("{{\"value\":\"{}\"}}", v));
        } else { rep.nontrivial += 1; rep.count(&format!("c15.b128.len.{}", cnt)); }
    }
}

// ------------------------------------------------------------------------------------------
// C08
// ------------------------------------------------------------------------------------------

fn bound_digest(start: u64, count: u64) -> u64 {
    let mut h = FNV_INIT;
    for n in start..start + count { h = fnv_step(h, BrotliEncoderMaxCompressedSize(n as usize) as u64); }
    h
}

/// one-shot call, Rust API. Returns (ret, encoded_size, bytes) or Err(panic)
/// the recorded payload-encoder invocations of one call as the answers token of the `stream` protocol
/// (`<result>.<emit>.<nbits>.-` joined by `/`, skeleton mode); None if an event is inconsistent
fn answers_token(events: &[Ev]) -> Option<String> {
    if events.is_empty() { return Some("-".into()); }
    let mut v = vec![];
    for e in events {
        let nbits = (e.out_size * 8 + e.carry_bits_after as u64) as i64 - e.carry_bits_before as i64;
        if nbits < 0 { return None; }
        let emit = e.last_flush_pos_after == e.input_pos || e.site == 2;
        v.push(format!("{}.{}.{}.-", e.result as u8, emit as u8, nbits));
    }
    Some(v.join("/"))
}
thread_local! { static LAST_ONESHOT_EVENTS: std::cell::RefCell<Vec<Ev>> = std::cell::RefCell::new(Vec::new()); }

fn oneshot_rust(q: i32, lgwin: i32, input: &[u8], cap: usize) -> Result<(i32, usize, Vec<u8>), String> {
    let _ = brotli::enc::encode::verif_stream_hook::take();
    let r = catch_unwind(AssertUnwindSafe(|| {
        let mut buf = vec![0xa5u8; cap];
        let mut size = cap;
        let mut m8 = StandardAlloc::default();
        let ret = brotli::enc::encode::BrotliEncoderCompress(StandardAlloc::default(), &mut m8, q, lgwin, BrotliEncoderMode::BROTLI_MODE_GENERIC, input.len(), input, &mut size, &mut buf[..], &mut nop_cb);
        let keep = size.min(cap);
        (ret, size, buf[..keep].to_vec())
    }));
    let evs = brotli::enc::encode::verif_stream_hook::take();
    LAST_ONESHOT_EVENTS.with(|x| *x.borrow_mut() = evs);
    r.map_err(|_| "panic".to_string())
}

/// one-shot call, C ABI; the buffer is followed by a canary region. Returns (ret, size, bytes, canary_intact)
fn oneshot_c(q: i32, lgwin: i32, input: &[u8], cap: usize) -> (i32, usize, Vec<u8>, bool) {
    const CANARY: usize = 64;
    let _ = brotli::enc::encode::verif_stream_hook::take();
    let mut buf = vec![0x5au8; cap + CANARY];
    let mut size = cap;
    let ret = unsafe {
        brotli::ffi::compressor::BrotliEncoderCompress(q, lgwin, brotli::ffi::compressor::BrotliEncoderMode::BROTLI_MODE_GENERIC, input.len(), if input.is_empty() { std::ptr::null() } else { input.as_ptr() }, &mut size, buf.as_mut_ptr())
    };
    let evs = brotli::enc::encode::verif_stream_hook::take();
    LAST_ONESHOT_EVENTS.with(|x| *x.borrow_mut() = evs);
    let intact = buf[cap..].iter().all(|&x| x == 0x5a);
    let keep = size.min(cap);
    (ret, size, buf[..keep].to_vec(), intact)
}

fn is_stored(out: &[u8]) -> bool { out.len() >= 2 && out[0] == 0x21 && out[1] == 0x03 }

/// framing-only decode (no entropy decoding): Some(payload) if the stream consists of
/// uncompressed / metadata / empty-last blocks only
fn framing_payload(out: &[u8]) -> Option<(u32, Vec<Block>, Vec<u8>)> {
    let mut r = BitReader::new(out);
    let (w, _) = read_wbits(&mut r)?;
    let blocks = read_framing(&mut r)?;
    if !matches!(blocks.last(), Some(Block::LastEmpty)) || r.pos != out.len() * 8 { return None; }
    let mut v = vec![];
    for bl in &blocks { if let Block::Raw(x) = bl { v.extend_from_slice(x); } }
    Some((w, blocks, v))
}

fn content(kind: u32, n: usize, rng: &mut Rng) -> Vec<u8> {
    let mut v = Vec::with_capacity(n);
    match kind {
        0 => { for _ in 0..n { v.push(rng.next() as u8); } }                      // incompressible
        1 => { for _ in 0..n { v.push((rng.next() % 240) as u8); } }              // just below the entropy threshold
        2 => {                                                                    // random with sparse short matches
            while v.len() < n {
                if v.len() > 64 && rng.chance(1, 24) { let d = rng.range(4, 64) as usize; for _ in 0..4 { let x = v[v.len() - d]; v.push(x); } } else { v.push(rng.next() as u8); }
            }
            v.truncate(n);
        }
        3 => { while v.len() < n { let z = rng.chance(1, 2); for _ in 0..1024 { v.push(if z { 0 } else { rng.next() as u8 }); } } v.truncate(n); } // alternating
        _ => { for _ in 0..n { v.push((rng.next() % 253) as u8); } }
    }
    v
}

/// inputs above this length get no `oneshotrun` line (the Lean model keeps the ring content as a list)
const ONESHOTRUN_MAX_N: usize = 70000;

struct OsCase { q: i32, lgwin: i32, n: usize, kind: u32, gen: Option<u64>, dense: bool }

fn oneshot_case(c: &OsCase, seed: u64, idx: usize, thorough: bool, lines: &mut Vec<(String, String)>, rep: &mut Report) {
    let mut rng = Rng::new(seed ^ 0x05c8 ^ ((idx as u64) << 20));
    let input = match c.gen { Some(g) => gen_bytes(c.n, g), None => content(c.kind, c.n, &mut rng) };
    let n = input.len();
    let bound = BrotliEncoderMaxCompressedSize(n);
    let case = |cap: usize, api: &str| format!("{{\"api\":{},\"quality\":{},\"lgwin\":{},\"n\":{},\"content\":{},\"gen\":{},\"cap\":{},\"seed\":{},\"idx\":{}}}", jstr(api), c.q, c.lgwin, n, c.kind, c.gen.map_or(-1i64, |g| g as i64), cap, seed, idx);
    // reference run: a buffer comfortably above the bound
    rep.evaluations += 1;
    let big = match oneshot_rust(c.q, c.lgwin, &input, bound + 64) {
        Ok(x) => x,
        Err(e) => { rep.viol("header:c08:oneshot-panic", &e, case(bound + 64, "rust")); return; }
    };
    if big.0 != 1 { rep.viol("header:c08:oneshot-fails-above-bound", "buffer >= bound but the call reports failure", case(bound + 64, "rust")); return; }
    if big.1 > bound { rep.viol("header:c08:oneshot-exceeds-bound", &format!("wrote {} > bound {}", big.1, bound), case(bound + 64, "rust")); }
    let large = c.lgwin > 24;
    if let Err(e) = dec::decode_both(&big.2, large, &input) { rep.viol("header:c08:oneshot-undecodable", &e, case(bound + 64, "rust")); return; }
    rep.nontrivial += 1;
    let stored = n > 0 && is_stored(&big.2);
    let t_tok = if stored { "big".to_string() } else { big.1.to_string() };
    if stored {
        rep.count("c08.oneshot.fallback_to_stored");
        // the framing alone must yield the input, and the chunking must follow the 2^24 rule
        match framing_payload(&big.2) {
            Some((w, blocks, payload)) => {
                if payload != input || w != 10 { rep.viol("header:c08:stored-stream-wrong", "stored stream does not carry the input", case(bound + 64, "rust")); }
                let raws: Vec<usize> = blocks.iter().filter_map(|bl| if let Block::Raw(x) = bl { Some(x.len()) } else { None }).collect();
                let want: Vec<usize> = { let mut v = vec![]; let mut left = n; while left > 0 { let ch = left.min(1 << 24); v.push(ch); left -= ch; } v };
                if raws != want { rep.viol("header:c08:stored-chunking", &format!("chunks {:?}", raws), case(bound + 64, "rust")); }
                rep.count(&format!("c08.stored.chunks.{}", raws.len()));
            }
            None => rep.viol("header:c08:stored-stream-unparsable", "framing reader rejects the stored stream", case(bound + 64, "rust")),
        }
        if let Some(g) = c.gen {
            let o = &big.2;
            let mut h = FNV_INIT;
            for &x in o.iter() { h = fnv_step(h, x as u64); }
            lines.push((format!("header stored {} {}", n, g), format!("{} {:016x} {} {}", o.len(), h, hex(&o[..o.len().min(16)]), hex(&o[o.len() - o.len().min(8)..]))));
        }
    } else {
        rep.count("c08.oneshot.stream_result");
        if c.gen.is_some() { rep.count("c08.stored.unreached_through_public_api"); }
    }
    // buffer-size classes
    let t = big.1;
    let mut caps: Vec<usize> = vec![0, 1, 8.min(bound - 1), bound - 1, bound, bound + 1];
    if n > 0 { caps.push(n / 2); caps.push(n.min(bound - 1)); }
    if !stored { caps.extend_from_slice(&[t.saturating_sub(1), t, (t + 1).min(bound - 1)]); }
    if c.dense { for d in 0..=12 { caps.push((n + d).min(bound + 1)); } }
    caps.sort();
    caps.dedup();
    for cap in caps {
        for api in ["rust", "c"] {
            rep.evaluations += 1;
            let (ret, size, bytes, intact) = if api == "rust" {
                match oneshot_rust(c.q, c.lgwin, &input, cap) { Ok((r, s, by)) => (r, s, by, true), Err(e) => { rep.viol("header:c08:oneshot-panic", &e, case(cap, api)); continue; } }
            } else { oneshot_c(c.q, c.lgwin, &input, cap) };
            if !intact { rep.viol("header:c08:writes-past-buffer", "canary behind the output buffer overwritten", case(cap, api)); }
            let kind;
            if ret != 0 {
                if size > cap { rep.viol("header:c08:size-exceeds-buffer", &format!("reports {} bytes in a {}-byte buffer", size, cap), case(cap, api)); }
                if size > bound { rep.viol("header:c08:oneshot-exceeds-bound", &format!("wrote {} > bound {}", size, bound), case(cap, api)); }
                if bytes == big.2 { kind = if n == 0 { "empty" } else if stored { "stored" } else { "stream" }; }
                else if n > 0 && is_stored(&bytes) {
                    kind = "stored";
                    if framing_payload(&bytes).map(|x| x.2) != Some(input.clone()) { rep.viol("header:c08:stored-stream-wrong", "stored stream does not carry the input", case(cap, api)); }
                } else {
                    kind = "other";
                    if let Err(e) = dec::decode_both(&bytes, large, &input) { rep.viol("header:c08:oneshot-undecodable", &e, case(cap, api)); }
                }
                rep.count(&format!("c08.oneshot.ok.{}", kind));
            } else {
                if cap >= bound { rep.viol("header:c08:oneshot-fails-above-bound", "buffer >= bound but the call reports failure", case(cap, api)); }
                kind = if cap == 0 { "zero-cap" } else { "too-small" };
                rep.count(&format!("c08.oneshot.fail.{}", kind));
            }
            if cap == 0 && ret != 0 { rep.viol("header:c08:zero-buffer-success", "success with an empty buffer", case(cap, api)); }
            // on failure *encoded_size is 0 except for the zero-capacity early return (left untouched = 0)
            lines.push((format!("header oneshot {} {} {}", n, cap, t_tok), format!("{} {} {}", ret, size, kind)));
            // the same call over the run-level stream model (`BV.Stream.oneshotRun`): the recorded
            // payload-encoder answers of the stream phase are replayed, everything else — the stream
            // machine, `total_out`, the fallback decision — is the model's (theorem `oneshot_run_contract`)
            // quick tier: every small case, a third of the mid-sized ones, and of the large ones the two buffer
            // sizes around the bound on every fourth case; thorough: everything up to ONESHOTRUN_MAX_N
            let dense_enough = thorough || n <= 1000 || (n <= 4096 && (cap + idx) % 3 == 0) || (idx % 4 == 0 && (cap == bound || cap + 1 == bound));
            if api == "rust" && n <= ONESHOTRUN_MAX_N && kind != "other" && dense_enough {
                let evs = LAST_ONESHOT_EVENTS.with(|x| core::mem::take(&mut *x.borrow_mut()));
                if evs.len() <= 2000 {
                    if let Some(tok) = answers_token(&evs) {
                        lines.push((format!("header oneshotrun {} {} {} {} {}", c.q, c.lgwin, n, cap, tok), format!("{} {} {}", ret, size, kind)));
                        rep.count("c08.oneshotrun.lines");
                    }
                }
            }
        }
    }
}

fn run_c08(args: &Args, corr: &mut Corr, rep: &mut Report) {
    let t0 = std::time::Instant::now();
    let thorough = args.tier == "thorough";
    let seed = args.seed;
    // ---- (0) the derived configuration (`params` after `ensure_initialized`, pub fields): SanitizeParams,
    // ComputeLgBlock, ring-buffer bits over the whole quality x lgwin x requested-lgblock grid; the oracle
    // is the property's own premise: at quality >= 2 an input block is at least 2^14 bytes
    {
        let lgbs: [i32; 14] = [-3, 0, 1, 10, 13, 14, 15, 16, 17, 18, 20, 24, 25, 31];
        for q in -2..=13i32 {
            for lgwin in -5..=40i32 {
                for &lgb in &lgbs {
                    for lw in [false, true] {
                        rep.evaluations += 1;
                        let r = catch_unwind(AssertUnwindSafe(|| {
                            let mut s = BrotliEncoderStateStruct::new(StandardAlloc::default());
                            s.params.quality = q; s.params.lgwin = lgwin; s.params.lgblock = lgb; s.params.large_window = lw;
                            let bs = s.input_block_size();
                            let out = (s.params.quality, s.params.lgwin, s.params.lgblock, s.ringbuffer_.size_, bs);
                            BrotliEncoderDestroyInstance(&mut s);
                            out
                        }));
                        match r {
                            Err(_) => { corr.case(&format!("header lgblock {} {} {} {}", q, lgwin, lgb, b(lw)), "panic"); rep.viol("header:c08:init-panic", "ensure_initialized panics", format!("{{\"quality\":{},\"lgwin\":{},\"lgblock\":{}}}", q, lgwin, lgb)); }
                            Ok((q2, w2, b2, rbsize, bs)) => {
                                let rb_bits = 31 - (rbsize as u32).leading_zeros() as i32;
                                corr.case(&format!("header lgblock {} {} {} {}", q, lgwin, lgb, b(lw)), &format!("{} {} {} {}", q2, w2, b2, rb_bits));
                                if bs != 1usize << b2 { rep.viol("header:c08:block-size", "input_block_size != 2^lgblock", format!("{{\"quality\":{},\"lgwin\":{},\"lgblock\":{}}}", q, lgwin, lgb)); }
                                if q2 >= 2 && b2 < 14 {
                                    rep.viol("header:c08:block-below-2^14", &format!("quality {} lgwin {}: input block 2^{} is smaller than the 2^14 the size bound pays for", q2, w2, b2), format!("{{\"quality\":{},\"lgwin\":{},\"lgblock\":{},\"large_window\":{}}}", q, lgwin, lgb, lw));
                                } else { rep.nontrivial += 1; }
                                rep.count(&format!("c08.lgblock.{}", b2));
                            }
                        }
                    }
                }
            }
        }
    }
    // ---- (a) the bound formula, digest protocol
    let mut ranges: Vec<(u64, u64)> = vec![(0, 65)];
    for k in 1..=4096u64 { ranges.push((k * (1 << 14) - 64, 129)); }
    for e in [30u32, 32, 40, 54, 62, 63] { ranges.push(((1u64 << e) - 64, 129)); }
    // where `tail` wraps to a small value (a * 2^54 + b * 2^14 with 1023 b = a 2^40 - a)
    for a in [1u64, 2, 33, 64, 65] { let bq = ((a << 40) - a) / 1023; let base = (a << 54) + (bq << 14); ranges.push((base - 64, 129)); }
    let chunks: Vec<Vec<(u64, u64)>> = ranges.chunks(64).map(|c| c.to_vec()).collect();
    let nc = chunks.len();
    let res = par_tasks(nc, move |i| {
        let mut lines = vec![];
        let mut rep = Report::default();
        for &(s, cnt) in &chunks[i] {
            lines.push((format!("header bound {} {}", s, cnt), format!("{:016x}", bound_digest(s, cnt))));
            let mut prev = 0u64;
            for n in s..s + cnt {
                rep.evaluations += 1;
                let v = BrotliEncoderMaxCompressedSize(n as usize) as u64;
                if n < (1 << 54) && v != spec_bound(n) { rep.viol("header:c08:bound-formula", &format!("Max({}) = {} != closed form {}", n, v, spec_bound(n)), format!("{{\"n\":\"{}\"}}", n)); }
                if n > s && v < prev && n < (1 << 63) { rep.viol("header:c08:bound-not-monotone", &format!("Max({}) = {} < Max({}) = {}", n, v, n - 1, prev), format!("{{\"n\":\"{}\"}}", n)); }
                if v < n && n < (1 << 63) { rep.viol("header:c08:bound-below-input", "bound smaller than the input", format!("{{\"n\":\"{}\"}}", n)); }
                prev = v;
                rep.nontrivial += 1;
            }
        }
        (lines, rep)
    });
    for (lines, r) in res { for (a, bb) in lines { corr.case(&a, &bb); } merge_rep(rep, r); }
    tick("c08 bound done", &t0);
    // the top of the range: wrap to 0 and the `+ magic_size` overflow zone (values only; release arithmetic)
    let mut tops: Vec<u64> = (0..70).map(|d| u64::MAX - d).collect();
    let first_zero;
    {   // first n from which the result wraps to 0 for good (the 16 values before it are the
        // `+ magic_size` overflow zone, whose first value also wraps to exactly 0)
        let z = |n: u64| BrotliEncoderMaxCompressedSize(n as usize) == 0 && BrotliEncoderMaxCompressedSize((n + 20) as usize) == 0;
        let (mut lo, mut hi) = (1u64 << 63, u64::MAX - 20);
        while lo < hi { let mid = lo + (hi - lo) / 2; if z(mid) { hi = mid } else { lo = mid + 1 } }
        for d in 0..80 { tops.push(lo - 40 + d); }
        rep.sample(format!("first n with Max(n) = 0 from there on: {}", lo));
        first_zero = lo;
    }
    for n in tops {
        let v = BrotliEncoderMaxCompressedSize(n as usize);
        // the model flags the debug-build overflow with `!`; a release build wraps silently
        let over = (v as u64) < n && n < first_zero;
        corr.case(&format!("header boundv {}", n), &format!("{}{}", v, if over { "!" } else { "" }));
        if over { rep.count("c08.bound.overflow_zone"); }
        if v == 0 { rep.count("c08.bound.wrap_to_zero"); }
    }
    for (n, t) in [(0u64, 1u64), (100, 3), (1 << 14, 16), (1 << 20, 8), (12345678, 16), ((1 << 32) + 5, 2)] {
        corr.case(&format!("header boundm {} {}", n, t), &format!("{}", BrotliEncoderMaxCompressedSizeMulti(n as usize, t as usize)));
    }
    // ---- (b0) MakeUncompressedStream directly (hook `verif_make_uncompressed_stream`), output buffer of
    // exactly the advertised bound: fits, framing alone yields the input, chunking at 2^24
    {
        let mut ns: Vec<usize> = vec![0, 1, 2, 3, 100, 65535, 65536, 65537, 65538, 100000, (1 << 20) - 1, 1 << 20, (1 << 20) + 1, (1 << 20) + 2];
        if thorough { ns.extend_from_slice(&[(1 << 24) - 1, 1 << 24, (1 << 24) + 1, (1 << 24) + 65537, (1 << 25) + 5]); }
        let nn = ns.len();
        let res = par_tasks(nn, move |i| {
            let n = ns[i];
            let mut rep = Report::default();
            let mut lines = vec![];
            let g = 100 + i as u64;
            let input = gen_bytes(n, g);
            let bound = BrotliEncoderMaxCompressedSize(n);
            rep.evaluations += 1;
            let r = catch_unwind(AssertUnwindSafe(|| {
                let mut out = vec![0u8; bound];
                let len = brotli::enc::encode::verif_make_uncompressed_stream(&input, &mut out[..]);
                out.truncate(len);
                out
            }));
            match r {
                Err(_) => {
                    lines.push((format!("header stored {} {}", n, g), "panic".to_string()));
                    rep.viol("header:c08:stored-stream-does-not-fit", "MakeUncompressedStream panics with an output buffer of the advertised bound", format!("{{\"n\":{}}}", n));
                }
                Ok(o) => {
                    let mut h = FNV_INIT;
                    for &x in o.iter() { h = fnv_step(h, x as u64); }
                    lines.push((format!("header stored {} {}", n, g), format!("{} {:016x} {} {}", o.len(), h, hex(&o[..o.len().min(16)]), hex(&o[o.len() - o.len().min(8)..]))));
                    match framing_payload(&o) {
                        Some((_, blocks, payload)) => {
                            let raws: Vec<usize> = blocks.iter().filter_map(|bl| if let Block::Raw(x) = bl { Some(x.len()) } else { None }).collect();
                            let want: Vec<usize> = { let mut v = vec![]; let mut left = n; while left > 0 { let ch = left.min(1 << 24); v.push(ch); left -= ch; } v };
                            if payload != input { rep.viol("header:c08:stored-stream-wrong", "stored stream does not carry the input", format!("{{\"n\":{}}}", n)); }
                            else if raws != want { rep.viol("header:c08:stored-chunking", &format!("chunks {:?}", raws), format!("{{\"n\":{}}}", n)); }
                            else { rep.nontrivial += 1; rep.count(&format!("c08.stored.direct.chunks.{}", raws.len())); }
                        }
                        None => rep.viol("header:c08:stored-stream-unparsable", "framing reader rejects the stored stream", format!("{{\"n\":{}}}", n)),
                    }
                    if n <= (1 << 22) { if let Err(e) = dec::decode_both(&o, false, &input) { rep.viol("header:c08:stored-stream-undecodable", &e, format!("{{\"n\":{}}}", n)); } }
                }
            }
            (lines, rep)
        });
        for (lines, r) in res { for (a, bb) in lines { corr.case(&a, &bb); } merge_rep(rep, r); }
    }
    // ---- (b)+(c) one-shot contract; stored stream through the fallback
    let mut cases: Vec<OsCase> = vec![];
    // stored-stream lengths (q0, lgwin 10 on incompressible data exceeds the bound => fallback)
    let mut stored_ns: Vec<usize> = vec![8192, 12000, 16383, 16384, 16385, 65535, 65536, 65537, 70000, (1 << 20) - 1, 1 << 20, (1 << 20) + 1];
    if thorough { stored_ns.extend_from_slice(&[(1 << 24) - 1, 1 << 24, (1 << 24) + 1, (1 << 24) + 65537]); }
    for (j, &n) in stored_ns.iter().enumerate() { cases.push(OsCase { q: (j % 2) as i32, lgwin: 10, n, kind: 0, gen: Some(j as u64 + 1), dense: false }); }
    let small_ns: Vec<usize> = vec![0, 1, 2, 3, 15, 100, 1000, 16383, 16384, 16385, 32767, 32768, 32769, 49152, 65535, 65536, 65537];
    for q in 0..=11 {
        for &lgwin in &[10, 16, 18, 22, 24, 25] {
            for (j, &n) in small_ns.iter().enumerate() {
                let kinds: &[u32] = if thorough { &[0, 1, 2, 3, 4] } else { &[0, 1, 2, 3] };
                // quick tier: not every (n, lgwin, kind) at every quality
                for &kind in kinds {
                    if !thorough && (j + kind as usize + q as usize + lgwin as usize) % 4 != 0 && !(n <= 3) { continue; }
                    cases.push(OsCase { q, lgwin, n, kind, gen: None, dense: false });
                }
            }
        }
        // 2^20: quick = quality <= 5 x 2 content classes; thorough = every quality, all content classes
        // (quality 10/11: one length, 2 classes — a megabyte of incompressible data takes seconds there)
        let big_ns: &[usize] = if q <= 5 || (thorough && q <= 9) { &[(1 << 20) - 1, 1 << 20, (1 << 20) + 1] } else if thorough { &[1 << 20] } else { &[] };
        let big_kinds: &[u32] = if thorough && q <= 9 { &[0, 1, 2, 3, 4] } else { &[0, 1] };
        for &n in big_ns { for &kind in big_kinds { for &lgwin in (if thorough && q <= 9 { &[18, 22][..] } else if q <= 1 { &[18][..] } else { &[22][..] }) { cases.push(OsCase { q, lgwin, n, kind, gen: None, dense: false }); } } }
        // 2^24 (the chunking boundary of the stored stream), thorough only
        if thorough && (q <= 2 || q == 5) {
            for &n in &[(1usize << 24) - 1, 1 << 24, (1 << 24) + 1] { for &kind in &[0u32, 1] { cases.push(OsCase { q, lgwin: 22, n, kind, gen: None, dense: n == (1 << 24) + 1 && kind == 0 }); } }
        }
    }
    // every buffer size from n to n + 12 (between "the input fits" and the bound) on incompressible inputs
    // around the 5- and 6-nibble thresholds of the stored stream
    for &q in &[0, 1, 2, 3, 5, 9, 10, 11] {
        for &n in &[(1usize << 16) - 1, (1 << 16) + 1] { cases.push(OsCase { q, lgwin: 18, n, kind: 0, gen: None, dense: true }); }
    }
    let dense_q: &[i32] = if thorough { &[0, 1, 2, 3, 4, 5, 7, 9] } else { &[0, 2, 5] };
    for &q in dense_q {
        for &n in &[(1usize << 20) - 1, 1 << 20, (1 << 20) + 1, (1 << 20) + 2] { cases.push(OsCase { q, lgwin: if q == 0 { 18 } else { 22 }, n, kind: 0, gen: None, dense: true }); }
    }
    let ncases = cases.len();
    let cases = std::sync::Arc::new(cases);
    let res = par_tasks(ncases, move |i| {
        let mut lines = vec![];
        let mut rep = Report::default();
        oneshot_case(&cases[i], seed, i, thorough, &mut lines, &mut rep);
        (lines, rep)
    });
    for (lines, r) in res { for (a, bb) in lines { corr.case(&a, &bb); } merge_rep(rep, r); }
    tick("c08 oneshot done", &t0);
    // ---- (d) never-flushed stream at q >= 2 within the bound
    let mut scases: Vec<(Cfg, usize, u32, usize)> = vec![];
    let hints: [u64; 7] = [0, (1u64 << 32) - 1, 1 << 35, 1 << 42, 1 << 49, 1 << 56, 1 << 63];
    let ns: Vec<usize> = vec![0, 1, 2, 3, 10, 100, 5000, 16383, 16384, 16385, 16386, 32768, 32770, 49153, 65536, 65538, 131072 + 2];
    for q in 2..=11 {
        for flags in 0..16u32 {
            let (cat, app, magic, lw) = (flags & 1 != 0, flags & 2 != 0, flags & 4 != 0, flags & 8 != 0);
            for (hi, &hint) in hints.iter().enumerate() {
                if !magic && hi > 1 { continue; }
                for (j, &n) in ns.iter().enumerate() {
                    for kind in [0u32, 1] {
                        if !thorough && n > 100 && (j + q as usize + flags as usize + hi + kind as usize) % 4 != 0 { continue; }
                        if q >= 10 && n > 70000 && !thorough { continue; }
                        let chunk = if (j + hi) % 2 == 0 { usize::MAX / 2 } else { 1000 };
                        scases.push((Cfg { q, lgwin: if lw { 26 } else { 22 }, lw, cat, app, dict: !cat, magic, hint }, n, kind, chunk));
                    }
                }
            }
        }
    }
    // small windows at the qualities whose block size is fixed (2, 3) or derived from lgblock (4):
    // incompressible input of 64-256 KiB, never flushed (size oracle + Guard/BlocksOK checks only)
    for q in 2..=4 {
        for lgwin in 10..=16 {
            for (j, &n) in [65536usize, 131074, 262144].iter().enumerate() {
                let chunk = if (j + lgwin as usize) % 2 == 0 { usize::MAX / 2 } else { 1000 };
                scases.push((Cfg { q, lgwin, lw: false, cat: false, app: false, dict: true, magic: false, hint: 0 }, n, 0, chunk));
            }
        }
    }
    let nsc = scases.len();
    let scases = std::sync::Arc::new(scases);
    let res = par_tasks(nsc, move |i| {
        let (c, n, kind, chunk) = scases[i];
        let mut rep = Report::default();
        let mut rng = Rng::new(seed ^ 0x57e ^ ((i as u64) << 20));
        let input = content(kind, n, &mut rng);
        rep.evaluations += 1;
        let bound = BrotliEncoderMaxCompressedSize(n);
        match stream_encode_ev(&c.params(), &input, chunk) {
            Err(e) => rep.viol("header:c08:stream-failed", &e, c.json(&input)),
            Ok((out, events)) => {
                rep.nontrivial += 1;
                let case = format!("{{\"quality\":{},\"lgwin\":{},\"large_window\":{},\"catable\":{},\"appendable\":{},\"magic_number\":{},\"size_hint\":\"{}\",\"n\":{},\"content\":{},\"chunk\":{},\"seed\":{},\"idx\":{}}}", c.q, c.lgwin, c.lw, c.cat, c.app, c.magic, c.hint, n, kind, chunk.min(1 << 40), seed, i);
                if out.len() > bound {
                    // known finding D17: the magic block states a size hint of more than 5 base-128 bytes
                    let sig = if c.magic && c.hint >= (1 << 32) { "header:c08:stream-exceeds-bound:size_hint-above-u32" } else { "header:c08:stream-exceeds-bound" };
                    rep.viol(sig, &format!("never-flushed stream of {} input bytes is {} bytes > advertised bound {}", n, out.len(), bound), case.clone());
                    rep.count(&format!("c08.stream.exceeds.hint_bytes_{}.cat{}.lw{}", base128_len(c.hint), b(c.cat), b(c.lw)));
                }
                let slack = bound as i64 - out.len() as i64;
                rep.count(&format!("c08.stream.slack.{}", if slack < 0 { "negative".to_string() } else if slack < 4 { format!("{}", slack) } else if slack < 16 { "4-15".into() } else { "16+".into() }));
                // the hypotheses of the Lean theorem `stream_total_le_bound`, checked on the recorded
                // payload-encoder invocations: (guard) a meta-block of `len` input bytes advances the whole-byte
                // position by at most len + 4 (+1 above 2^20); (blocks) every meta-block but the last
                // covers at least 2^14 input bytes counted from the previous flush position
                let mut first = true;
                let nev = events.len();
                for (k, ev) in events.iter().enumerate() {
                    if ev.site != 0 { continue; }
                    let len = ev.last_flush_pos_after - ev.last_flush_pos_before;
                    if ev.out_size > 0 || len > 0 {
                        if !first {
                            let allow = len + 4 + if len > (1 << 20) { 1 } else { 0 };
                            if ev.out_size > allow && !(len == 0) {
                                rep.viol("header:c08:guard-hypothesis", &format!("a meta-block of {} input bytes produced {} whole bytes (> len + 4)", len, ev.out_size), case.clone());
                            }
                            if len == 0 && ev.out_size > 2 { rep.viol("header:c08:guard-hypothesis", "an empty last block took more than 2 bytes", case.clone()); }
                        }
                        // (the first invocation also stores the 2-byte catable prelude: its `len` is not one meta-block)
                        if !first && len > 0 && k + 1 < nev && len + 2 < (1 << 14) { rep.viol("header:c08:blocks-hypothesis", &format!("a non-final meta-block of only {} bytes without a flush", len), case.clone()); }
                        if len > 0 { rep.count("c08.stream.metablocks"); }
                        first = false;
                    }
                }
            }
        }
        rep
    });
    for r in res { merge_rep(rep, r); }
    tick("c08 stream done", &t0);
    // ---- (e) whole never-flushed histories against the RUN-LEVEL model (`BV.Stream.run`, theorem
    // `stream_total_le_bound_run`): public API only (set_parameter, PROCESS chunks, FINISH, take_output),
    // several output schedules. Two correspondence lines per history: the `stream k` skeleton line (every
    // call's state digest + the `R:` run summary) and `header nfrun` (bytes delivered, input_pos_, bytes
    // consumed, the advertised bound, the spans of the closed meta-blocks from the hook log).
    // Oracles: finished, delivered <= bound, every closed span but the last >= 2^14, spans add up to the input.
    {
        use crate::stream as st;
        let mut rcases: Vec<(Cfg, usize, u32, usize, usize)> = vec![];
        let rns: Vec<usize> = vec![0, 1, 2, 3, 100, 16383, 16384, 16386, 32770, 49153, 65538, 131072 + 2];
        let rhints: [u64; 3] = [0, 1 << 21, (1u64 << 32) - 1];
        let mut idx = 0usize;
        for q in 2..=11 {
            for flags in 0..16u32 {
                let (cat, app, magic, lw) = (flags & 1 != 0, flags & 2 != 0, flags & 4 != 0, flags & 8 != 0);
                for (j, &n) in rns.iter().enumerate() {
                    idx += 1;
                    if !thorough && n > 3 && (j + q as usize + flags as usize) % 4 != 0 { continue; }
                    if !thorough && n > 3 && (idx / 4) % 3 != 0 { continue; }
                    if q >= 10 && n > 70000 && !thorough { continue; }
                    let hint = rhints[(j + flags as usize) % 3];
                    let chunk = match idx % 3 { 0 => usize::MAX / 2, 1 => 1000, _ => 20000 };
                    rcases.push((Cfg { q, lgwin: if lw { 26 } else if idx % 5 == 0 { 16 } else { 22 }, lw, cat, app, dict: !cat, magic, hint }, n, (idx % 2) as u32, chunk, idx % 3));
                }
            }
        }
        let nrc = rcases.len();
        let rcases = std::sync::Arc::new(rcases);
        let res = par_tasks(nrc, move |i| {
            let (c, n, kind, chunk, sk) = rcases[i];
            let mut rep = Report::default();
            let mut lines: Vec<(String, String)> = vec![];
            let mut rng = Rng::new(seed ^ 0x2f7e ^ ((i as u64) << 20));
            let input = content(kind, n, &mut rng);
            rep.evaluations += 1;
            let mut cfg = st::Cfg::default();
            cfg.q = c.q; cfg.lgwin = c.lgwin; cfg.large = c.lw; cfg.catable = c.cat;
            if c.lw { cfg.sets.push((6, 1)); }
            cfg.sets.push((1, c.q as u32));
            cfg.sets.push((2, c.lgwin as u32));
            if c.app { cfg.sets.push((168, 1)); }
            if c.cat { cfg.sets.push((167, 1)); }
            if c.magic { cfg.sets.push((169, 1)); }
            if c.hint != 0 { cfg.sets.push((5, c.hint as u32)); }
            let mut reqs: Vec<st::Req> = vec![];
            let mut pos = 0usize;
            loop {
                let end = pos.saturating_add(chunk.max(1)).min(n);
                if end == n { reqs.push(st::Req { op: st::OP_FINISH, data: input[pos..].to_vec() }); break; }
                reqs.push(st::Req { op: st::OP_PROCESS, data: input[pos..end].to_vec() });
                pos = end;
            }
            let sched = match sk {
                0 => st::OutSched::ample(),
                1 => st::OutSched { caps: vec![4096, 100], take_every: 3, take_sizes: vec![0, 50] },
                _ => st::OutSched { caps: vec![65536], take_every: 2, take_sizes: vec![1000] },
            };
            let case = format!("{{\"quality\":{},\"lgwin\":{},\"large_window\":{},\"catable\":{},\"appendable\":{},\"magic_number\":{},\"size_hint\":\"{}\",\"n\":{},\"content\":{},\"chunk\":{},\"sched\":{},\"seed\":{},\"idx\":{}}}", c.q, c.lgwin, c.lw, c.cat, c.app, c.magic, c.hint, n, kind, chunk.min(1 << 40), sk, seed, i);
            let ro = st::drive(&cfg, &reqs, &sched, true);
            if let Some((sig, what)) = &ro.fail { rep.viol(&format!("header:c08:nfrun-failed:{}", sig), what, case.clone()); return (lines, rep); }
            if !ro.finished { rep.viol("header:c08:nfrun-failed:not-finished", "FINISH request completed but is_finished() is false", case.clone()); return (lines, rep); }
            let delivered = ro.sess.delivered.len();
            let ip = ro.sess.enc.input_pos_ as usize;
            let bound = BrotliEncoderMaxCompressedSize(ip);
            let mut nd = 0usize;
            let mut spans: Vec<u64> = vec![];
            for r in &ro.sess.recs {
                if let st::Call::Stream { op, .. } = &r.call {
                    if *op != st::OP_METADATA { nd += r.consumed; }
                    for e in &r.events {
                        if e.lf_after == e.input_pos || e.site == 2 { spans.push(if e.site == 2 { e.input_pos } else { e.input_pos - e.lf_before }); }
                    }
                }
            }
            if ip != n || nd != n { rep.viol("header:c08:nfrun-input-count", &format!("input_pos_ {} / consumed {} after feeding {} bytes", ip, nd, n), case.clone()); }
            if delivered > bound { rep.viol("header:c08:stream-exceeds-bound", &format!("never-flushed stream of {} input bytes is {} bytes > advertised bound {}", n, delivered, bound), case.clone()); }
            // the <= 2 bytes of the catable prelude are stored by the first invocation; they belong to the first
            // closed span only when that invocation also closes the meta-block
            let ssum = spans.iter().sum::<u64>() as usize;
            if !(ssum <= n && n <= ssum + if c.cat { 2 } else { 0 }) { rep.viol("header:c08:nfrun-spans", &format!("closed meta-block spans {:?} do not add up to the input {}", spans, n), case.clone()); }
            for (k, sp) in spans.iter().enumerate() {
                if k + 1 < spans.len() && *sp < (1 << 14) { rep.viol("header:c08:blocks-hypothesis", &format!("a non-final meta-block spanning only {} bytes without a flush", sp), case.clone()); }
                if *sp > (1 << 24) { rep.viol("header:c08:metablock-above-2^24", &format!("a meta-block spanning {} bytes", sp), case.clone()); }
            }
            rep.nontrivial += 1;
            rep.count(&format!("c08.nfrun.metablocks.{}", if spans.len() < 4 { spans.len().to_string() } else { "4+".into() }));
            rep.count(&format!("c08.nfrun.sched.{}", sk));
            if let Some((ops, ans)) = st::corr_line_mode(&ro.sess, 1) {
                let toks = ops.strip_prefix("stream k").unwrap_or(&ops).to_string();
                let sp = if spans.is_empty() { "-".to_string() } else { spans.iter().map(|x| x.to_string()).collect::<Vec<_>>().join(",") };
                lines.push((format!("header nfrun{}", toks), format!("{} {} {} {} {}", delivered, ip, nd, bound, sp)));
                lines.push((ops, ans));
                rep.count("c08.nfrun.lines");
            } else { rep.count("c08.nfrun.line_too_long"); }
            (lines, rep)
        });
        for (lines, r) in res { for (a, bb) in lines { corr.case(&a, &bb); } merge_rep(rep, r); }
    }
    tick("c08 nfrun done", &t0);
}

pub fn run_cmd(args: &Args) {
    let mut corr = Corr::new(&args.out);
    let mut rep = Report::default();
    let what = args.rest.first().map(|s| s.as_str()).unwrap_or("all");
    if what == "probe" {
        // replay aid: `bvh header probe <q> <lgwin> <lw> <cat> <app> <magic> <hint> <n> <content kind> [chunk]`
        let a: Vec<u64> = args.rest[1..].iter().map(|x| x.parse().unwrap_or(0)).collect();
        let c = Cfg { q: a[0] as i32, lgwin: a[1] as i32, lw: a[2] != 0, cat: a[3] != 0, app: a[4] != 0, dict: a[3] == 0, magic: a[5] != 0, hint: a[6] };
        let input = content(a[8] as u32, a[7] as usize, &mut Rng::new(args.seed));
        let chunk = if a.len() > 9 { a[9] as usize } else { usize::MAX / 2 };
        match stream_encode(&c.params(), &input, chunk) {
            Ok(out) => println!("n={} stream={} bound={} first={}", input.len(), out.len(), BrotliEncoderMaxCompressedSize(input.len()), hex(&out[..out.len().min(40)])),
            Err(e) => println!("error {}", e),
        }
        return;
    }
    if what == "c15" || what == "all" { run_c15(args, &mut corr, &mut rep); }
    if what == "c08" || what == "all" { run_c08(args, &mut corr, &mut rep); }
    corr.finish();
    rep.write(&args.out);
}
