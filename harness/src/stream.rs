//! engine `stream` — C20 / C04 / C05 / C01: the streaming encoder state machine
//! (`brotli::enc::encode::BrotliEncoderStateStruct`: set_parameter, compress_stream,
//! take_output, is_finished, has_more_output).
//!
//! `bvh stream <c20|c04|c05|c01|all> --tier … --seed … --out …`
//!
//! A *history* is a sequence of public-API calls on one fresh encoder (StandardAlloc):
//!   `P:<id>:<value>`            set_parameter(id, value)
//!   `C:<op>:<input>:<cap>`      compress_stream(op, next_in = input, available_out = cap)
//!   `T:<size>`                  take_output(size)
//! After every call the harness snapshots the public state fields.  With the
//! `verif_stream_hook` of /repo every payload-encoder invocation made inside a call is
//! recorded too (request + answer); those answers are what the Lean model replays
//! (the payload encoder is an oracle there), everything else the model predicts
//! (correspondence: `ops.txt` / `impl.txt`, format in lean/BV/Drive/Stream.lean).
//!
//! Search stage (real code alone), per sub-command:
//!   c01  plans (params x input class x request list x output schedule) driven to FINISH:
//!        every call true, no panic, finishes within a call bound, output decodes with both
//!        decoders to the bytes fed in.
//!   c04  plans with FLUSH / EMIT_METADATA at arbitrary positions: at every completed flush
//!        the bytes so far decode (streaming decoder -> NeedsMoreInput(prefix)) to all input so
//!        far, `prefix ++ 03` is a complete stream for both decoders (byte boundary), metadata
//!        payload appears verbatim behind an independently parsed header.
//!   c05  the same request list under different output schedules (caps 0/1/…/ample, push vs
//!        take_output) gives identical bytes; for (quality >= 2 or catable) with size_hint set
//!        also under different input chunkings.
//!   c20  exhaustive call sequences (<= 4, reduced alphabet <= 5) + random longer ones against
//!        a reference automaton of the documented contract (`Contract` below): return values,
//!        params frozen, nothing consumed after finish, finished absorbing, refused calls
//!        change nothing, request completion within a bound.
//!
//! non-trivial (rep.nontrivial) = a history with at least one compress_stream call that
//! returned true and produced or consumed at least one byte.
//!
//! Corpus: /verif/corpus/stream/*.txt — one history per file: the token line as above
//! (`#` lines are comments); they are replayed first under `c01`/`c20` rules (no panic, no
//! refused contract-abiding call).
use crate::dec;
use crate::prng::Rng;
use crate::util::*;
use brotli::enc::encode::{
    BrotliEncoderOperation, BrotliEncoderParameter, BrotliEncoderStateStruct, BrotliEncoderStreamState, IsFirst,
};
use brotli::enc::StandardAlloc;
use std::cell::RefCell;
use std::panic::{catch_unwind, AssertUnwindSafe};

pub type Enc = BrotliEncoderStateStruct<StandardAlloc>;

/// An allocator that honours the `Allocator` contract but hands out cells LONGER than requested
/// (by 0..=maxk elements, as alloc_no_stdlib's StackAllocator may) and counts its traffic;
/// `maxk = 0` is a plain tracking allocator.
pub struct OverAlloc { pub n: usize, pub live: isize, pub maxk: usize }
impl<T: Clone + Default> alloc_no_stdlib::Allocator<T> for OverAlloc {
    type AllocatedMemory = alloc_stdlib::heap_alloc::WrapBox<T>;
    fn alloc_cell(&mut self, len: usize) -> Self::AllocatedMemory {
        if len == 0 { return Self::AllocatedMemory::default(); }
        self.n += 1;
        self.live += 1;
        let k = if self.maxk == 0 { 0 } else { (self.n * 7 + 3) % (self.maxk + 1) };
        alloc_stdlib::heap_alloc::WrapBox::<T>::from(vec![T::default(); len + k])
    }
    fn free_cell(&mut self, data: Self::AllocatedMemory) {
        use alloc_no_stdlib::SliceWrapper;
        if !data.slice().is_empty() { self.live -= 1; }
    }
}
impl brotli::enc::BrotliAlloc for OverAlloc {}

/// run a request list on an encoder with allocator `a` (ample output, nothing recorded);
/// Err = (signature tail, description)
pub fn run_reqs_alloc<A: brotli::enc::BrotliAlloc>(a: A, cfg: &Cfg, reqs: &[Req]) -> Result<Vec<u8>, (String, String)> {
    let total_in: usize = reqs.iter().filter(|r| r.op != OP_METADATA).map(|r| r.data.len()).sum();
    let r = catch_unwind(AssertUnwindSafe(|| {
        let mut e = BrotliEncoderStateStruct::new(a);
        for (id, v) in &cfg.sets { if let Some(p) = param_of(*id) { e.set_parameter(p, *v); } }
        if cfg.hint_exact { e.set_parameter(BrotliEncoderParameter::BROTLI_PARAM_SIZE_HINT, total_in as u32); }
        let mut out: Vec<u8> = vec![];
        let mut buf = vec![0u8; 1 << 20];
        for rq in reqs {
            let mut pos = 0usize;
            let mut calls = 0usize;
            loop {
                calls += 1;
                if calls > 100000 { return Err(("livelock".to_string(), "request not complete after 100000 calls".to_string())); }
                let mut avail_in = rq.data.len() - pos;
                let mut in_off = 0usize;
                let mut avail_out = buf.len();
                let mut out_off = 0usize;
                let mut total: Option<usize> = None;
                let mut cb = |_: &mut brotli::interface::PredictionModeContextMap<brotli::InputReferenceMut>, _: &mut [brotli::interface::StaticCommand], _: brotli::interface::InputPair, _: &mut A| ();
                let ret = e.compress_stream(op_of(rq.op), &mut avail_in, &rq.data[pos..], &mut in_off, &mut avail_out, &mut buf, &mut out_off, &mut total, &mut cb);
                if !ret { return Err(("refused".to_string(), format!("op {} refused", rq.op))); }
                pos += in_off;
                out.extend_from_slice(&buf[..out_off]);
                let done = pos == rq.data.len() && e.available_out_ == 0 && match rq.op {
                    OP_PROCESS => true,
                    OP_FLUSH => e.stream_state_ as i32 == 0,
                    OP_FINISH => e.is_finished(),
                    _ => e.remaining_metadata_bytes_ == u32::MAX && e.stream_state_ as i32 == 0,
                };
                if done { break; }
            }
        }
        Ok(out)
    }));
    let _ = evhook::take();
    match r {
        Ok(x) => x,
        Err(_) => { let p = last_panic(); Err((format!("panic:{}", p.split(' ').next().unwrap_or("?")), p)) }
    }
}

// ---------------------------------------------------------------------------------------------
// hook events (payload-encoder invocations inside one call)
// ---------------------------------------------------------------------------------------------
#[derive(Clone, Debug, Default)]
pub struct Ev {
    pub site: u8,
    pub is_last: bool,
    pub force_flush: bool,
    pub next_out_offset: u64,
    pub input_pos: u64,
    pub lf_before: u64,
    pub lp_before: u64,
    pub bytes: u64,
    pub cb_before: u8,
    pub result: bool,
    pub inplace: bool,
    pub out_size: u64,
    pub cb_after: u8,
    pub lf_after: u64,
    pub lp_after: u64,
}
mod evhook {
    use super::Ev;
    pub const HAVE: bool = true;
    pub fn take() -> Vec<Ev> {
        brotli::enc::encode::verif_stream_hook::take().into_iter().map(|e| Ev {
            site: e.site, is_last: e.is_last, force_flush: e.force_flush, next_out_offset: e.next_out_offset, input_pos: e.input_pos,
            lf_before: e.last_flush_pos_before, lp_before: e.last_processed_pos_before, bytes: e.bytes, cb_before: e.carry_bits_before,
            result: e.result, inplace: e.inplace, out_size: e.out_size, cb_after: e.carry_bits_after, lf_after: e.last_flush_pos_after, lp_after: e.last_processed_pos_after,
        }).collect()
    }
}

// ---------------------------------------------------------------------------------------------
// panic capture
// ---------------------------------------------------------------------------------------------
thread_local! { static LAST_PANIC: RefCell<String> = RefCell::new(String::new()); }
thread_local! { static OUTBUF: RefCell<Vec<u8>> = RefCell::new(Vec::new()); }
fn install_panic_hook() {
    std::panic::set_hook(Box::new(|info| {
        let loc = info.location().map(|l| format!("{}:{}", l.file().rsplit('/').next().unwrap_or("?"), l.line())).unwrap_or_else(|| "?".into());
        let msg = if let Some(s) = info.payload().downcast_ref::<&str>() { s.to_string() } else if let Some(s) = info.payload().downcast_ref::<String>() { s.clone() } else { "?".into() };
        LAST_PANIC.with(|p| *p.borrow_mut() = format!("{} {}", loc, msg));
    }));
}
fn last_panic() -> String { LAST_PANIC.with(|p| p.borrow().clone()) }

// ---------------------------------------------------------------------------------------------
// session = one encoder + the recorded history
// ---------------------------------------------------------------------------------------------
pub const OP_PROCESS: u8 = 0;
pub const OP_FLUSH: u8 = 1;
pub const OP_FINISH: u8 = 2;
pub const OP_METADATA: u8 = 3;
fn op_of(o: u8) -> BrotliEncoderOperation {
    match o {
        0 => BrotliEncoderOperation::BROTLI_OPERATION_PROCESS,
        1 => BrotliEncoderOperation::BROTLI_OPERATION_FLUSH,
        2 => BrotliEncoderOperation::BROTLI_OPERATION_FINISH,
        _ => BrotliEncoderOperation::BROTLI_OPERATION_EMIT_METADATA,
    }
}
/// numeric parameter id -> enum (None = not a constructible id of interest)
pub fn param_of(id: u32) -> Option<BrotliEncoderParameter> {
    use BrotliEncoderParameter::*;
    Some(match id {
        0 => BROTLI_PARAM_MODE,
        1 => BROTLI_PARAM_QUALITY,
        2 => BROTLI_PARAM_LGWIN,
        3 => BROTLI_PARAM_LGBLOCK,
        4 => BROTLI_PARAM_DISABLE_LITERAL_CONTEXT_MODELING,
        5 => BROTLI_PARAM_SIZE_HINT,
        6 => BROTLI_PARAM_LARGE_WINDOW,
        7 => UNUSED7,
        150 => BROTLI_PARAM_Q9_5,
        154 => BROTLI_PARAM_LITERAL_BYTE_SCORE,
        166 => BROTLI_PARAM_AVOID_DISTANCE_PREFIX_SEARCH,
        167 => BROTLI_PARAM_CATABLE,
        168 => BROTLI_PARAM_APPENDABLE,
        169 => BROTLI_PARAM_MAGIC_NUMBER,
        170 => BROTLI_PARAM_NO_DICTIONARY,
        171 => BROTLI_PARAM_FAVOR_EFFICIENCY,
        _ => return None,
    })
}

#[derive(Clone, Debug, PartialEq, Default)]
pub struct Snap {
    pub st: i32,
    pub ip: u64,
    pub lf: u64,
    pub lp: u64,
    pub lb: u16,
    pub lbb: u8,
    pub ao: usize,
    pub rm: u32,
    pub le: bool,
    pub init: bool,
    pub to: u64,
    pub fm: u8,
    pub q: i32,
    pub w: i32,
    pub b: i32,
    pub hint: usize,
    pub cat: bool,
    pub app: bool,
    pub magic: bool,
    pub lw: bool,
    pub mode: i32,
    pub dlcm: i32,
    pub lbs: i32,
    pub q95: bool,
    pub usedict: bool,
    pub rpos: u32,
    pub rcur: u32,
    pub fin: bool,
    pub more: bool,
    pub ral: usize,
    pub rdg: u32,
}
pub fn snap(e: &Enc) -> Snap {
    use alloc_no_stdlib::SliceWrapper;
    Snap {
        st: e.stream_state_ as i32,
        ip: e.input_pos_,
        lf: e.last_flush_pos_,
        lp: e.last_processed_pos_,
        lb: e.last_bytes_,
        lbb: e.last_bytes_bits_,
        ao: e.available_out_,
        rm: e.remaining_metadata_bytes_,
        le: e.is_last_block_emitted_,
        init: e.is_initialized_,
        to: e.total_out_,
        fm: match e.is_first_mb { IsFirst::NothingWritten => 0, IsFirst::HeaderWritten => 1, IsFirst::FirstCatableByteWritten => 2, IsFirst::BothCatableBytesWritten => 3 },
        q: e.params.quality,
        w: e.params.lgwin,
        b: e.params.lgblock,
        hint: e.params.size_hint,
        cat: e.params.catable,
        app: e.params.appendable,
        magic: e.params.magic_number,
        lw: e.params.large_window,
        mode: e.params.mode as i32,
        dlcm: e.params.disable_literal_context_modeling,
        lbs: e.params.hasher.literal_byte_score,
        q95: e.params.q9_5,
        usedict: e.params.use_dictionary,
        rpos: e.ringbuffer_.pos_,
        rcur: e.ringbuffer_.cur_size_,
        fin: e.is_finished(),
        more: e.has_more_output(),
        ral: e.ringbuffer_.data_mo.slice().len(),
        rdg: ring_digest(e),
    }
}
/// FNV-1a over `ringbuffer_.data_mo` at: the 2-byte prefix, the last 32 bytes written, their tail-mirror
/// cells, the 7 bytes of slack behind the write position (indices beyond the allocation skipped)
pub fn ring_digest(e: &Enc) -> u32 {
    use alloc_no_stdlib::SliceWrapper;
    let rb = &e.ringbuffer_;
    let d = rb.data_mo.slice();
    if d.is_empty() { return 0; }
    let mut idx: Vec<usize> = vec![0, 1];
    for j in 1..=32u32 { idx.push(2 + (rb.pos_.wrapping_sub(j) & rb.mask_) as usize); }
    for j in 1..=32u32 { idx.push(2 + rb.size_ as usize + (rb.pos_.wrapping_sub(j) & rb.mask_) as usize); }
    for i in 0..7usize { idx.push(2 + (rb.pos_ & rb.mask_) as usize + i); }
    let mut h: u32 = 2166136261;
    for i in idx { if i < d.len() { h = (h ^ d[i] as u32).wrapping_mul(16777619); } }
    h
}
impl Snap {
    /// digest printed in the correspondence answer (`full` adds the carry value)
    pub fn digest(&self, full: bool) -> String { self.digest2(full, full) }
    pub fn digest2(&self, full: bool, ring: bool) -> String {
        let b = |x: bool| if x { 1 } else { 0 };
        format!(
            "{},{},{},{},{},{},{},{},{},{},{},{},{},{},{},{},{},{},{},{},{},{},{},{},{},{},{},{}",
            self.st, self.ip, self.lf, self.lp, if full { if self.lbb == 0 { 0 } else { self.lb as i64 } } else { -1 }, self.lbb, self.ao, self.rm, b(self.le), b(self.init), self.to, self.fm,
            self.q, self.w, self.b, self.hint, b(self.cat), b(self.app), b(self.magic), b(self.lw), self.mode, self.dlcm, b(self.usedict), self.rpos, self.rcur, b(self.fin) * 2 + b(self.more), self.ral, if ring { self.rdg as i64 } else { -1 }
        )
    }
    /// everything a refused call must leave alone (size_hint excepted: update_size_hint(0)
    /// runs before the metadata checks — recorded quirk)
    pub fn same_but_hint(&self, o: &Snap) -> bool {
        let mut a = self.clone();
        a.hint = o.hint;
        a == *o
    }
}

/// Does the quality 0/1 branch of encode_data advance last_flush_pos_ (fixed tree)?  Canary:
/// q1 catable, PROCESS "abc", FLUSH — safe on both trees.
fn q01_flush_pos_fixed() -> bool {
    static FIXED: std::sync::OnceLock<bool> = std::sync::OnceLock::new();
    *FIXED.get_or_init(|| {
        let mut e = Enc::new(StandardAlloc::default());
        e.set_parameter(BrotliEncoderParameter::BROTLI_PARAM_QUALITY, 1);
        e.set_parameter(BrotliEncoderParameter::BROTLI_PARAM_CATABLE, 1);
        let data = b"abc";
        let (mut ai, mut io, mut ao, mut oo) = (3usize, 0usize, 4096usize, 0usize);
        let mut buf = vec![0u8; 4096];
        let mut total: Option<usize> = None;
        let mut cb = |_: &mut brotli::interface::PredictionModeContextMap<brotli::InputReferenceMut>, _: &mut [brotli::interface::StaticCommand], _: brotli::interface::InputPair, _: &mut StandardAlloc| ();
        e.compress_stream(op_of(OP_FLUSH), &mut ai, data, &mut io, &mut ao, &mut buf, &mut oo, &mut total, &mut cb);
        let _ = evhook::take();
        e.last_flush_pos_ == e.input_pos_
    })
}
/// the call would spin for ever in process_metadata on an unfixed tree
fn spin_guard(s: &Snap, op: u8, n: usize) -> bool {
    if q01_flush_pos_fixed() { return false; }
    if !(s.init && s.q <= 1 && s.cat && op == OP_METADATA) { return false; }
    if !contract_accepts(alpha(s), op, n) { return false; }
    let pre_left: u64 = match s.fm { 3 => 0, 2 => 1, _ => 2 };
    let lf2 = s.lf + pre_left.min(s.ip - s.lp);
    lf2 != s.ip
}

#[derive(Clone, Debug)]
pub enum Call {
    Set(u32, u32),
    /// `data` = the prefix of the offered input that matters (what was consumed; bytes behind it
    /// were only offered), `offered` = available_in
    Stream { op: u8, data: Vec<u8>, offered: usize, cap: usize },
    Take(usize),
}
impl Call {
    pub fn token(&self) -> String {
        match self {
            Call::Set(i, v) => format!("P:{}:{}", i, v),
            Call::Stream { op, data, offered, cap } => if *offered == data.len() { format!("C:{}:{}:{}", op, hex(data), cap) } else { format!("C:{}:{}+{}:{}", op, hex(data), offered - data.len(), cap) },
            Call::Take(n) => format!("T:{}", n),
        }
    }
    pub fn parse(t: &str) -> Option<Call> {
        let f: Vec<&str> = t.split(':').collect();
        match f.as_slice() {
            ["P", i, v] => Some(Call::Set(i.parse().ok()?, v.parse().ok()?)),
            ["C", o, d, c] => {
                let (h, extra) = match d.split_once('+') { Some((h, e)) => (h, e.parse::<usize>().ok()?), None => (*d, 0) };
                let data = unhex(h);
                let offered = data.len() + extra;
                Some(Call::Stream { op: o.parse().ok()?, data, offered, cap: c.parse().ok()? })
            }
            ["T", n] => Some(Call::Take(n.parse().ok()?)),
            _ => None,
        }
    }
}
#[derive(Clone, Debug)]
pub struct Rec {
    pub call: Call,
    pub before: Snap,
    pub ret: bool,
    pub consumed: usize,
    pub produced: Vec<u8>,
    pub after: Snap,
    pub events: Vec<Ev>,
    pub panicked: bool,
}
pub struct Session {
    pub enc: Enc,
    pub recs: Vec<Rec>,
    pub delivered: Vec<u8>,
    pub dead: Option<String>, // panic message
    pub record: bool,
    pub oracle_bad: Option<String>, // a recorded payload-encoder answer violates OracleOK
}
impl Session {
    pub fn new() -> Self {
        Session { enc: Enc::new(StandardAlloc::default()), recs: vec![], delivered: vec![], dead: None, record: true, oracle_bad: None }
    }
    fn push(&mut self, r: Rec) {
        if self.record { self.recs.push(r); }
    }
    pub fn set(&mut self, id: u32, val: u32) -> bool {
        let before = snap(&self.enc);
        let p = match param_of(id) { Some(p) => p, None => return false };
        let ret = self.enc.set_parameter(p, val);
        let after = snap(&self.enc);
        self.push(Rec { call: Call::Set(id, val), before, ret, consumed: 0, produced: vec![], after, events: vec![], panicked: false });
        ret
    }
    /// one compress_stream call; returns (ret, consumed, produced)
    pub fn stream(&mut self, op: u8, data: &[u8], cap: usize) -> (bool, usize, usize) {
        if self.dead.is_some() { return (false, 0, 0); }
        let before = snap(&self.enc);
        if spin_guard(&before, op, data.len()) {
            // this call would never return on a tree without the last_flush_pos_ fix
            // (/verif/proposed/metadata-q01-catable-livelock.md): do not make it
            self.dead = Some("livelock:metadata-q01-catable process_metadata spins: quality 0/1 + catable never advances last_flush_pos_".into());
            self.push(Rec { call: Call::Stream { op, data: vec![], offered: data.len(), cap }, before: before.clone(), ret: false, consumed: 0, produced: vec![], after: before, events: vec![], panicked: true });
            return (false, 0, 0);
        }
        let mut avail_in = data.len();
        let mut in_off = 0usize;
        let mut buf = OUTBUF.with(|b| core::mem::take(&mut *b.borrow_mut()));
        if buf.len() < cap { buf.resize(cap, 0xa5); }
        let mut avail_out = cap;
        let mut out_off = 0usize;
        let mut total: Option<usize> = None;
        let _ = evhook::take();
        let enc = &mut self.enc;
        let r = catch_unwind(AssertUnwindSafe(|| {
            let mut cb = |_: &mut brotli::interface::PredictionModeContextMap<brotli::InputReferenceMut>, _: &mut [brotli::interface::StaticCommand], _: brotli::interface::InputPair, _: &mut StandardAlloc| ();
            enc.compress_stream(op_of(op), &mut avail_in, data, &mut in_off, &mut avail_out, &mut buf[..cap], &mut out_off, &mut total, &mut cb)
        }));
        let events = evhook::take();
        let res = match r {
            Err(_) => {
                self.dead = Some(last_panic());
                let call = Call::Stream { op, data: data[..data.len().min(64)].to_vec(), offered: data.len(), cap };
                if self.record { self.recs.push(Rec { call, before: before.clone(), ret: false, consumed: 0, produced: vec![], after: before, events, panicked: true }); }
                (false, 0, 0)
            }
            Ok(ret) => {
                let out_off = out_off.min(cap);
                // OracleOK (the hypotheses the Lean theorems put on the payload encoder), checked on
                // every recorded invocation: it succeeds, a forced invocation leaves nothing
                // unflushed, and it writes at most 8 * (2 * bytes + 500) bits
                for e in &events {
                    let nbits = (e.out_size * 8 + e.cb_after as u64) as i64 - e.cb_before as i64;
                    let forced_ok = !(e.is_last || e.force_flush) || e.site == 2 || e.lf_after == e.input_pos;
                    let span = if e.site == 2 { e.bytes } else { e.bytes.max(e.input_pos - e.lf_before) };
                    if e.result && (nbits < 0 || nbits as u64 > 8 * (2 * span + 500) || !forced_ok) {
                        self.oracle_bad = Some(format!("site {} bytes {} nbits {} last {} flush {} lf_after {} ip {}", e.site, e.bytes, nbits, e.is_last, e.force_flush, e.lf_after, e.input_pos));
                    }
                }
                self.delivered.extend_from_slice(&buf[..out_off]);
                if self.record {
                    let after = snap(&self.enc);
                    let keep = in_off.min(data.len());
                    let call = Call::Stream { op, data: data[..keep].to_vec(), offered: data.len(), cap };
                    self.recs.push(Rec { call, before, ret, consumed: in_off, produced: buf[..out_off].to_vec(), after, events, panicked: false });
                }
                (ret, in_off, out_off)
            }
        };
        OUTBUF.with(|b| *b.borrow_mut() = buf);
        res
    }
    pub fn take(&mut self, size: usize) -> usize {
        if self.dead.is_some() { return 0; }
        let before = snap(&self.enc);
        let enc = &mut self.enc;
        let r = catch_unwind(AssertUnwindSafe(|| {
            let mut sz = size;
            let s = enc.take_output(&mut sz);
            s[..sz].to_vec()
        }));
        match r {
            Err(_) => {
                self.dead = Some(last_panic());
                self.push(Rec { call: Call::Take(size), before: before.clone(), ret: false, consumed: 0, produced: vec![], after: before, events: vec![], panicked: true });
                0
            }
            Ok(v) => {
                self.delivered.extend_from_slice(&v);
                let after = snap(&self.enc);
                let n = v.len();
                self.push(Rec { call: Call::Take(size), before, ret: true, consumed: 0, produced: v, after, events: vec![], panicked: false });
                n
            }
        }
    }
    pub fn history_line(&self) -> String {
        self.recs.iter().map(|r| r.call.token()).collect::<Vec<_>>().join(" ")
    }
}

// ---------------------------------------------------------------------------------------------
// parameters
// ---------------------------------------------------------------------------------------------
#[derive(Clone, Debug, Default)]
pub struct Cfg {
    pub sets: Vec<(u32, u32)>,
    // the effective values the generator aimed at (for budgeting; the encoder's own sanitised
    // values are read back from the state)
    pub q: i32,
    pub lgwin: i32,
    pub large: bool,
    pub catable: bool,
    pub hint_exact: bool, // size_hint will be patched to the real total input length
}
fn eff_quality(v: u32) -> i32 { (v as i32).clamp(0, 11) }
fn eff_lgwin(v: u32, large: bool) -> i32 {
    let x = v as i32;
    if x < 10 { 10 } else if x > 24 { if large { x.min(30) } else { 24 } } else { x }
}
/// `heavy`: allow the sparse expensive corner (lgwin >= 19, q10/11) in this draw
pub fn gen_cfg(rng: &mut Rng, heavy: bool) -> Cfg {
    let mut c = Cfg::default();
    let mut qv: u32 = match rng.below(16) {
        0 => 0, 1 => 1, 2 => 2, 3 => 3, 4 => 4, 5 => 5, 6 => 6, 7 => 7, 8 => 8, 9 => 9,
        10 => if heavy { 10 } else { 5 },
        11 => if heavy { 11 } else { 2 },
        12 => *rng.pick(&[12u32, 100, 0x7fff_ffff, 0xffff_ffff, 0x8000_0000]), // clamped
        13 => 0, 14 => 1, _ => 9,
    };
    let large = rng.chance(1, 10);
    let mut wv: u32 = match rng.below(20) {
        0..=11 => rng.range(10, 18) as u32,
        12 | 13 => rng.range(16, 18) as u32,
        14 => if heavy { rng.range(19, 22) as u32 } else { rng.range(10, 16) as u32 },
        15 => *rng.pick(&[0u32, 9, 1, 0xffff_ffff]), // clamped to 10
        16 => if heavy && rng.chance(1, 4) { if large { rng.range(25, 26) as u32 } else { *rng.pick(&[23u32, 24, 25, 31, 100]) } } else { 17 },
        _ => rng.range(10, 14) as u32,
    };
    // budget: the binary-tree hasher (q10/11 without q9_5) allocates 8 bytes per window position
    if eff_quality(qv) >= 10 && eff_lgwin(wv, large) > 18 { wv = rng.range(10, 18) as u32; }
    if eff_lgwin(wv, large) >= 23 && eff_quality(qv) > 9 { qv = 5; }
    c.q = eff_quality(qv);
    c.lgwin = eff_lgwin(wv, large);
    c.large = large;
    // order of the set_parameter calls is shuffled a little: large_window before/after lgwin
    if large && rng.chance(1, 2) { c.sets.push((6, 1)); }
    c.sets.push((1, qv));
    c.sets.push((2, wv));
    if large && !c.sets.iter().any(|s| s.0 == 6) { c.sets.push((6, 1)); }
    if rng.chance(1, 3) {
        let bv = match rng.below(10) { 0..=3 => rng.range(16, 18) as u32, 4 => rng.range(19, 20) as u32, 5 => if heavy { rng.range(21, 24) as u32 } else { 16 }, 6 => *rng.pick(&[1u32, 15, 25, 30, 0xffff_ffff]), _ => 0 };
        c.sets.push((3, bv));
    }
    if rng.chance(1, 2) { c.sets.push((0, *rng.pick(&[0u32, 1, 2, 2, 3, 4, 5, 6, 7]))); }
    if rng.chance(1, 6) { c.sets.push((150, 1)); }
    if rng.chance(1, 5) { c.sets.push((4, *rng.pick(&[0u32, 1, 1, 2]))); }
    if rng.chance(1, 6) { c.sets.push((154, *rng.pick(&[0u32, 340, 540, 1, 60000]))); }
    if rng.chance(1, 5) { c.sets.push((168, 1)); }
    if rng.chance(1, 4) { c.sets.push((167, 1)); c.catable = true; }
    if rng.chance(1, 5) { c.sets.push((169, 1)); }
    if rng.chance(1, 8) { c.sets.push((166, 1)); }
    if rng.chance(1, 12) { c.sets.push((170, 1)); } // NO_DICTIONARY: not handled by set_parameter (returns false)
    if rng.chance(1, 16) { c.sets.push((7, 3)); } // unknown id: false
    match rng.below(6) {
        0 | 1 => c.hint_exact = true,
        2 => c.sets.push((5, *rng.pick(&[1u32, 100, 1 << 20, 0xffff_ffff]))),
        _ => {}
    }
    c
}
/// a light fixed configuration (for c20 / pairs)
pub fn simple_cfg(q: u32, lgwin: u32, catable: bool, magic: bool, hint: u32) -> Cfg {
    let mut c = Cfg { q: q as i32, lgwin: lgwin as i32, catable, ..Cfg::default() };
    c.sets.push((1, q));
    c.sets.push((2, lgwin));
    if catable { c.sets.push((167, 1)); }
    if magic { c.sets.push((169, 1)); }
    if hint != 0 { c.sets.push((5, hint)); }
    c
}

// ---------------------------------------------------------------------------------------------
// inputs
// ---------------------------------------------------------------------------------------------
pub fn gen_bytes(rng: &mut Rng, n: usize, style: u64) -> Vec<u8> {
    let mut v = Vec::with_capacity(n + 16);
    let words: [&[u8]; 8] = [b"the ", b"quick ", b"brown ", b"fox ", b"<div class=\"", b"0123456789", b"compression ", b"\n"];
    let run_byte = rng.next() as u8;
    while v.len() < n {
        match style {
            0 => v.push(rng.next() as u8),                                   // random / incompressible
            1 => v.push(b'a' + (rng.below(3) as u8)),                        // skewed tiny alphabet
            2 => { let wd: &[u8] = words[rng.below(8) as usize]; v.extend_from_slice(wd) } // text-like
            3 => v.push(run_byte),                                           // one long run
            4 => { let i = v.len(); v.push(((i * 7 + (i >> 3) * 13) % 251) as u8) }
            5 => { if rng.chance(1, 8) || v.len() < 8 { v.push(rng.next() as u8) } else { let d = rng.range(1, v.len().min(64) as u64) as usize; let b = v[v.len() - d]; v.push(b) } }
            6 => { let b = if rng.chance(9, 10) { 0 } else { rng.next() as u8 }; v.push(b) }   // skewed to zero
            _ => { let l = rng.range(1, 40) as usize; let b = rng.next() as u8; for _ in 0..l { v.push(b) } } // runs
        }
    }
    v.truncate(n);
    v
}
pub fn gen_len(rng: &mut Rng, max: usize) -> usize {
    match rng.below(12) {
        0 => 0,
        1 => rng.range(1, 3) as usize,
        2 | 3 => rng.range(4, 64) as usize,
        4..=6 => rng.range(65, 1500.min(max as u64)) as usize,
        7 | 8 => rng.range(1500.min(max as u64), 20000.min(max as u64)) as usize,
        9 => { let b = 1usize << rng.range(10, 16); (b + rng.below(5) as usize).saturating_sub(rng.below(3) as usize).min(max) } // around block sizes
        _ => rng.range(0, max as u64) as usize,
    }
}

// ---------------------------------------------------------------------------------------------
// plans: request lists driven to completion under an output schedule
// ---------------------------------------------------------------------------------------------
#[derive(Clone, Debug)]
pub struct Req { pub op: u8, pub data: Vec<u8> }
#[derive(Clone, Debug)]
pub struct OutSched { pub caps: Vec<usize>, pub take_every: usize, pub take_sizes: Vec<usize> }
impl OutSched {
    pub fn ample() -> Self { OutSched { caps: vec![1 << 22], take_every: 0, take_sizes: vec![0] } }
    pub fn desc(&self) -> String { format!("caps={:?} take_every={} take_sizes={:?}", self.caps, self.take_every, self.take_sizes) }
}
pub fn gen_sched(rng: &mut Rng) -> OutSched {
    let n = rng.range(1, 4) as usize;
    let kind = rng.below(8);
    let caps: Vec<usize> = (0..n).map(|_| match kind {
        0 => 1,
        1 => *rng.pick(&[0usize, 1, 1, 2]),
        2 => rng.range(1, 17) as usize,
        3 => rng.range(0, 600) as usize,
        4 => *rng.pick(&[0usize, 1, 16, 503, 504, 4096, 70000]),
        5 => 1 << 22,
        6 => rng.range(500, 9000) as usize,
        _ => *rng.pick(&[1usize, 3, 1 << 16, 1 << 22]),
    }).collect();
    let mut caps = caps;
    let take_every = match rng.below(4) { 0 => 0, 1 => 1, 2 => 2, _ => rng.range(2, 5) as usize };
    if caps.iter().all(|c| *c == 0) && take_every == 0 { caps.push(1); }
    let take_sizes = (0..rng.range(1, 3)).map(|_| *rng.pick(&[0usize, 0, 1, 2, 15, 16, 17, 100, 5000])).collect();
    OutSched { caps, take_every, take_sizes }
}
#[derive(Clone, Debug, Default)]
pub struct Mark { pub kind: u8, pub out_len: usize, pub in_len: usize, pub md_len: usize, pub md: Vec<u8> } // kind: 1 flush complete, 3 metadata complete
pub struct RunOut {
    pub sess: Session,
    pub fed: Vec<u8>,        // bytes accepted from non-metadata requests
    pub marks: Vec<Mark>,
    pub fail: Option<(String, String)>, // (signature, what)
    pub finished: bool,
    pub ncalls: usize,
}
fn abstract_done(s: &Snap, op: u8) -> bool {
    match op {
        OP_PROCESS => true,
        OP_FLUSH => !s.more && s.st == 0,
        OP_FINISH => s.fin,
        _ => !s.more && s.rm == u32::MAX && s.st == 0,
    }
}
/// drive every request to completion; `contract` = the caller keeps the documented contract,
/// so a `false` return is a violation
pub fn drive(cfg: &Cfg, reqs: &[Req], sched: &OutSched, record: bool) -> RunOut {
    let mut sess = Session::new();
    sess.record = record;
    let total_in: usize = reqs.iter().filter(|r| r.op != OP_METADATA).map(|r| r.data.len()).sum();
    for (id, v) in &cfg.sets { sess.set(*id, *v); }
    if cfg.hint_exact { sess.set(5, total_in as u32); }
    let mut out = RunOut { sess, fed: vec![], marks: vec![], fail: None, finished: false, ncalls: 0 };
    let mut k = 0usize;
    for rq in reqs {
        let mut pos = 0usize;
        let mut idle = 0usize;
        let bound = 4000 + 8 * (rq.data.len() + out.sess.enc.available_out_ + (out.sess.enc.input_pos_ - out.sess.enc.last_flush_pos_) as usize);
        let mut calls_here = 0usize;
        loop {
            k += 1;
            calls_here += 1;
            out.ncalls += 1;
            if calls_here > bound { out.fail = Some(("stream:livelock".into(), format!("request op={} not complete after {} calls", rq.op, calls_here))); return out; }
            let cap = sched.caps[k % sched.caps.len()];
            let (ret, consumed, produced) = out.sess.stream(rq.op, &rq.data[pos..], cap);
            if let Some(p) = &out.sess.dead {
                out.fail = Some((dead_signature(p), format!("compress_stream(op={}, in={}, cap={}): {}", rq.op, rq.data.len() - pos, cap, p)));
                return out;
            }
            if !ret { out.fail = Some((format!("stream:refused:op{}", rq.op), format!("contract-abiding call refused: op={} in={} cap={} state {:?}", rq.op, rq.data.len() - pos, cap, out.sess.enc.stream_state_ as i32))); return out; }
            if consumed > rq.data.len() - pos || produced > cap { out.fail = Some(("stream:cursor".into(), format!("consumed {} of {}, produced {} of {}", consumed, rq.data.len() - pos, produced, cap))); return out; }
            if rq.op != OP_METADATA { out.fed.extend_from_slice(&rq.data[pos..pos + consumed]); }
            pos += consumed;
            // completion is judged on the state in which the call RETURNED (C04: "a flush call
            // returns with all of its input consumed and no output pending"); FINISH may also
            // complete by draining with take_output
            let s_call = snap(&out.sess.enc);
            let mut took = 0usize;
            if sched.take_every != 0 && k % sched.take_every == 0 {
                took = out.sess.take(sched.take_sizes[k % sched.take_sizes.len()]);
                out.ncalls += 1;
                if let Some(p) = &out.sess.dead {
                    out.fail = Some((dead_signature(p), format!("panic in take_output: {}", p)));
                    return out;
                }
            }
            let s = snap(&out.sess.enc);
            let done = pos == rq.data.len() && (abstract_done(&s_call, rq.op) || (rq.op == OP_FINISH && s.fin));
            if done {
                if rq.op == OP_FLUSH { out.marks.push(Mark { kind: 1, out_len: out.sess.delivered.len(), in_len: out.fed.len(), md_len: 0, md: vec![] }); }
                if rq.op == OP_METADATA { out.marks.push(Mark { kind: 3, out_len: out.sess.delivered.len(), in_len: out.fed.len(), md_len: rq.data.len(), md: rq.data.clone() }); }
                break;
            }
            // progress accounting: with room (cap >= 1 or a take) something must move
            if consumed == 0 && produced == 0 && took == 0 { if cap > 0 { idle += 1; } } else { idle = 0; }
            if idle > 4 { out.fail = Some(("stream:livelock".into(), format!("no progress in 5 consecutive calls with output room (op={}, in left {}, state {})", rq.op, rq.data.len() - pos, s.st))); return out; }
        }
    }
    out.finished = snap(&out.sess.enc).fin;
    out
}

/// streaming decode of a PREFIX of a stream: feed everything, keep draining output while the
/// decoder has some; returns (state, output): 0 = stream complete, 1 = wants more input,
/// 2 = error
pub fn decode_prefix(data: &[u8], max_out: usize) -> (u8, Vec<u8>) {
    use brotli::{BrotliDecompressStream, BrotliResult, BrotliState};
    let r = catch_unwind(|| {
        let mut state = BrotliState::new(StandardAlloc::default(), StandardAlloc::default(), StandardAlloc::default());
        let mut out: Vec<u8> = Vec::new();
        let mut buf = vec![0u8; 1 << 16];
        let mut avail_in = data.len();
        let mut in_off = 0usize;
        loop {
            let mut avail_out = buf.len();
            let mut out_off = 0usize;
            let mut written = 0usize;
            let r = BrotliDecompressStream(&mut avail_in, &mut in_off, data, &mut avail_out, &mut out_off, &mut buf, &mut written, &mut state);
            out.extend_from_slice(&buf[..out_off]);
            if out.len() > max_out { return (2u8, out); }
            match r {
                BrotliResult::ResultSuccess => return (if avail_in == 0 { 0 } else { 2 }, out),
                BrotliResult::NeedsMoreOutput => continue,
                // output may still be held back when the buffer was filled exactly
                BrotliResult::NeedsMoreInput => { if out_off == 0 { return (1, out); } else { continue; } }
                BrotliResult::ResultFailure => return (2, out),
            }
        }
    });
    r.unwrap_or((2, vec![]))
}
fn dead_signature(msg: &str) -> String {
    let loc = msg.split(' ').next().unwrap_or("?");
    if loc.starts_with("livelock:") { format!("stream:{}", loc) }
    else if msg.contains("verif_stream_hook:") { "stream:livelock:in-call".into() }
    else { format!("stream:panic:{}", loc) }
}
// independent LSB-first bit reader for the framing checks
fn get_bits(b: &[u8], pos: usize, n: usize) -> Option<u64> {
    let mut v = 0u64;
    for i in 0..n {
        let p = pos + i;
        if p / 8 >= b.len() { return None; }
        v |= (((b[p / 8] >> (p % 8)) & 1) as u64) << i;
    }
    Some(v)
}
/// RFC 7932 9.2 metadata meta-block header ending exactly at byte `end` of `b` (the payload of
/// `len` bytes starts there): is there a start bit offset such that the bits read
/// ISLAST=0, MNIBBLES=11, reserved 0, MSKIPBYTES, MSKIPLEN-1, zero padding?
fn metadata_header_ok(b: &[u8], end: usize, len: usize) -> bool {
    let nbytes: usize = if len == 0 { 0 } else { let v = len - 1; if v == 0 { 1 } else { ((64 - (v as u64).leading_zeros() as usize) + 7) / 8 } };
    let hdr_bits = 6 + 8 * nbytes;
    let end_bit = end * 8;
    for pad in 0..8usize {
        if end_bit < hdr_bits + pad { continue; }
        let s = end_bit - hdr_bits - pad;
        let ok = get_bits(b, s, 1) == Some(0)
            && get_bits(b, s + 1, 2) == Some(3)
            && get_bits(b, s + 3, 1) == Some(0)
            && get_bits(b, s + 4, 2) == Some(nbytes as u64)
            && (nbytes == 0 || get_bits(b, s + 6, 8 * nbytes) == Some((len - 1) as u64))
            && get_bits(b, s + hdr_bits, pad) == Some(0);
        // RFC: the MSKIPLEN-1 value must use its last byte (no over-long encodings)
        let minimal = nbytes <= 1 || ((len - 1) >> (8 * (nbytes - 1))) != 0;
        if ok && minimal { return true; }
    }
    false
}

thread_local! { static TASK: RefCell<String> = RefCell::new(String::new()); }
fn set_task(t: String) { TASK.with(|x| *x.borrow_mut() = t); }
fn case_json(cfg: &Cfg, sess: &Session, extra: &str) -> String {
    let extra = &format!("{} [{}]", extra, TASK.with(|x| x.borrow().clone()));
    let line = sess.history_line();
    let line = if line.len() > 6000 { format!("{}…({} chars)", &line[..6000], line.len()) } else { line };
    format!("{{\"cfg\": {}, \"history\": {}, \"extra\": {}}}", jstr(&format!("{:?}", cfg.sets)), jstr(&line), jstr(extra))
}

// ---------------------------------------------------------------------------------------------
// request-list generator
// ---------------------------------------------------------------------------------------------
pub fn gen_reqs(rng: &mut Rng, total: usize, style: u64, with_flush: bool, with_md: bool, end_finish: bool) -> Vec<Req> {
    let data = gen_bytes(rng, total, style);
    let mut reqs = vec![];
    let mut pos = 0usize;
    let chunk_kind = rng.below(6);
    loop {
        let left = total - pos;
        let n = match chunk_kind {
            0 => left,
            1 => rng.range(1, 3) as usize,
            2 => rng.range(1, 100) as usize,
            3 => rng.range(1, 5000) as usize,
            4 => *rng.pick(&[1usize, 1024, 16384, 16383, 16385, 65536, 65535, 4096]),
            _ => rng.range(0, (left as u64).max(1)) as usize,
        }.min(left);
        if with_md && rng.chance(1, 6) {
            let ml = *rng.pick(&[0usize, 1, 2, 15, 16, 17, 32, 33, 255, 256, 257, 1000, 65535, 65536, 65537]);
            let ml = if ml > 2000 && !rng.chance(1, 6) { 48 } else { ml };
            let md = gen_bytes(rng, ml, 0);
            reqs.push(Req { op: OP_METADATA, data: md });
        }
        let op = if with_flush && rng.chance(1, 4) { OP_FLUSH } else { OP_PROCESS };
        if left == 0 { break; }
        if n == 0 && op == OP_PROCESS { if rng.chance(1, 2) { reqs.push(Req { op, data: vec![] }); } if reqs.len() > 400 { reqs.push(Req { op: OP_PROCESS, data: data[pos..].to_vec() }); break; } continue; }
        reqs.push(Req { op, data: data[pos..pos + n].to_vec() });
        pos += n;
        if reqs.len() > 400 { reqs.push(Req { op: OP_PROCESS, data: data[pos..].to_vec() }); break; }
    }
    if with_flush && rng.chance(1, 3) { reqs.push(Req { op: OP_FLUSH, data: vec![] }); }
    if with_md && rng.chance(1, 8) { reqs.push(Req { op: OP_METADATA, data: gen_bytes(rng, 20, 0) }); }
    if end_finish {
        // fold the tail into the FINISH request sometimes
        if rng.chance(1, 2) {
            if let Some(last) = reqs.last() { if last.op == OP_PROCESS { let l = reqs.pop().unwrap(); reqs.push(Req { op: OP_FINISH, data: l.data }); return reqs; } }
        }
        reqs.push(Req { op: OP_FINISH, data: vec![] });
    }
    reqs
}
/// Input class "planted": segments separated by FLUSH (or left to the automatic meta-block
/// split): incompressible noise with a few short copies at a FRESH distance `d` planted in it
/// (the block is still stored raw, but its commands have touched the distance cache), followed by
/// a segment that repeats at exactly distance `d` (so the next meta-block wants to code `d` as
/// "last distance").  Catches a missing distance-cache rollback on the raw-store paths.
pub fn gen_planted_reqs(rng: &mut Rng) -> Vec<Req> {
    let mut stream: Vec<u8> = vec![];
    let mut reqs: Vec<Req> = vec![];
    let nseg = rng.range(1, 3);
    for _ in 0..nseg {
        // the early "incompressible" test samples every 13th byte: it only fires on blocks of
        // some 30 KiB or more; the match finders thin out their search after 64 literals without a
        // match, so the copy is planted at the very start of the segment (= of the meta-block)
        let d = match rng.below(6) { 0 => 5usize, 1 => 11, 2 => 15, 3 => 16, 4 => rng.range(6, 40) as usize, _ => rng.range(17, 46) as usize };
        let m = rng.range(6, 10) as usize;
        let la = rng.range(33000, 70000) as usize;
        let start = stream.len();
        for _ in 0..la { stream.push(rng.next() as u8); }
        let ncopies = if rng.chance(1, 3) { 2 } else { 1 };
        let mut p = start + d + rng.range(0, (56 - d - m) as u64 / 2) as usize;
        for _ in 0..ncopies {
            for j in 0..m { stream[p + j] = stream[p + j - d]; }
            p += m + d;
            if p + m > start + 120 { break; }
        }
        let seg_a = stream[start..].to_vec();
        let lb = rng.range(40, 1500) as usize;
        let bstart = stream.len();
        for i in 0..lb { let v = stream[bstart + i - d]; stream.push(v); }
        let seg_b = stream[bstart..].to_vec();
        match rng.below(4) {
            0 => { reqs.push(Req { op: OP_FLUSH, data: seg_a }); reqs.push(Req { op: OP_PROCESS, data: seg_b }); }
            1 => { reqs.push(Req { op: OP_PROCESS, data: seg_a }); reqs.push(Req { op: OP_FLUSH, data: vec![] }); reqs.push(Req { op: OP_FLUSH, data: seg_b }); }
            2 => { reqs.push(Req { op: OP_FLUSH, data: seg_a }); reqs.push(Req { op: OP_FLUSH, data: seg_b }); }
            _ => { let mut ab = seg_a; ab.extend_from_slice(&seg_b); reqs.push(Req { op: OP_PROCESS, data: ab }); }
        }
    }
    reqs.push(Req { op: OP_FINISH, data: vec![] });
    reqs
}
fn max_input_for(cfg: &Cfg, rng: &mut Rng, thorough: bool) -> usize {
    if cfg.q >= 10 { return 6000; }
    let base = if thorough { 200_000 } else { 66_000 };
    // longer than the ring buffer for small windows now and then
    if cfg.lgwin <= 12 && cfg.q >= 2 && rng.chance(1, 6) { return base; }
    if rng.chance(1, 5) { base } else { 20_000 }
}

// ---------------------------------------------------------------------------------------------
// c01 / c04 oracles on one driven plan
// ---------------------------------------------------------------------------------------------
fn judge_plan(cfg: &Cfg, ro: &RunOut, rep: &mut Report, c01: bool, c04: bool) {
    rep.evaluations += 1;
    if let Some((sig, what)) = &ro.fail {
        rep.violation(sig, what, case_json(cfg, &ro.sess, ""));
        return;
    }
    if let Some(b) = &ro.sess.oracle_bad { rep.violation("stream:oracle-ok", &format!("a payload-encoder invocation violates the OracleOK bound assumed by the theorems: {}", b), case_json(cfg, &ro.sess, "")); }
    let s = snap(&ro.sess.enc);
    let large = s.lw;
    // a 1-byte metadata block is a known trigger of its own (metadata-len1-header.md)
    let len1 = if ro.marks.iter().any(|m| m.kind == 3 && m.md_len == 1) { ":metadata-len1" } else { "" };
    if ro.sess.recs.iter().any(|r| matches!(r.call, Call::Stream { .. }) && r.ret && (r.consumed > 0 || !r.produced.is_empty())) || !ro.sess.record { rep.nontrivial += 1; }
    rep.count(&format!("q{}", s.q));
    rep.count(&format!("lgwin{}", s.w));
    rep.count(&format!("lgblock{}", s.b));
    if s.cat { rep.count("catable"); }
    if s.magic { rep.count("magic"); }
    if s.lw { rep.count("large_window"); }
    rep.count(&format!("mode{}", s.mode));
    if s.ip > (1u64 << (1 + s.w.max(s.b))) { rep.count("input_exceeds_ring"); }
    if c01 {
        if !ro.finished {
            rep.violation("stream:not-finished", "FINISH request completed but is_finished() is false", case_json(cfg, &ro.sess, ""));
            return;
        }
        rep.add("bytes_in", ro.fed.len() as u64);
        rep.add("bytes_out", ro.sess.delivered.len() as u64);
        if let Err(e) = dec::decode_both(&ro.sess.delivered, large, &ro.fed) {
            rep.violation(&format!("stream:roundtrip{}", len1), &e, case_json(cfg, &ro.sess, &format!("in={} out={}", ro.fed.len(), ro.sess.delivered.len())));
            return;
        }
        rep.count("roundtrip_ok");
    }
    if c04 {
        for m in &ro.marks {
            let prefix = &ro.sess.delivered[..m.out_len];
            let expect = &ro.fed[..m.in_len];
            if m.kind == 3 {
                rep.count("metadata_complete");
                rep.count(&format!("metadata_len_class_{}", if m.md_len == 0 { "0".into() } else if m.md_len <= 16 { "1-16".to_string() } else if m.md_len <= 256 { "17-256".into() } else if m.md_len <= 65536 { "257-65536".into() } else { ">65536".into() }));
                // payload verbatim at the end of what has been delivered, behind a well-formed header
                let rq_payload = &m.md;
                if m.out_len < m.md_len || prefix[m.out_len - m.md_len..] != rq_payload[..] {
                    rep.violation("stream:metadata-verbatim", "metadata payload is not the tail of the delivered bytes at completion", case_json(cfg, &ro.sess, &format!("len={}", m.md_len)));
                    return;
                }
                if !metadata_header_ok(prefix, m.out_len - m.md_len, m.md_len) {
                    rep.violation(&format!("stream:metadata-header{}", len1), "no well-formed RFC 7932 metadata header in front of the payload", case_json(cfg, &ro.sess, &format!("len={}", m.md_len)));
                    return;
                }
            } else {
                rep.count("flush_complete");
                if m.in_len == 0 { rep.count("flush_complete.no_input_yet"); }
            }
            // both kinds leave the stream on a byte boundary with everything decodable
            if !(large && crate::gdec::available()) {
                let (st, v) = decode_prefix(prefix, expect.len() + (1 << 16));
                if st != 1 {
                    rep.violation(&format!("stream:flush-prefix{}", len1), &format!("streaming decoder on the flushed prefix: {} after {} bytes", if st == 0 { "stream complete" } else { "error" }, v.len()), case_json(cfg, &ro.sess, &format!("mark kind {} out_len {}", m.kind, m.out_len)));
                    return;
                }
                if v != expect {
                    rep.violation(&format!("stream:flush-prefix{}", len1), &format!("streaming decoder yields {} bytes from the flushed prefix, {} were supplied (first diff {})", v.len(), expect.len(), dec::first_diff(&v, expect)), case_json(cfg, &ro.sess, &format!("mark kind {} out_len {}", m.kind, m.out_len)));
                    return;
                }
            }
            // byte boundary: prefix ++ (ISLAST=1, ISLASTEMPTY=1) is a complete stream
            let mut closed = prefix.to_vec();
            closed.push(3);
            if let Err(e) = dec::decode_both(&closed, large, expect) {
                rep.violation(&format!("stream:flush-boundary{}", len1), &format!("flushed prefix ++ 03 is not a complete stream of the input so far: {}", e), case_json(cfg, &ro.sess, &format!("mark kind {} out_len {}", m.kind, m.out_len)));
                return;
            }
        }
    }
}
// ---------------------------------------------------------------------------------------------
// C20: reference automaton of the documented contract
// ---------------------------------------------------------------------------------------------
#[derive(Clone, Copy, Debug, PartialEq)]
pub enum Contract { Fresh, Processing, Flushing, Finishing, Finished, Metadata(u32) }
/// abstraction of the implementation state (public fields)
pub fn alpha(s: &Snap) -> Contract {
    if !s.init { return Contract::Fresh; }
    if s.rm != u32::MAX { return Contract::Metadata(s.rm); }
    match s.st {
        1 => Contract::Flushing,
        2 => if s.more { Contract::Finishing } else { Contract::Finished },
        3 | 4 => Contract::Metadata(s.rm),
        _ => Contract::Processing,
    }
}
/// what the contract says about compress_stream(op, n bytes offered) in abstract state `a`:
/// Some(true) accepted, Some(false) refused
pub fn contract_accepts(a: Contract, op: u8, n: usize) -> bool {
    match a {
        Contract::Metadata(r) => op == OP_METADATA && n == r as usize,
        _ if op == OP_METADATA => n <= (1 << 24) && matches!(a, Contract::Fresh | Contract::Processing),
        Contract::Fresh | Contract::Processing => true,
        Contract::Flushing | Contract::Finishing | Contract::Finished => n == 0,
    }
}
/// allowed successor after an accepted call
pub fn contract_succ_ok(a: Contract, op: u8, n: usize, consumed: usize, b: Contract) -> bool {
    let a = if a == Contract::Fresh { Contract::Processing } else { a };
    match (a, op) {
        (Contract::Metadata(r), _) => match b { Contract::Metadata(r2) => r2 <= r && consumed == (r - r2) as usize, Contract::Processing => consumed == r as usize, _ => false },
        (Contract::Processing, OP_METADATA) => match b { Contract::Metadata(r2) => r2 as usize <= n && consumed == n - r2 as usize, Contract::Processing => consumed == n, _ => false },
        (Contract::Processing, OP_PROCESS) => b == Contract::Processing,
        (Contract::Processing, OP_FLUSH) => b == Contract::Processing || (b == Contract::Flushing && consumed == n),
        (Contract::Processing, OP_FINISH) => b == Contract::Processing || ((b == Contract::Finishing || b == Contract::Finished) && consumed == n),
        (Contract::Flushing, _) => consumed == 0 && (b == Contract::Flushing || b == Contract::Processing),
        (Contract::Finishing, _) => consumed == 0 && (b == Contract::Finishing || b == Contract::Finished),
        (Contract::Finished, _) => consumed == 0 && b == Contract::Finished,
        _ => false,
    }
}
/// which (id, value) set_parameter must accept while Fresh
pub fn param_table_accepts(id: u32, val: u32) -> bool {
    match id {
        0 | 1 | 2 | 3 | 5 | 6 | 150 | 154 | 166 | 167 | 168 | 169 | 171 => true,
        4 => val <= 1,
        _ => false,
    }
}
/// check one recorded history against the contract; returns the first violation
pub fn check_contract(recs: &[Rec]) -> Option<(String, String)> {
    let mut finished_seen = false;
    for (i, r) in recs.iter().enumerate() {
        if r.panicked { return Some((if spin_guard(&r.before, if let Call::Stream { op, .. } = &r.call { *op } else { 0 }, if let Call::Stream { offered, .. } = &r.call { *offered } else { 0 }) { "stream:livelock:metadata-q01-catable".into() } else { "stream:c20:panic".into() }, format!("call {} {} panicked / would not return", i, r.call.token().chars().take(60).collect::<String>()))); }
        let a = alpha(&r.before);
        let b = alpha(&r.after);
        match &r.call {
            Call::Set(id, val) => {
                let expect = a == Contract::Fresh && param_table_accepts(*id, *val);
                if r.ret != expect { return Some(("stream:c20:set-parameter-return".into(), format!("call {}: set_parameter({},{}) returned {} in {:?}", i, id, val, r.ret, a))); }
                if !r.ret && r.before != r.after { return Some(("stream:c20:params-not-frozen".into(), format!("call {}: refused set_parameter({},{}) changed the state", i, id, val))); }
                if b != a { return Some(("stream:c20:set-parameter-state".into(), format!("call {}: set_parameter moved {:?} -> {:?}", i, a, b))); }
            }
            Call::Stream { op, data: _, offered, cap } => {
                let acc = contract_accepts(a, *op, *offered);
                if r.ret != acc { return Some((format!("stream:c20:return:{}", if acc { "refused-valid" } else { "accepted-violation" }), format!("call {}: compress_stream(op={}, in={}, cap={}) returned {} in {:?}", i, op, offered, cap, r.ret, a))); }
                if !r.ret {
                    if r.consumed != 0 || !r.produced.is_empty() { return Some(("stream:c20:violation-not-clean".into(), format!("call {}: refused call consumed {} / produced {}", i, r.consumed, r.produced.len()))); }
                    let mut bf = r.before.clone();
                    bf.init = true; // a refused first call still initialises (freezes the parameters)
                    if a != Contract::Fresh && !bf.same_but_hint(&r.after) { return Some(("stream:c20:violation-not-clean".into(), format!("call {}: refused call changed the state: {:?} -> {:?}", i, r.before, r.after))); }
                    if a == Contract::Fresh && (r.after.ip != 0 || r.after.ao != 0 || r.after.st != 0 || r.after.rm != u32::MAX) { return Some(("stream:c20:violation-not-clean".into(), format!("call {}: refused first call left a dirty state {:?}", i, r.after))); }
                } else {
                    if r.consumed > *offered || r.produced.len() > *cap { return Some(("stream:c20:cursor".into(), format!("call {}: consumed {} of {}, produced {} of {}", i, r.consumed, offered, r.produced.len(), cap))); }
                    if !contract_succ_ok(a, *op, *offered, r.consumed, b) { return Some(("stream:c20:transition".into(), format!("call {}: compress_stream(op={}, in={}, cap={}) consumed {} and moved {:?} -> {:?}", i, op, offered, cap, r.consumed, a, b))); }
                    if r.before.le && r.consumed != 0 { return Some(("stream:c20:input-after-finish".into(), format!("call {}: consumed {} bytes after the last block was emitted", i, r.consumed))); }
                }
                if r.after.fin && r.after.more { return Some(("stream:c20:finished-with-output".into(), format!("call {}: is_finished with pending output", i))); }
            }
            Call::Take(_) => {
                let ok = match a {
                    Contract::Flushing => b == Contract::Flushing || b == Contract::Processing,
                    Contract::Finishing => b == Contract::Finishing || b == Contract::Finished,
                    _ => a == b,
                };
                if !ok { return Some(("stream:c20:take-transition".into(), format!("call {}: take_output moved {:?} -> {:?}", i, a, b))); }
                if r.produced.len() > r.before.ao { return Some(("stream:c20:cursor".into(), format!("call {}: take_output gave {} of {} pending", i, r.produced.len(), r.before.ao))); }
            }
        }
        if finished_seen && !r.after.fin { return Some(("stream:c20:finished-not-absorbing".into(), format!("call {}: is_finished() went back to false", i))); }
        if finished_seen && (r.consumed != 0 || !r.produced.is_empty()) { return Some(("stream:c20:finished-not-absorbing".into(), format!("call {}: consumed {} / produced {} after is_finished()", i, r.consumed, r.produced.len()))); }
        if r.after.fin { finished_seen = true; }
        if r.before.init && (r.before.q != r.after.q || r.before.w != r.after.w || r.before.b != r.after.b || r.before.cat != r.after.cat || r.before.app != r.after.app || r.before.magic != r.after.magic || r.before.lw != r.after.lw || r.before.mode != r.after.mode) {
            return Some(("stream:c20:params-not-frozen".into(), format!("call {}: parameters changed after initialisation", i)));
        }
    }
    None
}
/// `request_completes`: from the state at the end of `sess`, repeat (op, remaining input) with
/// cap >= 1 until complete; the number of calls must stay within pending + in + 8
fn check_completion(sess: &mut Session, op: u8, data: &[u8], cap: usize) -> Option<(String, String)> {
    let s0 = snap(&sess.enc);
    if !contract_accepts(alpha(&s0), op, data.len()) { return None; }
    let mut pos = 0usize;
    let mut calls = 0usize;
    // every call with cap >= 1 must consume or produce at least one byte or complete
    let bound = 100 + 4 * (data.len() + (s0.ip - s0.lf) as usize + s0.ao + 1024);
    loop {
        let op_now = op;
        let (ret, consumed, produced) = sess.stream(op_now, &data[pos..], cap);
        calls += 1;
        if sess.dead.is_some() { return Some(("stream:c20:panic".into(), format!("panic while completing op {}: {}", op, sess.dead.clone().unwrap()))); }
        if !ret { return Some(("stream:c20:return:refused-valid".into(), format!("repeat of accepted request op={} refused after {} calls", op, calls))); }
        pos += consumed;
        let s = snap(&sess.enc);
        if pos == data.len() && abstract_done(&s, op) { return None; }
        if consumed == 0 && produced == 0 { return Some(("stream:c20:no-progress".into(), format!("op={} cap={}: call {} neither consumed nor produced nor completed (state {}, pending {})", op, cap, calls, s.st, s.ao))); }
        if calls > bound { return Some(("stream:c20:livelock".into(), format!("op={} cap={} not complete after {} calls", op, cap, calls))); }
    }
}

// alphabet of the exhaustive stage
#[derive(Clone, Copy, Debug)]
pub enum Sym { Set(u32, u32), Str(u8, u8, u8), Take(u8) } // Str(op, input class 0/1, cap class 0/1/2)
pub fn alphabet(full: bool) -> Vec<Sym> {
    let mut v = vec![Sym::Set(5, 7)];
    if full { v.push(Sym::Set(4, 2)); }
    for op in 0..4u8 { for inp in 0..2u8 { for cap in 0..3u8 { if full || cap != 1 || op == OP_METADATA { v.push(Sym::Str(op, inp, cap)); } } } }
    v.push(Sym::Take(0));
    if full { v.push(Sym::Take(1)); }
    v
}
fn sym_input(op: u8, class: u8, variant: usize) -> Vec<u8> {
    if class == 0 { return vec![]; }
    if op == OP_METADATA { return b"metadata-payload-xyz"[..if variant % 2 == 0 { 20 } else { 17 }].to_vec(); }
    match variant % 3 { 0 => b"abcabcabcabd".to_vec(), 1 => b"Z".to_vec(), _ => (0..40u8).map(|i| i.wrapping_mul(37)).collect() }
}
fn sym_cap(c: u8) -> usize { match c { 0 => 0, 1 => 1, _ => 1 << 12 } }
pub fn run_syms(cfg: &Cfg, syms: &[Sym], variant: usize) -> Session {
    let mut s = Session::new();
    for (id, v) in &cfg.sets { s.set(*id, *v); }
    for sy in syms {
        match *sy {
            Sym::Set(i, v) => { s.set(i, v); }
            Sym::Str(op, ic, cc) => { let d = sym_input(op, ic, variant); s.stream(op, &d, sym_cap(cc)); }
            Sym::Take(k) => { s.take(k as usize); }
        }
        if s.dead.is_some() { break; }
    }
    s
}

// ---------------------------------------------------------------------------------------------
// correspondence lines
// ---------------------------------------------------------------------------------------------
/// request line + implementation answer for a recorded history (None if the hook is missing
/// and the history made a payload-encoder call, or the line would be too long)
pub fn corr_line(sess: &Session, full: bool) -> Option<(String, String)> { corr_line_mode(sess, if full { 0 } else { 1 }) }
/// the fixed byte sequence of ring-content lines (mode `r`)
pub fn gen_byte(p: u64) -> u8 { ((p.wrapping_mul(2654435761) / 2048) % 256) as u8 }
/// mode 0 = full (`f`), 1 = skeleton (`k`), 2 = ring content (`r`: the history's non-metadata input must be gen_byte(0), gen_byte(1), …)
pub fn corr_line_mode(sess: &Session, mode: u8) -> Option<(String, String)> {
    let full = mode == 0;
    let ring = mode != 1;
    let mut gen_pos: u64 = 0;
    let mut ops = String::from(match mode { 0 => "stream f", 1 => "stream k", _ => "stream r" });
    let mut ans: Vec<String> = vec![];
    // global bit string of what was delivered (for slicing out the oracle's bits)
    let all = &sess.delivered;
    let mut delivered_before = 0usize;
    for r in &sess.recs {
        match &r.call {
            Call::Set(i, v) => {
                ops.push_str(&format!(" P:{}:{}", i, v));
                ans.push(format!("{}:{}", r.ret as u8, r.after.digest2(full, ring)));
            }
            Call::Take(n) => {
                ops.push_str(&format!(" T:{}", n));
                ans.push(format!("{}:{}:{}", r.produced.len(), if full { hex(&r.produced) } else { "-".into() }, r.after.digest2(full, ring)));
            }
            Call::Stream { op, data, offered, cap } => {
                if !evhook::HAVE { return None; }
                let intok = if full { hex(data) } else if mode == 2 && *op != OP_METADATA { let t = format!("@{}.{}", gen_pos, data.len()); gen_pos += data.len() as u64; t } else { format!("#{}", data.len()) };
                let mut tok = format!(" C:{}:{}+{}:{}", op, intok, offered - data.len(), cap);
                let mut reqs = String::new();
                for (k, e) in r.events.iter().enumerate() {
                    let nbits = (e.out_size * 8 + e.cb_after as u64) as i64 - e.cb_before as i64;
                    if nbits < 0 { return None; }
                    let start = (delivered_before as u64 + e.next_out_offset) * 8 + e.cb_before as u64;
                    let emit = e.lf_after == e.input_pos || e.site == 2; // nothing left unflushed
                    let bits = if full {
                        // pending bytes may not have been delivered by the end of the history
                        let mut v = vec![0u8; ((nbits as usize) + 7) / 8];
                        for j in 0..nbits as usize {
                            let p = start as usize + j;
                            if p / 8 >= all.len() { return None; }
                            if (all[p / 8] >> (p % 8)) & 1 == 1 { v[j / 8] |= 1 << (j % 8); }
                        }
                        hex(&v)
                    } else { "-".into() };
                    tok.push_str(&format!("{}{}.{}.{}.{}", if k == 0 { ":" } else { "/" }, e.result as u8, emit as u8, nbits, bits));
                    reqs.push_str(&format!("{}{}.{}.{}.{}.{}.{}", if k == 0 { "" } else { "/" }, e.site, if e.site == 2 { e.bytes } else { e.lp_before }, e.input_pos, if e.site == 2 { 0 } else { e.lf_before }, e.is_last as u8, e.force_flush as u8));
                }
                if r.events.is_empty() { reqs.push('-'); }
                ops.push_str(&tok);
                if r.panicked { ans.push("panic".into()); break; }
                ans.push(format!("{}:{}:{}:{}:{}", r.ret as u8, r.consumed, if full { hex(&r.produced) } else { format!("#{}", r.produced.len()) }, reqs, r.after.digest2(full, ring)));
            }
        }
        delivered_before += r.produced.len();
    }
    if ops.len() > 60000 { return None; }
    // run-level summary (compared with `BV.Stream.run` over the whole line)
    if !sess.recs.iter().any(|r| r.panicked) {
        let mut h: u32 = 2166136261;
        for b in sess.delivered.iter() { h = (h ^ (*b as u32)).wrapping_mul(16777619); }
        let mut nreq = 0usize;
        let mut closed = String::new();
        let (mut nd, mut nm) = (0usize, 0usize);
        for r in &sess.recs {
            if let Call::Stream { op, .. } = &r.call {
                for e in &r.events { nreq += 1; closed.push(if e.lf_after == e.input_pos || e.site == 2 { '1' } else { '0' }); }
                if *op == OP_METADATA { nm += r.consumed } else { nd += r.consumed }
            }
        }
        if closed.is_empty() { closed.push('-'); }
        ans.push(format!("R:{}:{}:{}:{}:{}:{}", sess.delivered.len(), if full { h.to_string() } else { "-".into() }, nreq, closed, nd, nm));
    }
    Some((ops, ans.join(" ")))
}

// ---------------------------------------------------------------------------------------------
// stages
// ---------------------------------------------------------------------------------------------
struct TaskOut { lines: Vec<(String, String)>, rep: Report }
/// debugging aid: BV_ONLY=<task index> runs one task of a stage with recording forced on and
/// prints its histories
fn only() -> Option<usize> { std::env::var("BV_ONLY").ok().and_then(|x| x.parse().ok()) }
fn skip_task(i: usize) -> bool { match only() { Some(k) => k != i, None => false } }
fn dbg_history(tag: &str, s: &Session) { if only().is_some() { eprintln!("[{}] {}", tag, s.history_line()); } }

fn stage_plans(args: &Args, n: usize, tag: u64, c01: bool, c04: bool) -> Vec<TaskOut> {
    let seed = args.seed;
    let thorough = args.tier == "thorough";
    par_tasks(n, move |i| {
        let mut rng = Rng::new(seed ^ tag ^ ((i as u64) << 20));
        let mut rep = Report::default();
        let mut lines = vec![];
        if skip_task(i) { return TaskOut { lines, rep }; }
        set_task(format!("replay: BV_ONLY={} bvh stream {} --seed {}", i, if tag == 0xC01 { "c01" } else { "c04" }, seed));
        let heavy = i % 24 == 7;
        let cfg = gen_cfg(&mut rng, heavy);
        let maxin = max_input_for(&cfg, &mut rng, thorough);
        let total = if heavy && cfg.lgwin >= 19 { gen_len(&mut rng, 3000) } else { gen_len(&mut rng, maxin) };
        let style = rng.below(8);
        let wf = c04 || rng.chance(1, 3);
        let wm = (c04 && rng.chance(2, 3)) || rng.chance(1, 10);
        let mut cfg = cfg;
        let mut reqs = gen_reqs(&mut rng, total, style, wf, wm, true);
        let mut total = total;
        if i % 14 == 3 {
            // the "planted" class needs the match finders: quality 2..9
            let q = rng.range(2, 9) as u32;
            cfg.sets.retain(|s| s.0 != 1);
            cfg.sets.push((1, q));
            cfg.q = q as i32;
            reqs = gen_planted_reqs(&mut rng);
            total = reqs.iter().map(|r| r.data.len()).sum();
            rep.count("input_class_planted");
        }
        let sched = if rng.chance(1, 4) { OutSched::ample() } else { gen_sched(&mut rng) };
        // tiny capacities on long inputs cost a call per byte: cap the product
        let sched = if total > 20000 && sched.caps.iter().all(|c| *c < 64) { OutSched { caps: vec![4096, 1, 70000], ..sched } } else { sched };
        let record = total <= 12000 || only().is_some();
        if std::env::var("BV_TRACE").is_ok() { eprintln!("task {} cfg {:?} total {} sched {}", i, cfg.sets, total, sched.desc()); }
        let ro = drive(&cfg, &reqs, &sched, record);
        dbg_history("plan", &ro.sess);
        rep.count(&format!("input_style{}", style));
        rep.count(&format!("input_len_class_{}", match total { 0 => "0", 1..=3 => "1-3", 4..=64 => "4-64", 65..=16384 => "65-16K", _ => ">16K" }));
        rep.add("calls", ro.ncalls as u64);
        judge_plan(&cfg, &ro, &mut rep, c01, c04);
        if record {
            if let Some(v) = check_contract(&ro.sess.recs) { rep.violation(&v.0, &v.1, case_json(&cfg, &ro.sess, "plan history against the contract automaton")); }
            if total <= 3000 { if let Some(l) = corr_line(&ro.sess, true) { lines.push(l); } }
            else if let Some(l) = corr_line(&ro.sess, false) { lines.push(l); }
        }
        if rep.samples.is_empty() && i < 3 { rep.sample(format!("cfg {:?} reqs {} sched {}", cfg.sets, reqs.len(), sched.desc())); }
        TaskOut { lines, rep }
    })
}

/// Input classes for the quality 0 / 1 FRAGMENT writers (`compress_fragment`, `compress_fragment_two_pass`):
/// what matters there is one `compress_stream` call whose chunk is a single large fragment
/// (the literal prefix code of a fragment is built from its first 96 KiB; blocks of 128 KiB are
/// compressed or stored, and an expanding fragment is rewound and stored as a whole).
///   0  skewed text-like first part (> 96 KiB), then the same distribution sprinkled with byte
///      values that did not occur before
///   1  a completed FLUSH (stream byte-aligned), then incompressible bytes in ONE chunk > 128 KiB
///   2  compressible / incompressible alternation at 64 KiB granularity
pub fn gen_fragment_reqs(rng: &mut Rng, class: u64, total: usize) -> Vec<Req> {
    let mut reqs: Vec<Req> = vec![];
    let mut data: Vec<u8> = Vec::with_capacity(total + 64);
    match class {
        0 => {
            let alpha: Vec<u8> = match rng.below(3) { 0 => (b'a'..=b'p').collect(), 1 => b" etaoinshrdlu\n".to_vec(), _ => (0u8..24).collect() };
            let first = (98304 + rng.range(1, 20000) as usize).min(total);
            // skew: low indexes far more often
            let pick = |rng: &mut Rng| -> u8 { let a = rng.below(alpha.len() as u64); let b = rng.below(alpha.len() as u64); alpha[((a * b) / alpha.len() as u64) as usize] };
            for _ in 0..first { let b = pick(rng); data.push(b); }
            let rare = rng.range(40, 400);
            while data.len() < total {
                if rng.chance(1, rare) { let mut b = rng.next() as u8; while alpha.contains(&b) { b = b.wrapping_add(37); } data.push(b); }
                else { let b = pick(rng); data.push(b); }
            }
        }
        1 => {
            let pl = rng.range(1, 3000) as usize;
            let pre = gen_bytes(rng, pl, 2);
            reqs.push(Req { op: OP_FLUSH, data: pre });
            for _ in 0..total { data.push(rng.next() as u8); }
        }
        _ => {
            if rng.chance(1, 2) { let pl = rng.range(1, 500) as usize; reqs.push(Req { op: OP_FLUSH, data: gen_bytes(rng, pl, 2) }); }
            let mut comp = rng.chance(1, 2);
            while data.len() < total {
                let seg = (65536 + rng.range(0, 64) as usize * if rng.chance(1, 2) { 1 } else { 0 }).min(total - data.len());
                let style = if comp { *rng.pick(&[1u64, 2, 5, 6, 7]) } else { 0 };
                let v = gen_bytes(rng, seg, style);
                data.extend_from_slice(&v);
                comp = !comp;
            }
        }
    }
    data.truncate(total);
    reqs.push(Req { op: OP_PROCESS, data });
    reqs.push(Req { op: OP_FINISH, data: vec![] });
    reqs
}

/// quality 0 / 1, single PROCESS chunks of 100–400 KiB (see `gen_fragment_reqs`)
fn stage_fragments(args: &Args, n: usize) -> Vec<TaskOut> {
    let seed = args.seed;
    par_tasks(n, move |i| {
        let mut rng = Rng::new(seed ^ 0xF4A6 ^ ((i as u64) << 20));
        let mut rep = Report::default();
        let lines = vec![];
        if skip_task(i) { return TaskOut { lines, rep }; }
        set_task(format!("replay: BV_ONLY={} bvh stream c01 --seed {} (fragment stage)", i, seed));
        let q = (i % 2) as u32;
        let class = ((i / 2) % 3) as u64;
        let lgwin = *rng.pick(&[18u32, 19, 20, 22, 24]);
        let total = match class { 1 => rng.range(131073 + 2000, 400_000), _ => rng.range(100_000, 400_000) } as usize;
        let mut cfg = simple_cfg(q, lgwin, false, false, 0);
        match rng.below(3) { 0 => cfg.hint_exact = true, 1 => cfg.sets.push((5, 1 << 30)), _ => {} }
        let reqs = gen_fragment_reqs(&mut rng, class, total);
        let ro = drive(&cfg, &reqs, &OutSched::ample(), only().is_some());
        dbg_history("fragment", &ro.sess);
        rep.count(&format!("fragment_class{}", class));
        rep.count("input_class_fragment");
        rep.add("calls", ro.ncalls as u64);
        judge_plan(&cfg, &ro, &mut rep, true, false);
        TaskOut { lines, rep }
    })
}

/// ring-content lines: inputs longer than the ring buffer (so that writes wrap, the tail mirror and
/// the prefix are exercised), quality 2..9 with small windows, chunk sizes around the block size;
/// the input is the fixed sequence `gen_byte`, the correspondence line (mode `r`) compares the
/// ring-buffer content digest after every call
fn stage_ringwrap(args: &Args, n: usize) -> Vec<TaskOut> {
    let seed = args.seed;
    par_tasks(n, move |i| {
        let mut rng = Rng::new(seed ^ 0x41B6 ^ ((i as u64) << 20));
        let mut rep = Report::default();
        let mut lines = vec![];
        if skip_task(i) { return TaskOut { lines, rep }; }
        set_task(format!("replay: BV_ONLY={} bvh stream c01 --seed {} (ringwrap stage)", i, seed));
        let q = *rng.pick(&[2u32, 3, 2, 3, 4, 5, 9]);
        let lgwin = rng.range(10, 14) as u32;
        let mut cfg = simple_cfg(q, lgwin, rng.chance(1, 4), false, 0);
        if q >= 4 && rng.chance(1, 2) { cfg.sets.push((3, 16)); }
        // ring = 2^(1 + max(lgwin, lgblock)): 32 KiB at q2/3, 128 KiB (lgblock 16) above
        let ring = if q < 4 { 1usize << 15 } else { 1usize << 17 };
        let total = ring + rng.range(1, ring as u64 / 2) as usize + if rng.chance(1, 3) { ring } else { 0 };
        let data: Vec<u8> = (0..total as u64).map(gen_byte).collect();
        let mut reqs = vec![];
        let mut pos = 0usize;
        let kind = rng.below(4);
        while pos < total {
            let n = match kind {
                0 => *rng.pick(&[1usize, 7, 100, 5000, 16384, 16385, 30000, 65536]),
                1 => rng.range(1, 40000) as usize,
                2 => 1usize << rng.range(8, 16),
                _ => rng.range(1, 3000) as usize + if rng.chance(1, 4) { 16384 } else { 0 },
            }.min(total - pos);
            let op = if rng.chance(1, 12) { OP_FLUSH } else { OP_PROCESS };
            reqs.push(Req { op, data: data[pos..pos + n].to_vec() });
            pos += n;
        }
        reqs.push(Req { op: OP_FINISH, data: vec![] });
        let sched = if rng.chance(1, 2) { OutSched::ample() } else { OutSched { caps: vec![4096, 70000, 1000], take_every: 3, take_sizes: vec![0, 5000] } };
        let ro = drive(&cfg, &reqs, &sched, true);
        dbg_history("ringwrap", &ro.sess);
        rep.count("input_class_ringwrap");
        rep.add("calls", ro.ncalls as u64);
        judge_plan(&cfg, &ro, &mut rep, true, false);
        if let Some(l) = corr_line_mode(&ro.sess, 2) { lines.push(l); }
        TaskOut { lines, rep }
    })
}

/// THOROUGH tier only (about 20 s, 2.2 GB): a 2^31-byte ring buffer (lgwin 30, large window) fed more
/// than 2 GiB; the output is streamed into brotli-decompressor and compared on the fly.  This is the
/// reproduction of the write-position fold defect (`ringbuffer-fold-lgwin30`): before the fix the
/// first wrong byte is byte 2^31.
fn stage_bigring(rep: &mut Report) {
    use brotli::{BrotliDecompressStream, BrotliResult, BrotliState};
    fn byte_at(p: u64) -> u8 { let x = (p / 5).wrapping_mul(0x9E3779B97F4A7C15); (x >> 40) as u8 }
    let total: u64 = (1u64 << 31) + (64 << 20);
    rep.evaluations += 1;
    rep.nontrivial += 1;
    rep.count("input_class_bigring");
    let r = catch_unwind(AssertUnwindSafe(|| -> Result<(), String> {
        let mut enc = Enc::new(StandardAlloc::default());
        enc.set_parameter(BrotliEncoderParameter::BROTLI_PARAM_LARGE_WINDOW, 1);
        enc.set_parameter(BrotliEncoderParameter::BROTLI_PARAM_QUALITY, 2);
        enc.set_parameter(BrotliEncoderParameter::BROTLI_PARAM_LGWIN, 30);
        let mut dec = BrotliState::new(StandardAlloc::default(), StandardAlloc::default(), StandardAlloc::default());
        dec.large_window = true;
        let chunk = 1usize << 20;
        let mut inbuf = vec![0u8; chunk];
        let mut outbuf = vec![0u8; 1 << 21];
        let mut decbuf = vec![0u8; 1 << 22];
        let (mut fed, mut decoded) = (0u64, 0u64);
        loop {
            let n = std::cmp::min(chunk as u64, total - fed) as usize;
            for i in 0..n { inbuf[i] = byte_at(fed + i as u64); }
            let op = if fed + n as u64 == total { BrotliEncoderOperation::BROTLI_OPERATION_FINISH } else { BrotliEncoderOperation::BROTLI_OPERATION_PROCESS };
            let mut avail_in = n; let mut in_off = 0usize;
            loop {
                let mut avail_out = outbuf.len(); let mut out_off = 0usize;
                let ok = enc.compress_stream(op, &mut avail_in, &inbuf[..n], &mut in_off, &mut avail_out, &mut outbuf, &mut out_off, &mut None, &mut |_, _, _, _| ());
                if !ok { return Err(format!("compress_stream returned false at input byte {}", fed)); }
                let mut d_in = out_off; let mut d_off = 0usize;
                loop {
                    let mut d_avail = decbuf.len(); let mut d_out = 0usize; let mut written = 0usize;
                    let r = BrotliDecompressStream(&mut d_in, &mut d_off, &outbuf[..out_off], &mut d_avail, &mut d_out, &mut decbuf, &mut written, &mut dec);
                    for i in 0..d_out { if decbuf[i] != byte_at(decoded + i as u64) { return Err(format!("decoded byte {} differs from the input", decoded + i as u64)); } }
                    decoded += d_out as u64;
                    match r { BrotliResult::NeedsMoreOutput => continue, BrotliResult::ResultFailure => return Err(format!("decoder error after {} bytes", decoded)), _ => break }
                }
                if avail_in == 0 && !enc.has_more_output() { break; }
            }
            fed += n as u64;
            if fed == total { break; }
        }
        if decoded != total { return Err(format!("decoded {} of {} bytes", decoded, total)); }
        Ok(())
    }));
    let case = "{\"cfg\": \"quality 2, large_window, lgwin 30\", \"history\": \"2^31 + 64 MiB in 1 MiB PROCESS calls, FINISH\", \"extra\": \"stage bigring (thorough)\"}".to_string();
    match r {
        Ok(Ok(())) => rep.count("bigring_roundtrip_ok"),
        Ok(Err(e)) => rep.violation("stream:roundtrip:bigring", &e, case),
        Err(_) => rep.violation(&format!("stream:panic:{}", last_panic().split(' ').next().unwrap_or("?")), &format!("bigring: {}", last_panic()), case),
    }
}

fn stage_pairs(args: &Args, n: usize) -> Vec<TaskOut> {
    let seed = args.seed;
    par_tasks(n, move |i| {
        let mut rng = Rng::new(seed ^ 0xC05 ^ ((i as u64) << 20));
        let mut rep = Report::default();
        let mut lines = vec![];
        if skip_task(i) { return TaskOut { lines, rep }; }
        set_task(format!("replay: BV_ONLY={} bvh stream c05 --seed {}", i, seed));
        let rec_all = only().is_some();
        let mut cfg = gen_cfg(&mut rng, false);
        let total = gen_len(&mut rng, if cfg.q >= 10 { 4000 } else { 40000 });
        let style = rng.below(8);
        let chunk_pair = i % 2 == 1;
        if chunk_pair {
            // input chunking is only claimed for quality >= 2 (or catable) with size_hint set
            if cfg.q < 2 && !cfg.catable { cfg.sets.push((167, 1)); cfg.catable = true; }
            cfg.sets.retain(|s| s.0 != 5);
            cfg.hint_exact = true;
            if total == 0 { cfg.hint_exact = false; cfg.sets.push((5, 1000)); }
        }
        let wf = rng.chance(1, 2);
        let wm = rng.chance(1, 4);
        let reqs = gen_reqs(&mut rng, total, style, wf, wm, true);
        let ref_run = drive(&cfg, &reqs, &OutSched::ample(), total <= 3000 || rec_all);
        dbg_history("ref", &ref_run.sess);
        rep.evaluations += 1;
        if let Some((sig, what)) = &ref_run.fail { rep.violation(sig, what, case_json(&cfg, &ref_run.sess, "reference run of a pair")); return TaskOut { lines, rep }; }
        rep.nontrivial += 1;
        let s = snap(&ref_run.sess.enc);
        rep.count(&format!("q{}", s.q));
        // allocator independence: the same request list under a tracking allocator and under an
        // over-allocating one (cells up to 31 elements longer than requested)
        for (name, maxk) in [("tracking", 0usize), ("over-allocating", 31usize)] {
            rep.count(&format!("pairs.alloc.{}", name));
            match run_reqs_alloc(OverAlloc { n: 0, live: 0, maxk }, &cfg, &reqs) {
                Err((sig, what)) => { rep.violation(&format!("stream:c05:alloc-{}", sig), &format!("{} allocator, quality {} lgwin {}: {}", name, s.q, s.w, what), case_json(&cfg, &ref_run.sess, &format!("allocator {} (alloc_cell(len) returns len + (7n+3) mod {} elements)", name, maxk + 1))); break; }
                Ok(bytes) => if bytes != ref_run.sess.delivered {
                    rep.violation("stream:c05:alloc-bytes", &format!("{} allocator, quality {} lgwin {}: {} bytes vs {} with StandardAlloc, first diff at {}", name, s.q, s.w, bytes.len(), ref_run.sess.delivered.len(), dec::first_diff(&bytes, &ref_run.sess.delivered)), case_json(&cfg, &ref_run.sess, &format!("allocator {}", name)));
                    break;
                }
            }
        }
        if !chunk_pair {
            for v in 0..3 {
                let sched = match v { 0 => OutSched { caps: vec![1], take_every: 0, take_sizes: vec![0] }, 1 => OutSched { caps: vec![0], take_every: 1, take_sizes: vec![0, 1, 16] }, _ => gen_sched(&mut rng) };
                let sched = if total > 8000 && v < 2 { OutSched { caps: vec![if v == 0 { 1 } else { 0 }, 4096, 70000, 503], take_every: if v == 0 { 0 } else { 1 }, take_sizes: vec![0, 1, 5000] } } else { sched };
                let other = drive(&cfg, &reqs, &sched, total <= 3000 || rec_all);
                dbg_history("out-variant", &other.sess);
                rep.count("pairs.out_slicing");
                if let Some((sig, what)) = &other.fail { rep.violation(sig, what, case_json(&cfg, &other.sess, &sched.desc())); break; }
                if other.sess.delivered != ref_run.sess.delivered {
                    let d = dec::first_diff(&other.sess.delivered, &ref_run.sess.delivered);
                    rep.violation("stream:c05:out-slicing", &format!("bytes differ between output schedules (ample: {} bytes, {}: {} bytes, first diff at {})", ref_run.sess.delivered.len(), sched.desc(), other.sess.delivered.len(), d), case_json(&cfg, &other.sess, &sched.desc()));
                    break;
                }
                let (a, b) = (snap(&ref_run.sess.enc), snap(&other.sess.enc));
                if (a.ip, a.lf, a.lp, a.lb, a.lbb, a.st, a.le, a.hint) != (b.ip, b.lf, b.lp, b.lb, b.lbb, b.st, b.le, b.hint) { rep.violation("stream:c05:final-state", "final state differs between output schedules", case_json(&cfg, &other.sess, &sched.desc())); break; }
                if total <= 3000 && v == 2 { if let Some(l) = corr_line(&other.sess, true) { lines.push(l); } }
            }
        } else {
            // re-chunk: same data between the same non-PROCESS request offsets
            for v in 0..2 {
                let mut re: Vec<Req> = vec![];
                let mut acc: Vec<u8> = vec![];
                // The re-chunker is GENERAL: it may move the whole tail out of a FLUSH / FINISH call.
                // What is proved on the model (BV.Props.C05Chunk.chunking_irrelevant): this changes
                // nothing unless a FLUSH / FINISH call that had a byte of its own is left empty (or
                // vice versa) AND the last byte of its data fills an input block exactly — then the
                // block is encoded without the request's flag and an empty flagged request follows.
                // The tree does deviate from C05 exactly there (known finding
                // `stream:c05:in-chunking:block-multiple`); `block_multiple_shape` classifies a
                // mismatch as that finding only if the hook logs show exactly the two predicted shapes.
                let flush_acc = |acc: &mut Vec<u8>, re: &mut Vec<Req>, rng: &mut Rng, last_op: u8| {
                    // cut `acc` into random PROCESS chunks, the tail goes with `last_op`
                    let mut pos = 0usize;
                    while acc.len() - pos > 0 && rng.chance(3, 4) {
                        let n = (match v { 0 => rng.range(1, 4000) as usize, _ => *rng.pick(&[1usize, 7, 1000, 16384, 65536, 5]) }).min(acc.len() - pos);
                        re.push(Req { op: OP_PROCESS, data: acc[pos..pos + n].to_vec() });
                        pos += n;
                        if re.len() > 600 { break; }
                    }
                    re.push(Req { op: last_op, data: acc[pos..].to_vec() });
                    acc.clear();
                };
                for rq in &reqs {
                    match rq.op {
                        OP_PROCESS => acc.extend_from_slice(&rq.data),
                        OP_METADATA => { if !acc.is_empty() { flush_acc(&mut acc, &mut re, &mut rng, OP_PROCESS); } re.push(rq.clone()); }
                        o => { acc.extend_from_slice(&rq.data); flush_acc(&mut acc, &mut re, &mut rng, o); }
                    }
                }
                let other = drive(&cfg, &re, &gen_sched(&mut rng), total <= 3000 || rec_all);
                dbg_history("in-variant", &other.sess);
                rep.count("pairs.in_chunking");
                if let Some((sig, what)) = &other.fail { rep.violation(sig, what, case_json(&cfg, &other.sess, "re-chunked")); break; }
                if other.sess.delivered != ref_run.sess.delivered {
                    let d = dec::first_diff(&other.sess.delivered, &ref_run.sess.delivered);
                    let bs = 1usize << s.b;
                    // re-run both histories with the hook log recorded and compare the request lists
                    let (ra, rb) = (drive(&cfg, &reqs, &OutSched::ample(), true), drive(&cfg, &re, &OutSched::ample(), true));
                    let aligned = block_multiple_shape(&reqs, &re, &ra, &rb, bs as u64);
                    rep.count(if aligned { "pairs.in_chunking.block_multiple" } else { "pairs.in_chunking.other_mismatch" });
                    rep.violation(if aligned { "stream:c05:in-chunking:block-multiple" } else { "stream:c05:in-chunking" }, &format!("bytes differ between input chunkings at quality {} (size_hint {}), {} vs {} bytes, first diff at {}, total input {} (block {})", s.q, s.hint, ref_run.sess.delivered.len(), other.sess.delivered.len(), d, total, bs), case_json(&cfg, &other.sess, &format!("reference history: {}", ref_run.sess.history_line().chars().take(3000).collect::<String>())));
                    break;
                }
            }
        }
        TaskOut { lines, rep }
    })
}

/// the payload-encoder requests of a recorded run, main loop and metadata site: (lo, hi, is_last, force_flush)
fn req_list(r: &RunOut) -> Vec<(u64, u64, bool, bool)> {
    r.sess.recs.iter().flat_map(|c| c.events.iter().filter(|e| e.site != 2).map(|e| (e.lp_before, e.input_pos, e.is_last, e.force_flush))).collect()
}
/// `[(x, e, plain), (e, e, flagged)]` with `[x, e)` a full input block (the catable prelude may have
/// taken up to two bytes out of the first one) -> `[(x, e, flagged)]`; returns the list and how many
/// places were rewritten
fn fold_block_end(l: &[(u64, u64, bool, bool)], bs: u64) -> (Vec<(u64, u64, bool, bool)>, usize) {
    let mut out: Vec<(u64, u64, bool, bool)> = vec![];
    let mut n = 0usize;
    for &q in l {
        if let Some(&p) = out.last() {
            let full = p.1 - p.0 <= bs && p.1 - p.0 + 2 >= bs;
            if !p.2 && !p.3 && full && q.0 == p.1 && q.1 == p.1 && (q.2 || q.3) {
                let k = out.len() - 1;
                out[k] = (p.0, p.1, q.2, q.3);
                n += 1;
                continue;
            }
        }
        out.push(q);
    }
    (out, n)
}
/// Is the difference between two histories of the same data exactly the known block-boundary case?
/// (1) some FLUSH / FINISH call has a byte of its own in one history and none in the other (the two
/// histories have the same non-PROCESS requests in the same order), and (2) the hook-logged request
/// lists are equal except that, a different number of times, one has `[(block, plain), (empty,
/// flagged)]` where the other has `[(block, flagged)]` — the two shapes the model predicts
/// (BV.Props.C05Chunk.chunking_counterexample_a / _b).
fn block_multiple_shape(h1: &[Req], h2: &[Req], r1: &RunOut, r2: &RunOut, bs: u64) -> bool {
    if r1.fail.is_some() || r2.fail.is_some() { return false; }
    let tails = |h: &[Req]| -> Vec<(u8, bool)> { h.iter().filter(|r| r.op == OP_FLUSH || r.op == OP_FINISH).map(|r| (r.op, r.data.is_empty())).collect() };
    let (t1, t2) = (tails(h1), tails(h2));
    if t1.len() != t2.len() || t1.iter().zip(t2.iter()).any(|(a, b)| a.0 != b.0) { return false; }
    if !t1.iter().zip(t2.iter()).any(|(a, b)| a.1 != b.1) { return false; }
    let (l1, l2) = (req_list(r1), req_list(r2));
    if l1 == l2 { return false; }
    let ((f1, n1), (f2, n2)) = (fold_block_end(&l1, bs), fold_block_end(&l2, bs));
    f1 == f2 && n1 != n2
}

/// block-boundary cases of the input-chunking claim (BV.Props.C05Chunk), deterministic grid.
/// `D` = exactly `m` input blocks (2^lgblock bytes each), optionally behind a completed FLUSH at an
/// unaligned offset.  Histories:
/// (FINISH stands for the tail request: FINISH in 64 cases, FLUSH — with an empty FINISH behind — in 16)
///   A  PROCESS D, FINISH -            B  PROCESS D[..k], PROCESS D[k..], FINISH -      (tail empty)
///   C  FINISH D                       E  PROCESS D[..k], FINISH D[k..]                 (tail not empty)
///   F / G  as A / C with the last byte of D removed (control: not on a boundary)
/// Claimed, and a violation otherwise: bytes(A) = bytes(B), bytes(C) = bytes(E), bytes(F) = bytes(G).
/// bytes(A) = bytes(C) is what C05 demands too, and where the tree deviates (KNOWN FINDING
/// `stream:c05:in-chunking:block-multiple`).  The model says the payload-encoder requests differ there
/// (A: the last block without `is_last`, then an empty `is_last` invocation; C: the last block with
/// `is_last`); the stage checks on the hook log that the real code does exactly that
/// (`boundary.reqs_as_model`, violation `stream:c05:boundary-reqs` otherwise); cases whose bytes differ
/// (`boundary.bytes_differ`) are reported under the known signature when the request lists have exactly
/// the predicted shapes, under `stream:c05:in-chunking` otherwise.  Skeleton
/// correspondence lines of A and C go to the Lean driver (the model's request list against the hook log).
fn stage_boundary(args: &Args) -> Vec<TaskOut> {
    let seed = args.seed;
    // (quality, lgwin, catable, lgblock the encoder will choose)
    let grid: Vec<(u32, u32, bool, u32)> = vec![(2, 16, false, 14), (3, 18, false, 14), (2, 12, true, 14), (5, 16, false, 16), (9, 16, false, 16), (1, 10, true, 10), (0, 12, true, 12), (4, 14, false, 16)];
    // 64 cases with a FINISH tail (style x blocks x flush-prefix) + 16 with a FLUSH tail (one block, FINISH - behind it)
    let n = grid.len() * 2 * 2 * 2 + grid.len() * 2;
    let grid = std::sync::Arc::new(grid);
    par_tasks(n, move |i| {
        let (q, w, cat, lgb) = grid[i % grid.len()];
        let j = i / grid.len();
        let flush_tail = j >= 8;
        let (style, m, pre) = if flush_tail { (if j % 2 == 0 { 0u64 } else { 2u64 }, 1usize, false) } else { (if j % 2 == 0 { 0u64 } else { 2u64 }, 1 + (j / 2) % 2, (j / 4) % 2 == 1) };
        let tail_op = if flush_tail { OP_FLUSH } else { OP_FINISH };
        let mut rng = Rng::new(seed ^ 0xB0DA ^ ((i as u64) << 20));
        let mut rep = Report::default();
        let mut lines = vec![];
        if skip_task(i) { return TaskOut { lines, rep }; }
        set_task(format!("replay: BV_ONLY={} bvh stream c05 --seed {} (boundary stage: q{} lgwin{} catable{} style{} blocks{} flush-prefix{} tail-op{})", i, seed, q, w, cat, style, m, pre, tail_op));
        let bs = 1usize << lgb;
        let mut cfg = simple_cfg(q, w, cat, false, 0);
        cfg.hint_exact = true;
        let prefix: Vec<u8> = if pre { gen_bytes(&mut rng, 1000 + (i % 7) * 37, 2) } else { vec![] };
        let d = gen_bytes(&mut rng, m * bs, style);
        let k = *rng.pick(&[1usize, bs / 2, bs - 1, 777]) % d.len();
        let k = if k == 0 { 1 } else { k };
        let head = |v: &mut Vec<Req>| { if pre { v.push(Req { op: OP_FLUSH, data: prefix.clone() }); } };
        // with a FLUSH tail every history is closed by an empty FINISH behind it
        let mk = |parts: &[(u8, &[u8])]| -> Vec<Req> { let mut v = vec![]; head(&mut v); for (op, x) in parts { v.push(Req { op: *op, data: x.to_vec() }); } if flush_tail { v.push(Req { op: OP_FINISH, data: vec![] }); } v };
        let ha = mk(&[(OP_PROCESS, &d), (tail_op, &[])]);
        let hb = mk(&[(OP_PROCESS, &d[..k]), (OP_PROCESS, &d[k..]), (tail_op, &[])]);
        let hc = mk(&[(tail_op, &d)]);
        let he = mk(&[(OP_PROCESS, &d[..k]), (tail_op, &d[k..])]);
        let d1 = &d[..d.len() - 1];
        let hf = mk(&[(OP_PROCESS, d1), (tail_op, &[])]);
        let hg = mk(&[(tail_op, d1)]);
        rep.evaluations += 1;
        let run = |h: &Vec<Req>, rng: &mut Rng, ample: bool| drive(&cfg, h, &if ample { OutSched::ample() } else { gen_sched(rng) }, true);
        let ra = run(&ha, &mut rng, true);
        let rb = run(&hb, &mut rng, false);
        let rc = run(&hc, &mut rng, true);
        let re = run(&he, &mut rng, false);
        let rf = run(&hf, &mut rng, true);
        let rg = run(&hg, &mut rng, false);
        for (name, r) in [("A", &ra), ("B", &rb), ("C", &rc), ("E", &re), ("F", &rf), ("G", &rg)] {
            if let Some((sig, what)) = &r.fail { rep.violation(sig, &format!("boundary history {}: {}", name, what), case_json(&cfg, &r.sess, "boundary stage")); return TaskOut { lines, rep }; }
        }
        rep.nontrivial += 1;
        let s = snap(&ra.sess.enc);
        if s.b as u32 != lgb { rep.violation("stream:c05:boundary-lgblock", &format!("the encoder chose lgblock {} where the stage expects {}", s.b, lgb), case_json(&cfg, &ra.sess, "boundary stage")); return TaskOut { lines, rep }; }
        rep.count("boundary.cases"); rep.count(if flush_tail { "boundary.cases.flush_tail" } else { "boundary.cases.finish_tail" });
        for (x, y, nx, ny) in [(&ra, &rb, "A", "B"), (&rc, &re, "C", "E"), (&rf, &rg, "F", "G")] {
            rep.count("boundary.claimed_pairs");
            if x.sess.delivered != y.sess.delivered {
                let at = dec::first_diff(&x.sess.delivered, &y.sess.delivered);
                rep.violation("stream:c05:in-chunking:boundary", &format!("bytes differ between histories {} and {} of the boundary stage (quality {}, block {}, {} blocks, flush prefix {}): {} vs {} bytes, first diff at {}", nx, ny, q, bs, m, pre, x.sess.delivered.len(), y.sess.delivered.len(), at), case_json(&cfg, &y.sess, &format!("reference history: {}", x.sess.history_line().chars().take(200).collect::<String>())));
            }
        }
        // the requests of A and C at the boundary, as the model predicts them
        let evs = |r: &RunOut| -> Vec<(u64, u64, bool, bool)> { r.sess.recs.iter().flat_map(|c| c.events.iter().filter(|e| e.site == 0).map(|e| (e.lp_before, e.input_pos, e.is_last, e.force_flush))).collect() };
        let (mut ea, mut ec) = (evs(&ra), evs(&rc));
        let end = (prefix.len() + d.len()) as u64;
        if flush_tail {
            // the closing `FINISH -` issues the same empty is_last request in both histories
            let last_ok = |l: &Vec<(u64, u64, bool, bool)>| l.last() == Some(&(end, end, true, false));
            if !(last_ok(&ea) && last_ok(&ec)) { rep.violation("stream:c05:boundary-reqs", &format!("the closing FINISH of a FLUSH-tail boundary history did not issue (end, end, is_last): {:?} / {:?}", ea, ec), case_json(&cfg, &ra.sess, "boundary stage")); return TaskOut { lines, rep }; }
            ea.pop(); ec.pop();
        }
        let flagged = (!flush_tail, flush_tail); // (is_last, force_flush) of the tail request
        // the catable prelude moves the first two bytes out of the first request
        let ok_a = ea.len() >= 2 && ea[ea.len() - 1] == (end, end, flagged.0, flagged.1) && { let x = ea[ea.len() - 2]; x.1 == end && end - x.0 <= bs as u64 && end - x.0 + 2 >= bs as u64 && !x.2 && !x.3 };
        let ok_c = ec.len() >= 1 && { let x = ec[ec.len() - 1]; x.1 == end && end - x.0 <= bs as u64 && end - x.0 + 2 >= bs as u64 && x.2 == flagged.0 && x.3 == flagged.1 } && ec.len() + 1 == ea.len();
        if ok_a && ok_c { rep.count("boundary.reqs_as_model"); } else {
            rep.violation("stream:c05:boundary-reqs", &format!("payload-encoder requests at a block boundary are not what the model predicts: PROCESS D, FINISH - issued {:?}; FINISH D issued {:?} (block {}, end {})", ea, ec, bs, end), case_json(&cfg, &ra.sess, "boundary stage"));
        }
        if ra.sess.delivered != rc.sess.delivered {
            rep.count("boundary.bytes_differ");
            if ok_a && ok_c && block_multiple_shape(&ha, &hc, &ra, &rc, bs as u64) {
                // the tree deviates from C05 here (known finding): the chunking clause of the property is
                // violated exactly where the model's theorem has its proviso
                rep.violation("stream:c05:in-chunking:block-multiple", &format!("bytes differ between `PROCESS D, {0} -` and `{0} D` with D = {1} input block(s) of {2} bytes (quality {3}, flush prefix {4}): {5} vs {6} bytes; request lists as the model predicts", if flush_tail { "FLUSH" } else { "FINISH" }, m, bs, q, pre, ra.sess.delivered.len(), rc.sess.delivered.len()), case_json(&cfg, &rc.sess, &format!("other history: {}", ra.sess.history_line().chars().take(200).collect::<String>())));
            } else {
                rep.violation("stream:c05:in-chunking", &format!("bytes differ between `PROCESS D, FINISH -` and `FINISH D` at a block boundary but the request lists are not the predicted shapes: {:?} vs {:?}", ea, ec), case_json(&cfg, &rc.sess, "boundary stage"));
            }
        } else { rep.count("boundary.bytes_equal"); }
        if dec::decode_both(&ra.sess.delivered, false, &ra.fed).is_err() || dec::decode_both(&rc.sess.delivered, false, &rc.fed).is_err() {
            rep.violation("stream:roundtrip", "a boundary history does not decode to its input", case_json(&cfg, &ra.sess, "boundary stage"));
        }
        if let Some(l) = corr_line(&ra.sess, false) { lines.push(l); }
        if let Some(l) = corr_line(&rc.sess, false) { lines.push(l); }
        TaskOut { lines, rep }
    })
}

/// single calls larger than the 128 KiB two-pass block at quality 0/1 (and a few others), StandardAlloc
/// vs over-allocating allocator, ample output
/// C04 class "block-aligned flush": the bytes supplied with PROCESS since the last meta-block are an
/// EXACT multiple of the input block (1 << lgblock), the data is compressible (encode_data keeps the
/// meta-block open at the block boundary) and the FLUSH that follows carries no input of its own
/// (`CompressorWriter::flush()`): `unprocessed_input_size() == 0` while commands are still pending.
/// Also one byte short of / beyond the boundary, with more input and a FINISH behind. Deterministic.
fn stage_aligned_flush(args: &Args) -> Vec<TaskOut> {
    let seed = args.seed;
    // (quality, lgwin, lgblock the encoder will choose)
    let grid: Vec<(u32, u32, u32)> = vec![(2, 16, 14), (3, 18, 14), (2, 22, 14), (4, 14, 16), (5, 16, 16), (6, 18, 16), (7, 16, 16), (9, 16, 16), (5, 22, 16), (9, 18, 18)];
    let n = grid.len() * 2 * 3 * 2;
    let grid = std::sync::Arc::new(grid);
    par_tasks(n, move |i| {
        let (q, w, lgb) = grid[i % grid.len()];
        let j = i / grid.len();
        let m = 1 + j % 2;                 // blocks before the flush
        let delta = (j / 2) % 3;           // 0: exact, 1: one byte short, 2: one byte beyond
        let split = (j / 6) % 2 == 1;      // PROCESS in two calls
        let mut rng = Rng::new(seed ^ 0xA11F ^ ((i as u64) << 20));
        let mut rep = Report::default();
        let lines = vec![];
        if skip_task(i) { return TaskOut { lines, rep }; }
        set_task(format!("replay: BV_ONLY={} bvh stream c04 --seed {} (aligned-flush stage: q{} lgwin{} blocks{} delta{} split{})", i, seed, q, w, m, delta, split));
        let bs = 1usize << lgb;
        let len = match delta { 0 => m * bs, 1 => m * bs - 1, _ => m * bs + 1 };
        let cfg = simple_cfg(q, w, false, false, 0);
        let d = gen_bytes(&mut rng, len, if i % 3 == 0 { 4 } else { 2 });
        let tail = gen_bytes(&mut rng, 500 + (i % 5) * 211, 2);
        let mut reqs = vec![];
        if split { let k = 1 + (rng.below((len - 1) as u64) as usize); reqs.push(Req { op: OP_PROCESS, data: d[..k].to_vec() }); reqs.push(Req { op: OP_PROCESS, data: d[k..].to_vec() }); }
        else { reqs.push(Req { op: OP_PROCESS, data: d.clone() }); }
        reqs.push(Req { op: OP_FLUSH, data: vec![] });
        reqs.push(Req { op: OP_PROCESS, data: tail.clone() });
        reqs.push(Req { op: OP_FLUSH, data: vec![] });
        reqs.push(Req { op: OP_FINISH, data: vec![] });
        let sched = if i % 4 == 0 { gen_sched(&mut rng) } else { OutSched::ample() };
        let sched = if sched.caps.iter().all(|c| *c < 64) { OutSched { caps: vec![4096, 1, 70000], ..sched } } else { sched };
        let ro = drive(&cfg, &reqs, &sched, false);
        rep.count("aligned_flush.cases");
        rep.count(&format!("aligned_flush.delta{}", delta));
        judge_plan(&cfg, &ro, &mut rep, true, true);
        TaskOut { lines, rep }
    })
}

/// C01 class "static-dictionary word at the input-block boundary": one meta-block merged from two or more
/// input blocks (compressible filler, a single PROCESS/FINISH chunk) whose block k ends EXACTLY with a word
/// of the static dictionary (first occurrence, so the match finder codes it as a dictionary reference),
/// and whose next block starts by repeating what lies dist_cache_[0] back (a run of the word's last byte,
/// or a repeat of the filler period): `extend_last_command` then looks at a last command that is a
/// dictionary reference. Also with the word one byte before / beyond the boundary.
fn stage_dict_boundary(args: &Args) -> Vec<TaskOut> {
    use brotli_decompressor::dictionary::{kBrotliDictionary, kBrotliDictionaryOffsetsByLength, kBrotliDictionarySizeBitsByLength};
    let seed = args.seed;
    let thorough = args.tier == "thorough";
    let n = if thorough { 960 } else { 96 };
    par_tasks(n, move |i| {
        let mut rng = Rng::new(seed ^ 0xD1C7B ^ ((i as u64) << 20));
        let mut rep = Report::default();
        let lines = vec![];
        if skip_task(i) { return TaskOut { lines, rep }; }
        set_task(format!("replay: BV_ONLY={} bvh stream c01 --seed {} (dict-boundary stage)", i, seed));
        let (q, lgb) = *rng.pick(&[(2u32, 14u32), (2, 14), (3, 14), (4, 16), (5, 16), (9, 16)]);
        let w = if lgb == 16 { 16 } else { *rng.pick(&[16u32, 18, 22]) };
        let bs = 1usize << lgb;
        // a dictionary word of 9..24 bytes whose first two bytes differ from the filler byte
        let word: Vec<u8> = loop {
            let len = rng.range(9, 24) as usize;
            let cnt = 1usize << kBrotliDictionarySizeBitsByLength[len];
            let off = kBrotliDictionaryOffsetsByLength[len] as usize;
            let k = rng.below(cnt as u64) as usize;
            let wd = &kBrotliDictionary[off + k * len..off + (k + 1) * len];
            if wd[0] != b'a' && wd[1] != b'a' { break wd.to_vec(); }
        };
        let shift: isize = *rng.pick(&[0isize, 0, 0, 0, -1, 1]);
        let kblock = 1 + rng.below(2) as usize;
        let end = (kblock * bs) as isize + shift;
        let mut v: Vec<u8> = vec![word[0]];
        let period = *rng.pick(&[1usize, 1, 2, 5]);
        while (v.len() as isize) < end - word.len() as isize { let j = v.len(); v.push(b'a' + (j % period) as u8); }
        v.extend_from_slice(&word);
        let last = *word.last().unwrap();
        let run = *rng.pick(&[1usize, 2, 3, 8, 40, 300]);
        for _ in 0..run { v.push(last); }
        v.extend_from_slice(b" -- and some more text after the boundary, 0123456789.\n");
        if rng.chance(1, 2) { let el = 200 + rng.below(3000) as usize; let extra = gen_bytes(&mut rng, el, 2); v.extend_from_slice(&extra); }
        let cfg = simple_cfg(q, w, false, false, 0);
        let reqs = if rng.chance(1, 2) { vec![Req { op: OP_FINISH, data: v.clone() }] } else { vec![Req { op: OP_PROCESS, data: v.clone() }, Req { op: OP_FINISH, data: vec![] }] };
        let ro = drive(&cfg, &reqs, &OutSched::ample(), false);
        rep.count("dict_boundary.cases");
        rep.count(&format!("dict_boundary.shift{}", shift));
        judge_plan(&cfg, &ro, &mut rep, true, false);
        TaskOut { lines, rep }
    })
}

fn stage_alloc_big(args: &Args) -> Vec<TaskOut> {
    let seed = args.seed;
    let mut grid: Vec<(u32, u32, usize, bool)> = vec![];
    for q in [0u32, 1, 1, 2, 5, 9] { for w in [18u32, 20, 22] { for n in [131073usize, 140000, 200000, 300001] { for cat in [false, true] { if q <= 1 || (n == 140000 && !cat) { grid.push((q, w, n, cat)); } } } } }
    let n = grid.len();
    let grid = std::sync::Arc::new(grid);
    par_tasks(n, move |i| {
        let (q, w, len, cat) = grid[i];
        let mut rng = Rng::new(seed ^ 0xA110C ^ ((i as u64) << 20));
        let mut rep = Report::default();
        set_task(format!("alloc-big task {} q{} lgwin{} len{} catable{}", i, q, w, len, cat));
        let cfg = simple_cfg(q, w, cat, false, 0);
        let style = *rng.pick(&[2u64, 5, 1, 7]);
        let data = gen_bytes(&mut rng, len, style);
        let reqs = if i % 2 == 0 { vec![Req { op: OP_FINISH, data }] } else { vec![Req { op: OP_PROCESS, data }, Req { op: OP_FINISH, data: vec![] }] };
        rep.evaluations += 1;
        rep.count("alloc_big.cases");
        let a = run_reqs_alloc(StandardAlloc::default(), &cfg, &reqs);
        let b = run_reqs_alloc(OverAlloc { n: 0, live: 0, maxk: 31 }, &cfg, &reqs);
        let sess = Session::new();
        match (a, b) {
            (Ok(x), Ok(y)) => {
                rep.nontrivial += 1;
                if x != y { rep.violation("stream:c05:alloc-bytes", &format!("single call of {} bytes at quality {} lgwin {}: {} bytes with StandardAlloc, {} with the over-allocating allocator, first diff at {}", len, q, w, x.len(), y.len(), dec::first_diff(&x, &y)), case_json(&cfg, &sess, &format!("style {} len {}", style, len))); }
                else if let Err(e) = dec::decode_both(&x, false, &reqs[0].data) { rep.violation("stream:roundtrip", &e, case_json(&cfg, &sess, &format!("alloc-big style {} len {}", style, len))); }
            }
            (Err((sig, what)), _) => rep.violation(&format!("stream:{}", sig), &format!("StandardAlloc: {}", what), case_json(&cfg, &sess, "")),
            (_, Err((sig, what))) => rep.violation(&format!("stream:c05:alloc-{}", sig), &format!("over-allocating allocator, quality {} lgwin {} len {}: {}", q, w, len, what), case_json(&cfg, &sess, "")),
        }
        TaskOut { lines: vec![], rep }
    })
}

fn c20_cfgs() -> Vec<Cfg> {
    vec![simple_cfg(0, 16, false, false, 0), simple_cfg(1, 10, true, false, 0), simple_cfg(2, 10, false, true, 0), simple_cfg(5, 12, true, true, 77), simple_cfg(9, 16, false, false, 0)]
}
fn stage_exhaustive(args: &Args) -> Vec<TaskOut> {
    let thorough = args.tier == "thorough";
    let cfgs = c20_cfgs();
    // tasks: (cfg, first symbol) with the full alphabet up to length 4; (cfg, first two symbols)
    // with the reduced alphabet at length 5
    let full = alphabet(true);
    let red = alphabet(false);
    let nfull = full.len();
    let mut tasks: Vec<(usize, Vec<Sym>, bool)> = vec![];
    // quick: the three cheap configurations (fast path, catable q1, q2 + magic) with the full
    // alphabet up to length 4 and the fast path with the reduced alphabet at length 5; thorough: all five configurations in both modes
    let sel: Option<usize> = std::env::var("BV_CFG").ok().and_then(|x| x.parse().ok());
    let ncfg_full = if thorough { cfgs.len() } else { 3 };
    for c in 0..ncfg_full { if sel.map_or(true, |k| k == c) { for a in 0..nfull { tasks.push((c, vec![full[a]], true)); } } }
    let ncfg_red = if thorough { cfgs.len() } else { 1 };
    for c in 0..ncfg_red { if sel.map_or(true, |k| k == c) { for a in 0..red.len() { tasks.push((c, vec![red[a]], false)); } } }
    let n = tasks.len();
    let tasks = std::sync::Arc::new(tasks);
    par_tasks(n, move |i| {
        let (ci, first, is_full) = tasks[i].clone();
        let cfgs = c20_cfgs();
        let cfg = &cfgs[ci];
        let alpha_syms = alphabet(is_full);
        let depth = if is_full { 4 } else { 5 };
        let mut rep = Report::default();
        let mut lines = vec![];
        let k = alpha_syms.len();
        let rest = depth - 1;
        let total = k.pow(rest as u32);
        let mut cnt = [[[0u64; 2]; 4]; 6];
        for code in 0..total {
            let mut syms = first.clone();
            let mut c = code;
            for _ in 0..rest { syms.push(alpha_syms[c % k]); c /= k; }
            let variant = code % 6;
            let sess = run_syms(cfg, &syms, variant);
            rep.evaluations += 1;
            let body = &sess.recs[cfg.sets.len()..];
            if body.iter().any(|r| matches!(r.call, Call::Stream { .. }) && r.ret && (r.consumed > 0 || !r.produced.is_empty())) { rep.nontrivial += 1; }
            if let Some(v) = check_contract(body) {
                rep.violation(&v.0, &v.1, case_json(cfg, &sess, &format!("{:?}", syms)));
            }
            for r in body {
                if let Call::Stream { op, .. } = &r.call {
                    let a = match alpha(&r.before) { Contract::Fresh => 0, Contract::Processing => 1, Contract::Flushing => 2, Contract::Finishing => 3, Contract::Finished => 4, Contract::Metadata(_) => 5 };
                    cnt[a][*op as usize][r.ret as usize] += 1;
                }
            }
            // completion of every request kind from the reached state (sampled 1 in 8 sequences)
            if code % 8 == 3 && sess.dead.is_none() {
                let mut s2 = run_syms(cfg, &syms, variant);
                let st = snap(&s2.enc);
                let (op, data): (u8, Vec<u8>) = match alpha(&st) {
                    Contract::Metadata(r) => (OP_METADATA, vec![0x55; r as usize]),
                    Contract::Flushing => (OP_FLUSH, vec![]),
                    Contract::Finishing | Contract::Finished => (OP_FINISH, vec![]),
                    _ => ([OP_FLUSH, OP_FINISH, OP_METADATA, OP_PROCESS][(code / 8) % 4], sym_input(1, 1, code)),
                };
                let cap = [1usize, 2, 4096][(code / 32) % 3];
                rep.count("exh.completion_checked");
                if let Some(v) = check_completion(&mut s2, op, &data, cap) { rep.violation(&v.0, &v.1, case_json(cfg, &s2, &format!("completion of op {} cap {} after {:?}", op, cap, syms))); }
            }
            // correspondence: maximal sequences only (prefixes are covered by them), sampled
            if evhook::HAVE && (code % (if is_full { 16 } else { 128 }) == 5) { if let Some(l) = corr_line(&sess, true) { lines.push(l); } }
        }
        let names = ["Fresh", "Processing", "Flushing", "Finishing", "Finished", "Metadata"];
        for a in 0..6 { for o in 0..4 { for r in 0..2 { if cnt[a][o][r] != 0 { rep.add(&format!("exh.{}.op{}.{}", names[a], o, if r == 1 { "ok" } else { "refused" }), cnt[a][o][r]); } } } }
        TaskOut { lines, rep }
    })
}
fn stage_random_contract(args: &Args, n: usize) -> Vec<TaskOut> {
    let seed = args.seed;
    par_tasks(n, move |i| {
        let mut rng = Rng::new(seed ^ 0xC20 ^ ((i as u64) << 20));
        let mut rep = Report::default();
        let mut lines = vec![];
        let cfg = gen_cfg(&mut rng, false);
        let mut s = Session::new();
        for (id, v) in &cfg.sets { s.set(*id, *v); }
        let len = rng.range(6, 40) as usize;
        let style = rng.below(8);
        for _ in 0..len {
            match rng.below(12) {
                0 => { s.set(*rng.pick(&[1u32, 2, 5, 4, 167, 7]), rng.below(30) as u32); }
                1 | 2 => { s.take(*rng.pick(&[0usize, 0, 1, 16, 1000])); }
                _ => {
                    // mostly contract-abiding, sometimes not
                    let a = alpha(&snap(&s.enc));
                    let abide = rng.chance(3, 4);
                    let (op, n) = match a {
                        Contract::Metadata(r) if abide => (OP_METADATA, r as usize),
                        Contract::Flushing | Contract::Finishing | Contract::Finished if abide => (*rng.pick(&[OP_PROCESS, OP_FLUSH, OP_FINISH]), 0),
                        _ => (*rng.pick(&[OP_PROCESS, OP_PROCESS, OP_FLUSH, OP_FINISH, OP_METADATA]), match rng.below(6) { 0 => 0, 1 => 1, 2 => rng.range(2, 40) as usize, 3 => rng.range(40, 3000) as usize, 4 => rng.range(16380, 16390) as usize, _ => rng.range(1, 300) as usize }),
                    };
                    let data = gen_bytes(&mut rng, n, style);
                    let cap = *rng.pick(&[0usize, 0, 1, 1, 2, 16, 100, 503, 4096, 1 << 17]);
                    s.stream(op, &data, cap);
                }
            }
            if s.dead.is_some() { break; }
        }
        rep.evaluations += 1;
        if s.recs.iter().any(|r| matches!(r.call, Call::Stream { .. }) && r.ret && (r.consumed > 0 || !r.produced.is_empty())) { rep.nontrivial += 1; }
        if let Some(v) = check_contract(&s.recs) { rep.violation(&v.0, &v.1, case_json(&cfg, &s, "random history")); }
        else if s.dead.is_none() {
            // drive whatever is open to completion, then FINISH: the stream must still close and decode
            let st = snap(&s.enc);
            let (op, data): (u8, Vec<u8>) = match alpha(&st) { Contract::Metadata(r) => (OP_METADATA, vec![7; r as usize]), _ => (OP_FINISH, vec![]) };
            let cap = *rng.pick(&[1usize, 3, 4096]);
            if let Some(v) = check_completion(&mut s, op, &data, cap) { rep.violation(&v.0, &v.1, case_json(&cfg, &s, "completion after a random history")); }
            else if op == OP_METADATA { if let Some(v) = check_completion(&mut s, OP_FINISH, &[], cap) { rep.violation(&v.0, &v.1, case_json(&cfg, &s, "FINISH after a random history")); } }
            if s.dead.is_none() && snap(&s.enc).fin {
                let fed: Vec<u8> = s.recs.iter().filter_map(|r| if let Call::Stream { op, data, .. } = &r.call { if *op != OP_METADATA && r.ret { Some(data[..r.consumed].to_vec()) } else { None } } else { None }).flatten().collect();
                let lw = snap(&s.enc).lw;
                if let Err(e) = dec::decode_both(&s.delivered, lw, &fed) { rep.violation("stream:roundtrip", &format!("after a random history incl. refused calls: {}", e), case_json(&cfg, &s, "")); }
                else { rep.count("random.closed_and_decoded"); }
            }
        }
        if let Some(l) = corr_line(&s, true) { lines.push(l); }
        TaskOut { lines, rep }
    })
}

fn run_corpus(rep: &mut Report, lines: &mut Vec<(String, String)>) {
    let dir = std::path::Path::new("/verif/corpus/stream");
    let mut files: Vec<_> = match std::fs::read_dir(dir) { Ok(d) => d.filter_map(|e| e.ok()).map(|e| e.path()).collect(), Err(_) => return };
    files.sort();
    for f in files {
        let txt = std::fs::read_to_string(&f).unwrap_or_default();
        for l in txt.lines() {
            let l = l.trim();
            if l.is_empty() || l.starts_with('#') { continue; }
            let mut s = Session::new();
            for t in l.split(' ') {
                match Call::parse(t) {
                    Some(Call::Set(i, v)) => { s.set(i, v); }
                    Some(Call::Stream { op, mut data, offered, cap }) => { data.resize(offered, 0); s.stream(op, &data, cap); }
                    Some(Call::Take(n)) => { s.take(n); }
                    None => {}
                }
                if s.dead.is_some() { break; }
            }
            rep.evaluations += 1;
            rep.count("corpus.histories");
            let name = f.file_name().map(|x| x.to_string_lossy().to_string()).unwrap_or_default();
            if let Some(p) = &s.dead {
                rep.violation(&dead_signature(p), &format!("corpus {}: {}", name, p), format!("{{\"corpus\": {}, \"history\": {}}}", jstr(&name), jstr(l)));
            } else if let Some(v) = check_contract(&s.recs) {
                rep.violation(&v.0, &format!("corpus {}: {}", name, v.1), format!("{{\"corpus\": {}, \"history\": {}}}", jstr(&name), jstr(l)));
            }
            else if snap(&s.enc).fin {
                let fed: Vec<u8> = s.recs.iter().filter_map(|r| if let Call::Stream { op, data, .. } = &r.call { if *op != OP_METADATA && r.ret { Some(data[..r.consumed].to_vec()) } else { None } } else { None }).flatten().collect();
                if let Err(e) = dec::decode_both(&s.delivered, snap(&s.enc).lw, &fed) {
                    rep.violation("stream:roundtrip", &format!("corpus {}: {}", name, e), format!("{{\"corpus\": {}, \"history\": {}}}", jstr(&name), jstr(l)));
                } else { rep.count("corpus.decoded"); }
            }
            if let Some(cl) = corr_line(&s, true) { lines.push(cl); }
        }
    }
}

/// `bvh stream replay <file>`: run the history line(s) of a file, print what happened
fn replay_file(path: &str) {
    let txt = std::fs::read_to_string(path).unwrap_or_default();
    for l in txt.lines() {
        let l = l.trim();
        if l.is_empty() || l.starts_with('#') { continue; }
        let mut s = Session::new();
        for t in l.split(' ') {
            match Call::parse(t) {
                Some(Call::Set(i, v)) => { let r = s.set(i, v); println!("P {} {} -> {}", i, v, r); }
                Some(Call::Stream { op, mut data, offered, cap }) => {
                    data.resize(offered, 0);
                    let (r, c, p) = s.stream(op, &data, cap);
                    let sn = snap(&s.enc);
                    println!("C op={} in={} cap={} -> ret={} consumed={} produced={} | st={} ip={} lf={} lp={} carry={}b ao={} rm={} fin={} events={:?}", op, offered, cap, r, c, p, sn.st, sn.ip, sn.lf, sn.lp, sn.lbb, sn.ao, sn.rm as i64, sn.fin, s.recs.last().map(|r| r.events.iter().map(|e| (e.site, e.lp_before, e.input_pos, e.is_last, e.force_flush, e.out_size, e.cb_after, e.lf_after)).collect::<Vec<_>>()).unwrap_or_default());
                }
                Some(Call::Take(n)) => { let k = s.take(n); println!("T {} -> {}", n, k); }
                None => println!("?? {}", t),
            }
            if let Some(p) = &s.dead { println!("DEAD: {}", p); break; }
        }
        let fed: Vec<u8> = s.recs.iter().filter_map(|r| if let Call::Stream { op, data, .. } = &r.call { if *op != OP_METADATA && r.ret { Some(data[..r.consumed].to_vec()) } else { None } } else { None }).flatten().collect();
        println!("delivered {} bytes: {}", s.delivered.len(), hex(&s.delivered[..s.delivered.len().min(200)]));
        let sn = snap(&s.enc);
        println!("contract: {:?}", check_contract(&s.recs));
        if sn.fin { println!("decode: {:?}", dec::decode_both(&s.delivered, sn.lw, &fed)); }
        else { let (st, v) = decode_prefix(&s.delivered, fed.len() + 65536); println!("prefix decode: state {} {} bytes, equal to fed prefix: {}", st, v.len(), fed.starts_with(&v)); }
    }
}

pub fn run_cmd(args: &Args) {
    install_panic_hook();
    if args.rest.get(0).map(|s| s.as_str()) == Some("replay") { replay_file(args.rest.get(1).map(|s| s.as_str()).unwrap_or("")); return; }
    let thorough = args.tier == "thorough";
    let which = args.rest.get(0).map(|s| s.as_str()).unwrap_or("all").to_string();
    let mut corr = Corr::new(&args.out);
    let mut rep = Report::default();
    let mut outs: Vec<TaskOut> = vec![];
    let mut pre_lines = vec![];
    run_corpus(&mut rep, &mut pre_lines);
    let scale = if thorough { 12 } else { 1 };
    if which == "c01" || which == "all" { outs.extend(stage_plans(args, 9000 * scale, 0xC01, true, false)); outs.extend(stage_fragments(args, 24 * scale)); outs.extend(stage_ringwrap(args, 24 * scale)); outs.extend(stage_dict_boundary(args)); }
    if which == "c04" || which == "all" { outs.extend(stage_plans(args, 6000 * scale, 0xC04, true, true)); outs.extend(stage_aligned_flush(args)); }
    if which == "c05" || which == "all" { outs.extend(stage_pairs(args, 3500 * scale)); outs.extend(stage_alloc_big(args)); outs.extend(stage_boundary(args)); }
    if which == "c20" || which == "all" {
        outs.extend(stage_exhaustive(args));
        outs.extend(stage_random_contract(args, 3000 * scale));
    }
    if thorough && (which == "c01" || which == "all" || which == "bigring") || which == "bigring" { stage_bigring(&mut rep); }
    for (o, a) in pre_lines { corr.case(&o, &a); }
    for t in outs {
        for (o, a) in t.lines { corr.case(&o, &a); }
        rep.merge(t.rep);
    }
    rep.add("corr.lines", corr.n);
    rep.add("hook.available", evhook::HAVE as u64);
    corr.finish();
    rep.write(&args.out);
}
