//! engine `huff` — C17: prefix codes are complete, length-limited, canonical and serialise
//! faithfully.
//!
//! Real code under test (`brotli::enc::entropy_encode`, `brotli::enc::brotli_bit_stream`):
//! `BrotliCreateHuffmanTree`, `BrotliConvertBitDepthsToSymbols`, `BrotliWriteHuffmanTree`,
//! `BrotliOptimizeHuffmanCountsForRle`, `BrotliStoreHuffmanTree`,
//! `BrotliBuildAndStoreHuffmanTreeFast` and — through the proposed hook
//! `verif_hooks::build_and_store_huffman_tree` (cfg `huff_hook`) — `BuildAndStoreHuffmanTree`.
//!
//! * correspondence lines = the protocol of `lean/BV/Drive/Huffman.lean`
//!   (`huff tree|symbols|rle|store|build|fast|optrle|exh …`), answered by the real code;
//! * search stage = property oracle on the real code alone: support exact, length limit
//!   (15 / 5 / 14), Kraft equality, canonical bit patterns (RFC 7932 §3.2, written here
//!   independently), RLE entries expand back (RFC §3.5 repeat rules), and everything a
//!   builder stores is parsed back by an independent RFC §3.4/§3.5 reader to the depths.
//!
//! Generators (all from one PRNG state): exhaustive count vectors over <= 6 symbols with
//! counts 0..12 (quick: n <= 5 complete + every 5th 2000-vector block of n = 6; thorough: all),
//! 18-symbol Fibonacci-like skews for limit 5, random alphabets 2..704 with
//! geometric / Fibonacci / flat / sparse / run-structured shapes and counts up to 2^24 with
//! histogram total <= 2^30 (the domain in which C17.lean proves termination and absence of
//! `u32` wrap), the ONE known wrap witness (signature `huff:count-sum-wraps-u32`), and a
//! malformed stream (depths > 15, incomplete depth vectors, arbitrary bytes) that only the
//! correspondence judges.
//!
//! non-trivial case = a distinct histogram with at least two occurring symbols on which
//! every builder returned and was judged by every oracle.
//!
//! Corpus: `/verif/corpus/huff/*.txt`, one request line per file (`huff tree 15 1,2,3`);
//! run first; `tree`/`build`/`fast` lines are also judged by the oracle.
use crate::prng::Rng;
use crate::util::*;
use alloc_stdlib::StandardAlloc;
use brotli::enc::brotli_bit_stream::{BrotliBuildAndStoreHuffmanTreeFast, BrotliStoreHuffmanTree};
use brotli::enc::entropy_encode::{
    BrotliConvertBitDepthsToSymbols, BrotliCreateHuffmanTree, BrotliOptimizeHuffmanCountsForRle,
    BrotliWriteHuffmanTree, HuffmanTree,
};
use std::panic::{catch_unwind, AssertUnwindSafe};

const MAX_TREE: usize = 2 * 704 + 1;
const STORAGE: usize = 8192;

// ---------------------------------------------------------------- real code, panics caught

fn quiet<T>(f: impl FnOnce() -> T) -> Option<T> {
    catch_unwind(AssertUnwindSafe(f)).ok()
}

fn real_tree(data: &[u32], limit: i32) -> Option<Vec<u8>> {
    quiet(|| {
        let n = data.len();
        let mut tree = vec![HuffmanTree::default(); 2 * n + 1];
        let mut depth = vec![0u8; n];
        BrotliCreateHuffmanTree(data, n, limit, &mut tree, &mut depth);
        depth
    })
}
fn real_symbols(depth: &[u8]) -> Option<Vec<u16>> {
    quiet(|| {
        let mut bits = vec![0u16; depth.len()];
        BrotliConvertBitDepthsToSymbols(depth, depth.len(), &mut bits);
        bits
    })
}
fn real_rle(depth: &[u8]) -> Option<(Vec<u8>, Vec<u8>)> {
    quiet(|| {
        let cap = depth.len().max(704);
        let mut t = vec![0u8; cap];
        let mut e = vec![0u8; cap];
        let mut sz = 0usize;
        BrotliWriteHuffmanTree(depth, depth.len(), &mut sz, &mut t, &mut e);
        t.truncate(sz);
        e.truncate(sz);
        (t, e)
    })
}
fn real_store(depth: &[u8]) -> Option<(usize, Vec<u8>)> {
    quiet(|| {
        let mut tree = vec![HuffmanTree::default(); MAX_TREE];
        let mut st = vec![0u8; STORAGE];
        let mut ix = 0usize;
        BrotliStoreHuffmanTree(depth, depth.len(), &mut tree, &mut ix, &mut st);
        (ix, st)
    })
}
fn real_fast(h: &[u32], max_bits: usize) -> Option<(Vec<u8>, Vec<u16>, usize, Vec<u8>)> {
    quiet(|| {
        let n = h.len();
        let mut m = StandardAlloc::default();
        let mut st = vec![0u8; STORAGE];
        let mut depth = vec![0u8; n];
        let mut bits = vec![0u16; n];
        let mut ix = 0usize;
        let total: usize = h.iter().map(|x| *x as usize).sum();
        BrotliBuildAndStoreHuffmanTreeFast(&mut m, h, total, max_bits, &mut depth, &mut bits, &mut ix, &mut st);
        (depth, bits, ix, st)
    })
}
#[cfg(huff_hook)]
fn real_build(h: &[u32], alphabet_size: usize) -> Option<(Vec<u8>, Vec<u16>, usize, Vec<u8>)> {
    quiet(|| {
        let n = h.len();
        let mut tree = vec![HuffmanTree::default(); MAX_TREE];
        let mut st = vec![0u8; STORAGE];
        let mut depth = vec![0u8; n];
        let mut bits = vec![0u16; n];
        let ix = brotli::enc::brotli_bit_stream::verif_hooks::build_and_store_huffman_tree(
            h, n, alphabet_size, &mut tree, &mut depth, &mut bits, &mut st);
        (depth, bits, ix, st)
    })
}
#[cfg(not(huff_hook))]
fn real_build(_h: &[u32], _alphabet_size: usize) -> Option<(Vec<u8>, Vec<u16>, usize, Vec<u8>)> {
    None
}
const HAVE_BUILD: bool = cfg!(huff_hook);

fn real_optrle(c: &[u32]) -> Option<Vec<u32>> {
    quiet(|| {
        let mut c = c.to_vec();
        let mut g = vec![0u8; c.len()];
        let n = c.len();
        BrotliOptimizeHuffmanCountsForRle(n, &mut c, &mut g);
        c
    })
}

// ---------------------------------------------------------------- line protocol

fn show<T: std::fmt::Display>(v: &[T]) -> String {
    if v.is_empty() {
        "-".into()
    } else {
        v.iter().map(|x| x.to_string()).collect::<Vec<_>>().join(",")
    }
}
fn show_bits(n: usize, st: &[u8]) -> String {
    format!("{} {}", n, hex(&st[..(n + 7) / 8]))
}
fn parse_list(s: &str) -> Vec<u64> {
    if s == "-" {
        vec![]
    } else {
        s.split(',').map(|x| x.parse().unwrap_or(0)).collect()
    }
}
fn dbl(r: Option<(Vec<u8>, Vec<u16>, usize, Vec<u8>)>) -> String {
    match r {
        Some((d, b, n, st)) => format!("{};{};{}", show(&d), show(&b), show_bits(n, &st)),
        None => "panic".into(),
    }
}

/// the implementation's answer to one request line of the `huff` driver protocol
fn answer(line: &str) -> String {
    let t: Vec<&str> = line.split(' ').collect();
    if t.len() < 2 || t[0] != "huff" {
        return "bad-op".into();
    }
    match (t[1], t.len()) {
        ("tree", 4) => {
            let d: Vec<u32> = parse_list(t[3]).iter().map(|x| *x as u32).collect();
            real_tree(&d, t[2].parse().unwrap_or(15)).map(|d| show(&d)).unwrap_or("panic".into())
        }
        ("symbols", 3) => {
            let d: Vec<u8> = parse_list(t[2]).iter().map(|x| *x as u8).collect();
            real_symbols(&d).map(|b| show(&b)).unwrap_or("panic".into())
        }
        ("rle", 3) => {
            let d: Vec<u8> = parse_list(t[2]).iter().map(|x| *x as u8).collect();
            real_rle(&d).map(|(a, b)| format!("{};{}", show(&a), show(&b))).unwrap_or("panic".into())
        }
        ("store", 3) => {
            let d: Vec<u8> = parse_list(t[2]).iter().map(|x| *x as u8).collect();
            real_store(&d).map(|(n, st)| show_bits(n, &st)).unwrap_or("panic".into())
        }
        ("build", 4) => {
            let h: Vec<u32> = parse_list(t[3]).iter().map(|x| *x as u32).collect();
            dbl(real_build(&h, t[2].parse().unwrap_or(0)))
        }
        ("fast", 4) => {
            let h: Vec<u32> = parse_list(t[3]).iter().map(|x| *x as u32).collect();
            dbl(real_fast(&h, t[2].parse().unwrap_or(0)))
        }
        ("optrle", 3) => {
            let c: Vec<u32> = parse_list(t[2]).iter().map(|x| *x as u32).collect();
            real_optrle(&c).map(|c| show(&c)).unwrap_or("panic".into())
        }
        ("exh", 6) => {
            let p: Vec<u64> = t[2..].iter().map(|x| x.parse().unwrap_or(0)).collect();
            exh_digest(p[0] as usize, p[1], p[2], p[3] != 0).to_string()
        }
        _ => "bad-op".into(),
    }
}

// ---------------------------------------------------------------- exhaustive digest (mirrors `exhStep`)

fn fold_list<T: Copy + Into<u64>>(mut h: u64, l: &[T]) -> u64 {
    h = fnv_step(h, l.len() as u64);
    for x in l {
        h = fnv_step(h, (*x).into());
    }
    h
}
fn fold_bits(h: u64, n: usize, st: &[u8]) -> u64 {
    fold_list(fnv_step(h, n as u64), &st[..(n + 7) / 8])
}
fn exh_vector(nsym: usize, idx: u64) -> Vec<u32> {
    let mut v = vec![0u32; nsym];
    let mut x = idx;
    for i in 0..nsym {
        v[i] = (x % 13) as u32;
        x /= 13;
    }
    v
}
fn exh_step(nsym: usize, with_build: bool, mut h: u64, idx: u64) -> u64 {
    const PANIC: u64 = 0xdead;
    let v = exh_vector(nsym, idx);
    let nz = v.iter().filter(|x| **x != 0).count();
    h = fnv_step(h, idx);
    if nz >= 1 {
        let t15 = real_tree(&v, 15);
        h = match &t15 { Some(d) => fold_list(h, d), None => fnv_step(h, PANIC) };
        h = match real_tree(&v, 5) { Some(d) => fold_list(h, &d), None => fnv_step(h, PANIC) };
        if let Some(d) = t15 {
            h = match real_symbols(&d) { Some(b) => fold_list(h, &b), None => fnv_step(h, PANIC) };
            if nz >= 2 {
                h = match real_store(&d) { Some((n, st)) => fold_bits(h, n, &st), None => fnv_step(h, PANIC) };
            }
        }
    }
    h = match real_fast(&v, 3) {
        Some((d, b, n, st)) => fold_bits(fold_list(fold_list(h, &d), &b), n, &st),
        None => fnv_step(h, PANIC),
    };
    if with_build {
        h = match real_build(&v, nsym) {
            Some((d, b, n, st)) => fold_bits(fold_list(fold_list(h, &d), &b), n, &st),
            None => fnv_step(h, PANIC),
        };
    }
    h
}
fn exh_digest(nsym: usize, lo: u64, hi: u64, with_build: bool) -> u64 {
    let mut h = FNV_INIT;
    for idx in lo..hi {
        h = exh_step(nsym, with_build, h, idx);
    }
    h
}

// ---------------------------------------------------------------- independent RFC 7932 side

/// RFC 7932 §3.2: canonical code values (MSB-first) from code lengths
fn rfc_canonical(lens: &[u8]) -> Vec<u32> {
    let maxl = 16usize;
    let mut bl_count = vec![0u32; maxl + 1];
    for &l in lens {
        if l != 0 {
            bl_count[l as usize] += 1;
        }
    }
    let mut next = vec![0u32; maxl + 2];
    let mut code = 0u32;
    for b in 1..=maxl {
        code = (code + bl_count[b - 1]) << 1;
        next[b] = code;
    }
    lens.iter()
        .map(|&l| {
            if l == 0 {
                0
            } else {
                let c = next[l as usize];
                next[l as usize] += 1;
                c
            }
        })
        .collect()
}
fn rev_bits(n: u32, v: u32) -> u32 {
    let mut r = 0;
    for i in 0..n {
        if v >> i & 1 != 0 {
            r |= 1 << (n - 1 - i);
        }
    }
    r
}
fn kraft(lens: &[u8], limit: u32) -> u64 {
    lens.iter().filter(|l| **l != 0).map(|&l| if (l as u32) <= limit { 1u64 << (limit - l as u32) } else { 1u64 << 40 }).sum()
}

/// RFC 7932 §3.5: expand (code length symbol, extra bits) entries
fn rfc_expand(syms: &[u8], extras: &[u8]) -> Result<Vec<u8>, String> {
    let mut out: Vec<u8> = vec![];
    let mut prev_nz = 8u8;
    let mut rep_val: i32 = -1;
    let mut rep_cnt = 0usize;
    for (i, &s) in syms.iter().enumerate() {
        let e = extras[i] as usize;
        if s < 16 {
            if e != 0 { return Err(format!("extra bits {} on literal {}", e, s)); }
            out.push(s);
            if s != 0 { prev_nz = s; }
            rep_val = -1;
            rep_cnt = 0;
        } else if s == 16 || s == 17 {
            let (val, base, lim) = if s == 16 { (prev_nz, 4usize, 4usize) } else { (0u8, 8usize, 8usize) };
            if e >= lim { return Err(format!("extra bits {} out of range for {}", e, s)); }
            let old = if rep_val == val as i32 { rep_cnt } else { 0 };
            let new = if old > 0 { base * (old - 2) + 3 + e } else { 3 + e };
            for _ in old..new { out.push(val); }
            rep_val = val as i32;
            rep_cnt = new;
        } else {
            return Err(format!("code length symbol {}", s));
        }
    }
    Ok(out)
}

struct BitReader<'a> { data: &'a [u8], pos: usize, end: usize }
impl<'a> BitReader<'a> {
    fn bit(&mut self) -> Result<u32, String> {
        if self.pos >= self.end { return Err("out of bits".into()); }
        let b = (self.data[self.pos >> 3] >> (self.pos & 7)) & 1;
        self.pos += 1;
        Ok(b as u32)
    }
    fn bits(&mut self, n: u32) -> Result<u32, String> {
        let mut v = 0;
        for i in 0..n { v |= self.bit()? << i; }
        Ok(v)
    }
    /// decode one symbol of the prefix code `lens` (bits of a code word arrive MSB first)
    fn symbol(&mut self, lens: &[u8], codes: &[u32]) -> Result<usize, String> {
        let used: Vec<usize> = (0..lens.len()).filter(|&i| lens[i] != 0).collect();
        if used.len() == 1 { return Ok(used[0]); }
        let mut acc = 0u32;
        for l in 1..=15u8 {
            acc = (acc << 1) | self.bit()?;
            for &s in &used {
                if lens[s] == l && codes[s] == acc { return Ok(s); }
            }
        }
        Err("no code word matches".into())
    }
}

/// RFC 7932 §3.4 / §3.5: read one prefix code description; returns the code lengths.
/// Everything must be consumed exactly (`end` = number of bits the encoder reported).
fn rfc_read_prefix_code(data: &[u8], nbits: usize, alphabet_size: usize) -> Result<Vec<u8>, String> {
    let mut r = BitReader { data, pos: 0, end: nbits };
    let mut lens = vec![0u8; alphabet_size];
    let hskip = r.bits(2)?;
    if hskip == 1 {
        let nsym = r.bits(2)? as usize + 1;
        let mut w = 0u32;
        while alphabet_size > 1 && ((alphabet_size - 1) >> w) != 0 { w += 1; }
        let mut syms = vec![];
        for _ in 0..nsym {
            let s = r.bits(w)? as usize;
            if s >= alphabet_size { return Err(format!("simple symbol {} >= alphabet {}", s, alphabet_size)); }
            if syms.contains(&s) { return Err(format!("simple symbol {} twice", s)); }
            syms.push(s);
        }
        let shape: &[u8] = match nsym {
            1 => &[0],
            2 => &[1, 1],
            3 => &[1, 2, 2],
            _ => if r.bits(1)? == 0 { &[2, 2, 2, 2] } else { &[1, 2, 3, 3] },
        };
        for (i, &s) in syms.iter().enumerate() { lens[s] = shape[i]; }
    } else {
        const ORDER: [usize; 18] = [1, 2, 3, 4, 0, 5, 17, 6, 16, 7, 8, 9, 10, 11, 12, 13, 14, 15];
        let mut cl = [0u8; 18];
        let mut space = 32i32;
        let mut num = 0;
        for i in hskip as usize..18 {
            // 0 -> 00, 3 -> 10, 4 -> 01, 2 -> 011, 1 -> 0111, 5 -> 1111 (right to left)
            let v = match r.bits(2)? {
                0 => 0u8,
                2 => 3,
                1 => 4,
                _ => if r.bit()? == 0 { 2 } else if r.bit()? == 0 { 1 } else { 5 },
            };
            cl[ORDER[i]] = v;
            if v != 0 {
                space -= 32 >> v;
                num += 1;
                if space <= 0 { break; }
            }
        }
        if !(num == 1 || space == 0) { return Err(format!("code length code: {} codes, space {}", num, space)); }
        let clcodes = rfc_canonical(&cl);
        let mut syms = vec![];
        let mut extras = vec![];
        let mut space = 32768i64;
        let mut count = 0usize;
        let mut prev_nz = 8u8;
        let mut rep_val: i32 = -1;
        let mut rep_cnt = 0usize;
        while count < alphabet_size && space > 0 {
            let s = r.symbol(&cl, &clcodes)? as u8;
            if s < 16 {
                syms.push(s); extras.push(0u8);
                lens[count] = s; count += 1;
                if s != 0 { prev_nz = s; space -= 32768 >> s; }
                rep_val = -1; rep_cnt = 0;
            } else {
                let (val, base, nb) = if s == 16 { (prev_nz, 4usize, 2) } else { (0u8, 8usize, 3) };
                let e = r.bits(nb)? as usize;
                syms.push(s); extras.push(e as u8);
                let old = if rep_val == val as i32 { rep_cnt } else { 0 };
                let new = if old > 0 { base * (old - 2) + 3 + e } else { 3 + e };
                if count + (new - old) > alphabet_size { return Err("repeat runs past the alphabet".into()); }
                for _ in old..new { lens[count] = val; count += 1; if val != 0 { space -= 32768 >> val; } }
                rep_val = val as i32; rep_cnt = new;
            }
        }
        if space != 0 { return Err(format!("code space left {}", space)); }
    }
    if r.pos != nbits { return Err(format!("{} bits not consumed", nbits - r.pos)); }
    Ok(lens)
}

// ---------------------------------------------------------------- oracle

/// `5,7*3,0*2` = 5,7,7,7,0,0 (replayable, short)
fn show_runs(h: &[u32]) -> String {
    let mut parts = vec![];
    let mut i = 0;
    while i < h.len() {
        let mut j = i;
        while j < h.len() && h[j] == h[i] { j += 1; }
        if j - i >= 3 { parts.push(format!("{}*{}", h[i], j - i)); } else { for _ in i..j { parts.push(h[i].to_string()); } }
        i = j;
    }
    if parts.is_empty() { "-".into() } else { parts.join(",") }
}
fn case_json(kind: &str, limit: u32, h: &[u32]) -> String {
    format!("{{\"kind\": {}, \"limit\": {}, \"alphabet\": {}, \"histogram\": {}}}", jstr(kind), limit, h.len(), jstr(&show_runs(h)))
}

/// support exact, limit, Kraft equality, canonical bits for one (histogram, depths, bits)
fn judge_code(rep: &mut Report, kind: &str, limit: u32, h: &[u32], depth: &[u8], bits: Option<&[u16]>) -> bool {
    let mut ok = true;
    let n = h.len();
    for i in 0..n {
        if (h[i] != 0) != (depth[i] != 0) {
            rep.violation("huff:support", &format!("{}: symbol {} count {} depth {}", kind, i, h[i], depth[i]), case_json(kind, limit, h));
            ok = false;
            break;
        }
    }
    if let Some(&m) = depth.iter().max() {
        if m as u32 > limit {
            rep.violation("huff:limit", &format!("{}: depth {} > {}", kind, m, limit), case_json(kind, limit, h));
            ok = false;
        } else if m as u32 == limit {
            rep.count(&format!("limit{}.reached", limit));
        }
    }
    let k = kraft(depth, limit);
    if k != 1u64 << limit {
        rep.violation("huff:kraft", &format!("{}: Kraft sum {} / 2^{}", kind, k, limit), case_json(kind, limit, h));
        ok = false;
    }
    if let Some(bits) = bits {
        let canon = rfc_canonical(depth);
        for i in 0..n {
            if depth[i] != 0 && bits[i] as u32 != rev_bits(depth[i] as u32, canon[i]) {
                rep.violation("huff:canonical", &format!("{}: symbol {} depth {} bits {} canonical {}", kind, i, depth[i], bits[i], canon[i]), case_json(kind, limit, h));
                ok = false;
                break;
            }
        }
    }
    ok
}

fn trimmed(d: &[u8]) -> &[u8] {
    let mut n = d.len();
    while n > 0 && d[n - 1] == 0 { n -= 1; }
    &d[..n]
}

/// everything C17 asks of one histogram; returns true when all builders returned and all oracles passed
fn judge(rep: &mut Report, h: &[u32], expect_wrap: bool) -> bool {
    rep.evaluations += 1;
    let n = h.len();
    let nz = h.iter().filter(|x| **x != 0).count();
    let total: u64 = h.iter().map(|x| *x as u64).sum();
    let mut ok = true;
    let panic_sig = |what: &str| -> String {
        if total >= (1u64 << 32) - 1 { "huff:count-sum-wraps-u32".to_string() } else { format!("huff:panic:{}", what) }
    };
    rep.count(match n { 0..=6 => "alphabet.le6", 7..=12 => "alphabet.7_12", 13..=56 => "alphabet.13_56(shell)", 57..=256 => "alphabet.57_256(shell,all gaps)", _ => "alphabet.257_704" });
    if nz >= 2 {
        // ---- exact builder, limit 15 (and 5 for small alphabets)
        for &limit in &[15u32, 5u32] {
            if limit == 5 && (n > 18 || nz > 18) { continue; }
            match real_tree(h, limit as i32) {
                None => { rep.violation(&panic_sig("tree"), &format!("BrotliCreateHuffmanTree(limit {}) panicked", limit), case_json("tree", limit, h)); ok = false; }
                Some(depth) => {
                    let bits = real_symbols(&depth);
                    if bits.is_none() { rep.violation("huff:panic:symbols", "BrotliConvertBitDepthsToSymbols panicked", case_json("tree", limit, h)); ok = false; }
                    ok &= judge_code(rep, "tree", limit, h, &depth, bits.as_deref());
                    if limit == 15 {
                        // RLE entries expand back
                        match real_rle(&depth) {
                            None => { rep.violation("huff:panic:rle", "BrotliWriteHuffmanTree panicked", case_json("rle", limit, h)); ok = false; }
                            Some((s, e)) => {
                                for w in s.windows(2) { if w[0] == 16 && w[1] == 16 { rep.count("rle.chain16"); break; } }
                                for w in s.windows(2) { if w[0] == 17 && w[1] == 17 { rep.count("rle.chain17"); break; } }
                                if s.contains(&16) { rep.count("rle.code16"); }
                                if s.contains(&17) { rep.count("rle.code17"); }
                                match rfc_expand(&s, &e) {
                                    Ok(x) if x == trimmed(&depth) => {}
                                    Ok(_) => { rep.violation("huff:rle-expand", "RLE entries expand to a different vector", case_json("rle", limit, h)); ok = false; }
                                    Err(m) => { rep.violation("huff:rle-expand", &m, case_json("rle", limit, h)); ok = false; }
                                }
                            }
                        }
                        // the complex description is parsed back
                        match real_store(&depth) {
                            None => { rep.violation("huff:panic:store", "BrotliStoreHuffmanTree panicked", case_json("store", limit, h)); ok = false; }
                            Some((nb, st)) => match rfc_read_prefix_code(&st, nb, n) {
                                Ok(l) if l == depth => { rep.count("store.parsed_back"); }
                                Ok(_) => { rep.violation("huff:store-roundtrip", "stored tree parses to other depths", case_json("store", limit, h)); ok = false; }
                                Err(m) => { rep.violation("huff:store-roundtrip", &m, case_json("store", limit, h)); ok = false; }
                            },
                        }
                    }
                }
            }
        }
    }
    // ---- BuildAndStoreHuffmanTree (needs the hook)
    if HAVE_BUILD && n >= 1 {
        match real_build(h, n) {
            None => { rep.violation(&panic_sig("build"), "BuildAndStoreHuffmanTree panicked", case_json("build", 15, h)); ok = false; }
            Some((depth, bits, nb, st)) => {
                if nz >= 2 { ok &= judge_code(rep, "build", 15, h, &depth, Some(&bits)); }
                match nz { 0 | 1 => rep.count("build.single_symbol"), 2 => rep.count("build.simple2"), 3 => rep.count("build.simple3"), 4 => rep.count("build.simple4"), _ => rep.count("build.complex") }
                let want: Vec<u8> = if nz >= 2 { depth.clone() } else { vec![0u8; n] };
                match rfc_read_prefix_code(&st, nb, n) {
                    Ok(l) if l == want => {}
                    Ok(_) => { rep.violation("huff:store-roundtrip", "BuildAndStoreHuffmanTree: description parses to other depths", case_json("build", 15, h)); ok = false; }
                    Err(m) => { rep.violation("huff:store-roundtrip", &format!("build: {}", m), case_json("build", 15, h)); ok = false; }
                }
            }
        }
    }
    // ---- fast builder (quality <= 2), limit 14
    if n >= 1 {
        let mut mb = 0usize;
        while n > 1 && ((n - 1) >> mb) != 0 { mb += 1; }
        match real_fast(h, mb) {
            None => { rep.violation(&panic_sig("fast"), "BrotliBuildAndStoreHuffmanTreeFast panicked", case_json("fast", 14, h)); ok = false; }
            Some((depth, bits, nb, st)) => {
                if nz >= 2 { ok &= judge_code(rep, "fast", 14, h, &depth, Some(&bits)); }
                match nz { 0 | 1 => rep.count("fast.single_symbol"), 2 => rep.count("fast.simple2"), 3 => rep.count("fast.simple3"), 4 => rep.count("fast.simple4"), _ => rep.count("fast.static_code") }
                let want: Vec<u8> = if nz >= 2 { depth.clone() } else { vec![0u8; n] };
                match rfc_read_prefix_code(&st, nb, n) {
                    Ok(l) if l == want => {}
                    Ok(_) => { rep.violation("huff:store-roundtrip", "fast builder: description parses to other depths", case_json("fast", 14, h)); ok = false; }
                    Err(m) => { rep.violation("huff:store-roundtrip", &format!("fast: {}", m), case_json("fast", 14, h)); ok = false; }
                }
            }
        }
    }
    let _ = expect_wrap;
    if ok && nz >= 2 { rep.nontrivial += 1; }
    ok
}

// ---------------------------------------------------------------- generators

fn fib_like(kind: u64, i: u64) -> u64 {
    // kind 0: Fibonacci, 1: powers of two, 2: tribonacci, 3: (3/2)^i
    match kind {
        0 => { let (mut a, mut b) = (1u64, 1u64); for _ in 0..i { let c = a + b; a = b; b = c; } a }
        1 => 1u64 << i.min(40),
        2 => { let (mut a, mut b, mut c) = (1u64, 1u64, 2u64); for _ in 0..i { let d = a + b + c; a = b; b = c; c = d; } a }
        _ => { let mut x = 1f64; for _ in 0..i { x *= 1.5; } x as u64 + 1 }
    }
}

/// the 18-symbol family for limit 5: shape x offset x number of used symbols x rotation x direction
fn skew18(id: u64) -> Vec<u32> {
    let kind = id % 4;
    let off = id / 4 % 9;
    let used = 2 + id / 36 % 17;
    let rot = id / 612 % 18;
    let rev = id / 11016 % 2;
    let mut v = vec![0u32; 18];
    for k in 0..used {
        let c = fib_like(kind, k + off).min(1 << 24) as u32;
        let pos = ((if rev == 1 { used - 1 - k } else { k }) + rot) % 18;
        v[pos as usize] = c;
    }
    v
}
const SKEW18_COUNT: u64 = 4 * 9 * 17 * 18 * 2;

fn cap_total(v: &mut Vec<u32>, cap: u64) {
    // scale down until the total is within the cap (keeps zero / non-zero pattern)
    loop {
        let t: u64 = v.iter().map(|x| *x as u64).sum();
        if t <= cap { break; }
        for x in v.iter_mut() { if *x > 1 { *x = (*x + 1) / 2; } }
    }
}

fn big(rng: &mut Rng, maxlog: u64) -> u32 {
    let s = rng.below(maxlog);
    1 + rng.below(1u64 << s) as u32
}

fn random_histogram(rng: &mut Rng) -> Vec<u32> {
    let n = match rng.below(10) {
        0 => rng.range(2, 6),
        1 => rng.range(7, 12),
        2 => *rng.pick(&[13u64, 14, 18, 26, 56, 57, 58, 64]),
        3 | 4 => rng.range(13, 140),
        5 | 6 => *rng.pick(&[256u64, 258, 272, 520, 544, 704]),
        _ => rng.range(141, 704),
    } as usize;
    let shape = rng.below(8);
    let mut v = vec![0u32; n];
    match shape {
        0 => { // geometric
            let ratio = 1.0 + (rng.below(200) as f64) / 100.0;
            let mut x = (1u64 << rng.below(25)) as f64;
            for i in 0..n { v[i] = (x as u64).min(1 << 24) as u32; x /= ratio; if x < 1.0 { x = if rng.chance(1, 2) { 1.0 } else { 0.0 }; } }
        }
        1 => { // Fibonacci-like, shuffled or not
            let kind = rng.below(4);
            let off = rng.below(6);
            let len = rng.range(2, 34.min(n as u64));
            for i in 0..len as usize { v[i] = fib_like(kind, i as u64 + off).min(1 << 24) as u32; }
            if rng.chance(1, 2) { for i in (1..n).rev() { let j = rng.below(i as u64 + 1) as usize; v.swap(i, j); } }
        }
        2 => { let c = big(rng, 25); for x in v.iter_mut() { *x = c; } } // flat
        3 => { // sparse
            let k = rng.range(2, 12.min(n as u64));
            for _ in 0..k { let i = rng.below(n as u64) as usize; v[i] = big(rng, 25); }
        }
        4 => { // runs of equal counts and zeros (drives the RLE codes and their chaining)
            let mut i = 0;
            while i < n {
                let r = *rng.pick(&[1u64, 2, 3, 4, 5, 6, 7, 8, 10, 11, 12, 13, 30, 43, 44, 75, 139, 140, 171, 300]) as usize;
                let c = if rng.chance(2, 5) { 0 } else { big(rng, 16) };
                for j in i..(i + r).min(n) { v[j] = c; }
                i += r;
            }
        }
        5 => { for x in v.iter_mut() { *x = rng.below(4) as u32; } } // tiny counts
        6 => { for x in v.iter_mut() { *x = if rng.chance(1, 3) { 0 } else { (1u64 << rng.below(25)).min(1 << 24) as u32 }; } } // powers of two
        _ => { for x in v.iter_mut() { *x = if rng.chance(1, 4) { 0 } else { big(rng, 25) }; } }
    }
    for x in v.iter_mut() { if *x > 1 << 24 { *x = 1 << 24; } }
    cap_total(&mut v, 1 << 30);
    if v.iter().filter(|x| **x != 0).count() < 2 && rng.chance(9, 10) {
        let i = rng.below(n as u64) as usize; v[i] = v[i].max(1);
        let j = (i + 1 + rng.below(n as u64 - 1) as usize) % n; v[j] = v[j].max(2);
    }
    v
}

fn random_depths(rng: &mut Rng, valid: bool) -> Vec<u8> {
    let n = *rng.pick(&[1u64, 2, 5, 18, 30, 51, 60, 256, 704]) as usize;
    let mut d = vec![];
    while d.len() < n {
        let r = *rng.pick(&[1u64, 1, 1, 2, 3, 4, 5, 6, 7, 8, 9, 10, 11, 12, 20, 50, 100, 300]) as usize;
        let x = if rng.chance(2, 5) { 0 } else if valid { rng.range(1, 15) as u8 } else { rng.below(256) as u8 };
        for _ in 0..r { d.push(x); }
    }
    d.truncate(n);
    d
}

fn lines_for(h: &[u32], rng: &mut Rng, out: &mut Vec<(String, String)>) {
    let n = h.len();
    let hs = show(h);
    fn push(out: &mut Vec<(String, String)>, l: String) { let a = answer(&l); out.push((l, a)); }
    let nz = h.iter().filter(|x| **x != 0).count();
    if nz >= 1 {
        let l = format!("huff tree 15 {}", hs);
        let a = answer(&l);
        if nz >= 2 && a != "panic" {
            out.push((format!("huff symbols {}", a), answer(&format!("huff symbols {}", a))));
            out.push((format!("huff rle {}", a), answer(&format!("huff rle {}", a))));
            out.push((format!("huff store {}", a), answer(&format!("huff store {}", a))));
        }
        out.push((l, a));
        if n <= 18 { let l = format!("huff tree 5 {}", hs); let a = answer(&l); out.push((l, a)); }
        if rng.chance(1, 4) { let l = format!("huff tree {} {}", rng.range(10, 14), hs); let a = answer(&l); out.push((l, a)); }
    }
    let mut mb = 0usize;
    while n > 1 && ((n - 1) >> mb) != 0 { mb += 1; }
    push(out, format!("huff fast {} {}", mb, hs));
    if HAVE_BUILD { push(out, format!("huff build {} {}", if rng.chance(3, 4) { n } else { 704 }, hs)); }
    push(out, format!("huff optrle {}", hs));
}

// ---------------------------------------------------------------- the run

struct Part { lines: Vec<(String, String)>, rep: Report }

pub fn run_cmd(args: &Args) {
    let thorough = args.tier == "thorough";
    let seed = args.seed;
    // panics of the code under test are observations (caught by `quiet`), not noise on stderr
    std::panic::set_hook(Box::new(|_| {}));
    let mut corr = Corr::new(&args.out);
    let mut rep = Report::default();
    rep.add(if HAVE_BUILD { "hook.build_and_store_huffman_tree.present" } else { "hook.build_and_store_huffman_tree.absent" }, 1);

    // 0. corpus
    if let Ok(rd) = std::fs::read_dir("/verif/corpus/huff") {
        let mut files: Vec<_> = rd.filter_map(|e| e.ok()).map(|e| e.path()).collect();
        files.sort();
        for f in files {
            if let Ok(txt) = std::fs::read_to_string(&f) {
                for line in txt.lines().map(|l| l.trim()).filter(|l| l.starts_with("huff ")) {
                    corr.case(line, &answer(line));
                    let t: Vec<&str> = line.split(' ').collect();
                    if t.len() == 4 && (t[1] == "tree" || t[1] == "build" || t[1] == "fast") {
                        let h: Vec<u32> = parse_list(t[3]).iter().map(|x| *x as u32).collect();
                        judge(&mut rep, &h, false);
                    }
                    rep.count("corpus.lines");
                }
            }
        }
    }

    // 1. the known wrap witness: 512 symbols, 2^24 - 1 once and 2^24 for the other 511
    {
        let mut w = vec![16777216u32; 512];
        w[0] = 16777215;
        let l = format!("huff tree 15 {}", show(&w));
        corr.case(&l, &answer(&l));
        let l = format!("huff fast 9 {}", show(&w));
        corr.case(&l, &answer(&l));
        judge(&mut rep, &w, true);
        rep.count("witness.count_sum_wraps_u32");
    }

    // 2. exhaustive small alphabets: digest lines + oracle on every vector of the blocks
    let mut blocks: Vec<(usize, u64, u64)> = vec![];
    for nsym in 1..=6usize {
        let total = 13u64.pow(nsym as u32);
        let bs = 2000u64;
        let stride = if thorough || nsym <= 5 { bs } else { 5 * bs };
        let mut lo = 0;
        while lo < total { blocks.push((nsym, lo, (lo + bs).min(total))); lo += stride; }
    }
    let nb = blocks.len();
    let blocks2 = blocks.clone();
    let parts = par_tasks(nb, move |i| {
        let (nsym, lo, hi) = blocks2[i];
        let mut rep = Report::default();
        let l = format!("huff exh {} {} {} {}", nsym, lo, hi, if HAVE_BUILD { 1 } else { 0 });
        let a = answer(&l);
        for idx in lo..hi { judge(&mut rep, &exh_vector(nsym, idx), false); }
        rep.add("exhaustive.vectors", hi - lo);
        Part { lines: vec![(l, a)], rep }
    });
    for p in parts { for (l, a) in p.lines { corr.case(&l, &a); } rep.merge(p.rep); }

    // 3. 18-symbol skews, limit 5 (oracle on all; a correspondence line for every k-th)
    let step = if thorough { 1 } else { 9 };
    let parts = par_tasks(16, move |t| {
        let mut rep = Report::default();
        let mut lines = vec![];
        let mut id = t as u64;
        while id < SKEW18_COUNT {
            let v = skew18(id);
            judge(&mut rep, &v, false);
            rep.count("skew18.cases");
            if id % step == 0 {
                let l = format!("huff tree 5 {}", show(&v));
                let a = answer(&l);
                lines.push((l, a));
                if id % (step * 4) == 0 {
                    let l = format!("huff tree 15 {}", show(&v)); let a = answer(&l);
                    if a != "panic" { let l2 = format!("huff store {}", a); let a2 = answer(&l2); lines.push((l2, a2)); }
                    lines.push((l, a));
                }
            }
            id += 16;
        }
        Part { lines, rep }
    });
    for p in parts { for (l, a) in p.lines { corr.case(&l, &a); } rep.merge(p.rep); }

    // 4. random alphabets 2..704
    let ncases = if thorough { 60000 } else { 6000 };
    let parts = par_tasks(64, move |t| {
        let mut rng = Rng::new(seed ^ 0x68756666 ^ ((t as u64) << 20));
        let mut rep = Report::default();
        let mut lines = vec![];
        for _ in 0..ncases / 64 + 1 {
            let h = random_histogram(&mut rng);
            judge(&mut rep, &h, false);
            lines_for(&h, &mut rng, &mut lines);
            rep.count("random.cases");
        }
        Part { lines, rep }
    });
    for p in parts { for (l, a) in p.lines { corr.case(&l, &a); } rep.merge(p.rep); }

    // 5. depth vectors that did not come from the builder, and malformed ones (correspondence only)
    let nmal = if thorough { 4000 } else { 400 };
    let parts = par_tasks(16, move |t| {
        let mut rng = Rng::new(seed ^ 0x6d616c ^ ((t as u64) << 20));
        let mut lines = vec![];
        let mut rep = Report::default();
        for _ in 0..nmal / 16 + 1 {
            let valid = rng.chance(3, 4);
            let d = random_depths(&mut rng, valid);
            for op in ["rle", "symbols", "store"] {
                let l = format!("huff {} {}", op, show(&d));
                let a = answer(&l);
                if a == "panic" { rep.count("malformed.panic_lines"); }
                lines.push((l, a));
            }
            // RLE of arbitrary valid depth vectors expands back (no Kraft assumption needed)
            if valid {
                if let Some((s, e)) = real_rle(&d) {
                    rep.evaluations += 1;
                    match rfc_expand(&s, &e) {
                        Ok(x) if x == trimmed(&d) => { rep.count("rle.free_vectors_expand_back"); }
                        _ => rep.violation("huff:rle-expand", "RLE entries of a free depth vector expand to a different vector", format!("{{\"kind\": \"rle\", \"depths\": {}}}", jstr(&show(&d)))),
                    }
                }
            }
        }
        for l in ["huff tree 15 0,0,0", "huff tree 15 -", "huff tree 15 7", "huff symbols 16", "huff symbols -", "huff rle -", "huff store -", "huff store 0,0,0", "huff fast 3 -", "huff fast 0 1", "huff optrle -", "huff tree 15 4294967295,1,1", "huff tree 15 2147483647,2147483648,2147483648"] {
            if t == 0 { let a = answer(l); lines.push((l.to_string(), a)); }
        }
        Part { lines, rep }
    });
    for p in parts { for (l, a) in p.lines { corr.case(&l, &a); } rep.merge(p.rep); }

    rep.sample(format!("blocks {} skew18 {} random {} malformed {}", nb, SKEW18_COUNT, ncases, nmal));
    corr.finish();
    rep.write(&args.out);
}
