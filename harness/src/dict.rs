//! engine `dict` (C10): custom (prefix) dictionary compression round-trips with the same dictionary.
//!
//! Search stage (property oracle on the real code alone): for every case of the grid
//!   lgwin {10..14,16,18 dense; 20,22,24 sparse} x quality 0..11 x magic_number x
//!   dictionary length d in {0,1,2,3, mid, w-17, w-16, w-15, w+5, 2w+3} (w = 2^lgwin) x input kind x API
//! the stream produced with the dictionary must decode, with brotli-decompressor given the SAME dictionary, to
//! exactly the input (`crate::dec::decode_dict`).  Input kinds: `tail` (starts with the dictionary's tail, so the
//! first copy crosses the dictionary end; then text, dictionary substrings, noise), `period` (continues a short
//! period of the dictionary tail: overlapping copy across the dictionary end), `text` (static-dictionary words),
//! `tiny` (0..3 bytes), `long` (longer than the encoder ring buffer), `shrunk` (one last meta-block with d' + len within 16 of a
//! power of two and a late copy of the oldest dictionary bytes: the decoder's shrunk ring buffer), `ringend` (dictionary of odd / even
//! length {1,2,3,999,1000,1001,ring-1,ring,ring+1} + input of 1.2..2.5 encoder-ring sizes at lgwin 10..16, so that block writes straddle the
//! ring end; zero runs, period-p repeats and a "stale tail trap" — a phrase ending exactly at the ring end whose earlier copy continues with
//! what the ring held at its start one lap before — placed across the k*ring stream positions; one call and chunks of 7 / 4093 / 65537).
//! `dict ringw <lgwin> <q> <d> <seed> <n1,n2,…>`: `set_custom_dictionary` + `copy_input_to_ring_buffer` calls across the ring end, the whole
//! allocation (tail mirror, prefix, slack) digested against `BV.Dict.copyInputToRingBuffer`.  APIs: streaming
//! (`set_custom_dictionary` + `compress_stream`, random chunking) and one-shot `BrotliCompressCustomIoCustomDict`.
//!
//! Correspondence stage: `dict book <lgwin> <quality> <size> <seed>` — the book-keeping fields of the encoder right
//! after `set_custom_dictionary(size, gen_dict(seed, size))` (positions, prev bytes, catable/appendable/
//! use_dictionary, sanitised lgwin/lgblock, ring-buffer geometry, the last <= 64 ring bytes below pos, digest of the
//! ring content at positions [0,pos), digest of the whole ring allocation, recoder position) against
//! `BV.Dict.setCustomDictionary`; includes unsanitised lgwin / quality values.
//!   `dict decrun <wbits> <d> <seed> <mlen> <B<hex>|C<dist>,<len> …>` — the decoder's copy path (ring shrink + speculative
//!   16-byte copy): for streams that are ONE meta-block marked ISLAST, the commands are the encoder's IR and the answer is what the
//!   REAL brotli-decompressor returned (right or wrong); `BV.Dict.decOutput` must return the same bytes.
//!   `dict dec <wbits> <size> <seed> <ringbits> <P...>` is answered by the model only.
//!
//! non-trivial case = d >= 1, the encoder returned a stream and the decoder oracle was evaluated on it.
//! Corpus: /verif/corpus/dict/*.txt, one case per file: `lgwin q d seed magic kind api inputseed` (decimal).
use crate::util::*;
use crate::prng::Rng;
use crate::dec::{decode_dict, DResult};
use alloc_stdlib::StandardAlloc;
use brotli::enc::encode::{BrotliEncoderOperation, BrotliEncoderStateStruct};
use brotli::enc::BrotliEncoderParams;
use brotli::enc::interface;
use brotli::enc::StandardAlloc as EncAlloc;
use brotli::InputReferenceMut;
use brotli::interface::InputPair;
use std::panic::{catch_unwind, AssertUnwindSafe};

/// book-keeping fields of the encoder right after `set_custom_dictionary`
#[derive(Clone, Debug, Default, PartialEq)]
pub struct Book {
    pub input_pos: u64,
    pub last_flush_pos: u64,
    pub last_processed_pos: u64,
    pub prev_byte: u8,
    pub prev_byte2: u8,
    pub catable: bool,
    pub appendable: bool,
    pub use_dictionary: bool,
    pub lgwin: i32,
    pub lgblock: i32,
    pub quality: i32,
    pub rb_pos: u32,
    pub rb_mask: u32,
    pub rb_cur_size: u32,
    pub data_len: usize,
    /// the last min(64, pos) bytes of the ring buffer below `pos` (content at positions [pos-k, pos))
    pub ring_tail: Vec<u8>,
    /// fnv of ring content at positions [0, pos)
    pub ring_fnv: u64,
    /// fnv of the whole allocation `data_mo`
    pub data_fnv: u64,
    pub recoder_pos: usize,
}
impl Book {
    pub fn line(&self) -> String {
        format!("ok ip={} lf={} lp={} pb={} pb2={} cat={} app={} ud={} lgwin={} lgblock={} q={} pos={} mask={} cur={} dlen={} tail={} rfnv={:016x} dfnv={:016x} rec={}",
            self.input_pos, self.last_flush_pos, self.last_processed_pos, self.prev_byte, self.prev_byte2,
            self.catable as u8, self.appendable as u8, self.use_dictionary as u8, self.lgwin, self.lgblock, self.quality,
            self.rb_pos, self.rb_mask, self.rb_cur_size, self.data_len, hex(&self.ring_tail), self.ring_fnv, self.data_fnv, self.recoder_pos)
    }
}

pub fn base_params(q: i32, lgwin: i32) -> BrotliEncoderParams {
    let mut p = BrotliEncoderParams::default();
    p.quality = q;
    p.lgwin = lgwin;
    p
}

/// the generated dictionary: byte i = (i*7 + (i>>3)*13 + seed) % 251   (mirrored by `BV.Dict.dictGen`)
pub fn gen_dict(seed: u64, n: usize) -> Vec<u8> {
    (0..n as u64).map(|i| ((i * 7 + (i >> 3) * 13 + seed) % 251) as u8).collect()
}

pub const TEXT: &[u8] = b"The quick brown fox jumps over the lazy dog. Compression of information and international development is \
something that should be considered through different government programs; however, the following children, \
education and understanding are important because available community services provide everything necessary. \
Although performance, experience and knowledge increase, production companies sometimes require additional management. ";

/// Streaming encode through the encoder state API (`set_custom_dictionary` then `compress_stream`
/// with input cut into pieces drawn from `chunks` (cyclic) and an `out_chunk`-byte output window).
/// `call_empty`: call `set_custom_dictionary(0, [])` also for an empty dictionary.
/// Returns (stream, book-keeping after set_custom_dictionary).
pub fn encode_stream_x<Cb>(input: &[u8], dict: &[u8], call_empty: bool, params: &BrotliEncoderParams, chunks: &[usize], out_chunk: usize, cb: &mut Cb) -> Result<(Vec<u8>, Book), String>
where Cb: FnMut(&mut interface::PredictionModeContextMap<InputReferenceMut>, &mut [interface::StaticCommand], InputPair, &mut EncAlloc) {
    let r = catch_unwind(AssertUnwindSafe(|| {
        let mut s = BrotliEncoderStateStruct::new(EncAlloc::default());
        s.params = params.clone();
        if !dict.is_empty() || call_empty {
            s.set_custom_dictionary(dict.len(), dict);
        }
        let book = book_of(&s);
        let mut out: Vec<u8> = Vec::new();
        let mut obuf = vec![0u8; out_chunk.max(1)];
        let mut pos = 0usize;
        let mut steps = 0usize;
        let min_chunk = chunks.iter().cloned().min().unwrap_or(1).max(1);
        let limit = 1024 + 16 * (input.len() / min_chunk + (2 * input.len() + 1024) / out_chunk.max(1));
        let mut ci = 0usize;
        let mut n = chunks[0].max(1).min(input.len());
        loop {
            steps += 1;
            if steps > limit { brotli::enc::encode::BrotliEncoderDestroyInstance(&mut s); return Err("livelock".to_string()); }
            let op = if n == 0 { BrotliEncoderOperation::BROTLI_OPERATION_FINISH } else { BrotliEncoderOperation::BROTLI_OPERATION_PROCESS };
            let mut avail_in = n;
            let mut in_off = 0usize;
            let mut avail_out = obuf.len();
            let mut out_off = 0usize;
            let mut total = None;
            let ok = s.compress_stream(op, &mut avail_in, &input[pos..pos + n], &mut in_off, &mut avail_out, &mut obuf, &mut out_off, &mut total, cb);
            pos += in_off;
            n -= in_off;
            out.extend_from_slice(&obuf[..out_off]);
            if !ok { brotli::enc::encode::BrotliEncoderDestroyInstance(&mut s); return Err("compress_stream returned false".to_string()); }
            if s.is_finished() { break; }
            if n == 0 && pos < input.len() { ci += 1; n = chunks[ci % chunks.len()].max(1).min(input.len() - pos); }
        }
        brotli::enc::encode::BrotliEncoderDestroyInstance(&mut s);
        Ok((out, book))
    }));
    match r { Ok(x) => x, Err(e) => Err(format!("panic: {}", panic_msg(&e))) }
}
pub fn encode_stream<Cb>(input: &[u8], dict: &[u8], params: &BrotliEncoderParams, chunk: usize, out_chunk: usize, cb: &mut Cb) -> Result<(Vec<u8>, Book), String>
where Cb: FnMut(&mut interface::PredictionModeContextMap<InputReferenceMut>, &mut [interface::StaticCommand], InputPair, &mut EncAlloc) {
    encode_stream_x(input, dict, false, params, &[chunk], out_chunk, cb)
}

/// one-shot API of the property text
pub fn encode_oneshot<Cb>(input: &[u8], dict: &[u8], params: &BrotliEncoderParams, ibuf: usize, obuf: usize, cb: &mut Cb) -> Result<Vec<u8>, String>
where Cb: FnMut(&mut interface::PredictionModeContextMap<InputReferenceMut>, &mut [interface::StaticCommand], InputPair, &mut EncAlloc) {
    let r = catch_unwind(AssertUnwindSafe(|| {
        let mut r = std::io::Cursor::new(input);
        let mut w: Vec<u8> = Vec::new();
        let mut ib = vec![0u8; ibuf.max(1)];
        let mut ob = vec![0u8; obuf.max(1)];
        let res = brotli::BrotliCompressCustomIoCustomDict(
            &mut brotli::IoReaderWrapper(&mut r), &mut brotli::IoWriterWrapper(&mut w), &mut ib, &mut ob, params,
            EncAlloc::default(), cb, dict, std::io::Error::new(std::io::ErrorKind::UnexpectedEof, "eof"));
        match res { Ok(_) => Ok(w), Err(e) => Err(format!("error: {}", e)) }
    }));
    match r { Ok(x) => x, Err(e) => Err(format!("panic: {}", panic_msg(&e))) }
}

pub fn panic_msg(e: &Box<dyn std::any::Any + Send>) -> String {
    if let Some(s) = e.downcast_ref::<&str>() { s.to_string() } else if let Some(s) = e.downcast_ref::<String>() { s.clone() } else { "?".to_string() }
}

pub fn book_of(s: &BrotliEncoderStateStruct<EncAlloc>) -> Book {
    use alloc_no_stdlib::SliceWrapper;
    let rb = &s.ringbuffer_;
    let pos = rb.pos_ as usize;
    let data = rb.data_mo.slice();
    let mut tail = vec![];
    let mut h = FNV_INIT;
    let mut hd = FNV_INIT;
    if !data.is_empty() {
        let k = pos.min(64);
        for p in (pos - k)..pos { tail.push(data[rb.buffer_index + (p & rb.mask_ as usize)]); }
        for p in 0..pos { h = fnv_step(h, data[rb.buffer_index + (p & rb.mask_ as usize)] as u64); }
        for b in data.iter() { hd = fnv_step(hd, *b as u64); }
    }
    Book {
        input_pos: s.input_pos_, last_flush_pos: s.last_flush_pos_, last_processed_pos: s.last_processed_pos_,
        prev_byte: s.prev_byte_, prev_byte2: s.prev_byte2_, catable: s.params.catable, appendable: s.params.appendable,
        use_dictionary: s.params.use_dictionary, lgwin: s.params.lgwin, lgblock: s.params.lgblock, quality: s.params.quality,
        rb_pos: rb.pos_, rb_mask: rb.mask_, rb_cur_size: rb.cur_size_, data_len: data.len(),
        ring_tail: tail, ring_fnv: h, data_fnv: hd, recoder_pos: s.recoder_state.num_bytes_encoded,
    }
}

/// book-keeping only (no compression): what `set_custom_dictionary(size, dict)` leaves behind
pub fn book_only(dict: &[u8], params: &BrotliEncoderParams) -> Result<Book, String> {
    let r = catch_unwind(AssertUnwindSafe(|| {
        let mut s = BrotliEncoderStateStruct::new(EncAlloc::default());
        s.params = params.clone();
        s.set_custom_dictionary(dict.len(), dict);
        let b = book_of(&s);
        brotli::enc::encode::BrotliEncoderDestroyInstance(&mut s);
        b
    }));
    r.map_err(|e| format!("panic: {}", panic_msg(&e)))
}

/// byte `j` of the generated input of a `dict ringw` line (mirrored by `BV.Dict.inGen`)
pub fn gen_in(seed: u64, j: u64) -> u8 { ((j * 11 + (j >> 5) * 3 + seed) % 253) as u8 }

/// `set_custom_dictionary` followed by a sequence of `copy_input_to_ring_buffer` calls (no compression): ring geometry, positions and
/// the digests of the ring content and of the whole allocation (tail mirror, 2-byte prefix, slack included)
pub fn ring_writes(dict: &[u8], params: &BrotliEncoderParams, seed: u64, writes: &[usize]) -> Result<Book, String> {
    let r = catch_unwind(AssertUnwindSafe(|| {
        let mut s = BrotliEncoderStateStruct::new(EncAlloc::default());
        s.params = params.clone();
        s.set_custom_dictionary(dict.len(), dict);
        let mut off = 0u64;
        for &n in writes {
            let buf: Vec<u8> = (0..n as u64).map(|i| gen_in(seed, off + i)).collect();
            s.copy_input_to_ring_buffer(n, &buf);
            off += n as u64;
        }
        let b = book_of(&s);
        brotli::enc::encode::BrotliEncoderDestroyInstance(&mut s);
        b
    }));
    r.map_err(|e| format!("panic: {}", panic_msg(&e)))
}

// ------------------------------------------------------------------------------------------------

#[derive(Clone, Debug)]
pub struct Case { pub lgwin: i32, pub q: i32, pub d: usize, pub seed: u64, pub magic: bool, pub kind: u32, pub api: u32, pub iseed: u64 }
impl Case {
    fn json(&self) -> String {
        format!("{{\"lgwin\": {}, \"quality\": {}, \"d\": {}, \"dict_seed\": {}, \"magic\": {}, \"kind\": {}, \"api\": {}, \"input_seed\": {}}}",
            self.lgwin, self.q, self.d, self.seed, self.magic, self.kind, self.api, self.iseed)
    }
    fn corpus_line(&self) -> String { format!("{} {} {} {} {} {} {} {}", self.lgwin, self.q, self.d, self.seed, self.magic as u8, self.kind, self.api, self.iseed) }
    fn parse(l: &str) -> Option<Case> {
        let f: Vec<u64> = l.split_whitespace().filter_map(|x| x.parse().ok()).collect();
        if f.len() != 8 { return None; }
        Some(Case { lgwin: f[0] as i32, q: f[1] as i32, d: f[2] as usize, seed: f[3], magic: f[4] != 0, kind: f[5] as u32, api: f[6] as u32, iseed: f[7] })
    }
}
pub const KINDS: [&str; 8] = ["tail", "period", "text", "tiny", "long", "shrunk", "ringend", "noisering"];

pub fn d_class(d: usize, lgwin: i32) -> String {
    let w = 1usize << lgwin.clamp(10, 24);
    if d <= 3 { format!("d{}", d) } else if d + 17 == w { "w-17".into() } else if d + 16 == w { "w-16".into() } else if d + 15 == w { "w-15".into() } else if d > w { ">w".into() } else if d + 16 > w { "w-15..w".into() } else { "mid".into() }
}

/// size of the encoder's ring buffer: `1 << (1 + max(lgwin, lgblock))` with `ComputeLgBlock` for `params.lgblock = 0`
pub fn enc_ring_size(lgwin: i32, q: i32) -> usize {
    let lw = lgwin.clamp(10, 24);
    let lgblock = if q < 2 { lw } else if q < 4 { 14 } else if q >= 9 && lw > 16 { lw.min(18) } else { 16 };
    1usize << (1 + lw.max(lgblock))
}

/// input of a case (a function of the case alone)
pub fn make_input(c: &Case, dict: &[u8]) -> Vec<u8> {
    let mut rng = Rng::new(c.iseed ^ 0x5eed_d1c7);
    let d = dict.len();
    let mut v: Vec<u8> = Vec::new();
    let sub = |rng: &mut Rng, v: &mut Vec<u8>| { if d > 0 { let l = (rng.range(4, 60) as usize).min(d); let o = rng.below((d - l + 1) as u64) as usize; v.extend_from_slice(&dict[o..o + l]); } };
    match c.kind {
        0 => { // tail: the dictionary's last bytes, then a mixture
            let t = d.min(rng.range(1, 48) as usize);
            v.extend_from_slice(&dict[d - t..]);
            let parts = rng.range(3, 24);
            for _ in 0..parts {
                match rng.below(4) {
                    0 => { let o = rng.below(TEXT.len() as u64 - 40) as usize; let l = rng.range(8, 40) as usize; v.extend_from_slice(&TEXT[o..o + l]); }
                    1 | 2 => sub(&mut rng, &mut v),
                    _ => { for _ in 0..rng.range(1, 12) { v.push(rng.next() as u8); } }
                }
            }
        }
        1 => { // period: continue a short period of the dictionary tail (overlapping copy across the dictionary end)
            let p = d.min(rng.range(1, 9) as usize).max(1);
            let n = rng.range(20, 400) as usize;
            for i in 0..n { v.push(if d > 0 { dict[d - p + (i % p)] } else { b'a' + (i % p) as u8 }); }
            v.extend_from_slice(&TEXT[..rng.range(0, 80) as usize]);
            sub(&mut rng, &mut v);
        }
        2 => { let o = rng.below(60) as usize; let l = rng.range(30, (TEXT.len() - o) as u64) as usize; v.extend_from_slice(&TEXT[o..o + l]); if rng.chance(1, 2) { sub(&mut rng, &mut v); v.extend_from_slice(&TEXT[..50]); } }
        3 => { let n = rng.below(4) as usize; for i in 0..n { v.push(if d > i { dict[d - 1 - i] } else { rng.next() as u8 }); } }
        5 => { // shrunk: d' + len within 16 of a power of two (the decoder shrinks its ring for a single last meta-block) and,
               // in the last bytes, a copy of the OLDEST bytes of the usable dictionary tail continued by the input's start
            let w = (1usize << c.lgwin.clamp(10, 24)) - 16;
            let de = d.min(w);
            let mut k = 6; while (1usize << k) < de + 40 { k += 1; }
            let r = 1usize << k;
            let len = r - de - rng.below(16) as usize;
            let m = rng.range(4, 9) as usize;
            let body = len - m - rng.below(4).min((len - m) as u64 / 2) as usize;
            while v.len() < body {
                match rng.below(3) { 0 => { let o = rng.below(TEXT.len() as u64 - 24) as usize; let l = rng.range(3, 20) as usize; v.extend_from_slice(&TEXT[o..o + l]); } 1 => sub(&mut rng, &mut v), _ => { for _ in 0..rng.range(1, 6) { v.push(rng.next() as u8); } } }
            }
            v.truncate(body);
            let head: Vec<u8> = dict[d - de..].iter().cloned().chain(v.iter().cloned()).take(m).collect();
            v.extend_from_slice(&head);
            while v.len() < len { v.push(rng.next() as u8); }
        }
        6 => { // ringend: dictionary + input longer than the encoder ring; repeats / runs / a "stale tail trap" placed across the
               // k*ring boundaries of the STREAM position (= effective dictionary length + input offset)
            let ring = enc_ring_size(c.lgwin, c.q);
            let w = (1usize << c.lgwin.clamp(10, 24)) - 16;
            let de = if c.q >= 2 { d.min(w) } else { 0 };
            let len = ring * (12 + rng.below(14) as usize) / 10;
            while v.len() < len {
                match rng.below(6) {
                    0 | 1 => { let o = rng.below(TEXT.len() as u64 - 64) as usize; let l = rng.range(16, 64) as usize; v.extend_from_slice(&TEXT[o..o + l]); }
                    2 => { for _ in 0..8 { sub(&mut rng, &mut v); } }
                    3 => { let l = v.len(); if l > 300 { let o = rng.below((l - 128) as u64) as usize; let n = rng.range(8, 128) as usize; let sl: Vec<u8> = v[o..o + n].to_vec(); v.extend_from_slice(&sl); } else { v.extend_from_slice(&TEXT[..64]); } }
                    _ => { for _ in 0..rng.range(8, 96) { v.push(rng.next() as u8); } }
                }
            }
            v.truncate(len);
            for k in 1..=2usize {
                let b = k * ring;                         // stream position of the ring end
                if b < de + 600 || b - de + 600 > len { continue; }
                let o = b - de;                           // input offset of that stream position
                match rng.below(4) {
                    0 | 1 => {
                        // stale-tail trap: what the ring held at its START one lap earlier (the tail mirror must have been refreshed)
                        let m = rng.range(1, 8) as usize;
                        let lap = (k - 1) * ring;
                        let s_old: Vec<u8> = (0..m).map(|i| { let p = lap + i; if p < de { dict[d - de + p] } else { v[p - de] } }).collect();
                        let pl = rng.range(8, 40) as usize;
                        let pat: Vec<u8> = (0..pl).map(|_| rng.next() as u8).collect();
                        let c0 = o - rng.range(80, 400) as usize - pl;
                        v[c0..c0 + pl].copy_from_slice(&pat);
                        v[c0 + pl..c0 + pl + m].copy_from_slice(&s_old);
                        v[o - pl..o].copy_from_slice(&pat);   // ends exactly at the ring end
                        for i in 0..m { v[o + i] = s_old[i] ^ 0x55; }
                    }
                    2 => { let r1 = rng.range(0, 64) as usize + rng.range(4, 200) as usize; let r2 = rng.range(0, 64) as usize; let z = if rng.chance(1, 2) { 0u8 } else { rng.next() as u8 }; for x in v[o - r1..o + r2].iter_mut() { *x = z; } }
                    _ => { let per = *rng.pick(&[2usize, 3, 5, 8, 13]); let r1 = rng.range(per as u64, 300) as usize; let r2 = rng.range(0, 64 + per as u64) as usize; let base: Vec<u8> = (0..per).map(|_| rng.next() as u8).collect(); for (i, x) in v[o - r1..o + r2].iter_mut().enumerate() { *x = base[i % per]; } }
                }
            }
        }
        7 => { // noisering: incompressible bytes, 1.2-2.5 x the encoder ring (stored meta-blocks that straddle the ring end
               // once a dictionary of a length that is not a block multiple shifts the stream positions)
            let ring = enc_ring_size(c.lgwin, c.q);
            let len = ring * (12 + rng.below(14) as usize) / 10;
            for _ in 0..len { v.push(rng.next() as u8); }
        }
        _ => { // long: > ring buffer (q<=3: 2^(1+max(lgwin,14)), else 2^(1+max(lgwin,16..18)))
            let lw = c.lgwin.clamp(10, 24);
            let target = if c.q < 4 { (1usize << (1 + lw.max(14))) + 5000 } else { (1usize << (1 + lw.max(16))) + 70000 };
            while v.len() < target {
                match rng.below(5) {
                    0 => v.extend_from_slice(TEXT),
                    1 | 2 => { for _ in 0..8 { sub(&mut rng, &mut v); } if d == 0 { v.extend_from_slice(&TEXT[..100]); } }
                    3 => { let l = v.len(); if l > 100 { let o = rng.below((l - 64) as u64) as usize; let s: Vec<u8> = v[o..o + 64].to_vec(); v.extend_from_slice(&s); } else { v.extend_from_slice(TEXT); } }
                    _ => { for _ in 0..rng.range(1, 300) { v.push(rng.next() as u8); } }
                }
            }
        }
    }
    v
}

/// correspondence for the decoder's copy path (ring shrink + speculative 16-byte copy): a stream whose whole input is
/// ONE meta-block marked ISLAST; the commands the decoder executes are taken from the encoder's IR (log_meta_block);
/// request `dict decrun <wbits> <d> <seed> <mlen> <B<hex>|C<dist>,<len> …>`; answer = what the REAL decoder returned
/// (right or wrong) — the model `BV.Dict.decOutput` must return the same bytes.
fn decrun_line(c: &Case, dict: &[u8], input: &[u8], lines: &mut Vec<(String, String)>, rep: &mut Report) {
    use crate::recoder::{record, expand_word, Ir, Mb};
    if !(c.q >= 2 && c.d >= 1 && !c.magic && input.len() >= 4 && input.len() <= 6000 && (10..=24).contains(&c.lgwin)) { return; }
    let mut p = base_params(c.q, c.lgwin);
    p.log_meta_block = true;
    let mut mbs: Vec<Mb> = Vec::new();
    let out = match encode_stream_x(input, dict, false, &p, &[1 << 20], 1 << 16, &mut |_pm, cmds: &mut [interface::StaticCommand], mb: InputPair, _a| { mbs.push(record(cmds, &mb)); }) { Ok((o, _)) => o, Err(_) => return };
    if mbs.len() != 1 || mbs[0].bytes.len() != input.len() { return; }
    // ISLAST bit of the first meta-block header (behind the window bits: 1, 4 or 7 bits)
    let wb = if c.lgwin == 16 { 1 } else if c.lgwin > 17 { 4 } else { 7 };
    if out.is_empty() || (out[wb / 8] >> (wb % 8)) & 1 != 1 { rep.count("corr.decrun_skipped_not_islast"); return; }
    let w = (1usize << c.lgwin) - 16;
    if c.d.min(w) + input.len() > (1usize << c.lgwin) { return; }
    let mut toks: Vec<String> = Vec::new();
    for t in mbs[0].ir.iter() {
        match t {
            Ir::Lit { bytes: Some(b), .. } => toks.push(format!("B{}", hex(b))),
            Ir::Lit { bytes: None, .. } => return,
            Ir::Copy { dist, n } => toks.push(format!("C{},{}", dist, n)),
            Ir::Dict { ws, tr, id, .. } => match expand_word(*ws as usize, *id as usize, *tr as usize) { Some(wd) => toks.push(format!("B{}", hex(&wd))), None => return },
            _ => {}
        }
    }
    let ans = match decode_dict(&out, dict, input.len() + 1000) { DResult::Ok(v) => format!("ok {}", hex(&v)), _ => return };
    let op = format!("dict decrun {} {} {} {} {}", c.lgwin, c.d, c.seed, input.len(), toks.join(" "));
    if op.len() >= 65000 { return; }
    rep.count("corr.decrun_lines");
    if c.kind == 5 { rep.count("corr.decrun_lines_shrunk_kind"); }
    lines.push((op, ans));
}

fn run_case(c: &Case, rep: &mut Report, lines: &mut Vec<(String, String)>) {
    let dict = gen_dict(c.seed, c.d);
    let input = make_input(c, &dict);
    decrun_line(c, &dict, &input, lines, rep);
    let mut p = base_params(c.q, c.lgwin);
    p.magic_number = c.magic;
    let mut rng = Rng::new(c.iseed ^ 0xc4a2);
    let enc: Result<Vec<u8>, String> = match c.api {
        10 | 11 | 12 => { let ch = [7usize, 4093, 65537][(c.api - 10) as usize]; encode_stream_x(&input, &dict, false, &p, &[ch], 1 << 16, &mut |_, _, _, _| ()).map(|x| x.0) }
        0 => encode_stream_x(&input, &dict, false, &p, &[1 << 20], 1 << 16, &mut |_, _, _, _| ()).map(|x| x.0),
        1 => { let chunks: Vec<usize> = (0..5).map(|_| rng.range(1, 3000) as usize).collect(); let oc = rng.range(1, 5000) as usize; encode_stream_x(&input, &dict, true, &p, &chunks, oc, &mut |_, _, _, _| ()).map(|x| x.0) }
        _ => encode_oneshot(&input, &dict, &p, rng.range(1, 70000) as usize, rng.range(1, 70000) as usize, &mut |_, _, _, _| ()),
    };
    rep.evaluations += 1;
    let dcl = d_class(c.d, c.lgwin);
    let qcl = if c.q < 2 { "q01" } else { "q2+" };
    rep.count(&format!("d.{}", dcl));
    rep.count(&format!("kind.{}", KINDS[c.kind as usize]));
    rep.count(&format!("api.{}", c.api));
    if c.kind == 6 { let ring = enc_ring_size(c.lgwin, c.q); if input.len() + c.d.min((1usize << c.lgwin.clamp(10, 24)) - 16) > ring { rep.count("ringend.stream_longer_than_ring"); } if input.len() + c.d > 2 * ring { rep.count("ringend.two_laps"); } }
    rep.count(&format!("lgwin.{}", c.lgwin));
    rep.count(&format!("quality.{}", c.q));
    if c.magic { rep.count("magic"); }
    let unsanitised = c.lgwin < 10 || c.lgwin > 24;
    if unsanitised { rep.count("clamped_lgwin"); }
    let out = match enc {
        Ok(o) => o,
        Err(e) => {
            let kind = if e.starts_with("panic") { "encode-panic" } else if e == "livelock" { "encode-livelock" } else { "encode-fail" };
            let sig = if unsanitised { format!("dict:{}:clamped-lgwin", kind) } else { format!("dict:{}:{}:{}", kind, dcl, qcl) };
            rep.violation(&sig, &format!("encoder with a {}-byte dictionary: {}", c.d, e), c.json());
            return;
        }
    };
    let dr = decode_dict(&out, &dict, input.len() + (1 << 16));
    if c.d >= 1 { rep.nontrivial += 1; }
    let ok = matches!(&dr, DResult::Ok(v) if *v == input);
    if ok {
        rep.count("roundtrip.ok");
        if c.d >= 1 && c.q >= 2 && input.len() > 8 {
            // does the stream depend on the dictionary content? (decode with a zeroed dictionary of the same length)
            let z = vec![0u8; c.d];
            if !matches!(decode_dict(&out, &z, input.len() + (1 << 16)), DResult::Ok(v) if v == input) { rep.count("stream_depends_on_dict"); }
        }
        if input.len() > (1usize << c.lgwin.clamp(10, 24)) { rep.count("input_longer_than_window"); }
        return;
    }
    let (kind, what) = match &dr {
        DResult::Ok(v) => ("wrong-decode", format!("decoder given the same {}-byte dictionary returned {} bytes != input ({} bytes), first difference at {}", c.d, v.len(), input.len(), crate::dec::first_diff(v, &input))),
        DResult::Error(v) => ("decode-error", format!("decoder given the same {}-byte dictionary failed after {} bytes", c.d, v.len())),
        DResult::NeedsMoreInput(v) => ("decode-truncated", format!("decoder given the same {}-byte dictionary wants more input after {} bytes", c.d, v.len())),
        DResult::TooBig => ("decode-toobig", "decoder output exceeds the input length".to_string()),
    };
    // known decoder-side class: the same case with `appendable = true` (the decoder then keeps its full ring) round-trips
    let mut sig = if unsanitised { format!("dict:{}:clamped-lgwin", kind) } else { format!("dict:{}:{}:{}", kind, dcl, qcl) };
    if c.d >= 1 && c.q >= 2 {
        let mut p2 = p.clone();
        p2.appendable = true;
        if let Ok((o2, _)) = encode_stream_x(&input, &dict, false, &p2, &[1 << 20], 1 << 16, &mut |_, _, _, _| ()) {
            if matches!(decode_dict(&o2, &dict, input.len() + (1 << 16)), DResult::Ok(v) if v == input) { sig = format!("dict:{}:decoder-shrunk-ring", kind); }
        }
    }
    rep.violation(&sig, &what, c.json());
    rep.sample(format!("{} {}", sig, c.corpus_line()));
}

fn d_grid(lgwin: i32, rng: &mut Rng) -> Vec<usize> {
    let w = 1usize << lgwin;
    vec![0, 1, 2, 3, rng.range(4, (w - 18) as u64) as usize, w - 17, w - 16, w - 15, w + 5, 2 * w + 3]
}

fn cases(thorough: bool, seed: u64) -> Vec<Case> {
    let mut rng = Rng::new(seed ^ 0xd1c7_0001);
    let mut cs = Vec::new();
    // corpus first
    if let Ok(rd) = std::fs::read_dir("/verif/corpus/dict") {
        let mut files: Vec<_> = rd.filter_map(|e| e.ok()).map(|e| e.path()).collect();
        files.sort();
        for f in files { if let Ok(t) = std::fs::read_to_string(&f) { for l in t.lines() { if let Some(c) = Case::parse(l) { cs.push(c); } } } }
    }
    let dense: &[i32] = &[10, 11, 12, 13, 14, 16, 18];
    for &lgwin in dense {
        for q in 0..12 {
            for magic in [false, true] {
                for d in d_grid(lgwin, &mut rng) {
                    let reps = if thorough { 8 } else { 2 };
                    for _ in 0..reps {
                        // kinds tail/period/text/tiny; `long` only sparsely (below)
                        let kind = if d <= 3 { *rng.pick(&[2u32, 2, 2, 0, 1, 3]) } else { *rng.pick(&[0u32, 0, 0, 1, 1, 2, 3]) };
                        cs.push(Case { lgwin, q, d, seed: rng.below(251), magic, kind, api: rng.below(3) as u32, iseed: rng.next() >> 16 });
                    }
                }
            }
        }
    }
    // the remaining windows 15,17,19: one quality sweep each at the boundary lengths
    for &lgwin in &[15i32, 17, 19] {
        for q in 0..12 { for d in [1usize, (1 << lgwin) - 16, (1 << lgwin) + 5] { cs.push(Case { lgwin, q, d, seed: rng.below(251), magic: rng.chance(1, 2), kind: rng.below(2) as u32, api: rng.below(3) as u32, iseed: rng.next() >> 16 }); } }
    }
    // big windows, sparse
    for &lgwin in &[20i32, 21, 22, 23, 24] {
        let w = 1usize << lgwin;
        let qs: Vec<i32> = if thorough { (0..12).collect() } else { vec![0, 2, 5, 9, 11] };
        for q in qs {
            if !thorough && lgwin == 24 && q >= 10 { continue; }
            let ds: Vec<usize> = if thorough || lgwin == 20 || lgwin == 22 { vec![1, w - 17, w - 16, w - 15, w + 5] } else { vec![*rng.pick(&[w - 17, w - 16, w - 15, w + 5])] };
            for d in ds { cs.push(Case { lgwin, q, d, seed: rng.below(251), magic: rng.chance(1, 2), kind: rng.below(3) as u32, api: rng.below(3) as u32, iseed: rng.next() >> 16 }); }
        }
    }
    // long inputs (longer than the ring buffer), small windows
    for &lgwin in &[10i32, 12, 14, 16] {
        let qs: Vec<i32> = if thorough { (0..12).collect() } else { vec![1, 2, 3, 4, 5, 7, 9, 10, 11] };
        for q in qs {
            if !thorough && q >= 10 && lgwin > 12 { continue; }
            let w = 1usize << lgwin;
            let d = *rng.pick(&[2usize, 3, w / 3, w - 17, w - 16, w + 5]);
            cs.push(Case { lgwin, q, d, seed: rng.below(251), magic: rng.chance(1, 2), kind: 4, api: rng.below(3) as u32, iseed: rng.next() >> 16 });
        }
    }
    // shrunk decoder ring: single last meta-block with d' + len just below a power of two
    for &lgwin in &[10i32, 12, 16, 22] {
        for q in 2..12 {
            let n = if thorough { 40 } else { 8 };
            for _ in 0..n {
                let w = 1usize << lgwin;
                let d = *rng.pick(&[1usize, 1, 2, 3, 5, 9, 17, 40, 200, w - 16, w + 5]);
                cs.push(Case { lgwin, q, d, seed: rng.below(251), magic: false, kind: 5, api: rng.below(3) as u32, iseed: rng.next() >> 16 });
            }
        }
    }
    // ring end: dictionary (odd / even lengths, so that block writes straddle the ring end) + input of 1.2..2.5 ring sizes with
    // repeats placed across the k*ring stream positions; one call and odd-sized chunks (7, 4093, 65537)
    for &lgwin in &[10i32, 12, 14, 16] {
        for q in [2, 3, 4, 5, 6, 7, 9, 10, 11] {
            let n = if thorough { 16 } else { 4 };
            for j in 0..n {
                let ring = enc_ring_size(lgwin, q);
                let d = *rng.pick(&[1usize, 2, 3, 999, 1000, 1001, ring - 1, ring, ring + 1]);
                let api = [0u32, 10, 11, 12][j % 4];
                cs.push(Case { lgwin, q, d, seed: rng.below(251), magic: false, kind: 6, api, iseed: rng.next() >> 16 });
            }
        }
    }
    for q in [0, 1] { cs.push(Case { lgwin: 10, q, d: 1001, seed: 5, magic: false, kind: 6, api: 11, iseed: rng.next() >> 16 }); }
    // out-of-range window values (clamped by SanitizeParams: accepted settings, same oracle)
    for &lgwin in &[-3i32, 0, 3, 4, 5, 8, 9] {
        for q in [0, 2, 5, 9, 11] { for d in [1usize, 16, 17, 240, 600, 1007, 1008, 1009, 3000] { cs.push(Case { lgwin, q, d, seed: rng.below(251), magic: rng.chance(1, 2), kind: rng.below(3) as u32, api: rng.below(3) as u32, iseed: rng.next() >> 16 }); } }
    }
    for &lgwin in &[3i32, 0] { for (q, d) in [(5, 400000usize), (2, 100000), (9, 200000)] { cs.push(Case { lgwin, q, d, seed: 3, magic: false, kind: 0, api: 0, iseed: rng.next() >> 16 }); } }
    for &lgwin in &[25i32, 30] {
        let w = 1usize << 24;
        let ds: Vec<usize> = if thorough { vec![2, w - 17, w - 16, w - 15, w + 5, 70 << 20] } else { vec![2, *rng.pick(&[w - 16, w + 5])] };
        for d in ds { let q = *rng.pick(&[2, 5, 9]); cs.push(Case { lgwin, q, d, seed: rng.below(251), magic: false, kind: 0, api: rng.below(3) as u32, iseed: rng.next() >> 16 }); }
    }
    cs
}

fn corr_lines(thorough: bool, seed: u64) -> Vec<(i32, i32, usize, u64)> {
    let mut rng = Rng::new(seed ^ 0xb00c);
    let mut v = Vec::new();
    for lgwin in [10i32, 11, 12, 13, 14, 15, 16, 17, 18] {
        for q in -1..13 {
            for d in d_grid(lgwin, &mut rng) { v.push((lgwin, q, d, rng.below(251))); }
            // around the block size (small first allocation vs full allocation of the ring buffer)
            for lgb in [14usize, 16, 18] { let b = 1usize << lgb; for d in [b - 1, b, b + 1] { if q % 3 == 0 { v.push((lgwin, q, d, rng.below(251))); } } }
        }
    }
    for lgwin in [-3i32, 0, 1, 3, 4, 5, 6, 8, 9, 25, 26, 30] { for q in [0, 2, 4, 9, 10, 11] { for d in [0usize, 1, 2, 15, 16, 17, 240, 241, 600, 1008, 1009, 3000] { v.push((lgwin, q, d, rng.below(251))); } } }
    for lgwin in [19i32, 20, 21, 22, 23, 24] {
        let w = 1usize << lgwin;
        for q in [0, 1, 2, 3, 4, 9, 11] {
            let ds: Vec<usize> = if thorough || lgwin <= 20 { vec![2, w - 17, w - 16, w - 15, w + 5] } else { vec![*rng.pick(&[w - 17, w - 16, w - 15, w + 5])] };
            for d in ds { v.push((lgwin, q, d, rng.below(251))); }
        }
    }
    v
}

fn probe_case(line: &str) {
    let c = Case::parse(line).unwrap();
    let dict = gen_dict(c.seed, c.d);
    let input = make_input(&c, &dict);
    println!("input ({} bytes) = {}", input.len(), hex(&input));
    println!("dict = {}", hex(&dict));
    for api in 0..4u32 {
        let mut p = base_params(c.q, c.lgwin);
        p.magic_number = c.magic;
        if api == 3 { p.appendable = true; }
        let out = match api { 0 => encode_stream_x(&input, &dict, false, &p, &[1 << 20], 1 << 16, &mut |_, _, _, _| ()).map(|x| x.0), 1 => encode_stream_x(&input, &dict, false, &p, &[7], 5, &mut |_, _, _, _| ()).map(|x| x.0), _ => encode_oneshot(&input, &dict, &p, 4096, 4096, &mut |_, _, _, _| ()) };
        match out {
            Ok(o) => { let dr = decode_dict(&o, &dict, input.len() + 1000); println!("api {} -> {} bytes {} ; decode: {}", api, o.len(), hex(&o), match &dr { DResult::Ok(v) if *v == input => "ok".to_string(), DResult::Ok(v) => format!("WRONG {}", hex(v)), x => format!("{:?}", x) }); }
            Err(e) => println!("api {} -> {}", api, e),
        }
    }
}

fn probe() {
    let mut text = Vec::new();
    for _ in 0..4 { text.extend_from_slice(b"The quick brown fox jumps over the lazy dog. Compression of information and international development. "); }
    for q in [2, 5, 9, 11] {
        for d in [0usize, 1, 2, 3] {
            let dict: Vec<u8> = (0..d).map(|i| b'a' + i as u8).collect();
            let p = base_params(q, 22);
            match encode_stream(&text, &dict, &p, 1 << 16, 1 << 16, &mut |_, _, _, _| ()) {
                Ok((out, book)) => {
                    let dr = decode_dict(&out, &dict, text.len() + 1000);
                    let verdict = match &dr { DResult::Ok(v) if *v == text => "roundtrip-ok".to_string(), DResult::Ok(v) => format!("WRONG len {} first diff {}", v.len(), crate::dec::first_diff(v, &text)), o => format!("{:?}", o).chars().take(60).collect() };
                    println!("q{} d{} -> {} bytes; book {:?}; {}", q, d, out.len(), (book.input_pos, book.last_flush_pos, book.prev_byte, book.prev_byte2, book.catable, book.use_dictionary), verdict);
                }
                Err(e) => println!("q{} d{} -> {}", q, d, e),
            }
        }
    }
    for lgwin in [4, 5, 8, 9] {
        for q in [5, 9, 11] {
            let dict = gen_dict(0, 600);
            let mut inp = dict[300..].to_vec(); inp.extend_from_slice(&text);
            let p = base_params(q, lgwin);
            match encode_stream(&inp, &dict, &p, 1 << 16, 1 << 16, &mut |_, _, _, _| ()) {
                Ok((out, book)) => {
                    let dr = decode_dict(&out, &dict, inp.len() + 1000);
                    let verdict = match &dr { DResult::Ok(v) if *v == inp => "roundtrip-ok".to_string(), DResult::Ok(v) => format!("WRONG len {} first diff {}", v.len(), crate::dec::first_diff(v, &inp)), o => format!("{:?}", o).chars().take(60).collect() };
                    println!("lgwin{} q{} -> {} bytes; book {:?}; {}", lgwin, q, out.len(), (book.input_pos, book.last_flush_pos, book.lgwin), verdict);
                }
                Err(e) => println!("lgwin{} q{} -> {}", lgwin, q, e),
            }
        }
    }
    // out-of-range lgwin (clamped by SanitizeParams only AFTER max_dict_size was computed)
    for (lgwin, q, d) in [(0i32, 5i32, 400000usize), (3, 5, 400000), (3, 2, 100000), (3, 5, 200000), (30, 5, (1 << 24) + 5), (30, 5, 70 << 20), (25, 9, (1 << 24) + 5)] {
        let dict = gen_dict(3, d);
        let mut inp = dict[d - 300..].to_vec(); inp.extend_from_slice(&text); inp.extend_from_slice(&dict[d / 2..d / 2 + 500]);
        let p = base_params(q, lgwin);
        match encode_stream(&inp, &dict, &p, 1 << 16, 1 << 16, &mut |_, _, _, _| ()) {
            Ok((out, book)) => {
                let dr = decode_dict(&out, &dict, inp.len() + 1000);
                let verdict = match &dr { DResult::Ok(v) if *v == inp => "roundtrip-ok".to_string(), DResult::Ok(v) => format!("WRONG len {} first diff {}", v.len(), crate::dec::first_diff(v, &inp)), o => format!("{:?}", o).chars().take(60).collect() };
                println!("lgwin{} q{} d{} -> {} bytes; book {:?}; {}", lgwin, q, d, out.len(), (book.input_pos, book.last_flush_pos, book.lgwin), verdict);
            }
            Err(e) => println!("lgwin{} q{} d{} -> {}", lgwin, q, d, e),
        }
    }
    for q in [2, 5, 9, 11] {
        let dict: Vec<u8> = text[..150].to_vec();
        let mut p = base_params(q, 22);
        p.log_meta_block = true;
        let mut ncb = 0;
        let r = encode_stream(&text, &dict, &p, 1 << 16, 1 << 16, &mut |_, cmds, _, _| { ncb += cmds.len(); });
        match r { Ok((out, _)) => println!("D12 q{}: ok {} bytes, {} IR commands", q, out.len(), ncb), Err(e) => println!("D12 q{}: {}", q, e) }
    }
}

pub fn run_cmd(args: &Args) {
    if args.rest.first().map(|s| s.as_str()) == Some("probe") { probe(); return; }
    if args.rest.first().map(|s| s.as_str()) == Some("case") { probe_case(&args.rest[1..].join(" ")); return; }
    let thorough = args.tier == "thorough";
    let mut corr = Corr::new(&args.out);
    let mut rep = Report::default();
    // quiet panics of the code under test (they are observations)
    std::panic::set_hook(Box::new(|_| {}));

    // ---- correspondence: book-keeping after set_custom_dictionary
    let cl = std::sync::Arc::new(corr_lines(thorough, args.seed));
    let cl2 = cl.clone();
    let lines = par_tasks(cl.len(), move |i| {
        let (lgwin, q, d, seed) = cl2[i];
        let dict = gen_dict(seed, d);
        let p = base_params(q, lgwin);
        let ans = match book_only(&dict, &p) { Ok(b) => b.line(), Err(_) => "panic".to_string() };
        (format!("dict book {} {} {} {}", lgwin, q, d, seed), ans)
    });
    for (o, a) in lines { corr.case(&o, &a); }
    rep.add("corr.book_lines", cl.len() as u64);

    // ---- correspondence: RingBufferWrite over the ring end (straddling writes, tail mirror) after a dictionary of odd / even length
    {
        let mut rng = Rng::new(args.seed ^ 0x419e);
        let mut jobs: Vec<(i32, i32, usize, u64, Vec<usize>)> = Vec::new();
        let nj = if thorough { 400 } else { 72 };
        for j in 0..nj {
            let lgwin = *rng.pick(&[10i32, 11, 12, 13, 14]);
            let q = *rng.pick(&[2i32, 3, 2, 3, 5]);
            if q == 5 && j % 6 != 0 { continue; }
            let ring = enc_ring_size(lgwin, q);
            let block = if q < 4 { 1usize << 14 } else { 1usize << 16 };
            let d = *rng.pick(&[1usize, 2, 3, 999, 1000, 1001, 1007, 1008, 5000, ring - 1, ring, ring + 1]);
            let total = ring * (11 + rng.below(15) as usize) / 10;
            let mut writes = Vec::new();
            let mut left = total;
            let style = rng.below(4);
            while left > 0 && writes.len() < 200 {
                let n = match style { 0 => block, 1 => *rng.pick(&[7usize, 4093, block]), 2 => rng.range(1, block as u64) as usize, _ => if rng.chance(1, 3) { rng.range(1, 64) as usize } else { block } }.min(left);
                writes.push(n);
                left -= n;
            }
            jobs.push((lgwin, q, d, rng.below(251), writes));
        }
        let jobs = std::sync::Arc::new(jobs);
        let j2 = jobs.clone();
        let lines = par_tasks(jobs.len(), move |i| {
            let (lgwin, q, d, seed, ref writes) = j2[i];
            let dict = gen_dict(seed, d);
            let ans = match ring_writes(&dict, &base_params(q, lgwin), seed, writes) { Ok(b) => b.line(), Err(_) => "panic".to_string() };
            (format!("dict ringw {} {} {} {} {}", lgwin, q, d, seed, writes.iter().map(|x| x.to_string()).collect::<Vec<_>>().join(",")), ans)
        });
        rep.add("corr.ringw_lines", lines.len() as u64);
        for (o, a) in lines { corr.case(&o, &a); }
    }

    // ---- search: round trip with the same dictionary
    let cs = std::sync::Arc::new(cases(thorough, args.seed));
    let cs2 = cs.clone();
    let reps = par_tasks(cs.len(), move |i| { let mut r = Report::default(); let mut l = Vec::new(); run_case(&cs2[i], &mut r, &mut l); (r, l) });
    for (r, l) in reps { rep.merge(r); for (o, a) in l { corr.case(&o, &a); } }
    let _ = std::panic::take_hook();
    corr.finish();
    rep.write(&args.out);
}
