//! engine `hasher` — property C19 (batched match-index updates equal one-at-a-time updates).
//!
//! Search stage (real code only).  For every index kind that `HasherSetup`/`ChooseHasher`
//! selects for quality 2..11 x lgwin x size hint (+ q9.5), and for small-table instances of the
//! generic `AdvHasher<H5Sub>` / `AdvHasher<H6Sub>` built through their pub fields, two indexes A
//! and B that start in the SAME state are driven over the same data:
//!   (a) A: `Store(data, mask, ix)` for ix in [S,E), one at a time;
//!   (b) B: `StoreRange` / `BulkStoreRange` over [S,E) in one call or split into consecutive
//!       pieces (every split point and start alignment mod 32 for short ranges, random for long),
//! with mask = usize::MAX and with ring-buffer masks 2^k-1 and positions beyond the mask.
//! Oracle: `PartialEq` of the real `UnionHasher` says A == B (the first differing table entry is
//! located through the pub fields for the report); `clone_with_alloc(B) == B`; a panic on one side
//! only is a violation.  A and B are NOT reset between cases (the property holds from every
//! starting state, and the tables fill up / `num` counters wrap that way); after a violation B is
//! re-cloned from A and the case is replayed from zeroed tables for the report.
//! The binary-tree kind (H10) is checked for `BulkStoreRange` only (its `StoreRange` thins long
//! ranges by design).
//!
//! Correspondence stage.  Request line for the Lean driver:
//!   `hasher <kind> <mask|max> <data> <op>...`     (tables start zeroed)
//!   kind = `basic:<bucket_bits>:<sweep>:<hash_bytes>:<table_len>` | `adv32:<bucket_bits>:<block_bits>`
//!        | `adv64:<bucket_bits>:<block_bits>:<hash_len>` | `h9`
//!   data = hex bytes | `rep:<hexpattern>:<len>` (pattern repeated up to len bytes)
//!   op   = `S:<s>:<e>` (Store s..e one by one) | `R:<s>:<e>` (StoreRange) | `B:<s>:<e>` (BulkStoreRange)
//!        | `C` (continue on a clone; the answer's last field accumulates clone == source)
//! Answer: `ok <num_digest> <buckets_digest> <nonzero_num> <nonzero_buckets> <clone_eq>` or `panic`.
//! The digests run over (index, value) of all non-zero entries in index order (FNV, util::fnv_step),
//! i.e. an element-wise comparison of the `num` and bucket arrays with the model's arrays.
//!
//! non-trivial case (rep.nontrivial): a case in which at least one piece is long enough to enter
//! a batched path of its kind (>= 16 positions for the 4-at-a-time paths, > 32 for the 32-at-a-time
//! path), or — for the kinds whose range/bulk entry is a plain loop — at least 2 positions.
//!
//! Corpus: /verif/corpus/hasher/*.txt, one request line (format above) per file, preceded by
//! `#` comment lines; run first through the search oracle (S-ops vs R/B-ops of the same line are
//! not related there: a corpus line `... R:s:e` is compared with `S:s:e`).
use crate::prng::Rng;
use crate::util::*;
use alloc_no_stdlib::{Allocator, SliceWrapper, SliceWrapperMut};
use alloc_stdlib::StandardAlloc;
use brotli::enc::backward_references::{
    AdvHasher, AnyHasher, BrotliEncoderParams, BrotliHasherParams, CloneWithAlloc, H5Sub, H6Sub,
    H9Opts, Struct1, UnionHasher,
};
use brotli::enc::encode::{BrotliEncoderInitParams, HasherSetup};
use std::panic::{catch_unwind, AssertUnwindSafe};

type UH = UnionHasher<StandardAlloc>;

// ---------------------------------------------------------------------------------------------
// kinds

#[derive(Clone, Debug)]
enum Build {
    Setup { q: i32, q95: bool, lgwin: i32, hint: usize },
    SmallH5 { bucket_bits: i32, block_bits: i32 },
    SmallH6 { bucket_bits: i32, block_bits: i32, hash_len: i32 },
}

#[derive(Clone, Debug, PartialEq)]
enum Family {
    Basic { sweep: usize },
    Adv4,
    Adv8,
    H9,
    H10,
}

#[derive(Clone, Debug)]
struct Kind {
    build: Build,
    variant: &'static str,
    family: Family,
    /// model kind token (None for H10: not modelled concretely)
    spec: Option<String>,
    lookahead: usize,
    table_bytes: usize,
    selected_by: Vec<String>,
}

fn build(b: &Build) -> UH {
    let mut alloc = StandardAlloc::default();
    match *b {
        Build::Setup { q, q95, lgwin, hint } => {
            let mut params = BrotliEncoderInitParams();
            params.quality = q;
            params.q9_5 = q95;
            params.lgwin = lgwin;
            params.size_hint = hint;
            let mut h: UH = UnionHasher::Uninit;
            HasherSetup(&mut alloc, &mut h, &mut params, &[], 0, 0, 0);
            h
        }
        Build::SmallH5 { bucket_bits, block_bits } => {
            let hp = BrotliHasherParams { type_: 5, block_bits, bucket_bits, hash_len: 4, num_last_distances_to_check: 4, literal_byte_score: 0 };
            let bucket_size = 1usize << bucket_bits;
            let block_size = 1usize << block_bits;
            UnionHasher::H5(AdvHasher {
                GetHasherCommon: Struct1 { params: hp, is_prepared_: 1, dict_num_lookups: 0, dict_num_matches: 0 },
                specialization: H5Sub { hash_shift_: 32 - bucket_bits, bucket_size_: bucket_size as u32, block_mask_: (block_size - 1) as u32, block_bits_: block_bits },
                num: <StandardAlloc as Allocator<u16>>::alloc_cell(&mut alloc, bucket_size),
                buckets: <StandardAlloc as Allocator<u32>>::alloc_cell(&mut alloc, bucket_size * block_size),
                h9_opts: H9Opts::new(&hp),
            })
        }
        Build::SmallH6 { bucket_bits, block_bits, hash_len } => {
            let hp = BrotliHasherParams { type_: 6, block_bits, bucket_bits, hash_len, num_last_distances_to_check: 4, literal_byte_score: 0 };
            let bucket_size = 1usize << bucket_bits;
            let block_size = 1usize << block_bits;
            UnionHasher::H6(AdvHasher {
                GetHasherCommon: Struct1 { params: hp, is_prepared_: 1, dict_num_lookups: 0, dict_num_matches: 0 },
                specialization: H6Sub { hash_mask: u64::MAX >> (64 - 8 * hash_len), hash_shift_: 64 - bucket_bits, bucket_size_: bucket_size as u32, block_mask_: (block_size - 1) as u32, block_bits_: block_bits },
                num: <StandardAlloc as Allocator<u16>>::alloc_cell(&mut alloc, bucket_size),
                buckets: <StandardAlloc as Allocator<u32>>::alloc_cell(&mut alloc, bucket_size * block_size),
                h9_opts: H9Opts::new(&hp),
            })
        }
    }
}

fn num_slice(h: &UH) -> &[u16] {
    match h {
        UnionHasher::H5(x) => x.num.slice(),
        UnionHasher::H5q5(x) => x.num.slice(),
        UnionHasher::H5q7(x) => x.num.slice(),
        UnionHasher::H6(x) => x.num.slice(),
        UnionHasher::H9(x) => x.num_.slice(),
        _ => &[],
    }
}
fn bucket_slice(h: &UH) -> &[u32] {
    match h {
        UnionHasher::H2(x) => x.buckets_.buckets_.slice(),
        UnionHasher::H3(x) => x.buckets_.buckets_.slice(),
        UnionHasher::H4(x) => x.buckets_.buckets_.slice(),
        UnionHasher::H54(x) => x.buckets_.buckets_.slice(),
        UnionHasher::H5(x) => x.buckets.slice(),
        UnionHasher::H5q5(x) => x.buckets.slice(),
        UnionHasher::H5q7(x) => x.buckets.slice(),
        UnionHasher::H6(x) => x.buckets.slice(),
        UnionHasher::H9(x) => x.buckets_.slice(),
        UnionHasher::H10(x) => x.buckets_.slice(),
        UnionHasher::Uninit => &[],
    }
}
fn forest_slice(h: &UH) -> &[u32] {
    match h {
        UnionHasher::H10(x) => x.forest.slice(),
        _ => &[],
    }
}
fn zero_tables(h: &mut UH) {
    match h {
        UnionHasher::H2(x) => x.buckets_.buckets_.slice_mut().fill(0),
        UnionHasher::H3(x) => x.buckets_.buckets_.slice_mut().fill(0),
        UnionHasher::H4(x) => x.buckets_.buckets_.slice_mut().fill(0),
        UnionHasher::H54(x) => x.buckets_.buckets_.slice_mut().fill(0),
        UnionHasher::H5(x) => { x.buckets.slice_mut().fill(0); x.num.slice_mut().fill(0) }
        UnionHasher::H5q5(x) => { x.buckets.slice_mut().fill(0); x.num.slice_mut().fill(0) }
        UnionHasher::H5q7(x) => { x.buckets.slice_mut().fill(0); x.num.slice_mut().fill(0) }
        UnionHasher::H6(x) => { x.buckets.slice_mut().fill(0); x.num.slice_mut().fill(0) }
        UnionHasher::H9(x) => { x.buckets_.slice_mut().fill(0); x.num_.slice_mut().fill(0) }
        _ => {}
    }
}

fn describe(b: &Build) -> Kind {
    let h = build(b);
    let log2 = |x: usize| (usize::BITS - 1 - x.leading_zeros()) as usize;
    let (variant, family, spec, lookahead): (&'static str, Family, Option<String>, usize) = match &h {
        UnionHasher::H2(x) => ("H2", Family::Basic { sweep: 1 }, Some(format!("basic:16:1:5:{}", x.buckets_.buckets_.slice().len())), 8),
        UnionHasher::H3(x) => ("H3", Family::Basic { sweep: 2 }, Some(format!("basic:16:2:5:{}", x.buckets_.buckets_.slice().len())), 8),
        UnionHasher::H4(x) => ("H4", Family::Basic { sweep: 4 }, Some(format!("basic:17:4:5:{}", x.buckets_.buckets_.slice().len())), 8),
        UnionHasher::H54(x) => ("H54", Family::Basic { sweep: 4 }, Some(format!("basic:20:4:7:{}", x.buckets_.buckets_.slice().len())), 8),
        UnionHasher::H5(x) => ("H5", Family::Adv4, Some(format!("adv32:{}:{}", 32 - x.specialization.hash_shift_, x.specialization.block_bits_)), 4),
        UnionHasher::H5q5(_) => ("H5q5", Family::Adv4, Some("adv32:14:4".to_string()), 4),
        UnionHasher::H5q7(_) => ("H5q7", Family::Adv4, Some("adv32:15:6".to_string()), 4),
        UnionHasher::H6(x) => ("H6", Family::Adv8, Some(format!("adv64:{}:{}:{}", 64 - x.specialization.hash_shift_, x.specialization.block_bits_, x.specialization.hash_mask.count_ones() / 8)), 8),
        UnionHasher::H9(_) => ("H9", Family::H9, Some("h9".to_string()), 4),
        UnionHasher::H10(_) => ("H10", Family::H10, None, 128),
        UnionHasher::Uninit => ("Uninit", Family::H9, None, 0),
    };
    let _ = log2;
    let table_bytes = bucket_slice(&h).len() * 4 + num_slice(&h).len() * 2 + forest_slice(&h).len() * 4;
    Kind { build: b.clone(), variant, family, spec, lookahead, table_bytes, selected_by: vec![] }
}

/// every kind selected by quality x q9.5 x lgwin x size hint, de-duplicated by (variant, model spec / lgwin for H10)
fn selected_kinds(thorough: bool) -> Vec<Kind> {
    let mut out: Vec<Kind> = vec![];
    let lgwins: &[i32] = if thorough { &[10, 12, 16, 17, 18, 19, 22, 24] } else { &[10, 16, 17, 18, 19, 22, 24] };
    let hints: &[usize] = &[0, 1 << 20, (1 << 20) + 1, (1 << 22) + 1];
    for q in 2..=11 {
        for &q95 in &[false, true] {
            if q95 && q < 10 {
                continue;
            }
            for &lgwin in lgwins {
                if q >= 10 && !q95 && lgwin > 18 {
                    continue; // H10 allocates 8 bytes << lgwin; the kind does not depend on lgwin beyond the window mask
                }
                for &hint in hints {
                    let b = Build::Setup { q, q95, lgwin, hint };
                    let k = describe(&b);
                    let key = match &k.spec {
                        Some(s) => format!("{}/{}", k.variant, s),
                        None => format!("{}/lgwin{}", k.variant, lgwin),
                    };
                    let tag = format!("q{}{} lgwin{} hint{}", q, if q95 { "(9.5)" } else { "" }, lgwin, hint);
                    if let Some(e) = out.iter_mut().find(|e| {
                        let ekey = match &e.spec {
                            Some(s) => format!("{}/{}", e.variant, s),
                            None => match e.build { Build::Setup { lgwin, .. } => format!("{}/lgwin{}", e.variant, lgwin), _ => String::new() },
                        };
                        ekey == key
                    }) {
                        if e.selected_by.len() < 4 {
                            e.selected_by.push(tag);
                        }
                    } else {
                        let mut k = k;
                        k.selected_by.push(tag);
                        out.push(k);
                    }
                }
            }
        }
    }
    out
}

fn small_kinds() -> Vec<Kind> {
    let mut v = vec![];
    for &(bb, kb) in &[(4, 1), (6, 2), (8, 3), (10, 4)] {
        v.push(describe(&Build::SmallH5 { bucket_bits: bb, block_bits: kb }));
    }
    for &(bb, kb, hl) in &[(5, 1, 5), (8, 2, 8), (9, 3, 6)] {
        v.push(describe(&Build::SmallH6 { bucket_bits: bb, block_bits: kb, hash_len: hl }));
    }
    for k in v.iter_mut() {
        k.selected_by.push("small-table instance of the generic type (pub fields)".to_string());
    }
    v
}

// ---------------------------------------------------------------------------------------------
// cases

#[derive(Clone, Debug)]
enum DataSpec {
    Bytes(Vec<u8>),
    Rep(Vec<u8>, usize),
}
impl DataSpec {
    fn bytes(&self) -> Vec<u8> {
        match self {
            DataSpec::Bytes(b) => b.clone(),
            DataSpec::Rep(p, n) => (0..*n).map(|i| p[i % p.len()]).collect(),
        }
    }
    fn token(&self) -> String {
        match self {
            DataSpec::Bytes(b) => hex(b),
            DataSpec::Rep(p, n) => format!("rep:{}:{}", hex(p), n),
        }
    }
}

#[derive(Clone, Copy, Debug, PartialEq)]
enum Entry {
    Store, // one at a time
    Range,
    Bulk,
}
#[derive(Clone, Debug)]
struct Op {
    entry: Entry,
    s: usize,
    e: usize,
}
fn ops_token(ops: &[Op]) -> String {
    ops.iter()
        .map(|o| format!("{}:{}:{}", match o.entry { Entry::Store => "S", Entry::Range => "R", Entry::Bulk => "B" }, o.s, o.e))
        .collect::<Vec<_>>()
        .join(" ")
}
fn mask_token(mask: usize) -> String {
    if mask == usize::MAX { "max".to_string() } else { mask.to_string() }
}

fn apply(h: &mut UH, data: &[u8], mask: usize, ops: &[Op]) -> bool {
    catch_unwind(AssertUnwindSafe(|| {
        for o in ops {
            match o.entry {
                Entry::Store => {
                    for ix in o.s..o.e {
                        h.Store(data, mask, ix);
                    }
                }
                Entry::Range => h.StoreRange(data, mask, o.s, o.e),
                Entry::Bulk => h.BulkStoreRange(data, mask, o.s, o.e),
            }
        }
    }))
    .is_ok()
}

fn first_diff(a: &UH, b: &UH) -> String {
    let (na, nb) = (num_slice(a), num_slice(b));
    if na.len() != nb.len() {
        return format!("num.len {} vs {}", na.len(), nb.len());
    }
    let nd = na.iter().zip(nb).filter(|(x, y)| x != y).count();
    let (ba, bb) = (bucket_slice(a), bucket_slice(b));
    if ba.len() != bb.len() {
        return format!("buckets.len {} vs {}", ba.len(), bb.len());
    }
    let bd = ba.iter().zip(bb).filter(|(x, y)| x != y).count();
    let (fa, fb) = (forest_slice(a), forest_slice(b));
    let fd = fa.iter().zip(fb).filter(|(x, y)| x != y).count();
    let mut s = format!("{} num / {} bucket / {} forest entries differ", nd, bd, fd);
    if let Some(i) = na.iter().zip(nb).position(|(x, y)| x != y) {
        s.push_str(&format!("; first num[{}]: one-at-a-time {} vs batched {}", i, na[i], nb[i]));
    }
    if let Some(i) = ba.iter().zip(bb).position(|(x, y)| x != y) {
        s.push_str(&format!("; first buckets[{}]: one-at-a-time {} vs batched {}", i, ba[i], bb[i]));
    }
    if nd == 0 && bd == 0 && fd == 0 {
        s.push_str("; tables equal: the difference is in the common/params fields");
    }
    s
}

fn digest_u16(xs: &[u16]) -> (u64, u64) {
    let mut h = FNV_INIT;
    let mut n = 0u64;
    for (i, &v) in xs.iter().enumerate() {
        if v != 0 {
            h = fnv_step(fnv_step(h, i as u64), v as u64);
            n += 1;
        }
    }
    (h, n)
}
fn digest_u32(xs: &[u32]) -> (u64, u64) {
    let mut h = FNV_INIT;
    let mut n = 0u64;
    for (i, &v) in xs.iter().enumerate() {
        if v != 0 {
            h = fnv_step(fnv_step(h, i as u64), v as u64);
            n += 1;
        }
    }
    (h, n)
}

/// a generated case: data, mask, the range as consecutive pieces
#[derive(Clone, Debug)]
struct Case {
    data: DataSpec,
    mask: usize,
    pieces: Vec<Op>, // consecutive, entries Range/Bulk
    gen: &'static str,
}
impl Case {
    fn s(&self) -> usize { self.pieces.first().map(|p| p.s).unwrap_or(0) }
    fn e(&self) -> usize { self.pieces.last().map(|p| p.e).unwrap_or(0) }
}

fn gen_bytes(rng: &mut Rng, n: usize) -> Vec<u8> {
    // mostly-structured bytes: small alphabets and repeats make keys collide (bucket reuse, num growth)
    let style = rng.below(6);
    let mut v = Vec::with_capacity(n);
    match style {
        0 => { for _ in 0..n { v.push(rng.next() as u8); } }
        1 => { let a = rng.range(1, 4) as u8; for _ in 0..n { v.push(b'a' + (rng.below(a as u64) as u8)); } }
        2 => {
            // text-like with repeated words
            let words: Vec<Vec<u8>> = (0..rng.range(2, 9)).map(|_| (0..rng.range(1, 9)).map(|_| b'a' + rng.below(26) as u8).collect()).collect();
            while v.len() < n { let w = rng.pick(&words).clone(); v.extend_from_slice(&w); v.push(b' '); }
            v.truncate(n);
        }
        3 => { let p: Vec<u8> = (0..rng.range(1, 12)).map(|_| rng.next() as u8).collect(); for i in 0..n { v.push(p[i % p.len()]); } }
        4 => { let b = rng.next() as u8; for _ in 0..n { v.push(b); } }
        _ => {
            // runs
            while v.len() < n { let b = rng.below(4) as u8; let l = rng.range(1, 40) as usize; for _ in 0..l { v.push(b); } }
            v.truncate(n);
        }
    }
    v
}

/// ring-buffer shaped data: len = mask+1+tail; with `mirror` the tail repeats the head (as RingBufferWrite keeps it)
fn gen_ring(rng: &mut Rng, mask: usize, tail: usize, mirror: bool) -> Vec<u8> {
    let mut v = gen_bytes(rng, mask + 1 + tail);
    if mirror {
        for k in 0..tail {
            v[mask + 1 + k] = v[k % (mask + 1)];
        }
    }
    v
}

fn split_pieces(rng: &mut Rng, s: usize, e: usize, cuts: &[usize], entry_mode: u64) -> Vec<Op> {
    let mut pts = vec![s];
    for &c in cuts {
        if c > s && c < e { pts.push(c); }
    }
    pts.push(e);
    pts.sort();
    pts.dedup();
    if pts.len() == 1 { pts.push(e); }
    let mut out = vec![];
    for w in pts.windows(2) {
        let entry = match entry_mode { 0 => Entry::Range, 1 => Entry::Bulk, _ => if rng.chance(1, 2) { Entry::Range } else { Entry::Bulk } };
        out.push(Op { entry, s: w[0], e: w[1] });
    }
    out
}

// ---------------------------------------------------------------------------------------------
// the oracle on one case

struct Pair {
    kind: Kind,
    a: UH,
    b: UH,
}

fn fast_path_taken(kind: &Kind, mask: usize, p: &Op) -> Option<&'static str> {
    let n = p.e.saturating_sub(p.s);
    match kind.family {
        Family::Basic { .. } => if n >= 16 { Some("fast.basic4") } else { None },
        Family::Adv4 => match p.entry {
            Entry::Range => if n >= 8 { Some("fast.batch4") } else { None },
            Entry::Bulk => if mask == usize::MAX && n > 32 { Some("fast.memfetch32") } else { None },
            _ => None,
        },
        _ => None,
    }
}

fn signature(kind: &Kind, case: &Case, what: &str) -> String {
    let fam = match kind.family {
        Family::Basic { sweep: 1 } => "basic1",
        Family::Basic { .. } => "basicN",
        Family::Adv4 => "adv4",
        Family::Adv8 => "adv8",
        Family::H9 => "h9",
        Family::H10 => "h10",
    };
    let entries: Vec<Entry> = case.pieces.iter().map(|p| p.entry).collect();
    let ent = if entries.iter().all(|e| *e == Entry::Range) { "range" } else if entries.iter().all(|e| *e == Entry::Bulk) { "bulk" } else { "mixed" };
    let m = if case.mask == usize::MAX { "nomask" } else { "masked" };
    format!("hasher:{}:{}:{}:{}", what, ent, fam, m)
}

fn case_json(kind: &Kind, case: &Case, seed: u64) -> String {
    format!(
        "{{\"kind\": {}, \"build\": {}, \"model_kind\": {}, \"mask\": {}, \"data\": {}, \"pieces\": {}, \"gen\": {}, \"seed\": {}}}",
        jstr(kind.variant),
        jstr(&format!("{:?}", kind.build)),
        jstr(kind.spec.as_deref().unwrap_or("-")),
        jstr(&mask_token(case.mask)),
        jstr(&{ let t = case.data.token(); if t.len() > 4000 { format!("{}...({} hex chars)", &t[..4000], t.len()) } else { t } }),
        jstr(&ops_token(&case.pieces)),
        jstr(case.gen),
        seed
    )
}

/// returns true if the case passed
fn viol(rep: &mut Report, sig: &str, what: &str, case: String) {
    rep.count(&format!("viol.{}", sig));
    if !rep.violations.iter().any(|v| v.signature == sig) {
        rep.violations.push(Violation { signature: sig.to_string(), what: what.to_string(), case });
    }
}

fn run_case(pair: &mut Pair, case: &Case, data: &[u8], rep: &mut Report, seed: u64) -> bool {
    rep.evaluations += 1;
    let kind = pair.kind.clone();
    let (s, e) = (case.s(), case.e());
    let seq = [Op { entry: Entry::Store, s, e }];
    let mut nontriv = false;
    for p in &case.pieces {
        if let Some(c) = fast_path_taken(&kind, case.mask, p) {
            rep.count(c);
            nontriv = true;
        }
    }
    if !nontriv && !matches!(kind.family, Family::Basic { .. } | Family::Adv4) && e >= s + 2 {
        nontriv = true;
    }
    if nontriv { rep.nontrivial += 1; }
    rep.count(&format!("kind.{}", kind.variant));
    if case.mask != usize::MAX {
        rep.count("mask.ring");
        if e > 0 && e - 1 > case.mask { rep.count("pos.beyond_mask"); }
        if e > s && (s & case.mask) > ((e - 1) & case.mask) { rep.count("range.straddles_wrap"); }
    } else {
        rep.count("mask.none");
    }
    rep.count(&format!("pieces.{}", case.pieces.len().min(5)));
    rep.count(&format!("start_mod32.{:02}", s % 32));
    let ok_a = apply(&mut pair.a, data, case.mask, &seq);
    let ok_b = apply(&mut pair.b, data, case.mask, &case.pieces);
    let mut pass = true;
    if ok_a != ok_b {
        pass = false;
        viol(rep, 
            &signature(&kind, case, "panic-mismatch"),
            &format!("one-at-a-time {} but batched {}", if ok_a { "completed" } else { "panicked" }, if ok_b { "completed" } else { "panicked" }),
            case_json(&kind, case, seed),
        );
    } else if !ok_a {
        rep.count("both.panic");
    } else if pair.a != pair.b {
        pass = false;
        // replay from zeroed tables for a self-contained report
        let mut fa = build(&kind.build);
        let mut fb = build(&kind.build);
        let _ = apply(&mut fa, data, case.mask, &seq);
        let _ = apply(&mut fb, data, case.mask, &case.pieces);
        let fresh = if fa != fb { format!("from zeroed tables: {}", first_diff(&fa, &fb)) } else { format!("only from the accumulated state: {}", first_diff(&pair.a, &pair.b)) };
        viol(rep, &signature(&kind, case, "neq-store"), &format!("index after batched update != index after one-at-a-time update; {}", fresh), case_json(&kind, case, seed));
    } else {
        if e > s && num_slice(&pair.a).iter().any(|&n| n == u16::MAX) { rep.count("num.near_wrap"); }
    }
    if !pass || !ok_a {
        // resynchronise
        pair.a = build(&kind.build);
        let mut alloc = StandardAlloc::default();
        pair.b = pair.a.clone_with_alloc(&mut alloc);
    }
    pass
}

fn check_clone(pair: &Pair, rep: &mut Report, seed: u64) {
    let mut alloc = StandardAlloc::default();
    let c = pair.a.clone_with_alloc(&mut alloc);
    rep.count("clone.checked");
    if !(c == pair.a) || !(pair.a == c) {
        rep.violation(&format!("hasher:clone-neq:{}", pair.kind.variant), &format!("clone_with_alloc(x) != x; {}", first_diff(&pair.a, &c)), format!("{{\"kind\": {}, \"seed\": {}}}", jstr(pair.kind.variant), seed));
    }
    // element-wise through the pub fields as well
    if num_slice(&c) != num_slice(&pair.a) || bucket_slice(&c) != bucket_slice(&pair.a) || forest_slice(&c) != forest_slice(&pair.a) {
        rep.violation(&format!("hasher:clone-tables-neq:{}", pair.kind.variant), "tables of the clone differ element-wise", format!("{{\"kind\": {}, \"seed\": {}}}", jstr(pair.kind.variant), seed));
    }
}

// ---------------------------------------------------------------------------------------------
// generators of cases per kind

fn entry_modes(kind: &Kind) -> &'static [u64] {
    match kind.family {
        Family::H10 => &[1],          // bulk only
        Family::Basic { .. } => &[0, 1, 2],
        _ => &[0, 1, 2],
    }
}

/// short ranges, mask = MAX: every start alignment mod 32, every length 0..=maxlen, one call and every single split point
/// (sampled when the tables are large)
fn gen_short_nomask(kind: &Kind, rng: &mut Rng, budget: usize, out: &mut Vec<Case>) {
    let la = kind.lookahead;
    let maxlen = 72usize;
    let data = gen_bytes(rng, 64 + 32 + maxlen + la + 16);
    let base = 32 * rng.range(0, 2) as usize;
    let mut all: Vec<(usize, usize, Option<usize>, u64)> = vec![];
    for a in 0..32 {
        for l in 0..=maxlen {
            for &m in entry_modes(kind) {
                all.push((a, l, None, m));
                for cut in 1..l {
                    all.push((a, l, Some(cut), m));
                }
            }
        }
    }
    let take = budget.min(all.len());
    // deterministic sample: stride through a shuffled order when over budget
    if take < all.len() {
        for i in 0..take {
            let j = i + rng.below((all.len() - i) as u64) as usize;
            all.swap(i, j);
        }
        all.truncate(take);
    }
    for (a, l, cut, m) in all {
        let s = base + a;
        let e = s + l;
        let cuts: Vec<usize> = cut.map(|c| vec![s + c]).unwrap_or_default();
        out.push(Case { data: DataSpec::Bytes(data.clone()), mask: usize::MAX, pieces: split_pieces(rng, s, e, &cuts, m), gen: "short-nomask" });
    }
}

/// short ranges under a ring mask, positions beyond the mask: around the wrap point and elsewhere
fn gen_short_ring(kind: &Kind, rng: &mut Rng, budget: usize, out: &mut Vec<Case>) {
    let la = kind.lookahead;
    for _ in 0..budget {
        let lg = *rng.pick(&[6u32, 7, 8, 10, 12]);
        if kind.family == Family::H10 && lg < 9 { continue; }
        let mask = (1usize << lg) - 1;
        let tail = if rng.chance(1, 8) { la - 1 } else { la + 16 + rng.below(64) as usize };
        let mirror = rng.chance(3, 4);
        let data = gen_ring(rng, mask, tail.max(if kind.family == Family::H10 { 160 } else { 0 }), mirror);
        let wraps = rng.range(0, 5) as usize;
        let l = rng.range(0, (72usize).min(mask / 2) as u64) as usize;
        let s = if rng.chance(2, 3) {
            // near the wrap point
            (wraps + 1) * (mask + 1) - rng.below(l as u64 + 8).min(mask as u64) as usize
        } else {
            wraps * (mask + 1) + rng.below(mask as u64 + 1) as usize
        };
        let e = s + l;
        let ncuts = rng.below(3) as usize;
        let cuts: Vec<usize> = (0..ncuts).map(|_| s + rng.below(l as u64 + 1) as usize).collect();
        let m = *rng.pick(entry_modes(kind));
        out.push(Case { data: DataSpec::Bytes(data), mask, pieces: split_pieces(rng, s, e, &cuts, m), gen: if mirror { "short-ring-mirrored" } else { "short-ring-arbitrary" } });
    }
}

/// long ranges: random data up to ~20 KB (fits a request line), random partitions
fn gen_long(kind: &Kind, rng: &mut Rng, budget: usize, out: &mut Vec<Case>) {
    let la = kind.lookahead.max(if kind.family == Family::H10 { 160 } else { 0 });
    for _ in 0..budget {
        let ring = rng.chance(1, 2);
        let (data, mask, span) = if ring {
            let lg = *rng.pick(&[10u32, 11, 12, 13]);
            let mask = (1usize << lg) - 1;
            let tail = la + 16 + rng.below(200) as usize;
            { let mir = rng.chance(3, 4); (gen_ring(rng, mask, tail, mir), mask, 6 * (mask + 1)) }
        } else {
            let n = rng.range(200, 20000) as usize;
            (gen_bytes(rng, n + la + 16), usize::MAX, n)
        };
        let s = rng.below(span as u64 / 2) as usize;
        let maxl = if ring { (mask / 2).min(span - s) } else { span - s };
        let l = rng.below(maxl as u64 + 1) as usize;
        let e = s + l;
        let ncuts = rng.below(6) as usize;
        let cuts: Vec<usize> = (0..ncuts).map(|_| s + rng.below(l as u64 + 1) as usize).collect();
        let m = *rng.pick(entry_modes(kind));
        let mut data = data;
        let mut gen = if ring { "long-ring" } else { "long-nomask" };
        if !ring && l > 0 && kind.family != Family::H10 && rng.chance(1, 16) {
            // buffer too short for the last positions: BOTH procedures must panic
            let need = e - 1 + kind.lookahead;
            data.truncate(need - 1 - rng.below(6.min(l as u64)) as usize);
            gen = "long-nomask-short-buffer";
        }
        out.push(Case { data: DataSpec::Bytes(data), mask, pieces: split_pieces(rng, s, e, &cuts, m), gen });
    }
}

/// very long repetitive data (a `num` counter passes 65535): pattern repeated
fn gen_rep(kind: &Kind, rng: &mut Rng, budget: usize, out: &mut Vec<Case>) {
    if kind.family == Family::H10 { return; }
    for _ in 0..budget {
        let plen = rng.range(1, 3) as usize;
        let p: Vec<u8> = (0..plen).map(|_| rng.next() as u8).collect();
        let n = rng.range(66000, 140000) as usize;
        let s = rng.below(40) as usize;
        let e = n - kind.lookahead - rng.below(40) as usize;
        let ncuts = rng.below(4) as usize;
        let cuts: Vec<usize> = (0..ncuts).map(|_| s + rng.below((e - s) as u64 + 1) as usize).collect();
        let m = *rng.pick(entry_modes(kind));
        out.push(Case { data: DataSpec::Rep(p, n), mask: usize::MAX, pieces: split_pieces(rng, s, e, &cuts, m), gen: "rep-long" });
    }
}

// ---------------------------------------------------------------------------------------------
// correspondence: one line = zeroed tables, ops, digests

fn corr_line(kind: &Kind, data: &DataSpec, mask: usize, ops: &[(Option<Op>, bool)]) -> Option<(String, String)> {
    // ops: (Some(op), _) or (None, true) = clone
    let spec = kind.spec.as_ref()?;
    let bytes = data.bytes();
    let mut toks: Vec<String> = vec![];
    let mut h = build(&kind.build);
    zero_tables(&mut h);
    let mut clone_eq = true;
    let mut ok = true;
    for (op, _) in ops {
        match op {
            Some(o) => {
                toks.push(ops_token(std::slice::from_ref(o)));
                if ok { ok = apply(&mut h, &bytes, mask, std::slice::from_ref(o)); }
            }
            None => {
                toks.push("C".to_string());
                if ok {
                    let mut alloc = StandardAlloc::default();
                    let c = h.clone_with_alloc(&mut alloc);
                    clone_eq &= c == h;
                    h = c;
                }
            }
        }
    }
    let req = format!("hasher {} {} {} {}", spec, mask_token(mask), data.token(), toks.join(" "));
    if req.len() >= 65000 { return None; }
    let ans = if !ok {
        "panic".to_string()
    } else {
        let (dn, cn) = digest_u16(num_slice(&h));
        let (db, cb) = digest_u32(bucket_slice(&h));
        format!("ok {} {} {} {} {}", dn, db, cn, cb, if clone_eq { 1 } else { 0 })
    };
    Some((req, ans))
}

fn corr_for_case(kind: &Kind, case: &Case, rng: &mut Rng, lines: &mut Vec<(String, String)>) {
    if kind.spec.is_none() { return; }
    let (s, e) = (case.s(), case.e());
    // (1) the batched procedure, (2) the one-at-a-time procedure, optionally after a pre-fill and with a clone in between
    let mut pre: Vec<(Option<Op>, bool)> = vec![];
    if rng.chance(1, 3) && s >= 8 {
        let ps = rng.below(s as u64 / 2) as usize;
        pre.push((Some(Op { entry: Entry::Store, s: ps, e: ps + rng.below((s - ps) as u64) as usize }), false));
    }
    let mut b = pre.clone();
    for (i, p) in case.pieces.iter().enumerate() {
        b.push((Some(p.clone()), false));
        if i == 0 && rng.chance(1, 4) { b.push((None, true)); }
    }
    if let Some(l) = corr_line(kind, &case.data, case.mask, &b) { lines.push(l); }
    if rng.chance(1, 2) {
        let mut a = pre;
        a.push((Some(Op { entry: Entry::Store, s, e }), false));
        a.push((None, true));
        if let Some(l) = corr_line(kind, &case.data, case.mask, &a) { lines.push(l); }
    }
}

// ---------------------------------------------------------------------------------------------
// corpus

fn parse_line(line: &str) -> Option<(String, usize, DataSpec, Vec<Op>)> {
    let t: Vec<&str> = line.split_whitespace().collect();
    if t.len() < 4 || t[0] != "hasher" { return None; }
    let mask = if t[2] == "max" { usize::MAX } else { t[2].parse().ok()? };
    let data = if let Some(r) = t[3].strip_prefix("rep:") {
        let f: Vec<&str> = r.split(':').collect();
        DataSpec::Rep(unhex(f[0]), f[1].parse().ok()?)
    } else {
        DataSpec::Bytes(unhex(t[3]))
    };
    let mut ops = vec![];
    for o in &t[4..] {
        let f: Vec<&str> = o.split(':').collect();
        if f.len() != 3 { continue; }
        let entry = match f[0] { "S" => Entry::Store, "R" => Entry::Range, "B" => Entry::Bulk, _ => return None };
        ops.push(Op { entry, s: f[1].parse().ok()?, e: f[2].parse().ok()? });
    }
    Some((t[1].to_string(), mask, data, ops))
}

// ---------------------------------------------------------------------------------------------

#[path = "hasher_flm.rs"]
mod flm;
#[path = "hasher_cbr.rs"]
mod cbr;
#[path = "hasher_catable.rs"]
mod catable;

pub fn run_cmd(args: &Args) {
    if args.rest.first().map(|x| x.as_str()) == Some("flm") {
        return flm::run(args);
    }
    if args.rest.first().map(|x| x.as_str()) == Some("cbr") {
        return cbr::run(args);
    }
    if args.rest.first().map(|x| x.as_str()) == Some("catable") {
        return catable::run(args);
    }
    let thorough = args.tier == "thorough";
    let seed = args.seed;
    std::panic::set_hook(Box::new(|_| {}));
    let mut corr = Corr::new(&args.out);
    let mut rep = Report::default();

    let mut kinds = selected_kinds(thorough);
    for k in &kinds {
        rep.sample(format!("{} model={} tables={}B selected by {}", k.variant, k.spec.as_deref().unwrap_or("-"), k.table_bytes, k.selected_by.join(" | ")));
    }
    rep.add("kinds.selected", kinds.len() as u64);
    kinds.extend(small_kinds());
    rep.add("kinds.total", kinds.len() as u64);

    // corpus first
    let corpus_dir = std::path::Path::new("/verif/corpus/hasher");
    if let Ok(rd) = std::fs::read_dir(corpus_dir) {
        let mut files: Vec<_> = rd.filter_map(|e| e.ok()).map(|e| e.path()).collect();
        files.sort();
        for f in files {
            let txt = std::fs::read_to_string(&f).unwrap_or_default();
            for line in txt.lines().filter(|l| !l.starts_with('#') && !l.trim().is_empty()) {
                if let Some((spec, mask, data, ops)) = parse_line(line) {
                    if let Some(kind) = kinds.iter().find(|k| k.spec.as_deref() == Some(spec.as_str())) {
                        let pieces: Vec<Op> = ops.iter().filter(|o| o.entry != Entry::Store).cloned().collect();
                        if pieces.is_empty() { continue; }
                        let case = Case { data, mask, pieces, gen: "corpus" };
                        let bytes = case.data.bytes();
                        let a = build(&kind.build);
                        let b = build(&kind.build);
                        let mut pair = Pair { kind: kind.clone(), a, b };
                        run_case(&mut pair, &case, &bytes, &mut rep, seed);
                        rep.count("corpus.cases");
                        let lines_ops: Vec<(Option<Op>, bool)> = ops.iter().map(|o| (Some(o.clone()), false)).collect();
                        if let Some((rq, an)) = corr_line(kind, &case.data, mask, &lines_ops) { corr.case(&rq, &an); }
                    }
                }
            }
        }
    }

    if args.rest.iter().any(|x| x == "corpus-only") {
        corr.finish();
        rep.write(&args.out);
        return;
    }
    // one task per (kind, shard); the budget of a kind shrinks with its table size
    let scale: usize = if thorough { 12 } else { 1 };
    let mut tasks: Vec<(Kind, usize, usize)> = vec![];
    for k in &kinds {
        let shards = if k.table_bytes > (4 << 20) { 4 } else { 2 };
        for sh in 0..shards {
            tasks.push((k.clone(), sh, shards));
        }
    }
    let ntasks = tasks.len();
    let results = par_tasks(ntasks, move |i| {
        let (kind, sh, shards) = tasks[i].clone();
        let mut rng = Rng::new(seed ^ 0xC19 ^ ((i as u64) << 20));
        let mut rep = Report::default();
        let mut lines: Vec<(String, String)> = vec![];
        // budgets (cases per shard): compare cost ~ table_bytes
        let big = kind.table_bytes > (4 << 20);
        let mid = kind.table_bytes > (600 << 10);
        let b_short = (if big { 700 } else if mid { 6000 } else { 40000 }) * scale / shards * 2;
        let b_ring = (if big { 500 } else if mid { 3000 } else { 12000 }) * scale / shards * 2;
        let b_long = (if big { 120 } else if mid { 300 } else { 600 }) * scale / shards * 2;
        let b_rep = (if big { 2 } else { 4 }) * scale;
        let b_short = if kind.family == Family::H10 { b_short / 8 } else { b_short };
        let mut cases: Vec<Case> = vec![];
        gen_short_nomask(&kind, &mut rng, b_short, &mut cases);
        gen_short_ring(&kind, &mut rng, b_ring, &mut cases);
        gen_long(&kind, &mut rng, b_long, &mut cases);
        gen_rep(&kind, &mut rng, b_rep, &mut cases);
        let a = build(&kind.build);
        let mut alloc = StandardAlloc::default();
        let b = a.clone_with_alloc(&mut alloc);
        let mut pair = Pair { kind: kind.clone(), a, b };
        check_clone(&pair, &mut rep, seed);
        let ncorr_target = if big { 10 } else if mid { 60 } else { 250 } * scale.min(4);
        let every = (cases.len() / ncorr_target.max(1)).max(1);
        let mut last_data: Option<(DataSpec, Vec<u8>)> = None;
        for (ci, case) in cases.iter().enumerate() {
            // avoid re-materialising identical data
            let bytes: Vec<u8> = match (&last_data, &case.data) {
                (Some((DataSpec::Bytes(p), b)), DataSpec::Bytes(q)) if p.len() == q.len() && p == q => b.clone(),
                _ => case.data.bytes(),
            };
            last_data = Some((case.data.clone(), bytes.clone()));
            run_case(&mut pair, case, &bytes, &mut rep, seed);
            if ci % 997 == 0 { check_clone(&pair, &mut rep, seed); }
            if ci % every == 0 { corr_for_case(&kind, case, &mut rng, &mut lines); }
        }
        check_clone(&pair, &mut rep, seed);
        let _ = sh;
        (lines, rep)
    });
    // at most 2 violations per signature in the report (the counters `viol.<signature>` hold the totals)
    let mut per_sig: std::collections::BTreeMap<String, usize> = Default::default();
    for (lines, mut r) in results {
        for (rq, an) in lines { corr.case(&rq, &an); }
        let vs = std::mem::take(&mut r.violations);
        rep.merge(r);
        for v in vs {
            let c = per_sig.entry(v.signature.clone()).or_insert(0);
            *c += 1;
            if *c <= 2 { rep.violations.push(v); }
        }
    }
    corr.finish();
    rep.write(&args.out);
}
