//! Second, independent decoder oracle: Google libbrotlidec 1.0.9, loaded with dlopen
//! (RTLD_LOCAL | RTLD_DEEPBIND) so that its symbols cannot clash with the ffi-api symbols
//! exported by the crate under test.
use std::ffi::{c_char, c_int, c_void, CString};
use std::sync::OnceLock;

extern "C" {
    fn dlopen(filename: *const c_char, flag: c_int) -> *mut c_void;
    fn dlsym(handle: *mut c_void, symbol: *const c_char) -> *mut c_void;
}
const RTLD_NOW: c_int = 2;
const RTLD_LOCAL: c_int = 0;
const RTLD_DEEPBIND: c_int = 8;

type CreateFn = unsafe extern "C" fn(*mut c_void, *mut c_void, *mut c_void) -> *mut c_void;
type SetParamFn = unsafe extern "C" fn(*mut c_void, c_int, u32) -> c_int;
type StreamFn = unsafe extern "C" fn(*mut c_void, *mut usize, *mut *const u8, *mut usize, *mut *mut u8, *mut usize) -> c_int;
type DestroyFn = unsafe extern "C" fn(*mut c_void);
type IsFinishedFn = unsafe extern "C" fn(*mut c_void) -> c_int;

struct Lib {
    create: CreateFn,
    set_param: SetParamFn,
    stream: StreamFn,
    destroy: DestroyFn,
    is_finished: IsFinishedFn,
}
unsafe impl Sync for Lib {}
unsafe impl Send for Lib {}
static LIB: OnceLock<Option<Lib>> = OnceLock::new();

fn lib() -> Option<&'static Lib> {
    LIB.get_or_init(|| unsafe {
        let mut h = std::ptr::null_mut();
        for name in ["libbrotlidec.so.1", "/usr/lib/x86_64-linux-gnu/libbrotlidec.so.1.0.9"] {
            let c = CString::new(name).unwrap();
            h = dlopen(c.as_ptr(), RTLD_NOW | RTLD_LOCAL | RTLD_DEEPBIND);
            if !h.is_null() { break; }
        }
        if h.is_null() { return None; }
        let sym = |n: &str| { let c = CString::new(n).unwrap(); dlsym(h, c.as_ptr()) };
        let (a, b, c, d, e) = (sym("BrotliDecoderCreateInstance"), sym("BrotliDecoderSetParameter"), sym("BrotliDecoderDecompressStream"), sym("BrotliDecoderDestroyInstance"), sym("BrotliDecoderIsFinished"));
        if a.is_null() || b.is_null() || c.is_null() || d.is_null() || e.is_null() { return None; }
        Some(Lib { create: std::mem::transmute(a), set_param: std::mem::transmute(b), stream: std::mem::transmute(c), destroy: std::mem::transmute(d), is_finished: std::mem::transmute(e) })
    }).as_ref()
}

pub fn available() -> bool { lib().is_some() }

#[derive(Debug, PartialEq)]
pub enum GResult { Ok(Vec<u8>), Error, NeedsMoreInput(Vec<u8>), TooBig }

/// Decode `data` completely; `large_window` enables the large-window extension.
/// `max_out` bounds the output (guard against runaway).
pub fn decode(data: &[u8], large_window: bool, max_out: usize) -> GResult {
    let l = match lib() { Some(l) => l, None => return GResult::Error };
    unsafe {
        let st = (l.create)(std::ptr::null_mut(), std::ptr::null_mut(), std::ptr::null_mut());
        if st.is_null() { return GResult::Error; }
        if large_window { (l.set_param)(st, 1, 1); }
        let mut out: Vec<u8> = Vec::new();
        let mut buf = vec![0u8; 1 << 13];
        let mut avail_in = data.len();
        let mut next_in = data.as_ptr();
        let res;
        loop {
            let mut avail_out = buf.len();
            let mut next_out = buf.as_mut_ptr();
            let mut total = 0usize;
            let r = (l.stream)(st, &mut avail_in, &mut next_in, &mut avail_out, &mut next_out, &mut total);
            let produced = buf.len() - avail_out;
            out.extend_from_slice(&buf[..produced]);
            if out.len() > max_out { res = GResult::TooBig; break; }
            match r {
                1 => { res = if avail_in == 0 { GResult::Ok(out) } else { GResult::Error }; break; } // success; trailing garbage = error
                2 => { res = GResult::NeedsMoreInput(out); break; }
                3 => continue,
                _ => { res = GResult::Error; break; }
            }
        }
        (l.destroy)(st);
        res
    }
}
