use std::fs::File;
use std::io::{BufWriter, Write};
use std::path::{Path, PathBuf};

pub const FNV_INIT: u64 = 0xcbf29ce484222325;
#[inline]
pub fn fnv_step(h: u64, v: u64) -> u64 {
    (h ^ v).wrapping_mul(0x100000001b3)
}

pub fn hex(b: &[u8]) -> String {
    if b.is_empty() {
        return "-".to_string();
    }
    const H: &[u8; 16] = b"0123456789abcdef";
    let mut s = Vec::with_capacity(b.len() * 2);
    for x in b {
        s.push(H[(x >> 4) as usize]);
        s.push(H[(x & 15) as usize]);
    }
    unsafe { String::from_utf8_unchecked(s) }
}
pub fn unhex(s: &str) -> Vec<u8> {
    if s == "-" {
        return vec![];
    }
    (0..s.len() / 2).map(|i| u8::from_str_radix(&s[2 * i..2 * i + 2], 16).unwrap()).collect()
}

/// Output of a correspondence run: `ops.txt` (requests for the Lean driver) and
/// `impl.txt` (what the implementation answered), line for line.
pub struct Corr {
    pub ops: BufWriter<File>,
    pub imp: BufWriter<File>,
    pub n: u64,
}
impl Corr {
    pub fn new(dir: &Path) -> Self {
        std::fs::create_dir_all(dir).unwrap();
        Corr {
            ops: BufWriter::new(File::create(dir.join("ops.txt")).unwrap()),
            imp: BufWriter::new(File::create(dir.join("impl.txt")).unwrap()),
            n: 0,
        }
    }
    pub fn case(&mut self, op: &str, answer: &str) {
        writeln!(self.ops, "{}", op).unwrap();
        writeln!(self.imp, "{}", answer).unwrap();
        self.n += 1;
    }
    pub fn finish(mut self) {
        self.ops.flush().unwrap();
        self.imp.flush().unwrap();
    }
}

/// Findings of the search stage (property oracle on the real code) and coverage counters.
#[derive(Default)]
pub struct Report {
    pub evaluations: u64,
    pub nontrivial: u64,
    pub counters: std::collections::BTreeMap<String, u64>,
    pub samples: Vec<String>,
    pub violations: Vec<Violation>,
}
pub struct Violation {
    pub signature: String, // what known_findings.jsonl matches on
    pub what: String,
    pub case: String, // json object text
}
impl Report {
    pub fn count(&mut self, k: &str) {
        *self.counters.entry(k.to_string()).or_insert(0) += 1;
    }
    pub fn add(&mut self, k: &str, n: u64) {
        *self.counters.entry(k.to_string()).or_insert(0) += n;
    }
    pub fn sample(&mut self, s: String) {
        if self.samples.len() < 6 {
            self.samples.push(s);
        }
    }
    pub fn violation(&mut self, signature: &str, what: &str, case_json: String) {
        if self.violations.len() < 50 {
            self.violations.push(Violation { signature: signature.to_string(), what: what.to_string(), case: case_json });
        }
    }
    pub fn write(&self, dir: &Path) {
        let mut s = String::new();
        s.push_str("{\n");
        s.push_str(&format!(" \"evaluations\": {},\n \"nontrivial\": {},\n", self.evaluations, self.nontrivial));
        s.push_str(" \"counters\": {");
        let mut first = true;
        for (k, v) in &self.counters {
            if !first { s.push(','); }
            first = false;
            s.push_str(&format!("{}: {}", jstr(k), v));
        }
        s.push_str("},\n \"samples\": [");
        s.push_str(&self.samples.iter().map(|x| jstr(x)).collect::<Vec<_>>().join(","));
        s.push_str("],\n \"violations\": [");
        s.push_str(&self.violations.iter().map(|v| format!("{{\"signature\": {}, \"what\": {}, \"case\": {}}}", jstr(&v.signature), jstr(&v.what), v.case)).collect::<Vec<_>>().join(",\n  "));
        s.push_str("]\n}\n");
        std::fs::write(dir.join("report.json"), s).unwrap();
        // line-based twin, for merging shard reports without a JSON parser
        let mut t = format!("E\t{}\t{}\n", self.evaluations, self.nontrivial);
        for (k, v) in &self.counters { t.push_str(&format!("C\t{}\t{}\n", k, v)); }
        for x in &self.samples { t.push_str(&format!("S\t{}\n", x.replace('\n', " ").replace('\t', " "))); }
        for v in &self.violations { t.push_str(&format!("V\t{}\t{}\t{}\n", v.signature, v.what.replace('\n', " ").replace('\t', " "), v.case.replace('\n', " ").replace('\t', " "))); }
        std::fs::write(dir.join("report.tsv"), t).unwrap();
    }
    pub fn merge_tsv(&mut self, txt: &str) {
        for l in txt.lines() {
            let f: Vec<&str> = l.split('\t').collect();
            match f[0] {
                "E" => { self.evaluations += f[1].parse().unwrap_or(0); self.nontrivial += f[2].parse().unwrap_or(0); }
                "C" => self.add(f[1], f[2].parse().unwrap_or(0)),
                "S" => self.sample(f[1].to_string()),
                "V" => self.violation(f[1], f[2], f[3].to_string()),
                _ => {}
            }
        }
    }
}
pub fn jstr(s: &str) -> String {
    let mut o = String::from("\"");
    for c in s.chars() {
        match c {
            '"' => o.push_str("\\\""),
            '\\' => o.push_str("\\\\"),
            '\n' => o.push_str("\\n"),
            '\t' => o.push_str("\\t"),
            c if (c as u32) < 0x20 => o.push_str(&format!("\\u{:04x}", c as u32)),
            c => o.push(c),
        }
    }
    o.push('"');
    o
}

pub struct Args {
    pub cmd: String,
    pub tier: String,
    pub seed: u64,
    pub out: PathBuf,
    pub rest: Vec<String>,
}
pub fn parse_args() -> Args {
    let a: Vec<String> = std::env::args().collect();
    let mut args = Args { cmd: a.get(1).cloned().unwrap_or_default(), tier: "quick".into(), seed: 1, out: PathBuf::from("."), rest: vec![] };
    let mut i = 2;
    while i < a.len() {
        match a[i].as_str() {
            "--tier" => { args.tier = a[i + 1].clone(); i += 2; }
            "--seed" => { args.seed = a[i + 1].parse().unwrap_or(1); i += 2; }
            "--out" => { args.out = PathBuf::from(&a[i + 1]); i += 2; }
            _ => { args.rest.push(a[i].clone()); i += 1; }
        }
    }
    args
}

impl Report {
    pub fn merge(&mut self, o: Report) {
        self.evaluations += o.evaluations;
        self.nontrivial += o.nontrivial;
        for (k, v) in o.counters { *self.counters.entry(k).or_insert(0) += v; }
        for x in o.samples { self.sample(x); }
        for v in o.violations { if self.violations.len() < 50 { self.violations.push(v); } }
    }
}

/// run `f(0..n)` on 16 threads, results in index order
pub fn par_tasks<T: Send + 'static, F: Fn(usize) -> T + Send + Sync + 'static>(n: usize, f: F) -> Vec<T> {
    use std::sync::{Arc, Mutex};
    let f = Arc::new(f);
    let next = Arc::new(Mutex::new(0usize));
    let results: Arc<Mutex<Vec<Option<T>>>> = Arc::new(Mutex::new((0..n).map(|_| None).collect()));
    let mut hs = vec![];
    let nt = std::env::var("VERIF_THREADS").ok().and_then(|x| x.parse().ok()).unwrap_or(16usize);
    for _ in 0..nt.min(n.max(1)) {
        let (f, next, results) = (f.clone(), next.clone(), results.clone());
        hs.push(std::thread::Builder::new().stack_size(64 << 20).spawn(move || loop {
            let i = { let mut g = next.lock().unwrap(); let i = *g; *g += 1; i };
            if i >= n { break; }
            let r = f(i);
            results.lock().unwrap()[i] = Some(r);
        }).unwrap());
    }
    for h in hs { let _ = h.join(); }
    let mut g = results.lock().unwrap();
    g.drain(..).map(|x| x.expect("task panicked")).collect()
}
