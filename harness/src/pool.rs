//! C07 (and the schedule half of C06): the real worker pool under the deterministic scheduler
//! shim (`brotli::enc::verif_sched`, compiled only with --cfg brotli_verif).
//!
//! A scenario = number of workers + submitter program (`s<idx>` spawn, `j<k>` join the k-th
//! spawn, `u` check that the shared input can be retrieved, `d` drop the pool) + a schedule
//! chosen online from one PRNG state.  The recorded schedule and the per-step trace go to the
//! Lean model (`pool <n> <prog> <sched>`); the oracles judge the implementation alone.
use crate::prng::Rng;
use crate::util::*;
use alloc_stdlib::StandardAlloc;
use brotli::enc::fixed_queue::FixedQueue;
use brotli::enc::threading::{BatchSpawnableLite, InternalSendAlloc, Joinable, Owned, SendAlloc};
use brotli::enc::verif_sched as vs;
use brotli::enc::worker_pool::WorkerPool;
use std::sync::atomic::{AtomicU64, Ordering};
use std::sync::{Arc, Mutex, RwLock, Weak};

static RUNS: [AtomicU64; 256] = { const Z: AtomicU64 = AtomicU64::new(0); [Z; 256] };

fn job(_extra: u64, index: usize, _n: usize, _data: &Vec<u8>, _a: StandardAlloc) -> u64 {
    vs::yield_now(); // yield point "start of the job function"
    RUNS[index % 256].fetch_add(1, Ordering::SeqCst);
    index as u64
}

#[derive(Clone, Debug)]
pub enum Op { Spawn(usize), Join(usize), Unwrap, Drop }
fn prog_str(p: &[Op]) -> String {
    p.iter().map(|o| match o { Op::Spawn(i) => format!("s{}", i), Op::Join(k) => format!("j{}", k), Op::Unwrap => "u".into(), Op::Drop => "d".into() }).collect::<Vec<_>>().join(",")
}

pub struct Outcome { pub sched: Vec<String>, pub trace: Vec<String>, pub end: String, pub joins: Vec<(usize, u64)>, pub unwraps: Vec<bool>, pub panicked: bool }

type Pool = WorkerPool<u64, u64, StandardAlloc, Vec<u8>>;

pub fn run_scenario(n: usize, prog: &[Op], seed: u64, spurious_pct: u64, sticky_pct: u64) -> Outcome {
    for r in RUNS.iter() { r.store(0, Ordering::SeqCst); }
    let mut rng = Rng::new(seed);
    let mut last: Option<usize> = None;
    let chooser: vs::Chooser = Box::new(move |run: &[usize], wait: &[usize]| {
        if !wait.is_empty() && rng.below(100) < spurious_pct {
            return Some(vs::Choice::Wake(wait[rng.below(wait.len() as u64) as usize]));
        }
        if run.is_empty() { return None; }
        if let Some(l) = last { if run.contains(&l) && rng.below(100) < sticky_pct { return Some(vs::Choice::Run(l)); } }
        let t = run[rng.below(run.len() as u64) as usize];
        last = Some(t);
        Some(vs::Choice::Run(t))
    });
    let weak: Arc<Mutex<Option<Weak<RwLock<Vec<u8>>>>>> = Arc::new(Mutex::new(None));
    let w2 = weak.clone();
    let extra = Box::new(move || {
        let c = match *w2.lock().unwrap() { Some(ref w) => w.strong_count(), None => 1 };
        format!(",{}", c)
    });
    let mut joins = vec![];
    let mut unwraps = vec![];
    vs::install(chooser, extra);
    let body = std::panic::catch_unwind(std::panic::AssertUnwindSafe(|| {
        // leaked on purpose: unwinding out of a stuck scenario must not run the pool's Drop
        let pool: &'static mut Option<Pool> = Box::leak(Box::new(Some(WorkerPool::new(n))));
        let mut owned = Owned::new(vec![1u8, 2, 3]);
        let mut locked = pool.as_mut().unwrap().make_spawner(&mut owned);
        *weak.lock().unwrap() = Some(Arc::downgrade(&locked));
        let mut handles: Vec<Option<SendAlloc<u64, u64, StandardAlloc, <Pool as BatchSpawnableLite<u64, u64, StandardAlloc, Vec<u8>>>::JoinHandle>>> = vec![];
        let mut idx_of: Vec<usize> = vec![];
        for op in prog {
            match op {
                Op::Spawn(idx) => {
                    let mut work = SendAlloc::new(StandardAlloc::default(), *idx as u64);
                    pool.as_mut().unwrap().spawn(&mut locked, &mut work, *idx, 1, job);
                    handles.push(Some(work));
                    idx_of.push(*idx);
                }
                Op::Join(k) => {
                    let w = handles[*k].take().unwrap();
                    if let InternalSendAlloc::Join(j) = w.0 {
                        let v = j.join().unwrap();
                        vs::event(&format!("={}", v), None);
                        joins.push((idx_of[*k], v));
                    }
                }
                Op::Unwrap => {
                    vs::yield_now();
                    let ok = Arc::strong_count(&locked) == 1;
                    vs::event(if ok { "u1" } else { "u0" }, None);
                    unwraps.push(ok);
                }
                Op::Drop => { drop(pool.take()); }
            }
        }
        vs::finish_submitter();
    }));
    let (sched, trace, stuck) = vs::uninstall();
    let panicked = (body.is_err() && !stuck) || trace.iter().any(|t| t.contains("PANIC"));
    let end = if panicked { "panic".to_string() } else if stuck { "end:stuck".to_string() } else { "end:done".to_string() };
    Outcome { sched, trace, end, joins, unwraps, panicked }
}

fn gen_prog(rng: &mut Rng, thorough: bool) -> Vec<Op> {
    let mut p = vec![];
    let batches = rng.range(1, if thorough { 4 } else { 3 });
    let mut next_idx = 0usize;
    let mut nspawn = 0usize;
    for _ in 0..batches {
        let k = match rng.below(8) { 0 => 15, 1 => 16, 2 => rng.range(8, 14), _ => rng.range(1, 6) } as usize;
        let mut ids = vec![];
        // interleave spawns and joins: joins only of already spawned, all joined at batch end
        let mut pending: Vec<usize> = vec![];
        let mut spawned = 0;
        while spawned < k || !pending.is_empty() {
            let can_spawn = spawned < k;
            if can_spawn && (pending.is_empty() || rng.chance(2, 3)) {
                p.push(Op::Spawn(next_idx)); next_idx += 1; pending.push(nspawn); ids.push(nspawn); nspawn += 1; spawned += 1;
            } else {
                let i = rng.below(pending.len() as u64) as usize;
                let h = pending.remove(i);
                p.push(Op::Join(h));
            }
        }
        if rng.chance(3, 4) { p.push(Op::Unwrap); }
    }
    p.push(Op::Drop);
    if rng.chance(1, 3) { p.push(Op::Unwrap); }
    p
}

pub fn run_cmd(args: &Args) {
    // sharded over child processes: the shim is process-global
    if args.rest.get(0).map(|s| s.as_str()) == Some("shard") {
        let shard: u64 = args.rest[1].parse().unwrap();
        let nshards: u64 = args.rest[2].parse().unwrap();
        return run_shard(args, shard, nshards);
    }
    let nshards = 16u64;
    let exe = std::env::current_exe().unwrap();
    let mut kids = vec![];
    for s in 0..nshards {
        let d = args.out.join(format!("shard{}", s));
        std::fs::create_dir_all(&d).unwrap();
        kids.push((s, d.clone(), std::process::Command::new(&exe).args(["pool", "--tier", &args.tier, "--seed", &args.seed.to_string(), "--out", d.to_str().unwrap(), "shard", &s.to_string(), &nshards.to_string()]).spawn().unwrap()));
    }
    let mut corr = Corr::new(&args.out);
    let mut rep = Report::default();
    for (s, d, mut k) in kids {
        let deadline = std::time::Instant::now() + std::time::Duration::from_secs(if args.tier == "thorough" { 3000 } else { 600 });
        let mut status = None;
        while std::time::Instant::now() < deadline {
            if let Ok(Some(st)) = k.try_wait() { status = Some(st); break; }
            std::thread::sleep(std::time::Duration::from_millis(50));
        }
        if status.is_none() { let _ = k.kill(); }
        let ok = status.map(|s| s.success()).unwrap_or(false);
        if let (Ok(o), Ok(i)) = (std::fs::read_to_string(d.join("ops.txt")), std::fs::read_to_string(d.join("impl.txt"))) {
            for (a, b) in o.lines().zip(i.lines()) { corr.case(a, b); }
        }
        if let Ok(r) = std::fs::read_to_string(d.join("report.tsv")) { rep.merge_tsv(&r); }
        if !ok {
            let last = std::fs::read_to_string(d.join("current.txt")).unwrap_or_default();
            rep.violation("pool:hang-or-crash", "a pool scenario did not terminate (real deadlock / lost baton) or crashed the process", format!("{{\"shard\":{},\"scenario\":{}}}", s, jstr(&last)));
        }
    }
    rep.sample("pool 2 s0,s1,j1,j0,u,d 0,0,1,2,1,2,1,2,0,0,0,0,1,2,0 -> 0s0:1,0,0,2 0s1:2,0,0,3 1p0:1,1,0,3 ... end:done".into());
    corr.finish();
    rep.write(&args.out);
}

fn run_shard(args: &Args, shard: u64, nshards: u64) {
    let thorough = args.tier == "thorough";
    let mut corr = Corr::new(&args.out);
    let mut rep = Report::default();
    // watchdog: a scenario that makes no progress for 20 s kills the shard (reported by the parent)
    let beat = Arc::new(AtomicU64::new(0));
    { let beat = beat.clone(); std::thread::spawn(move || { let mut last = 0; let mut idle = 0; loop { std::thread::sleep(std::time::Duration::from_secs(1)); let b = beat.load(Ordering::SeqCst); if b == last { idle += 1; if idle > 20 { std::process::exit(3); } } else { idle = 0; last = b; } } }); }
    // ---- FixedQueue op sequences
    let nfq = if thorough { 4000 } else { 400 };
    for i in 0..nfq {
        let mut rng = Rng::new(args.seed ^ 0xF1F0 ^ (shard << 40) ^ (i << 8));
        let mut q: FixedQueue<u64> = FixedQueue::new();
        let mut shadow: Vec<u64> = vec![];
        let len = rng.range(1, 60);
        let mut ops = vec![]; let mut ans = vec![];
        for _ in 0..len {
            match rng.below(if shadow.len() > 12 { 4 } else { 3 }) {
                0 | 1 if rng.chance(3, 4) || shadow.len() < 3 => { let v = rng.below(20); ops.push(format!("p{}", v)); match q.push(v) { Ok(()) => { ans.push("ok".to_string()); shadow.push(v); } Err(()) => { ans.push("err".into()); if shadow.len() != 16 { rep.violation("fq:push-refused", "push failed on a non-full queue", format!("{{\"ops\":{}}}", jstr(&ops.join(",")))); } } } }
                2 => { ops.push("o".into()); let r = q.pop(); let exp = if shadow.is_empty() { None } else { Some(shadow.remove(0)) }; if r != exp { rep.violation("fq:pop-wrong", "pop did not return the oldest item", format!("{{\"ops\":{}}}", jstr(&ops.join(",")))); } ans.push(r.map(|v| v.to_string()).unwrap_or("none".into())); }
                _ => { let v = rng.below(20); ops.push(format!("r{}", v)); let r = q.remove(|x| *x == Some(v)); let pos = shadow.iter().position(|x| *x == v); let exp = pos.map(|p| { let x = shadow[p]; if p != 0 { shadow[p] = shadow[0]; } shadow.remove(0); x }); if r != exp { rep.violation("fq:remove-wrong", "remove did not return the first matching item", format!("{{\"ops\":{}}}", jstr(&ops.join(",")))); } ans.push(r.map(|v| v.to_string()).unwrap_or("none".into())); }
            }
            if q.size() != shadow.len() { rep.violation("fq:size", "size differs from the number of stored items", format!("{{\"ops\":{}}}", jstr(&ops.join(",")))); }
        }
        ans.push(format!("size={}", q.size()));
        corr.case(&format!("fq {}", ops.join(",")), &ans.join(" "));
        rep.evaluations += 1; rep.nontrivial += 1;
        rep.count("fq.sequences");
    }
    // ---- pool scenarios
    let total = if thorough { 6000 } else { 640 };
    let mine = total / nshards;
    for i in 0..mine {
        let sid = shard * mine + i;
        let mut rng = Rng::new(args.seed ^ 0x9001 ^ (sid << 16));
        let n = match rng.below(10) { 0 => rng.range(5, 16), _ => rng.range(1, 4) } as usize;
        let prog = gen_prog(&mut rng, thorough);
        let spurious = *rng.pick(&[0u64, 0, 5, 15, 30]);
        let sticky = *rng.pick(&[0u64, 50, 90]);
        let line = format!("pool {} {}", n, prog_str(&prog));
        std::fs::write(args.out.join("current.txt"), format!("{} seed={} spurious={} sticky={}", line, sid, spurious, sticky)).ok();
        let o = run_scenario(n, &prog, args.seed ^ (sid << 8), spurious, sticky);
        beat.fetch_add(1, Ordering::SeqCst);
        let sched = if o.sched.is_empty() { "-".to_string() } else { o.sched.join(",") };
        let mut ans = o.trace.join(" ");
        if !o.panicked { ans.push(' '); ans.push_str(&o.end); }
        corr.case(&format!("{} {}", line, sched), ans.trim());
        rep.evaluations += 1;
        rep.count(&format!("workers.{}", if n > 4 { "5-16".to_string() } else { n.to_string() }));
        rep.add("steps", o.sched.len() as u64);
        if o.sched.iter().any(|s| s.starts_with('w')) { rep.count("with_spurious_wakeups"); }
        if o.trace.iter().any(|t| t.contains("w:")) { rep.count("with_condvar_waits"); }
        let case = format!("{{\"workers\":{},\"program\":{},\"schedule\":{},\"trace\":{}}}", n, jstr(&prog_str(&prog)), jstr(&sched), jstr(&o.trace.join(" ")));
        // ---- oracles on the implementation
        if o.panicked { rep.violation("pool:panic", "a pool thread or the submitter panicked", case.clone()); continue; }
        if o.end != "end:done" { rep.violation("pool:deadlock", "no thread can run although work is outstanding (deadlock / lost wake-up)", case.clone()); continue; }
        let mut nsp = 0;
        for op in &prog { if let Op::Spawn(idx) = op { nsp += 1; let r = RUNS[*idx % 256].load(Ordering::SeqCst); if r != 1 { rep.violation("pool:not-exactly-once", &format!("job with index {} was executed {} times", idx, r), case.clone()); } } }
        for (idx, v) in &o.joins { if *idx as u64 != *v { rep.violation("pool:misrouted-result", &format!("join of the job with index {} returned the result of job {}", idx, v), case.clone()); } }
        // every `u` in these programs comes after all spawned jobs were joined
        if o.unwraps.iter().any(|x| !*x) { rep.violation("pool:input-not-returned", "the shared input still had other owners after all jobs were joined", case.clone()); }
        if nsp > 0 { rep.nontrivial += 1; }
        if rep.samples.len() < 3 { rep.sample(format!("{} {} -> {}", line, sched, ans.chars().take(200).collect::<String>())); }
    }
    corr.finish();
    rep.write(&args.out);
}
