//! engine `adapters` (C11): CompressorWriter / CompressorReader / BrotliCompress* over scripted
//! wrapped streams.
//!
//! A *case* = adapter kind + own-buffer size(s) + encoder settings + script of the wrapped stream
//! (per raw call: F full, S<k> at most k bytes, I Interrupted, E<c> hard error, Z Ok(0); then a
//! tail behaviour that lasts forever) + the caller's call list.  Three runs per case:
//!   real    the adapter of /repo over `ScriptedWrite`/`ScriptedRead` and a counting own-buffer
//!           (`slice_mut()` calls are counted: loop structure, and the livelock bound),
//!   mirror  a transcription of the Lean model (BV/Model/Adapters.lean) over a *shadow* encoder
//!           with the same settings; it records every encoder call -> the `<trace>` the Lean
//!           driver replays; every recorded answer is checked against the oracle hypotheses,
//!   ideal   the real adapter over a wrapped stream that never misbehaves (reference bytes).
//! Correspondence line: see BV/Drive/Adapters.lean.  Non-trivial case (rule): at least one
//! non-`F` behaviour was actually consumed by the real run, or a caller size / buffer size of
//! 0/1 was used; counted once per distinct case.
//!
//! Oracles on the real run (search stage): every call returns (livelock = more than LIMIT loop
//! iterations, detected by counting, never by wall-clock); a hard error or zero-length write of
//! the wrapped stream makes the enclosing write/flush/read/copy call return Err; the copy
//! function reports the first read error; bytes handed over up to the first failing call are a
//! prefix of the ideal run's bytes and equal to them when every call succeeded; the sink then
//! decodes (crate::dec) to everything written.
//! Pair oracle (`pair_case`; all of it under `bvh adapters c05`, a light subset in the main run): same source,
//! settings and own-buffer size (1, 7, 100, 4095, 4096, 4196, 65537) x quality 0/1/2/5 x lgwin 10/16/22, the
//! CompressorReader drained with caller read sizes 8192 vs all-1 / an odd cycle / random / huge => identical
//! bytes (`adapters:reader-bytes-depend-on-read-sizes`); the CompressorWriter (quality >= 2, size_hint set) fed
//! with the same write-size schedules => identical bytes (`adapters:writer-bytes-depend-on-write-sizes`).
//! Corpus: /verif/corpus/adapters/*.txt, one request line per file (format of ops.txt), run first.
use crate::prng::Rng;
use crate::util::*;
use alloc_no_stdlib::{SliceWrapper, SliceWrapperMut};
use alloc_stdlib::StandardAlloc;
use brotli::enc::encode::{BrotliEncoderOperation as EOp, BrotliEncoderParameter as P, BrotliEncoderStateStruct};
use brotli::enc::BrotliEncoderParams;
use brotli::{CustomRead, CustomWrite, IntoIoReader};
use brotli::enc::writer::IntoIoWriter;
use std::cell::Cell;
use std::io::{self, ErrorKind, Read, Write};
use std::panic::{catch_unwind, AssertUnwindSafe};
use std::rc::Rc;

pub const LIMIT: u64 = 2500; // loop iterations per adapter call (= `fuel` of the Lean driver)

// ------------------------------------------------------------------ scripts
#[derive(Clone, Copy, Debug, PartialEq)]
pub enum Beh { F, S(usize), I, E(u32), Z }
fn beh_str(b: &Beh) -> String { match b { Beh::F => "F".into(), Beh::S(k) => format!("S{}", k), Beh::I => "I".into(), Beh::E(c) => format!("E{}", c), Beh::Z => "Z".into() } }
fn script_str(s: &[Beh]) -> String { if s.is_empty() { "-".into() } else { s.iter().map(beh_str).collect::<Vec<_>>().join(",") } }
fn parse_beh(t: &str) -> Beh { match t.as_bytes()[0] { b'F' => Beh::F, b'I' => Beh::I, b'Z' => Beh::Z, b'S' => Beh::S(t[1..].parse().unwrap()), b'E' => Beh::E(t[1..].parse().unwrap()), _ => panic!("bad beh {}", t) } }
fn parse_script(s: &str) -> Vec<Beh> { if s == "-" { vec![] } else { s.split(',').map(parse_beh).collect() } }

#[derive(Clone, Copy, Debug, PartialEq)]
pub enum Res { N(usize), I, E(u32) }
fn res_code(r: &Res) -> u64 { match r { Res::N(k) => 4 * *k as u64, Res::I => 1, Res::E(c) => 4 * *c as u64 + 2 } }
#[derive(Clone, Debug)]
pub struct LogE { kind: u8, req: usize, res: Res }
fn log_hash(log: &[LogE]) -> u64 { let mut h = FNV_INIT; for e in log { h = fnv_step(h, e.kind as u64); h = fnv_step(h, e.req as u64); h = fnv_step(h, res_code(&e.res)); } h }
fn log_str(log: &[LogE]) -> String { log.iter().map(|e| format!("{}{}:{}", ["w", "r", "f"][e.kind as usize], e.req, match e.res { Res::N(k) => k.to_string(), Res::I => "I".into(), Res::E(c) => format!("E{}", c) })).collect::<Vec<_>>().join(" ") }

struct Livelock;
fn mkerr(c: u32) -> io::Error { io::Error::new(ErrorKind::Other, format!("E{}", c)) }
fn err_tok(e: &io::Error) -> String {
    match e.kind() { ErrorKind::WriteZero => "WZ".into(), ErrorKind::InvalidData => "ID".into(), ErrorKind::UnexpectedEof => "UE".into(), ErrorKind::Other => e.to_string(), k => format!("?{:?}", k) }
}

/// behaviour of the next raw call
fn next_beh(script: &[Beh], pos: &mut usize, tail: Beh) -> Beh { if *pos < script.len() { *pos += 1; script[*pos - 1] } else { tail } }

#[derive(Clone)]
pub struct ScriptedWrite { script: Vec<Beh>, pos: usize, tail: Beh, fscript: Vec<Beh>, fpos: usize, got: Vec<u8>, log: Vec<LogE>, max_calls: usize }
impl ScriptedWrite {
    fn new(script: &[Beh], tail: Beh, fscript: &[Beh]) -> Self { ScriptedWrite { script: script.to_vec(), pos: 0, tail, fscript: fscript.to_vec(), fpos: 0, got: vec![], log: vec![], max_calls: usize::MAX } }
}
impl Write for ScriptedWrite {
    fn write(&mut self, b: &[u8]) -> io::Result<usize> {
        if self.log.len() >= self.max_calls { std::panic::panic_any(Livelock); }
        let beh = next_beh(&self.script, &mut self.pos, self.tail);
        let (res, ret) = match beh {
            Beh::F => (Res::N(b.len()), Ok(b.len())),
            Beh::S(k) => (Res::N(b.len().min(k)), Ok(b.len().min(k))),
            Beh::I => (Res::I, Err(io::Error::new(ErrorKind::Interrupted, "I"))),
            Beh::E(c) => (Res::E(c), Err(mkerr(c))),
            Beh::Z => (Res::N(0), Ok(0)),
        };
        if let Ok(k) = ret { self.got.extend_from_slice(&b[..k]); }
        self.log.push(LogE { kind: 0, req: b.len(), res });
        ret
    }
    fn flush(&mut self) -> io::Result<()> {
        let beh = if self.fpos < self.fscript.len() { self.fpos += 1; self.fscript[self.fpos - 1] } else { Beh::F };
        let (res, ret) = match beh { Beh::I => (Res::I, Err(io::Error::new(ErrorKind::Interrupted, "I"))), Beh::E(c) => (Res::E(c), Err(mkerr(c))), _ => (Res::N(0), Ok(())) };
        self.log.push(LogE { kind: 2, req: 0, res });
        ret
    }
}
#[derive(Clone)]
pub struct ScriptedRead { data: Vec<u8>, off: usize, script: Vec<Beh>, pos: usize, tail: Beh, log: Vec<LogE>, max_calls: usize }
impl ScriptedRead { fn new(data: &[u8], script: &[Beh], tail: Beh) -> Self { ScriptedRead { data: data.to_vec(), off: 0, script: script.to_vec(), pos: 0, tail, log: vec![], max_calls: usize::MAX } } }
impl Read for ScriptedRead {
    fn read(&mut self, b: &mut [u8]) -> io::Result<usize> {
        if self.log.len() >= self.max_calls { std::panic::panic_any(Livelock); }
        let beh = next_beh(&self.script, &mut self.pos, self.tail);
        let avail = b.len().min(self.data.len() - self.off);
        let (res, ret) = match beh {
            Beh::F => (Res::N(avail), Ok(avail)),
            Beh::S(k) => (Res::N(avail.min(k)), Ok(avail.min(k))),
            Beh::I => (Res::I, Err(io::Error::new(ErrorKind::Interrupted, "I"))),
            Beh::E(c) => (Res::E(c), Err(mkerr(c))),
            Beh::Z => (Res::N(0), Ok(0)),
        };
        if let Ok(k) = ret { b[..k].copy_from_slice(&self.data[self.off..self.off + k]); self.off += k; }
        self.log.push(LogE { kind: 1, req: b.len(), res });
        ret
    }
}

/// the adapter's own buffer; counts `slice_mut()` calls and raises `Livelock` past the bound
pub struct CountingBuf { v: Vec<u8>, n: Rc<Cell<u64>>, bound: Rc<Cell<u64>> }
impl SliceWrapper<u8> for CountingBuf { fn slice(&self) -> &[u8] { &self.v } }
impl SliceWrapperMut<u8> for CountingBuf {
    fn slice_mut(&mut self) -> &mut [u8] {
        self.n.set(self.n.get() + 1);
        if self.n.get() > self.bound.get() { std::panic::panic_any(Livelock); }
        &mut self.v
    }
}

// ------------------------------------------------------------------ shadow encoder (oracle)
#[derive(Clone, Copy, PartialEq, Debug)]
pub enum Op { P, F, X }
pub struct Ans { consumed: usize, produced: Vec<u8>, ok: bool, more: bool, fin: bool }
pub struct Shadow { s: BrotliEncoderStateStruct<StandardAlloc>, total_out: Option<usize>, trace: Vec<String>, was_fin: bool, hyp: Vec<String> }
impl Shadow {
    fn new(q: u32, lgwin: u32, via_params: bool) -> Self {
        let mut s = BrotliEncoderStateStruct::new(StandardAlloc::default());
        if via_params { let mut p = BrotliEncoderParams::default(); p.quality = q as i32; p.lgwin = lgwin as i32; s.params = p; }
        else { s.set_parameter(P::BROTLI_PARAM_QUALITY, q); s.set_parameter(P::BROTLI_PARAM_LGWIN, lgwin); }
        Shadow { s, total_out: Some(0), trace: vec![], was_fin: false, hyp: vec![] }
    }
    fn step(&mut self, op: Op, input: &[u8], cap: usize) -> Ans {
        let mut out = vec![0u8; cap];
        let (mut ai, mut io_, mut ao, mut oo) = (input.len(), 0usize, cap, 0usize);
        let eop = match op { Op::P => EOp::BROTLI_OPERATION_PROCESS, Op::F => EOp::BROTLI_OPERATION_FLUSH, Op::X => EOp::BROTLI_OPERATION_FINISH };
        let before_tot = self.s.total_out_;
        let ok = self.s.compress_stream(eop, &mut ai, input, &mut io_, &mut ao, &mut out, &mut oo, &mut self.total_out, &mut |_a, _b, _c, _d| ());
        let (more, fin) = (self.s.has_more_output(), self.s.is_finished());
        // ---- oracle hypotheses (BV/Lemmas/AdaptersHyp.lean), checked on every answer
        if io_ + ai != input.len() { self.hyp.push(format!("offset/avail mismatch in: off {} avail {} of {}", io_, ai, input.len())); }
        if oo + ao != cap { self.hyp.push(format!("offset/avail mismatch out: off {} avail {} of {}", oo, ao, cap)); }
        if ok && cap > 0 {
            if op == Op::P && !input.is_empty() && io_ == 0 && oo == 0 { self.hyp.push("stall: PROCESS with input and room did nothing".into()); }
            if op == Op::X && input.is_empty() && oo == 0 && !fin { self.hyp.push("stall: FINISH with room produced nothing and is not finished".into()); }
            if op == Op::F && input.is_empty() && oo == 0 && more { self.hyp.push("stall: FLUSH with room produced nothing but has more output".into()); }
        }
        if self.was_fin && (io_ != 0 || oo != 0) { self.hyp.push("activity after finished".into()); }
        if ok && self.s.total_out_ != before_tot + oo as u64 { self.hyp.push(format!("total_out_ {} -> {} but produced {}", before_tot, self.s.total_out_, oo)); }
        if oo > 0 && self.total_out != Some(self.s.total_out_ as usize) { self.hyp.push("total_out cell not updated on a delivering call".into()); }
        self.was_fin = fin;
        out.truncate(oo);
        self.trace.push(format!("{}{}/{}:{}:{}:{}{}{}:{}", match op { Op::P => 'p', Op::F => 'f', Op::X => 'x' }, input.len(), cap, io_, hex(&out), ok as u8, more as u8, fin as u8, self.total_out.unwrap_or(0)));
        Ans { consumed: io_, produced: out, ok, more, fin }
    }
}

// ------------------------------------------------------------------ mirror of the Lean model
#[derive(Debug, Clone, PartialEq)]
pub enum MErr { Inner(u32), WZ, ID, UE }
fn merr_tok(e: &MErr) -> String { match e { MErr::Inner(c) => format!("E{}", c), MErr::WZ => "WZ".into(), MErr::ID => "ID".into(), MErr::UE => "UE".into() } }
pub enum Out<T> { Done(T), Panic, Livelock }

/// `Interrupted`-retry wrapper (IntoIoWriter::write etc.)
fn retry_write(w: &mut ScriptedWrite, data: &[u8]) -> Result<usize, u32> {
    loop { match w.write(data) { Ok(k) => return Ok(k), Err(e) if e.kind() == ErrorKind::Interrupted => continue, Err(e) => return Err(e.to_string()[1..].parse().unwrap()) } }
}
fn retry_flush(w: &mut ScriptedWrite) -> Result<(), u32> {
    loop { match w.flush() { Ok(()) => return Ok(()), Err(e) if e.kind() == ErrorKind::Interrupted => continue, Err(e) => return Err(e.to_string()[1..].parse().unwrap()) } }
}
fn retry_read(r: &mut ScriptedRead, n: usize) -> Result<Vec<u8>, u32> {
    let mut b = vec![0u8; n];
    loop { match r.read(&mut b) { Ok(k) => { b.truncate(k); return Ok(b); } Err(e) if e.kind() == ErrorKind::Interrupted => continue, Err(e) => return Err(e.to_string()[1..].parse().unwrap()) } }
}

pub struct MWriter { std: bool, buf_size: usize, err_invalid: bool, err_zero: bool, enc: Shadow, sink: ScriptedWrite, buf_acc: u64 }
impl MWriter {
    fn write_all(&mut self, mut buf: &[u8]) -> Result<(), MErr> {
        while !buf.is_empty() {
            match retry_write(&mut self.sink, buf) {
                Err(c) => return Err(MErr::Inner(c)),
                Ok(k) => if k != 0 { buf = &buf[k..]; } else {
                    if self.err_zero { self.err_zero = false; return Err(MErr::WZ); }
                    if self.err_invalid { self.err_invalid = false; return Err(MErr::ID); }
                    return Ok(());
                }
            }
        }
        Ok(())
    }
    fn encode_and_hand_over(&mut self, op: Op, input: &[u8]) -> Option<(Ans, Result<(), MErr>)> {
        let ans = self.enc.step(op, input, self.buf_size);
        self.buf_acc += 2;
        if ans.consumed > input.len() || ans.produced.len() > self.buf_size { return None; }
        if !ans.produced.is_empty() { let p = ans.produced.clone(); let r = self.write_all(&p); self.buf_acc += 1; Some((ans, r)) } else { Some((ans, Ok(()))) }
    }
    /// std layer: restock the error values after every Err
    fn std_write(&mut self, buf: &[u8]) -> Out<Result<usize, MErr>> { let r = self.write(buf); if self.std { if let Out::Done(Err(_)) = &r { self.err_invalid = true; self.err_zero = true; } } r }
    fn std_flush(&mut self) -> Out<Result<(), MErr>> { let r = self.flush(); if self.std { if let Out::Done(Err(_)) = &r { self.err_invalid = true; self.err_zero = true; } } r }
    fn write(&mut self, buf: &[u8]) -> Out<Result<usize, MErr>> {
        let mut rest = buf; let mut fuel = LIMIT;
        loop {
            if fuel == 0 { return Out::Livelock; } fuel -= 1;
            if rest.is_empty() { return Out::Done(Ok(buf.len())); }
            match self.encode_and_hand_over(Op::P, rest) {
                None => return Out::Panic,
                Some((_, Err(e))) => return Out::Done(Err(e)),
                Some((ans, Ok(()))) => {
                    if !ans.ok { if self.err_invalid { self.err_invalid = false; return Out::Done(Err(MErr::ID)); } else { return Out::Panic; } }
                    rest = &rest[ans.consumed..];
                }
            }
        }
    }
    fn flush_or_close(&mut self, op: Op) -> Out<Result<(), MErr>> {
        let mut fuel = LIMIT;
        loop {
            if fuel == 0 { return Out::Livelock; } fuel -= 1;
            match self.encode_and_hand_over(op, &[]) {
                None => return Out::Panic,
                Some((_, Err(e))) => return Out::Done(Err(e)),
                Some((ans, Ok(()))) => {
                    if !ans.ok { if self.err_invalid { self.err_invalid = false; return Out::Done(Err(MErr::ID)); } else { return Out::Panic; } }
                    if op == Op::F { if ans.more { continue; } return Out::Done(Ok(())); }
                    if ans.fin { return Out::Done(Ok(())); }
                }
            }
        }
    }
    fn flush(&mut self) -> Out<Result<(), MErr>> {
        match self.flush_or_close(Op::F) {
            Out::Done(Ok(())) => match retry_flush(&mut self.sink) { Ok(()) => Out::Done(Ok(())), Err(c) => Out::Done(Err(MErr::Inner(c))) },
            r => r,
        }
    }
}

pub struct MReader { std: bool, buf: Vec<u8>, input_offset: usize, input_len: usize, eof: bool, err_invalid: bool, enc: Shadow, src: ScriptedRead, buf_acc: u64 }
impl MReader {
    fn copy_to_front(&mut self) -> bool {
        if self.input_len < self.input_offset { return false; }
        let avail = self.input_len - self.input_offset;
        if self.input_offset == self.buf.len() { self.input_offset = 0; self.input_len = 0; self.buf_acc += 1; }
        else if self.input_offset + 256 > self.buf.len() && avail < self.input_offset {
            if self.buf.len() - self.input_offset < avail { return false; }
            let (a, b) = self.buf.split_at_mut(self.input_offset);
            a[..avail].clone_from_slice(&b[..avail]);
            self.input_len -= self.input_offset; self.input_offset = 0; self.buf_acc += 3;
        } else { self.buf_acc += 2; }
        true
    }
    fn std_read(&mut self, cap: usize) -> Out<Result<Vec<u8>, MErr>> { let r = self.read(cap); if self.std { if let Out::Done(Err(_)) = &r { self.err_invalid = true; } } r }
    fn read(&mut self, cap: usize) -> Out<Result<Vec<u8>, MErr>> {
        if cap == 0 { return Out::Done(Ok(vec![])); }
        if self.input_len < self.input_offset { return Out::Panic; }
        let mut fuel = LIMIT;
        loop {
            if fuel == 0 { return Out::Livelock; } fuel -= 1;
            while self.input_len < self.buf.len() && !self.eof {
                self.buf_acc += 2;
                match retry_read(&mut self.src, self.buf.len() - self.input_len) {
                    Err(c) => return Out::Done(Err(MErr::Inner(c))),
                    Ok(bs) => if bs.is_empty() { self.eof = true; } else { self.buf[self.input_len..self.input_len + bs.len()].copy_from_slice(&bs); self.input_len += bs.len(); }
                }
            }
            self.buf_acc += 1;
            if self.input_len < self.input_offset { return Out::Panic; }
            let avail = self.input_len - self.input_offset;
            let op = if avail == 0 { Op::X } else { Op::P };
            let input = self.buf[self.input_offset..self.input_offset + avail].to_vec();
            let ans = self.enc.step(op, &input, cap);
            self.buf_acc += 1;
            self.input_offset += ans.consumed;
            if ans.consumed > avail || ans.produced.len() > cap { return Out::Panic; }
            if avail - ans.consumed == 0 { if !self.copy_to_front() { return Out::Panic; } }
            if !ans.ok { if self.err_invalid { self.err_invalid = false; return Out::Done(Err(MErr::ID)); } else { return Out::Panic; } }
            if ans.fin { return Out::Done(Ok(ans.produced)); }
            if !ans.produced.is_empty() { return Out::Done(Ok(ans.produced)); }
        }
    }
}

fn mirror_copy(ib: usize, ob: usize, enc: &mut Shadow, src: &mut ScriptedRead, sink: &mut ScriptedWrite) -> Out<Result<usize, MErr>> {
    if ib == 0 || ob == 0 { return Out::Panic; }
    let mut ibuf = vec![0u8; ib];
    let (mut next_in, mut avail_in, mut eof) = (0usize, 0usize, false);
    let mut pending: Vec<u8> = vec![];
    let mut read_err: Option<MErr> = None;
    let mut total_out = 0usize;
    let mut fuel = LIMIT;
    loop {
        if fuel == 0 { return Out::Livelock; } fuel -= 1;
        if avail_in == 0 && !eof {
            next_in = 0;
            while avail_in < ib && !eof {
                match retry_read(src, ib - avail_in) {
                    Err(c) => { read_err = Some(MErr::Inner(c)); eof = true; }
                    Ok(bs) => { if bs.is_empty() { eof = true; } ibuf[avail_in..avail_in + bs.len()].copy_from_slice(&bs); avail_in += bs.len(); }
                }
            }
        }
        let op = if avail_in == 0 { Op::X } else { Op::P };
        let cap = ob - pending.len();
        let ans = enc.step(op, &ibuf[next_in..next_in + avail_in], cap);
        if !ans.produced.is_empty() { total_out = enc.total_out.unwrap(); }
        if ans.consumed > avail_in || ans.produced.len() > cap { return Out::Panic; }
        next_in += ans.consumed; avail_in -= ans.consumed; pending.extend_from_slice(&ans.produced);
        if pending.len() == ob || ans.fin {
            let mut rest: &[u8] = &pending;
            while !rest.is_empty() {
                match retry_write(sink, rest) {
                    Err(c) => return Out::Done(Err(read_err.unwrap_or(MErr::Inner(c)))),
                    Ok(0) => return Out::Done(Err(read_err.unwrap_or(MErr::UE))),
                    Ok(k) => rest = &rest[k..],
                }
            }
            pending.clear();
        }
        if !ans.ok { return Out::Done(Err(read_err.unwrap_or(MErr::UE))); }
        if ans.fin { return match read_err { Some(e) => Out::Done(Err(e)), None => Out::Done(Ok(total_out)) }; }
    }
}

// ------------------------------------------------------------------ cases
#[derive(Clone, Debug)]
pub enum WCall { Write(Vec<u8>), Flush, Close }
#[derive(Clone, Debug)]
pub enum RCall { Read(usize), ToFront }
#[derive(Clone, Debug)]
pub enum Case {
    W { custom_io: bool, buf: usize, q: u32, lgwin: u32, script: Vec<Beh>, tail: Beh, fscript: Vec<Beh>, calls: Vec<WCall> },
    R { custom_io: bool, buf: usize, q: u32, lgwin: u32, src: Vec<u8>, script: Vec<Beh>, tail: Beh, calls: Vec<RCall> },
    C { ib: usize, ob: usize, q: u32, lgwin: u32, src: Vec<u8>, rscript: Vec<Beh>, rtail: Beh, wscript: Vec<Beh>, wtail: Beh },
}
fn case_prefix(c: &Case) -> String {
    match c {
        Case::W { custom_io, buf, q, lgwin, script, tail, fscript, calls } => format!("adapters {} {} q{}w{} {} {} {} {}", if *custom_io { "Wc" } else { "W" }, buf, q, lgwin, script_str(script), beh_str(tail), script_str(fscript),
            calls.iter().map(|c| match c { WCall::Write(b) => format!("w{}", hex(b)), WCall::Flush => "f".into(), WCall::Close => "c".into() }).collect::<Vec<_>>().join(",")),
        Case::R { custom_io, buf, q, lgwin, src, script, tail, calls } => format!("adapters {} {} q{}w{} {} {} {} {}", if *custom_io { "Rc" } else { "R" }, buf, q, lgwin, hex(src), script_str(script), beh_str(tail),
            calls.iter().map(|c| match c { RCall::Read(n) => format!("r{}", n), RCall::ToFront => "t".into() }).collect::<Vec<_>>().join(",")),
        Case::C { ib, ob, q, lgwin, src, rscript, rtail, wscript, wtail } => format!("adapters C {} {} q{}w{} {} {} {} {} {}", ib, ob, q, lgwin, hex(src), script_str(rscript), beh_str(rtail), script_str(wscript), beh_str(wtail)),
    }
}
pub fn parse_case(line: &str) -> Case {
    let t: Vec<&str> = line.split(' ').collect();
    let cfg = |s: &str| -> (u32, u32) { let s = &s[1..]; let mut it = s.split('w'); (it.next().unwrap().parse().unwrap(), it.next().unwrap().parse().unwrap()) };
    match t[1] {
        "W" | "Wc" => { let (q, lgwin) = cfg(t[3]); Case::W { custom_io: t[1] == "Wc", buf: t[2].parse().unwrap(), q, lgwin, script: parse_script(t[4]), tail: parse_beh(t[5]), fscript: parse_script(t[6]),
            calls: t[7].split(',').map(|c| match c.as_bytes()[0] { b'f' => WCall::Flush, b'c' => WCall::Close, _ => WCall::Write(unhex(&c[1..])) }).collect() } }
        "R" | "Rc" => { let (q, lgwin) = cfg(t[3]); Case::R { custom_io: t[1] == "Rc", buf: t[2].parse().unwrap(), q, lgwin, src: unhex(t[4]), script: parse_script(t[5]), tail: parse_beh(t[6]),
            calls: t[7].split(',').map(|c| if c == "t" { RCall::ToFront } else { RCall::Read(c[1..].parse().unwrap()) }).collect() } }
        "C" => { let (q, lgwin) = cfg(t[4]); Case::C { ib: t[2].parse().unwrap(), ob: t[3].parse().unwrap(), q, lgwin, src: unhex(t[5]), rscript: parse_script(t[6]), rtail: parse_beh(t[7]), wscript: parse_script(t[8]), wtail: parse_beh(t[9]) } }
        x => panic!("bad case kind {}", x),
    }
}

/// what one run (real or mirror) shows
#[derive(Default, Clone)]
pub struct Obs { results: Vec<String>, log: Vec<LogE>, wlog: Vec<LogE>, acc: Option<u64>, sink: Vec<u8>, left: usize, stopped: bool,
    /// per adapter call: (index of the first inner log entry made during the call, one past the last); copy: one call
    spans: Vec<(usize, usize)>, sink_at_first_err: Option<usize>, delivered: Vec<u8> }

fn io_res<T>(r: Result<io::Result<T>, Box<dyn std::any::Any + Send>>, okf: impl Fn(&T) -> String) -> (String, bool) {
    match r {
        Ok(Ok(v)) => (okf(&v), false),
        Ok(Err(e)) => (format!("err:{}", err_tok(&e)), false),
        Err(p) => (if p.is::<Livelock>() { "livelock".into() } else { "panic".into() }, true),
    }
}

trait WLayer { fn w(&mut self, b: &[u8]) -> io::Result<usize>; fn f(&mut self) -> io::Result<()>; fn sink(&self) -> &ScriptedWrite; fn close(self: Box<Self>) -> ScriptedWrite; }
type StdW = brotli::enc::writer::CompressorWriterCustomAlloc<ScriptedWrite, CountingBuf, StandardAlloc>;
type CioW = brotli::CompressorWriterCustomIo<io::Error, IntoIoWriter<ScriptedWrite>, CountingBuf, StandardAlloc>;
impl WLayer for StdW { fn w(&mut self, b: &[u8]) -> io::Result<usize> { self.write(b) } fn f(&mut self) -> io::Result<()> { self.flush() } fn sink(&self) -> &ScriptedWrite { self.get_ref() } fn close(self: Box<Self>) -> ScriptedWrite { (*self).into_inner() } }
impl WLayer for CioW { fn w(&mut self, b: &[u8]) -> io::Result<usize> { CustomWrite::write(self, b) } fn f(&mut self) -> io::Result<()> { CustomWrite::flush(self) } fn sink(&self) -> &ScriptedWrite { &self.get_ref().0 } fn close(self: Box<Self>) -> ScriptedWrite { (*self).into_inner().0 } }

fn real_writer(custom_io: bool, buf: usize, q: u32, lgwin: u32, script: &[Beh], tail: Beh, fscript: &[Beh], calls: &[WCall]) -> Obs {
    let n = Rc::new(Cell::new(0u64)); let bound = Rc::new(Cell::new(u64::MAX));
    let cb = CountingBuf { v: vec![0u8; buf], n: n.clone(), bound: bound.clone() };
    let sw = ScriptedWrite::new(script, tail, fscript);
    let mut w: Option<Box<dyn WLayer>> = Some(if custom_io {
        Box::new(CioW::new(IntoIoWriter(sw), cb, StandardAlloc::default(), io::Error::new(ErrorKind::InvalidData, "Invalid Data"), io::Error::new(ErrorKind::WriteZero, "No room in output."), q, lgwin))
    } else { Box::new(StdW::new(sw, cb, StandardAlloc::default(), q, lgwin)) });
    let mut o = Obs::default();
    let mut final_sink: Option<ScriptedWrite> = None;
    for c in calls {
        bound.set(n.get() + 3 * LIMIT + 8);
        let before = w.as_ref().map(|x| x.sink().log.len()).unwrap_or(0);
        let (tok, stop) = match c {
            WCall::Write(b) => io_res(catch_unwind(AssertUnwindSafe(|| w.as_mut().unwrap().w(b))), |n| format!("ok{}", n)),
            WCall::Flush => io_res(catch_unwind(AssertUnwindSafe(|| w.as_mut().unwrap().f())), |_| "ok".into()),
            WCall::Close => { let x = w.take().unwrap(); match catch_unwind(AssertUnwindSafe(move || x.close())) { Ok(s) => { final_sink = Some(s); ("ok".into(), false) } Err(p) => (if p.is::<Livelock>() { "livelock".into() } else { "panic".into() }, true) } }
        };
        let s = final_sink.as_ref().or(w.as_ref().map(|x| x.sink()));
        if let Some(s) = s { o.spans.push((before, s.log.len())); if tok.starts_with("err") && o.sink_at_first_err.is_none() { o.sink_at_first_err = Some(s.got.len()); } }
        o.results.push(tok);
        if stop { o.stopped = true; break; }
    }
    if let Some(x) = w.take() { if o.stopped { bound.set(u64::MAX); let s = x.sink().clone(); o.log = s.log; o.sink = s.got; std::mem::forget(x); } else { let s = x.sink().clone(); o.log = s.log; o.sink = s.got; bound.set(u64::MAX); drop(x); } }
    if let Some(s) = final_sink { o.log = s.log; o.sink = s.got; }
    o.acc = if o.stopped { None } else { Some(n.get()) };
    o
}

fn mirror_writer(custom_io: bool, buf: usize, q: u32, lgwin: u32, script: &[Beh], tail: Beh, fscript: &[Beh], calls: &[WCall]) -> (Obs, Shadow) {
    let mut m = MWriter { std: !custom_io, buf_size: buf, err_invalid: true, err_zero: true, enc: Shadow::new(q, lgwin, false), sink: ScriptedWrite::new(script, tail, fscript), buf_acc: 0 };
    let mut o = Obs::default();
    for c in calls {
        let (tok, stop) = match c {
            WCall::Write(b) => match m.std_write(b) { Out::Done(Ok(n)) => (format!("ok{}", n), false), Out::Done(Err(e)) => (format!("err:{}", merr_tok(&e)), false), Out::Panic => ("panic".into(), true), Out::Livelock => ("livelock".into(), true) },
            WCall::Flush => match m.std_flush() { Out::Done(Ok(())) => ("ok".into(), false), Out::Done(Err(e)) => (format!("err:{}", merr_tok(&e)), false), Out::Panic => ("panic".into(), true), Out::Livelock => ("livelock".into(), true) },
            WCall::Close => match m.flush_or_close(Op::X) { Out::Done(_) => ("ok".into(), false), Out::Panic => ("panic".into(), true), Out::Livelock => ("livelock".into(), true) },
        };
        o.results.push(tok);
        if stop { o.stopped = true; break; }
    }
    o.log = m.sink.log.clone(); o.sink = m.sink.got.clone(); o.acc = if o.stopped { None } else { Some(m.buf_acc) };
    (o, m.enc)
}

trait RLayer { fn r(&mut self, b: &mut [u8]) -> io::Result<usize>; fn tofront(&mut self); fn src(&self) -> &ScriptedRead; }
type StdR = brotli::enc::reader::CompressorReaderCustomAlloc<ScriptedRead, CountingBuf, StandardAlloc>;
type CioR = brotli::CompressorReaderCustomIo<io::Error, IntoIoReader<ScriptedRead>, CountingBuf, StandardAlloc>;
impl RLayer for StdR { fn r(&mut self, b: &mut [u8]) -> io::Result<usize> { self.read(b) } fn tofront(&mut self) { panic!("copy_to_front is not reachable through the std layer") } fn src(&self) -> &ScriptedRead { self.get_ref() } }
impl RLayer for CioR { fn r(&mut self, b: &mut [u8]) -> io::Result<usize> { CustomRead::read(self, b) } fn tofront(&mut self) { self.copy_to_front() } fn src(&self) -> &ScriptedRead { &self.get_ref().0 } }

fn real_reader(custom_io: bool, buf: usize, q: u32, lgwin: u32, src: &[u8], script: &[Beh], tail: Beh, calls: &[RCall]) -> Obs {
    let n = Rc::new(Cell::new(0u64)); let bound = Rc::new(Cell::new(u64::MAX));
    let cb = CountingBuf { v: vec![0u8; buf], n: n.clone(), bound: bound.clone() };
    let sr = ScriptedRead::new(src, script, tail);
    let mut r: Box<dyn RLayer> = if custom_io { Box::new(CioR::new(IntoIoReader(sr), cb, StandardAlloc::default(), io::Error::new(ErrorKind::InvalidData, "Invalid Data"), q, lgwin)) } else { Box::new(StdR::new(sr, cb, StandardAlloc::default(), q, lgwin)) };
    let mut o = Obs::default();
    for c in calls {
        bound.set(n.get() + 5 * LIMIT + 8);
        let before = r.src().log.len();
        let (tok, stop) = match c {
            RCall::Read(k) => { let mut b = vec![0u8; *k]; let res = catch_unwind(AssertUnwindSafe(|| r.r(&mut b))); if let Ok(Ok(m)) = &res { o.delivered.extend_from_slice(&b[..*m]); } let bb = b.clone(); io_res(res, move |m| format!("ok:{}", hex(&bb[..*m]))) }
            RCall::ToFront => match catch_unwind(AssertUnwindSafe(|| r.tofront())) { Ok(()) => ("-".into(), false), Err(p) => (if p.is::<Livelock>() { "livelock".into() } else { "panic".into() }, true) },
        };
        o.spans.push((before, r.src().log.len()));
        o.results.push(tok);
        if stop { o.stopped = true; break; }
    }
    o.log = r.src().log.clone(); o.left = r.src().data.len() - r.src().off; o.acc = if o.stopped { None } else { Some(n.get()) };
    bound.set(u64::MAX);
    if o.stopped { std::mem::forget(r); }
    o
}

fn mirror_reader(custom_io: bool, buf: usize, q: u32, lgwin: u32, src: &[u8], script: &[Beh], tail: Beh, calls: &[RCall]) -> (Obs, Shadow) {
    let mut m = MReader { std: !custom_io, buf: vec![0u8; buf], input_offset: 0, input_len: 0, eof: false, err_invalid: true, enc: Shadow::new(q, lgwin, false), src: ScriptedRead::new(src, script, tail), buf_acc: 0 };
    let mut o = Obs::default();
    for c in calls {
        let (tok, stop) = match c {
            RCall::Read(k) => match m.std_read(*k) { Out::Done(Ok(b)) => (format!("ok:{}", hex(&b)), false), Out::Done(Err(e)) => (format!("err:{}", merr_tok(&e)), false), Out::Panic => ("panic".into(), true), Out::Livelock => ("livelock".into(), true) },
            RCall::ToFront => if m.copy_to_front() { ("-".into(), false) } else { ("panic".into(), true) },
        };
        o.results.push(tok);
        if stop { o.stopped = true; break; }
    }
    o.log = m.src.log.clone(); o.left = m.src.data.len() - m.src.off; o.acc = if o.stopped { None } else { Some(m.buf_acc) };
    (o, m.enc)
}

fn real_copy(ib: usize, ob: usize, q: u32, lgwin: u32, src: &[u8], rscript: &[Beh], rtail: Beh, wscript: &[Beh], wtail: Beh) -> Obs {
    let mut r = ScriptedRead::new(src, rscript, rtail);
    r.max_calls = (LIMIT as usize) * 4; // (the copy function has no own buffer to count on: bound the wrapped streams)
    let mut w = ScriptedWrite::new(wscript, wtail, &[]);
    w.max_calls = (LIMIT as usize) * 4; // the drain loop is the only place that can spin on the sink
    let mut p = BrotliEncoderParams::default(); p.quality = q as i32; p.lgwin = lgwin as i32;
    let mut ibuf = vec![0u8; ib]; let mut obuf = vec![0u8; ob];
    let res = catch_unwind(AssertUnwindSafe(|| brotli::BrotliCompressCustomAlloc(&mut r, &mut w, &mut ibuf[..], &mut obuf[..], &p, StandardAlloc::default())));
    let mut o = Obs::default();
    let (tok, stop) = io_res(res, |n| format!("ok{}", n));
    if tok.starts_with("err") { o.sink_at_first_err = Some(w.got.len()); }
    o.results.push(tok); o.stopped = stop;
    o.spans.push((0, r.log.len()));
    o.left = r.data.len() - r.off; o.log = r.log; o.wlog = w.log; o.sink = w.got;
    o
}

fn obs_line(kind: char, o: &Obs, enc_calls: usize, bad: bool) -> String {
    let res = if o.results.is_empty() { "-".to_string() } else { o.results.join(",") };
    let f = |x: Option<u64>| x.map(|v| v.to_string()).unwrap_or("-".into());
    let live = o.results.last().map(|t| t == "livelock").unwrap_or(false);
    match kind {
        'W' | 'R' if live => format!("{} n=- h=- acc=- enc=- bad={} -", res, bad as u8),
        _ if live => format!("{} rn=- rh=- wn=- wh=- enc=- bad={} -", res, bad as u8),
        'W' => format!("{} n={} h={} acc={} enc={} bad={} sink={}", res, o.log.len(), log_hash(&o.log), f(o.acc), if o.stopped { "-".into() } else { enc_calls.to_string() }, bad as u8, hex(&o.sink)),
        'R' => format!("{} n={} h={} acc={} enc={} bad={} left={}", res, o.log.len(), log_hash(&o.log), f(o.acc), if o.stopped { "-".into() } else { enc_calls.to_string() }, bad as u8, o.left),
        _ => format!("{} rn={} rh={} wn={} wh={} enc={} bad={} sink={}", res, o.log.len(), log_hash(&o.log), o.wlog.len(), log_hash(&o.wlog), if o.stopped { "-".into() } else { enc_calls.to_string() }, bad as u8, hex(&o.sink)),
    }
}

/// run one case: correspondence pair + oracles
pub fn run_case(c: &Case, rep: &mut Report, verbose: bool) -> (String, String) {
    let prefix = case_prefix(c);
    let case_json = |extra: &str| format!("{{\"line\":{}{}}}", jstr(&prefix), extra);
    rep.evaluations += 1;
    let mut nontrivial = false;
    let (real, mirror, shadow, ideal, kind, written): (Obs, Obs, Shadow, Obs, char, Vec<u8>) = match c {
        Case::W { custom_io, buf, q, lgwin, script, tail, fscript, calls } => {
            let real = real_writer(*custom_io, *buf, *q, *lgwin, script, *tail, fscript, calls);
            let (m, sh) = mirror_writer(*custom_io, *buf, *q, *lgwin, script, *tail, fscript, calls);
            let ideal = real_writer(*custom_io, *buf, *q, *lgwin, &[], Beh::F, &[], calls);
            let mut written = vec![]; for c in calls { if let WCall::Write(b) = c { written.extend_from_slice(b); if b.is_empty() { rep.count("w.caller_size_0"); nontrivial = true; } } }
            if *buf == 1 { rep.count("w.own_buffer_1"); nontrivial = true; }
            rep.count(if *custom_io { "w.layer.custom_io" } else { "w.layer.std" });
            (real, m, sh, ideal, 'W', written)
        }
        Case::R { custom_io, buf, q, lgwin, src, script, tail, calls } => {
            let real = real_reader(*custom_io, *buf, *q, *lgwin, src, script, *tail, calls);
            let (m, sh) = mirror_reader(*custom_io, *buf, *q, *lgwin, src, script, *tail, calls);
            let ideal = real_reader(*custom_io, *buf, *q, *lgwin, src, &[], Beh::F, calls);
            if *buf == 1 { rep.count("r.own_buffer_1"); nontrivial = true; }
            if calls.iter().any(|c| matches!(c, RCall::Read(0))) { rep.count("r.caller_size_0"); nontrivial = true; }
            if calls.iter().any(|c| matches!(c, RCall::ToFront)) { rep.count("r.copy_to_front_calls"); }
            rep.count(if *custom_io { "r.layer.custom_io" } else { "r.layer.std" });
            (real, m, sh, ideal, 'R', src.clone())
        }
        Case::C { ib, ob, q, lgwin, src, rscript, rtail, wscript, wtail } => {
            let real = real_copy(*ib, *ob, *q, *lgwin, src, rscript, *rtail, wscript, *wtail);
            let mut sh = Shadow::new(*q, *lgwin, true);
            let mut r = ScriptedRead::new(src, rscript, *rtail); let mut w = ScriptedWrite::new(wscript, *wtail, &[]);
            let out = mirror_copy(*ib, *ob, &mut sh, &mut r, &mut w);
            let mut m = Obs::default();
            let (tok, stop) = match out { Out::Done(Ok(n)) => (format!("ok{}", n), false), Out::Done(Err(e)) => (format!("err:{}", merr_tok(&e)), false), Out::Panic => ("panic".into(), true), Out::Livelock => ("livelock".into(), true) };
            m.results.push(tok); m.stopped = stop; m.left = r.data.len() - r.off; m.log = r.log; m.wlog = w.log; m.sink = w.got;
            let ideal = real_copy(*ib, *ob, *q, *lgwin, src, &[], Beh::F, &[], Beh::F);
            if *ib == 1 || *ob == 1 { rep.count("c.own_buffer_1"); nontrivial = true; }
            (real, m, sh, ideal, 'C', src.clone())
        }
    };
    // ---- correspondence pair (request = case + recorded encoder trace; answer = the REAL run)
    let trace = if shadow.trace.is_empty() { "-".to_string() } else { shadow.trace.join(";") };
    let ops = format!("{} {}", prefix, trace);
    let enc_calls = shadow.trace.len();
    let imp = obs_line(kind, &real, enc_calls, false);
    let mir = obs_line(kind, &mirror, enc_calls, false);
    if verbose {
        println!("real  : {}\n        log: {}\n        wlog: {}", imp, log_str(&real.log), log_str(&real.wlog));
        println!("mirror: {}\n        log: {}\n        wlog: {}", mir, log_str(&mirror.log), log_str(&mirror.wlog));
        println!("ideal : {}", obs_line(kind, &ideal, 0, false));
        println!("trace : {}", trace);
    }
    // ---- coverage
    for e in real.log.iter().chain(real.wlog.iter()) {
        match e.res { Res::I => { rep.count("inner.interrupted"); nontrivial = true; } Res::E(_) => { rep.count("inner.hard_error"); nontrivial = true; } Res::N(0) if e.kind == 0 => { rep.count("inner.zero_length_write"); nontrivial = true; } Res::N(k) if k < e.req && e.kind == 0 => { rep.count("inner.short_write"); nontrivial = true; } Res::N(k) if k < e.req && e.kind == 1 => { rep.count("inner.short_or_last_read"); } _ => {} }
    }
    for t in &real.results { rep.count(&format!("result.{}", if t.starts_with("ok") { "ok" } else if t.starts_with("err") { &t[..] } else { &t[..] })); }
    rep.add("encoder_calls_replayed", enc_calls as u64);
    // ---- the oracle hypotheses must hold for what the shadow encoder answered
    for h in &shadow.hyp { rep.violation("adapters:oracle-hypothesis", &format!("the encoder broke a hypothesis the C11 theorems assume: {}", h), case_json("")); }
    // ---- real vs mirror (the mirror produced the trace: if they differ the trace is not the real one)
    if imp != mir { rep.violation("adapters:mirror-mismatch", &format!("real adapter and transcribed model differ: real [{}] mirror [{}]", imp.chars().take(300).collect::<String>(), mir.chars().take(300).collect::<String>()), case_json("")); }
    // ---- property oracles on the real run
    let zero_write = |e: &LogE| e.kind == 0 && e.res == Res::N(0) && e.req > 0;
    // generic CustomIo layer: the stock error values are handed out by move and this harness does
    // not call rearm_errors; once one is gone the "armed at call entry" hypothesis of the theorems
    // does not hold any more, and a swallowed zero-length write / unwrap-on-None panic is the
    // documented consequence (counted, not reported)
    let custom_io = matches!(c, Case::W { custom_io: true, .. } | Case::R { custom_io: true, .. });
    let unarmed_from = if custom_io { real.results.iter().position(|t| t == "err:WZ" || t == "err:ID").map(|p| p + 1) } else { None };
    let exempt = |i: usize| unarmed_from.map(|u| i >= u).unwrap_or(false);
    for (i, t) in real.results.iter().enumerate() {
        if exempt(i) && (t == "panic") { rep.count("custom_io.unarmed.panic"); continue; }
        if t == "livelock" {
            let sig = match c {
                Case::R { calls, .. } if matches!(calls.get(i), Some(RCall::Read(0))) => "adapters:reader:empty-buffer-never-returns",
                Case::C { .. } if real.wlog.iter().any(zero_write) => "adapters:copy:zero-length-write-spins",
                _ => "adapters:livelock",
            };
            rep.violation(sig, &format!("call #{} did not return within {} loop iterations", i, LIMIT), case_json(&format!(",\"call\":{}", i)));
        }
        if t == "panic" { rep.violation("adapters:panic", &format!("call #{} panicked", i), case_json(&format!(",\"call\":{}", i))); }
    }
    // error_reported
    match c {
        Case::W { calls, .. } => for (i, sp) in real.spans.iter().enumerate() {
            if matches!(calls[i], WCall::Close) { continue; } // into_inner has no Result (documented API)
            let bad_ev = real.log[sp.0..sp.1].iter().find(|e| matches!(e.res, Res::E(_)) || zero_write(e));
            if let Some(ev) = bad_ev { if real.results[i].starts_with("ok") && exempt(i) { rep.count("custom_io.unarmed.swallowed"); } else if real.results[i].starts_with("ok") {
                let nth = real.log[..sp.1].iter().filter(|e| zero_write(e)).count();
                let sig = if zero_write(ev) { if nth >= 3 { "adapters:writer:zero-length-write-swallowed:third-or-later" } else { "adapters:writer:zero-length-write-swallowed" } } else { "adapters:writer:hard-error-swallowed" };
                rep.violation(sig, &format!("call #{} returned {} although the wrapped writer answered {:?} to a write of {} bytes", i, real.results[i], ev.res, ev.req), case_json(&format!(",\"call\":{}", i)));
            } }
        },
        Case::R { .. } => for (i, sp) in real.spans.iter().enumerate() {
            if real.log[sp.0..sp.1].iter().any(|e| matches!(e.res, Res::E(_))) && real.results[i].starts_with("ok") { rep.violation("adapters:reader:hard-error-swallowed", &format!("read #{} returned {} although the wrapped reader failed", i, real.results[i]), case_json("")); }
        },
        Case::C { .. } => {
            let rerr = real.log.iter().find_map(|e| if let Res::E(c) = e.res { Some(c) } else { None });
            let werr = real.wlog.iter().find(|e| matches!(e.res, Res::E(_)) || zero_write(e));
            let t = &real.results[0];
            if let Some(cde) = rerr { if *t != format!("err:E{}", cde) && !real.stopped { rep.violation("adapters:copy:first-read-error-not-reported", &format!("the wrapped reader failed with E{} but the copy returned {}", cde, t), case_json("")); } }
            else if let Some(ev) = werr { if t.starts_with("ok") { rep.violation(if zero_write(ev) { "adapters:copy:zero-length-write-swallowed" } else { "adapters:copy:hard-error-swallowed" }, &format!("the wrapped writer answered {:?} but the copy returned {}", ev.res, t), case_json("")); } }
        }
    }
    // transparency / completeness
    let any_fault = real.log.iter().chain(real.wlog.iter()).any(|e| matches!(e.res, Res::E(_)) || zero_write(e)) || real.results.iter().any(|t| !t.starts_with("ok") && t != "-");
    let premature_eof = real.log.iter().any(|e| e.kind == 1 && e.res == Res::N(0)) && real.left > 0;
    let ideal_bytes: &[u8] = if kind == 'R' { &ideal.delivered } else { &ideal.sink };
    let real_bytes: &[u8] = if kind == 'R' { &real.delivered } else { &real.sink };
    if !real.stopped && !ideal.stopped {
        if !any_fault && !premature_eof {
            let fast = matches!(c, Case::R { q: 0..=1, .. } | Case::C { q: 0..=1, .. });
            if real_bytes != ideal_bytes { rep.violation(if fast { "adapters:bytes-depend-on-short-io:fast-path-q0q1-reads" } else { "adapters:bytes-depend-on-short-io" }, &format!("every call succeeded but the bytes delivered differ from the run over a well-behaved stream ({} vs {} bytes, first difference at {})", real_bytes.len(), ideal_bytes.len(), crate::dec::first_diff(real_bytes, ideal_bytes)), case_json("")); }
            let closed = match c { Case::W { calls, .. } => matches!(calls.last(), Some(WCall::Close)), Case::R { .. } => real.results.last().map(|t| t == "ok:-").unwrap_or(false) && !matches!(c, Case::R { calls, .. } if matches!(calls.last(), Some(RCall::Read(0)))), Case::C { .. } => true };
            if closed { match crate::dec::decode(real_bytes, written.len() + 65536) { crate::dec::DResult::Ok(v) if v == written => { rep.count("roundtrip.ok"); } other => { rep.violation("adapters:complete-stream-does-not-decode", &format!("every call succeeded and the stream was closed, but the delivered bytes do not decode to what was written: {:?}", match other { crate::dec::DResult::Ok(v) => format!("decoded {} bytes, expected {}", v.len(), written.len()), crate::dec::DResult::Error(v) => format!("error after {}", v.len()), crate::dec::DResult::NeedsMoreInput(v) => format!("truncated after {}", v.len()), _ => "too big".into() }), case_json("")); } } }
        } else if kind != 'R' && !real.log.iter().any(|e| e.kind == 1 && matches!(e.res, Res::E(_))) {
            // (a read error makes the copy function finish the stream early: other requests, no prefix claim)
            let upto = real.sink_at_first_err.unwrap_or(real.sink.len()).min(real.sink.len());
            if !premature_eof && !ideal.sink.starts_with(&real.sink[..upto]) { rep.violation("adapters:not-a-prefix", "the bytes handed to the sink before the first failing call are not a prefix of the well-behaved run's bytes", case_json("")); }
            else { rep.count("prefix_checked"); }
        }
    }
    if nontrivial { rep.nontrivial += 1; }
    (ops, imp)
}


// ------------------------------------------------------------------ pair oracle (C05's buffering clause through the adapters)
/// read the whole compressed stream with a schedule of caller read sizes (cycled); None = error / no EOF
fn read_all_with(data: &[u8], buf: usize, q: u32, lgwin: u32, sizes: &[usize]) -> Option<Vec<u8>> {
    let mut rd = brotli::CompressorReader::new(data, buf, q, lgwin);
    let mut out = vec![]; let mut i = 0usize; let mut tmp = vec![0u8; *sizes.iter().max().unwrap()];
    let limit = 40 * data.len() + 100_000;
    loop {
        let n = sizes[i % sizes.len()]; i += 1;
        match rd.read(&mut tmp[..n]) { Ok(0) => return Some(out), Ok(k) => out.extend_from_slice(&tmp[..k]), Err(_) => return None }
        if i > limit { return None; }
    }
}
fn write_all_with(data: &[u8], buf: usize, q: u32, lgwin: u32, sizes: &[usize]) -> Option<Vec<u8>> {
    let mut p = BrotliEncoderParams::default(); p.quality = q as i32; p.lgwin = lgwin as i32; p.size_hint = data.len();
    let mut w = brotli::CompressorWriter::with_params(Vec::new(), buf, &p);
    let mut off = 0usize; let mut i = 0usize;
    while off < data.len() { let n = sizes[i % sizes.len()].min(data.len() - off); i += 1; if w.write_all(&data[off..off + n]).is_err() { return None; } off += n; }
    Some(w.into_inner())
}
/// one (buffer, quality, lgwin) point: the reference schedule against three others, reader and writer
fn pair_case(idx: usize, seed: u64, bufs: &[usize], rep: &mut Report) {
    let qs = [0u32, 1, 2, 5]; let lgs = [10u32, 16, 22];
    let buf = bufs[idx % bufs.len()]; let q = qs[(idx / bufs.len()) % 4]; let lgwin = lgs[(idx / (bufs.len() * 4)) % 3];
    let mut rng = Rng::new(seed ^ 0xC05 ^ ((idx as u64) << 20));
    let n = (3 * buf + 1234).max(20000).min(if q >= 5 { 120_000 } else { 210_000 });
    let data: Vec<u8> = match idx % 3 { 0 => (0..n).map(|i| if rng.chance(1, 4) { rng.below(256) as u8 } else { b"a quick brown fox jumps over a lazy dog; "[i % 41] }).collect(), 1 => (0..n).map(|_| rng.below(256) as u8).collect(), _ => (0..n).map(|i| (i * 31 % 251) as u8 ^ ((i >> 9) as u8)).collect() };
    let reference = read_all_with(&data, buf, q, lgwin, &[8192]);
    let r1 = rng.range(2, 50) as usize; let r2 = rng.range(51, 3000) as usize;
    let schedules: Vec<(&str, Vec<usize>)> = vec![("1", vec![1]), ("odd-cycle", vec![1, 3, 17, 1000, 7, 4097]), ("random", vec![r1, r2, 1, r1 * 3 + 1]), ("huge", vec![1 << 20])];
    rep.count(&format!("pair.reader.buf_{}", buf)); rep.count(&format!("pair.q{}", q)); rep.count(&format!("pair.lgwin{}", lgwin));
    for (name, sizes) in &schedules {
        if *name == "1" && n > 60_000 { continue; }
        rep.evaluations += 1; rep.nontrivial += 1;
        let other = read_all_with(&data, buf, q, lgwin, sizes);
        let case = format!("{{\"pair\":\"reader\",\"buffer\":{},\"q\":{},\"lgwin\":{},\"input_len\":{},\"input_kind\":{},\"seed\":{},\"idx\":{},\"schedule_a\":\"8192\",\"schedule_b\":{}}}", buf, q, lgwin, n, idx % 3, seed, idx, jstr(&format!("{:?}", sizes)));
        match (&reference, &other) {
            (Some(a), Some(b)) => {
                if a != b { rep.violation("adapters:reader-bytes-depend-on-read-sizes", &format!("same source, settings and internal buffer ({} bytes): reads of 8192 give {} bytes, schedule {} gives {} bytes (first difference at {})", buf, a.len(), name, b.len(), crate::dec::first_diff(a, b)), case); }
                else { rep.count("pair.reader.equal"); }
            }
            _ => rep.violation("adapters:reader-pair-run-failed", "a read returned Err or the stream did not end", case),
        }
    }
    if let Some(a) = &reference { match crate::dec::decode(a, n + 65536) { crate::dec::DResult::Ok(v) if v == data => rep.count("pair.reader.decoded"), _ => rep.violation("adapters:complete-stream-does-not-decode", "pair reference stream does not decode to the source", format!("{{\"pair\":\"reader\",\"idx\":{},\"seed\":{}}}", idx, seed)) } }
    // writer: caller write sizes (quality >= 2 with size_hint: C05's chunking clause)
    if q >= 2 {
        let wref = write_all_with(&data, buf, q, lgwin, &[8192]);
        for (name, sizes) in &schedules {
            if *name == "1" && n > 60_000 { continue; }
            rep.evaluations += 1;
            let other = write_all_with(&data, buf, q, lgwin, sizes);
            let case = format!("{{\"pair\":\"writer\",\"buffer\":{},\"q\":{},\"lgwin\":{},\"input_len\":{},\"input_kind\":{},\"seed\":{},\"idx\":{},\"schedule_b\":{}}}", buf, q, lgwin, n, idx % 3, seed, idx, jstr(&format!("{:?}", sizes)));
            match (&wref, &other) {
                (Some(a), Some(b)) => { if a != b { rep.violation("adapters:writer-bytes-depend-on-write-sizes", &format!("same data, settings (size_hint set) and internal buffer ({} bytes): writes of 8192 give {} bytes, schedule {} gives {} bytes", buf, a.len(), name, b.len()), case); } else { rep.count("pair.writer.equal"); } }
                _ => rep.violation("adapters:writer-pair-run-failed", "a write returned Err", case),
            }
        }
    }
}
const PAIR_BUFS_FULL: [usize; 7] = [1, 7, 100, 4095, 4096, 4196, 65537];
const PAIR_BUFS_LIGHT: [usize; 3] = [7, 4196, 100];
fn run_pairs(seed: u64, bufs: &'static [usize], rep: &mut Report) {
    let n = bufs.len() * 4 * 3;
    let results = par_tasks(n, move |i| { let mut r = Report::default(); pair_case(i, seed, bufs, &mut r); r });
    for r in results { rep.merge(r); }
}

// ------------------------------------------------------------------ generators
fn gen_data(rng: &mut Rng, n: usize) -> Vec<u8> {
    match rng.below(4) {
        0 => (0..n).map(|_| rng.below(256) as u8).collect(),
        1 => (0..n).map(|i| b"the quick brown fox jumps over the lazy dog "[i % 44]).collect(),
        2 => { let a = rng.below(256) as u8; vec![a; n] }
        _ => (0..n).map(|i| if rng.chance(1, 8) { rng.below(256) as u8 } else { (i * 7 % 251) as u8 }).collect(),
    }
}
fn gen_beh(rng: &mut Rng, code: &mut u32) -> Beh {
    match rng.below(10) { 0..=3 => Beh::F, 4 | 5 => Beh::S(rng.range(1, 9) as usize), 6 | 7 => Beh::I, 8 => { *code += 1; Beh::E(*code) } _ => Beh::Z }
}
fn gen_script(rng: &mut Rng, max_len: u64, faulty: bool, code: &mut u32) -> Vec<Beh> {
    let n = rng.below(max_len + 1);
    (0..n).map(|_| { let b = gen_beh(rng, code); if !faulty && matches!(b, Beh::E(_) | Beh::Z) { Beh::S(1) } else { b } }).collect()
}
fn gen_tail(rng: &mut Rng, faulty: bool) -> Beh { if faulty { *rng.pick(&[Beh::F, Beh::F, Beh::S(1), Beh::S(3), Beh::Z, Beh::E(99)]) } else { *rng.pick(&[Beh::F, Beh::F, Beh::S(1), Beh::S(5)]) } }
fn gen_q(rng: &mut Rng) -> (u32, u32) { (*rng.pick(&[0u32, 1, 2, 3, 5, 5, 9]), *rng.pick(&[10u32, 12, 16, 18])) }

fn gen_case(rng: &mut Rng) -> Case {
    let faulty = rng.chance(1, 2);
    let (q, lgwin) = gen_q(rng);
    let mut code = 0u32;
    let small_buf = rng.chance(1, 3);
    match rng.below(3) {
        0 => {
            let buf = if small_buf { rng.range(1, 3) as usize } else { *rng.pick(&[7usize, 64, 300, 4096]) };
            let budget = if buf < 4 { 500 } else { 3000 };
            let ncalls = rng.range(1, 5);
            let mut calls = vec![]; let mut total = 0usize;
            for _ in 0..ncalls {
                if rng.chance(1, 4) { calls.push(WCall::Flush); }
                let n = match rng.below(6) { 0 => 0, 1 => 1, _ => rng.range(2, (budget / ncalls as usize) as u64) as usize };
                total += n; calls.push(WCall::Write(gen_data(rng, n)));
            }
            if rng.chance(1, 3) { calls.push(WCall::Flush); }
            calls.push(WCall::Close);
            let _ = total;
            Case::W { custom_io: rng.chance(1, 3), buf, q, lgwin, script: gen_script(rng, 30, faulty, &mut code), tail: gen_tail(rng, faulty), fscript: if rng.chance(1, 3) { vec![*rng.pick(&[Beh::I, Beh::E(77), Beh::F])] } else { vec![] }, calls }
        }
        1 => {
            let buf = if small_buf { rng.range(1, 3) as usize } else { *rng.pick(&[7usize, 64, 255, 256, 257, 300, 4096]) };
            let script = gen_script(rng, 30, faulty, &mut code); let tail = gen_tail(rng, faulty);
            // keep well-behaved runs far below LIMIT loop iterations per call (one iteration moves
            // at most min(buf, k) source bytes when the tail is S<k>)
            let per = buf.min(match tail { Beh::S(k) => k, _ => usize::MAX });
            let n = rng.below((1500 * per).min(3000) as u64) as usize;
            let src = gen_data(rng, n);
            let custom_io = rng.chance(1, 3);
            let mut calls = vec![];
            let sz = *rng.pick(&[1usize, 2, 5, 64, 1000, 5000]);
            let nreads = (n / sz.max(1) + 6).min(if sz < 4 { 700 } else { 200 });
            for _ in 0..nreads { if custom_io && rng.chance(1, 10) { calls.push(RCall::ToFront); } calls.push(RCall::Read(if rng.chance(1, 12) { 0 } else if rng.chance(1, 4) { rng.range(1, sz as u64) as usize } else { sz })); }
            // finish with generous reads so that well-behaved runs reach Ok(0)
            for _ in 0..3 { calls.push(RCall::Read(8192)); }
            Case::R { custom_io, buf, q, lgwin, src, script, tail, calls }
        }
        _ => {
            let ib = if small_buf { rng.range(1, 3) as usize } else { *rng.pick(&[7usize, 64, 4096]) };
            let ob = if rng.chance(1, 3) { rng.range(1, 3) as usize } else { *rng.pick(&[7usize, 64, 4096]) };
            let rtail = gen_tail(rng, faulty);
            let per = ib.min(match rtail { Beh::S(k) => k, _ => usize::MAX });
            let n = rng.below((if ob < 4 { 400 } else { 1500 * per }).min(3000) as u64) as usize;
            Case::C { ib, ob, q, lgwin, src: gen_data(rng, n), rscript: gen_script(rng, 20, faulty, &mut code), rtail, wscript: gen_script(rng, 20, faulty, &mut code), wtail: gen_tail(rng, faulty) }
        }
    }
}

/// every behaviour at every call index of a short base case: scripts F^i·b, i < number of inner
/// calls of the well-behaved run (+2), b ∈ {S1, I, E, Z}; tails F and (for i = 0) Z / E
fn exhaustive_cases(thorough: bool) -> Vec<Case> {
    let mut v = vec![];
    let data: Vec<u8> = (0..120u32).map(|i| (i * 37 % 251) as u8).collect();
    let behs = [Beh::S(1), Beh::I, Beh::E(7), Beh::Z];
    let bufs: &[usize] = if thorough { &[1, 2, 3, 16, 64] } else { &[1, 3, 64] };
    for &buf in bufs { for &(q, lgwin) in &[(1u32, 10u32), (5, 10)] {
        let calls = vec![WCall::Write(data[..50].to_vec()), WCall::Flush, WCall::Write(vec![]), WCall::Write(data[50..].to_vec()), WCall::Close];
        let base = real_writer(false, buf, q, lgwin, &[], Beh::F, &[], &calls);
        let n = base.log.iter().filter(|e| e.kind == 0).count() + 2;
        let step = if thorough || n < 40 { 1 } else { n / 40 };
        for i in (0..n).step_by(step) { for b in behs { let mut s = vec![Beh::F; i]; s.push(b); v.push(Case::W { custom_io: false, buf, q, lgwin, script: s, tail: Beh::F, fscript: vec![], calls: calls.clone() }); } }
        // two and three zero-length writes in different calls (error values are handed out once)
        for (i, j, k) in [(0usize, 1usize, 2usize), (0, n / 2, n - 2), (1, 2, 3)] { let mut s = vec![Beh::F; n + 1]; s[i] = Beh::Z; s[j.min(n)] = Beh::Z; s[k.min(n)] = Beh::Z; v.push(Case::W { custom_io: false, buf, q, lgwin, script: s.clone(), tail: Beh::F, fscript: vec![], calls: calls.clone() }); v.push(Case::W { custom_io: true, buf, q, lgwin, script: s, tail: Beh::F, fscript: vec![], calls: calls.clone() }); }
        for t in [Beh::Z, Beh::E(9), Beh::S(1)] { v.push(Case::W { custom_io: false, buf, q, lgwin, script: vec![], tail: t, fscript: vec![Beh::I, Beh::E(5)], calls: calls.clone() }); }
        // reader
        let rcalls: Vec<RCall> = [0usize, 1, 7, 0, 64, 64, 64, 64, 64, 0, 64, 64].iter().map(|k| RCall::Read(*k)).collect();
        let baser = real_reader(false, buf, q, lgwin, &data, &[], Beh::F, &rcalls[1..]);
        let n = baser.log.len() + 2;
        let step = if thorough || n < 40 { 1 } else { n / 40 };
        for i in (0..n).step_by(step) { for b in behs { let mut s = vec![Beh::F; i]; s.push(b); v.push(Case::R { custom_io: false, buf, q, lgwin, src: data.clone(), script: s, tail: Beh::F, calls: rcalls[1..].to_vec() }); } }
        v.push(Case::R { custom_io: false, buf, q, lgwin, src: data.clone(), script: vec![], tail: Beh::F, calls: rcalls.clone() }); // starts with read(&mut [])
        v.push(Case::R { custom_io: false, buf, q, lgwin, src: vec![], script: vec![], tail: Beh::F, calls: vec![RCall::Read(0), RCall::Read(5), RCall::Read(5)] });
        // copy
        for &ob in bufs {
            let basec = real_copy(buf, ob, q, lgwin, &data, &[], Beh::F, &[], Beh::F);
            let (nr, nw) = (basec.log.len() + 1, basec.wlog.len() + 1);
            let stepr = if thorough || nr < 20 { 1 } else { nr / 20 }; let stepw = if thorough || nw < 20 { 1 } else { nw / 20 };
            for i in (0..nr).step_by(stepr) { for b in behs { let mut s = vec![Beh::F; i]; s.push(b); v.push(Case::C { ib: buf, ob, q, lgwin, src: data.clone(), rscript: s, rtail: Beh::F, wscript: vec![], wtail: Beh::F }); } }
            for i in (0..nw).step_by(stepw) { for b in behs { let mut s = vec![Beh::F; i]; s.push(b); v.push(Case::C { ib: buf, ob, q, lgwin, src: data.clone(), rscript: vec![], rtail: Beh::F, wscript: s, wtail: Beh::F }); } }
            // read error AND write error: the first read error must win
            v.push(Case::C { ib: buf, ob, q, lgwin, src: data.clone(), rscript: vec![Beh::F, Beh::E(3)], rtail: Beh::F, wscript: vec![Beh::E(4)], wtail: Beh::F });
            v.push(Case::C { ib: buf, ob, q, lgwin, src: data.clone(), rscript: vec![], rtail: Beh::F, wscript: vec![], wtail: Beh::Z }); // permanently full sink
        }
    } }
    v
}

pub fn run_cmd(args: &Args) {
    if args.rest.get(0).map(|s| s.as_str()) == Some("one") {
        let line = args.rest[1..].join(" ");
        let mut rep = Report::default();
        let (ops, imp) = run_case(&parse_case(&line), &mut rep, true);
        println!("ops   : {}\nimpl  : {}", ops.chars().take(400).collect::<String>(), imp);
        for v in &rep.violations { println!("VIOLATION {} — {}", v.signature, v.what); }
        return;
    }
    std::panic::set_hook(Box::new(|_| {}));
    let thorough = args.tier == "thorough";
    let mut corr = Corr::new(&args.out);
    let mut rep = Report::default();
    // `bvh adapters c05`: only the pair cases (same source / settings / own buffer, two schedules of caller
    // read resp. write sizes => identical compressed bytes), plus a handful of small correspondence cases
    if args.rest.get(0).map(|s| s.as_str()) == Some("c05") {
        run_pairs(args.seed, &PAIR_BUFS_FULL, &mut rep);
        if thorough { run_pairs(args.seed.wrapping_add(1), &PAIR_BUFS_FULL, &mut rep); run_pairs(args.seed.wrapping_add(2), &PAIR_BUFS_FULL, &mut rep); }
        let data: Vec<u8> = (0..300u32).map(|i| (i * 37 % 251) as u8).collect();
        for (buf, q) in [(7usize, 1u32), (100, 0), (7, 5), (100, 2)] { for sz in [1usize, 5, 64] {
            let c = Case::R { custom_io: false, buf, q, lgwin: 10, src: data.clone(), script: vec![], tail: Beh::F, calls: (0..(if sz == 1 { 400 } else { 90 })).map(|_| RCall::Read(sz)).chain((0..3).map(|_| RCall::Read(8192))).collect() };
            let (o, a) = run_case(&c, &mut rep, false); corr.case(&o, &a);
        } }
        rep.sample("pair: CompressorReader(buf 4196, q1, lgwin 10) read with [8192] vs [1, 3, 17, 1000, 7, 4097] -> identical bytes".into());
        corr.finish(); rep.write(&args.out); return;
    }
    run_pairs(args.seed, &PAIR_BUFS_FULL, &mut rep);
    // ---- corpus first
    let mut cases: Vec<Case> = vec![];
    if let Ok(rd) = std::fs::read_dir("/verif/corpus/adapters") {
        let mut files: Vec<_> = rd.filter_map(|e| e.ok()).map(|e| e.path()).collect(); files.sort();
        for f in files { if let Ok(t) = std::fs::read_to_string(&f) { for l in t.lines() { if l.starts_with("adapters ") { cases.push(parse_case(l)); rep.count("corpus_cases"); } } } }
    }
    let ex = exhaustive_cases(thorough);
    rep.add("exhaustive_single_fault_cases", ex.len() as u64);
    cases.extend(ex);
    let nrand = if thorough { 40000 } else { 3000 };
    let seed = args.seed;
    let ncases = cases.len();
    let cases = std::sync::Arc::new(cases);
    let total = ncases + nrand;
    let chunk = 50usize;
    let ntasks = (total + chunk - 1) / chunk;
    let cs = cases.clone();
    let results = par_tasks(ntasks, move |t| {
        std::panic::set_hook(Box::new(|_| {}));
        let mut rep = Report::default(); let mut lines = vec![];
        for i in t * chunk..((t + 1) * chunk).min(total) {
            let c = if i < ncases { cs[i].clone() } else { let mut rng = Rng::new(seed ^ 0xADA9 ^ ((i as u64) << 20)); gen_case(&mut rng) };
            let (o, a) = run_case(&c, &mut rep, false);
            if o.len() < 60000 { lines.push((o, a)); } else { rep.count("too_long_for_correspondence"); }
        }
        (lines, rep)
    });
    for (lines, r) in results { for (o, a) in lines { corr.case(&o, &a); } rep.merge(r); }
    rep.sample("adapters W 3 q5w10 F,F,Z F - w00…,f,c <trace> -> ok50,err:WZ,ok n=… h=… acc=… enc=… bad=0 sink=…".into());
    corr.finish();
    rep.write(&args.out);
}
