//! engine `adapters` (stub — to be written)
use crate::util::*;
pub fn run_cmd(args: &Args) {
    let corr = Corr::new(&args.out);
    let rep = Report::default();
    corr.finish();
    rep.write(&args.out);
}
