//! engine `adapters` (C11) — under construction; `bvh adapters probe` confirms D6/D7/D8
use crate::util::*;
use std::io::{Read, Write};
use std::sync::atomic::{AtomicU64, Ordering};
use std::sync::Arc;

struct ZeroAfter { sink: Vec<u8>, calls: u64, zero_from: u64, zero_count: u64, log: Vec<String> }
impl Write for ZeroAfter {
    fn write(&mut self, b: &[u8]) -> std::io::Result<usize> {
        let k = self.calls; self.calls += 1;
        if k >= self.zero_from && k < self.zero_from + self.zero_count { self.log.push(format!("w{}:0", b.len())); return Ok(0); }
        if self.calls > 100000 { panic!("livelock"); }
        self.sink.extend_from_slice(b); self.log.push(format!("w{}:{}", b.len(), b.len())); Ok(b.len())
    }
    fn flush(&mut self) -> std::io::Result<()> { Ok(()) }
}

pub fn probe() {
    // ---- D8: zero-length writes in CompressorWriter
    for nz in 1..=4u64 {
        let data: Vec<u8> = (0..200000u32).map(|i| (i.wrapping_mul(2654435761) >> 13) as u8).collect();
        let inner = ZeroAfter { sink: vec![], calls: 0, zero_from: 0, zero_count: 0, log: vec![] };
        let mut w = brotli::CompressorWriter::new(inner, 64, 1, 18);
        let mut results = vec![];
        // make each of the first nz write() calls that reach the sink meet one Ok(0)
        let mut off = 0;
        let mut zeros_done = 0;
        while off < data.len() {
            let end = (off + 50000).min(data.len());
            if zeros_done < nz { let c = w.get_ref().calls; let m = w.get_mut(); m.zero_from = c; m.zero_count = 1; zeros_done += 1; }
            let r = w.write(&data[off..end]);
            results.push(match &r { Ok(n) => format!("Ok({})", n), Err(e) => format!("Err({:?})", e.kind()) });
            off = end;
        }
        let r = w.flush();
        results.push(match &r { Ok(_) => "flush Ok".into(), Err(e) => format!("flush Err({:?})", e.kind()) });
        let inner = w.into_inner();
        let dec = crate::dec::decode(&inner.sink, 1 << 22);
        let d = match dec { crate::dec::DResult::Ok(v) => format!("decodes ok, equal={}", v == data), crate::dec::DResult::Error(v) => format!("decode ERROR after {} bytes", v.len()), crate::dec::DResult::NeedsMoreInput(v) => format!("truncated after {}", v.len()), _ => "toobig".into() };
        println!("D8 zero-writes={} results={:?} sink={} bytes; {}", nz, results, inner.sink.len(), d);
    }
    // ---- D7: copy loop with a writer that returns Ok(0) k times
    {
        let data = vec![7u8; 1000];
        let mut r = &data[..];
        let mut w = ZeroAfter { sink: vec![], calls: 0, zero_from: 0, zero_count: 50000, log: vec![] };
        let params = brotli::enc::BrotliEncoderParams::default();
        let res = std::panic::catch_unwind(std::panic::AssertUnwindSafe(|| brotli::BrotliCompress(&mut r, &mut w, &params)));
        println!("D7 copy with 50000 x Ok(0): result={:?} inner write calls={}", res.map(|x| x.map_err(|e| e.kind())).map_err(|_| "panic"), w.calls);
        let mut r = &data[..];
        let mut w = ZeroAfter { sink: vec![], calls: 0, zero_from: 0, zero_count: u64::MAX / 2, log: vec![] };
        w.zero_count = 200000; // and then the wrapper panics "livelock" at call 100001.. actually zero path returns before the bound
        let res = std::panic::catch_unwind(std::panic::AssertUnwindSafe(|| brotli::BrotliCompress(&mut r, &mut w, &params)));
        println!("D7 copy with 200000 x Ok(0): result={:?} inner write calls={}", res.map(|x| x.map_err(|e| e.kind())).map_err(|_| "panic"), w.calls);
    }
    // ---- D6: read(&mut []) in a thread, wall-clock only for this probe
    {
        let done = Arc::new(AtomicU64::new(0));
        let d2 = done.clone();
        std::thread::spawn(move || {
            let data = vec![7u8; 1000];
            let mut rd = brotli::CompressorReader::new(&data[..], 4096, 5, 22);
            let mut e: [u8; 0] = [];
            let r = rd.read(&mut e);
            println!("D6 read(&mut []) returned {:?}", r.map_err(|e| e.kind()));
            d2.store(1, Ordering::SeqCst);
        });
        std::thread::sleep(std::time::Duration::from_secs(3));
        println!("D6 read(&mut []) returned within 3 s: {}", done.load(Ordering::SeqCst) == 1);
    }
}

pub fn run_cmd(args: &Args) {
    if args.rest.get(0).map(|s| s.as_str()) == Some("probe") { probe(); std::process::exit(0); }
    let corr = Corr::new(&args.out);
    let rep = Report::default();
    corr.finish();
    rep.write(&args.out);
}
