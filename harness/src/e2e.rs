//! engine `e2e` — C01: the streaming encoder at quality 2 and 3, END TO END against the composed Lean
//! model (stream machine BV/Model/Stream.lean + payload model BV/Model/E2E.lean as its oracle).
//!
//! `bvh e2e --tier … --seed … --out …`
//!
//! A case = parameters (quality 2|3, lgwin, large_window, appendable, catable, magic, size_hint,
//! use_dictionary) + an input text + a request list (PROCESS / FLUSH / FINISH with byte counts).  Every
//! request is issued as `compress_stream` calls of at most `remaining_input_block_size()` bytes with ample
//! output room, so that one call contains at most one `encode_data` invocation and leaves nothing pending.
//!
//! Correspondence (format in lean/BV/Drive/E2E.lean): the request line carries the parameters, the input
//! (hex, or the seed of the shared text generator), the calls, and the static-dictionary slots of the input
//! positions (quality 2 with the dictionary on; the Lean project has no copy of the dictionary).  The Lean
//! side COMPUTES, from the input bytes alone, per call: return value, bytes consumed, length and FNV-1a of the
//! bytes produced, and for the invocation inside it: emit / wrote flags, number and digest of the commands
//! handed to WriteMetaBlockInternal (or kept for the open meta-block), dist_cache_ (16), saved_dist_cache_,
//! last_insert_len_, num_literals_, last_processed_pos_, last_flush_pos_.  The implementation side reports the
//! same from the real encoder: output bytes, `verif_stream_hook` events, the `book` log (points 2 and 3) and the
//! public `commands_` field.  The only thing the Lean side takes from the real run is a one-bit hint per call
//! (the digest of the real output, used to choose the verdict of the float decision `should_compress`).
//!
//! Search stage: the concatenated output of every case decodes (brotli-decompressor, and libbrotlidec when
//! available) to the input; no panic; no refused call.
//!
//! non-trivial = a case whose real run wrote at least one compressed meta-block with a copy command.
use crate::prng::Rng;
use crate::util::*;
use brotli::enc::dictionary_hash::kStaticDictionaryHash;
use brotli::enc::encode::{verif_stream_hook, BrotliEncoderOperation, BrotliEncoderParameter, BrotliEncoderStateStruct};
use brotli::enc::static_dict::kBrotliEncDictionary;
use brotli::enc::StandardAlloc;
use std::panic::{catch_unwind, AssertUnwindSafe};

type Enc = BrotliEncoderStateStruct<StandardAlloc>;

const CAP: usize = 1 << 20;

#[derive(Clone, Debug)]
struct Case {
    quality: u32,
    lgwin: u32,
    large: bool,
    use_dict: bool,
    appendable: bool,
    catable: bool,
    magic: bool,
    size_hint: u32,
    input_tok: String,
    input: Vec<u8>,
    reqs: Vec<(u8, usize)>,
}

fn fnv1a(bs: &[u8]) -> u32 {
    let mut h: u32 = 2166136261;
    for b in bs { h = (h ^ (*b as u32)).wrapping_mul(16777619); }
    h
}

/// the shared text generator (`genText` of lean/BV/Drive/E2E.lean)
fn gen_text(seed: u64, len: usize, alpha: u64, rep: u64) -> Vec<u8> {
    let mut x: u64 = seed % 4294967296;
    let mut run: u64 = 0;
    let mut back: usize = 1;
    let mut t: Vec<u8> = Vec::with_capacity(len);
    for i in 0..len {
        x = (x * 1664525 + 1013904223) % 4294967296;
        if run > 0 && i >= back {
            let b = t[i - back];
            t.push(b);
            run -= 1;
        } else {
            let r = x >> 16;
            if r % 100 < rep {
                run = 4 + (r >> 7) % 60;
                back = 1 + ((x >> 4) % 3000) as usize;
            }
            t.push((97 + r % alpha.max(1)) as u8);
        }
    }
    t
}

const WORDS: &[&str] = &[
    "the ", "of ", "and ", "information ", "international ", "development ", "government ", "university ", "different ",
    "available ", "through ", "because ", "however, ", "President ", "following ", "something ", "important ", "<div class=\"", "</span>",
    "http://www.", "description", "between ", "American ", "national ", "including ", "children ", "another ", "history ", "together ",
];

fn word_text(r: &mut Rng, len: usize) -> Vec<u8> {
    let mut t: Vec<u8> = vec![];
    while t.len() < len {
        if r.chance(1, 5) { t.push(r.range(32, 126) as u8); } else { t.extend_from_slice(r.pick(WORDS).as_bytes()); }
    }
    t.truncate(len);
    t
}

fn slots_token(data: &[u8], cm: usize) -> Option<String> {
    if cm + 4 > data.len() { return None; }
    let w = u32::from_le_bytes([data[cm], data[cm + 1], data[cm + 2], data[cm + 3]]);
    let key = ((w.wrapping_mul(0x1e35a7bd) >> 18) << 1) as usize;
    let d = &kBrotliEncDictionary;
    let item = kStaticDictionaryHash[key] as usize;
    let len = item & 0x1f;
    let dist = item >> 5;
    if item != 0 && len < 25 {
        let off = d.offsets_by_length[len] as usize + len * dist;
        Some(format!("{}.{}.{}", item, d.size_bits_by_length[len] as usize, hex(&d.data[off..(off + len).min(d.data.len())])))
    } else { None }
}

fn set(e: &mut Enc, p: BrotliEncoderParameter, v: u32) { e.set_parameter(p, v); }

fn op_of(o: u8) -> BrotliEncoderOperation {
    match o {
        0 => BrotliEncoderOperation::BROTLI_OPERATION_PROCESS,
        1 => BrotliEncoderOperation::BROTLI_OPERATION_FLUSH,
        _ => BrotliEncoderOperation::BROTLI_OPERATION_FINISH,
    }
}

struct RunOut {
    line: String,
    ans: String,
    out: Vec<u8>,
    copies: u64,
    wrote: u64,
    kept: u64,
    extended_calls: u64,
    invocations: u64,
}

/// drive the real encoder; Err = (signature, description)
fn run_case(c: &Case) -> Result<RunOut, (String, String)> {
    let r = catch_unwind(AssertUnwindSafe(|| -> Result<RunOut, (String, String)> {
        use BrotliEncoderParameter::*;
        let mut e: Enc = BrotliEncoderStateStruct::new(StandardAlloc::default());
        set(&mut e, BROTLI_PARAM_QUALITY, c.quality);
        set(&mut e, BROTLI_PARAM_LGWIN, c.lgwin);
        set(&mut e, BROTLI_PARAM_LARGE_WINDOW, c.large as u32);
        set(&mut e, BROTLI_PARAM_SIZE_HINT, c.size_hint);
        if c.catable { set(&mut e, BROTLI_PARAM_CATABLE, 1); }
        if c.appendable { set(&mut e, BROTLI_PARAM_APPENDABLE, 1); }
        if c.magic { set(&mut e, BROTLI_PARAM_MAGIC_NUMBER, 1); }
        e.params.use_dictionary = c.use_dict;
        let mut calls: Vec<String> = vec![];
        let mut answers: Vec<String> = vec![];
        let mut all_out: Vec<u8> = vec![];
        let mut buf = vec![0u8; CAP];
        let mut pos = 0usize;
        let (mut copies, mut wrote_n, mut kept, mut ext, mut invs) = (0u64, 0u64, 0u64, 0u64, 0u64);
        let mut cb = |_: &mut brotli::interface::PredictionModeContextMap<brotli::InputReferenceMut>, _: &mut [brotli::interface::StaticCommand], _: brotli::interface::InputPair, _: &mut StandardAlloc| ();
        for (op, n) in &c.reqs {
            let mut left = *n;
            loop {
                let block = 1usize << 14;
                let delta = e.input_pos_.wrapping_sub(e.last_processed_pos_) as usize;
                let rbs = if delta >= block { 0 } else { block - delta };
                let chunk = left.min(rbs);
                let this_op = if chunk == left { *op } else { 0u8 };
                if this_op == 0 && chunk == 0 { break; }
                let mut avail_in = chunk;
                let mut in_off = 0usize;
                let mut avail_out = CAP;
                let mut out_off = 0usize;
                let mut total: Option<usize> = None;
                let cmds_before = e.num_commands_;
                let lil_before = e.last_insert_len_;
                let ret = e.compress_stream(op_of(this_op), &mut avail_in, &c.input[pos..pos + chunk], &mut in_off, &mut avail_out, &mut buf, &mut out_off, &mut total, &mut cb);
                let evs = verif_stream_hook::take();
                let book = verif_stream_hook::take_book();
                if !ret { return Err(("e2e:refused".into(), format!("op {} with {} bytes refused", this_op, chunk))); }
                if in_off != chunk || e.available_out_ != 0 { return Err(("e2e:undrained".into(), format!("call consumed {} of {} bytes, {} bytes pending", in_off, chunk, e.available_out_))); }
                if evs.len() > 1 { return Err(("e2e:multi-invocation".into(), format!("{} invocations in one call", evs.len()))); }
                let produced = &buf[..out_off];
                let inv = if evs.len() == 1 {
                    invs += 1;
                    let p3 = book.iter().rev().find(|b| b.point == 3).cloned();
                    let p2 = book.iter().find(|b| b.point == 2).cloned();
                    match p3 {
                        None => return Err(("e2e:no-book".into(), "no bookkeeping event at exit".into())),
                        Some(p3) => {
                            let wrote = p2.is_some();
                            let ncmds = match &p2 { Some(p) => p.num_commands, None => p3.num_commands } as usize;
                            let cs = &alloc_no_stdlib::SliceWrapper::slice(&e.commands_)[..ncmds];
                            let mut d = FNV_INIT;
                            for x in cs {
                                for v in [x.insert_len_ as u64, x.copy_len_ as u64, x.dist_extra_ as u64, x.cmd_prefix_ as u64, x.dist_prefix_ as u64] { d = fnv_step(d, v); }
                                if x.cmd_prefix_ >= 128 && (x.copy_len_ & 0x1ffffff) != 0 { copies += 1; }
                            }
                            if wrote { wrote_n += 1; } else { kept += 1; }
                            if cmds_before != 0 && lil_before == 0 { ext += 1; }
                            let emit = p3.last_flush_pos == p3.input_pos;
                            format!("{}{}.{}.{}.{}.{}.{}.{}.{}.{}", emit as u8, wrote as u8, ncmds, d,
                                p3.dist_cache.iter().map(|x| x.to_string()).collect::<Vec<_>>().join(","),
                                p3.saved_dist_cache.iter().map(|x| x.to_string()).collect::<Vec<_>>().join(","),
                                p3.last_insert_len, p3.num_literals, p3.last_processed_pos, p3.last_flush_pos)
                        }
                    }
                } else { "-".to_string() };
                calls.push(format!("C{}:{}:{}:{}", this_op, chunk, CAP, fnv1a(produced)));
                answers.push(format!("1:{}:{}:{}:{}", in_off, produced.len(), fnv1a(produced), inv));
                all_out.extend_from_slice(produced);
                pos += chunk;
                left -= chunk;
                if left == 0 { break; }
            }
        }
        let mut line = format!("e2e {} {} {} {} {} {} {} {} 540 {}", c.quality, c.lgwin, c.large as u8, c.use_dict as u8, c.appendable as u8,
            c.catable as u8, c.magic as u8, c.size_hint, c.input_tok);
        for t in &calls { line.push(' '); line.push_str(t); }
        if c.use_dict && c.quality == 2 {
            for p in 0..c.input.len() { if let Some(t) = slots_token(&c.input, p) { line.push_str(&format!(" D{}={}", p, t)); } }
        }
        Ok(RunOut { line, ans: answers.join(" "), out: all_out, copies, wrote: wrote_n, kept, extended_calls: ext, invocations: invs })
    }));
    let _ = verif_stream_hook::take();
    let _ = verif_stream_hook::take_book();
    match r {
        Ok(x) => x,
        Err(_) => Err(("e2e:panic".into(), "the encoder panicked".into())),
    }
}

fn make_case(r: &mut Rng, i: usize, thorough: bool) -> Case {
    // quick tier: 32 cases — per 16: 1 multi-block ordinary text (kind 3), 2 multi-block highly repetitive texts
    // (kind 4: cheap to write, keep a meta-block open and take the extend_last_command path), the rest small;
    // thorough tier: the same mix, 1200 cases, longer texts
    let slot = (i + i / 16) % 16;
    // 1 ordinary + 4 repetitive multi-block texts per 16 cases
    let kind = if slot == 0 { 3 } else if slot == 2 || slot == 5 || slot == 8 || slot == 11 { 4 } else { i % 3 };
    let quality = if kind == 0 { if r.chance(1, 8) { 3 } else { 2 } } else if r.chance(1, 2) { 2 } else { 3 };
    // the ring buffer has 2^(1 + max(lgwin, 14)) bytes and the model rebuilds its byte view per invocation: large windows
    // are sampled sparsely (thorough tier only)
    let lgwin = if thorough && r.chance(1, 8) { *r.pick(&[17u32, 18, 20, 22]) } else { *r.pick(&[10u32, 11, 12, 13, 14, 15, 16]) };
    let large = r.chance(1, 10);
    let catable = r.chance(1, 6);
    let appendable = catable || r.chance(1, 6);
    let magic = r.chance(1, 8);
    // kind 0: small text with dictionary words (dictionary on); 1: small generated; 2: medium generated; 3/4: multi-block generated
    let (input_tok, input, use_dict) = match kind {
        0 => {
            let len = r.range(1, if thorough { 420 } else { 300 }) as usize;
            let t = word_text(r, len);
            (format!("x{}", hex(&t)), t, !catable)
        }
        1 => {
            let (seed, len, alpha, rep) = (r.below(1 << 30), r.range(0, if thorough { 2500 } else { 1200 }), r.range(1, 26), r.range(0, 40));
            (format!("g{}.{}.{}.{}", seed, len, alpha, rep), gen_text(seed, len as usize, alpha, rep), false)
        }
        2 => {
            let (seed, len, alpha, rep) = (r.below(1 << 30), r.range(1500, if thorough { 6000 } else { 3000 }), r.range(2, 200), r.range(0, 30));
            (format!("g{}.{}.{}.{}", seed, len, alpha, rep), gen_text(seed, len as usize, alpha, rep), false)
        }
        3 => {
            let hi = if thorough { 40000 } else { 17500 };
            let (seed, len, alpha, rep) = if thorough { (r.below(1 << 30), r.range(16385, hi), r.range(2, 160), r.range(0, 25)) }
                else { (r.below(1 << 30), r.range(16385, hi), r.range(2, 8), r.range(30, 60)) };
            (format!("g{}.{}.{}.{}", seed, len, alpha, rep), gen_text(seed, len as usize, alpha, rep), false)
        }
        _ => {
            let hi = if thorough { 50000 } else { 22000 };
            let (seed, len, alpha, rep) = (r.below(1 << 30), r.range(16385, hi), r.range(1, 2), r.range(80, 99));
            (format!("g{}.{}.{}.{}", seed, len, alpha, rep), gen_text(seed, len as usize, alpha, rep), false)
        }
    };
    // request list: random cut points; FLUSH sometimes; FINISH at the end
    let mut reqs: Vec<(u8, usize)> = vec![];
    let mut left = input.len();
    let pieces = r.range(1, 4);
    if kind >= 3 && r.chance(3, 4) {
        // a first request that fills at least one whole input block without forcing: the meta-block stays open
        let n = 16384 + r.below((left - 16384) as u64 + 1) as usize;
        reqs.push((0, n));
        left -= n;
    }
    for k in 0..pieces {
        if k + 1 == pieces { reqs.push((2, left)); left = 0; }
        else {
            let n = r.below(left as u64 + 1) as usize;
            reqs.push((if r.chance(1, 3) { 1 } else { 0 }, n));
            left -= n;
        }
    }
    let _ = left;
    let size_hint = if r.chance(1, 3) { input.len() as u32 } else { 0 };
    Case { quality, lgwin, large, use_dict: use_dict && !catable, appendable, catable, magic, size_hint, input_tok, input, reqs }
}

pub fn run_cmd(args: &Args) {
    let thorough = args.tier == "thorough";
    let n = if thorough { 1200 } else { 32 };
    let seed = args.seed;
    let results = par_tasks(n, move |i| {
        let mut r = Rng::new(seed ^ 0xe2e0_0000 ^ ((i as u64) << 20));
        let c = make_case(&mut r, i, thorough);
        verif_stream_hook::set_book(true);
        let res = run_case(&c);
        verif_stream_hook::set_book(false);
        let mut rep = Report::default();
        rep.evaluations += 1;
        let mut line: Option<(String, String)> = None;
        let case_json = format!("{{\"quality\": {}, \"lgwin\": {}, \"large\": {}, \"use_dict\": {}, \"appendable\": {}, \"catable\": {}, \"magic\": {}, \"size_hint\": {}, \"input\": {}, \"reqs\": {}}}",
            c.quality, c.lgwin, c.large, c.use_dict, c.appendable, c.catable, c.magic, c.size_hint, jstr(&c.input_tok),
            jstr(&c.reqs.iter().map(|(o, n)| format!("{}:{}", o, n)).collect::<Vec<_>>().join(",")));
        match res {
            Err((sig, what)) => {
                if sig == "e2e:multi-invocation" || sig == "e2e:undrained" { rep.count("skipped.schedule"); }
                else { rep.violation(&sig, &what, case_json); }
            }
            Ok(o) => {
                rep.add("invocations", o.invocations);
                rep.add("metablocks.written", o.wrote);
                rep.add("invocations.kept_open", o.kept);
                rep.add("invocations.extend_last_command_path", o.extended_calls);
                rep.add("copy_commands", o.copies);
                rep.count(&format!("quality.{}", c.quality));
                if c.use_dict && c.quality == 2 { rep.count("dictionary.on"); }
                if c.catable { rep.count("catable"); }
                if c.appendable { rep.count("appendable"); }
                if c.magic { rep.count("magic"); }
                if o.copies > 0 && o.wrote > 0 { rep.nontrivial += 1; }
                match crate::dec::decode_both(&o.out, c.large, &c.input) {
                    Ok(()) => rep.count("roundtrip.ok"),
                    Err(d) => rep.violation("e2e:roundtrip", &d, case_json),
                }
                if o.line.len() < 65000 { line = Some((o.line, o.ans)); } else { rep.count("skipped.line_too_long"); }
            }
        }
        (line, rep)
    });
    let mut corr = Corr::new(&args.out);
    let mut rep = Report::default();
    for (line, r) in results {
        if let Some((l, a)) = line { corr.case(&l, &a); }
        rep.merge(r);
    }
    rep.add("corr.lines", corr.n);
    corr.finish();
    rep.write(&args.out);
}
