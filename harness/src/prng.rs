//! One splitmix64 state -> every random choice (so that a seed replays exactly).
#[derive(Clone)]
pub struct Rng(pub u64);
impl Rng {
    pub fn new(seed: u64) -> Self {
        Rng(seed.wrapping_mul(0x9E3779B97F4A7C15).wrapping_add(0xD1B54A32D192ED03))
    }
    pub fn next(&mut self) -> u64 {
        self.0 = self.0.wrapping_add(0x9E3779B97F4A7C15);
        let mut z = self.0;
        z = (z ^ (z >> 30)).wrapping_mul(0xBF58476D1CE4E5B9);
        z = (z ^ (z >> 27)).wrapping_mul(0x94D049BB133111EB);
        z ^ (z >> 31)
    }
    /// uniform in [0, n)
    pub fn below(&mut self, n: u64) -> u64 {
        if n == 0 { 0 } else { self.next() % n }
    }
    pub fn range(&mut self, lo: u64, hi_incl: u64) -> u64 {
        lo + self.below(hi_incl - lo + 1)
    }
    pub fn chance(&mut self, num: u64, den: u64) -> bool {
        self.below(den) < num
    }
    pub fn pick<'a, T>(&mut self, xs: &'a [T]) -> &'a T {
        &xs[self.below(xs.len() as u64) as usize]
    }
    pub fn fork(&mut self) -> Rng {
        Rng(self.next())
    }
}
