//! C03 / C12 / C16: the stream concatenator (`brotli::concat::BroCatli`, `brotli::ffi::broccoli`).
//!
//! Every scenario = window override + list of member byte strings + a slicing schedule.  The
//! run records the exact call sequence (`N`, `S:<hex>:<cap>`, `F:<cap>`, `Z`) and what the
//! implementation answered; that line goes to the Lean model (correspondence).  The oracles
//! (search stage) judge the implementation alone: decode of the output with two decoders
//! (C03), equality across slicings / save-restore / the C ABI (C12), no panic, cursors in
//! bounds, progress (C16).
use crate::dec;
use crate::prng::Rng;
use crate::util::*;
use brotli::concat::{BroCatli, BroCatliResult};
use brotli::enc::BrotliEncoderParams;
use std::panic::{catch_unwind, AssertUnwindSafe};

#[derive(Clone)]
pub struct Member {
    pub bytes: Vec<u8>,
    pub content: Option<Vec<u8>>, // Some = a valid stream with this content
    pub desc: String,
    pub lgwin: i32,         // declared window (0 = unknown)
    pub catable: bool,      // may appear at position > 0
    pub appendable: bool,   // may appear at position 0
    pub large: bool,
}

pub fn encode(content: &[u8], q: i32, lgwin: i32, appendable: bool, catable: bool, magic: bool, large: bool) -> Vec<u8> {
    let mut p = BrotliEncoderParams::default();
    p.quality = q;
    p.lgwin = lgwin;
    p.appendable = appendable;
    p.catable = catable;
    if catable {
        p.use_dictionary = false;
        p.appendable = true;
    }
    p.magic_number = magic;
    p.large_window = large;
    let mut out = Vec::new();
    let mut inp = content;
    brotli::BrotliCompress(&mut inp, &mut out, &p).unwrap();
    out
}

pub fn gen_content(rng: &mut Rng, max: usize) -> Vec<u8> {
    let class = rng.below(10);
    let n = match class {
        0 => 0,
        1 => rng.range(1, 3) as usize,
        2 | 3 => rng.range(4, 40) as usize,
        4..=7 => rng.range(41, (max.min(600)) as u64) as usize,
        _ => rng.range(600.min(max as u64), max as u64) as usize,
    };
    let style = rng.below(5);
    let mut v = Vec::with_capacity(n);
    let words: [&[u8]; 6] = [b"the ", b"quick ", b"brown ", b"fox ", b"<div class=\"", b"0123456789"];
    while v.len() < n {
        match style {
            0 => v.push(rng.next() as u8),
            1 => v.push(b'a' + (rng.below(3) as u8)),
            2 => { let wd: &[u8] = words[rng.below(6) as usize]; v.extend_from_slice(wd) }
            3 => { let i = v.len(); v.push(((i * 7 + (i >> 3) * 13) % 251) as u8) }
            _ => { if rng.chance(1, 8) || v.len() < 8 { v.push(rng.next() as u8) } else { let d = rng.range(1, v.len().min(64) as u64) as usize; let b = v[v.len() - d]; v.push(b) } }
        }
    }
    v.truncate(n);
    v
}

/// a member the concatenator never looks at (its look-ahead is never "sufficient")
pub fn is_short(b: &[u8]) -> bool { b.len() < 4 || (b.len() == 4 && (b[0] & 127) == 17) }

fn real_member(rng: &mut Rng, first: bool, max_lgwin: i32, large: bool, max_content: usize) -> Member {
    let content = gen_content(rng, max_content);
    let q = *rng.pick(&[0, 1, 2, 3, 4, 5, 6, 9, 10, 11, 5, 5, 2, 7, 8]);
    let hi = if large { max_lgwin.min(30) } else { max_lgwin.min(24) };
    let lgwin = rng.range(10, hi as u64) as i32;
    let q = if q <= 1 && hi < 18 { 2 } else { q }; // q0/q1 declare max(lgwin,18)
    let q = if q >= 10 && lgwin > 20 { 9 } else { q }; // the binary-tree hasher allocates 8 bytes per window position
    let magic = rng.chance(1, 4);
    let catable = !first || rng.chance(1, 2);
    let bytes = encode(&content, q, lgwin, true, catable, magic, large);
    let eff = if q <= 1 { lgwin.max(18) } else { lgwin };
    Member { bytes, content: Some(content), desc: format!("enc q{} w{} {}{}{}", q, lgwin, if catable { "catable" } else { "appendable" }, if magic { " magic" } else { "" }, if large { " large" } else { "" }), lgwin: eff, catable, appendable: true, large }
}

/// LSB-first bit writer for hand-built stored streams (independent of the crate's writer)
struct BitW { bytes: Vec<u8>, nbits: usize }
impl BitW {
    fn new() -> Self { BitW { bytes: vec![], nbits: 0 } }
    fn put(&mut self, n: usize, v: u64) {
        for i in 0..n {
            if self.nbits % 8 == 0 { self.bytes.push(0); }
            if (v >> i) & 1 == 1 { let l = self.bytes.len() - 1; self.bytes[l] |= 1 << (self.nbits % 8); }
            self.nbits += 1;
        }
    }
    fn align(&mut self) { while self.nbits % 8 != 0 { self.put(1, 0); } }
    fn window(&mut self, lgwin: u32, large: bool) {
        if large { self.put(14, 0x11 | ((lgwin as u64) << 8)); }
        else if lgwin == 16 { self.put(1, 0); }
        else if lgwin == 17 { self.put(7, 1); }
        else if lgwin > 17 { self.put(4, (((lgwin - 17) << 1) | 1) as u64); }
        else { self.put(7, (((lgwin - 8) << 4) | 1) as u64); }
    }
    fn metadata(&mut self, payload: &[u8], skip_bytes_field: usize) {
        // ISLAST=0, MNIBBLES=3 (code 0b11), reserved 0, MSKIPBYTES, MSKIPLEN-1, align, payload
        self.put(1, 0); self.put(2, 3); self.put(1, 0);
        if payload.is_empty() && skip_bytes_field == 0 { self.put(2, 0); self.align(); return; }
        self.put(2, skip_bytes_field as u64);
        self.put(8 * skip_bytes_field, (payload.len() - 1) as u64);
        self.align();
        for b in payload { self.put(8, *b as u64); }
    }
    fn uncompressed(&mut self, data: &[u8], nibbles: usize) {
        self.put(1, 0); // ISLAST
        self.put(2, (nibbles - 4) as u64);
        self.put(4 * nibbles, (data.len() - 1) as u64);
        self.put(1, 1); // ISUNCOMPRESSED
        self.align();
        for b in data { self.put(8, *b as u64); }
    }
    fn last_empty(&mut self) { self.put(1, 1); self.put(1, 1); self.align(); }
}

/// hand-built stored stream: every header form x first block kind (metadata with k skip bytes / uncompressed with n nibbles)
fn stored_member(rng: &mut Rng, max_lgwin: i32, large: bool) -> Member {
    let hi = if large { max_lgwin.min(30) } else { max_lgwin.min(24) };
    let lgwin = rng.range(10, hi as u64) as u32;
    let mut w = BitW::new();
    w.window(lgwin, large);
    let mut content = vec![];
    let mut desc = format!("stored w{}{}", lgwin, if large { " large" } else { "" });
    let wbits = w.nbits;
    let mut hdr_bits = 0usize;
    let first_meta = rng.chance(1, 2);
    if first_meta {
        let k = rng.range(0, 3) as usize;
        let len = match k { 0 => 0, 1 => rng.range(1, 40) as usize, 2 => rng.range(257, 400) as usize, _ => 65537 + rng.below(50) as usize };
        let payload: Vec<u8> = (0..len).map(|i| (i * 31 + 7) as u8).collect();
        w.metadata(&payload, k);
        hdr_bits = wbits + 6 + 8 * k;
        desc += &format!(" meta(k={},len={})", k, len);
    }
    let nblocks = rng.range(if first_meta { 0 } else { 1 }, 3);
    for bi in 0..nblocks {
        let n = if bi == 0 && !first_meta && rng.chance(1, 6) { if rng.chance(1, 4) { (1 << 20) + 1 + rng.below(9) as usize } else { 65537 + rng.below(300) as usize } } else { rng.range(1, 300) as usize };
        let nib = if n > (1 << 20) { 6 } else if n > 65536 { 5 } else { 4 };
        let data: Vec<u8> = (0..n).map(|_| rng.next() as u8).collect();
        w.uncompressed(&data, nib);
        if hdr_bits == 0 { hdr_bits = wbits + 4 + 4 * nib; }
        content.extend_from_slice(&data);
        desc += &format!(" raw(n={},nib={})", n, nib);
        if rng.chance(1, 5) { w.metadata(&[], 0); desc += " pad"; }
    }
    if hdr_bits == 0 { hdr_bits = wbits + 2; }
    w.last_empty();
    // the concatenator only realigns first-block headers that fit its look-ahead (4 bytes, 5 for the 14-bit window form)
    let fits = hdr_bits <= if large { 40 } else { 32 };
    if !fits { desc += " (header beyond look-ahead)"; }
    Member { bytes: w.bytes, content: Some(content), desc, lgwin: lgwin as i32, catable: fits, appendable: true, large }
}

pub const RES_NAMES: [(u8, &str); 7] = [(0, "Success"), (1, "NeedsMoreInput"), (2, "NeedsMoreOutput"), (124, "NotCraftedForAppend"), (125, "InvalidWindowSize"), (126, "WindowSizeLargerThanPreviousFile"), (127, "NotCraftedForConcatenation")];
fn code(r: BroCatliResult) -> u8 { r as u8 }

#[derive(Clone, Default)]
pub struct Run {
    pub calls: Vec<String>,   // request tokens
    pub answers: Vec<String>, // implementation answers
    pub output: Vec<u8>,
    pub fin: String, // "ok" | "err:<code>" | "panic" | "livelock" | "cursor"
    pub ncalls: usize,
}

/// One slicing policy: how many input bytes to offer and how much output room to give per call.
#[derive(Clone, Debug)]
pub struct Sched { pub in_chunk: Vec<usize>, pub out_cap: Vec<usize>, pub zero_every: usize, pub z_every: usize, pub ffi: bool }
impl Sched {
    pub fn big() -> Self { Sched { in_chunk: vec![usize::MAX], out_cap: vec![usize::MAX], zero_every: 0, z_every: 0, ffi: false } }
    pub fn desc(&self) -> String { format!("in={:?} out={:?} zero_every={} z_every={} ffi={}", self.in_chunk.iter().map(|x| if *x == usize::MAX { 0 } else { *x }).collect::<Vec<_>>(), self.out_cap, self.zero_every, self.z_every, self.ffi) }
}

pub fn run(w: u8, members: &[Vec<u8>], s: &Sched) -> Run {
    let mut r = Run::default();
    let res = catch_unwind(AssertUnwindSafe(|| run_inner(w, members, s, &mut r)));
    if res.is_err() {
        r.answers.push("panic".into());
        r.fin = "panic".into();
    }
    r
}

fn roundtrip_state(st: &mut BroCatli) {
    let mut buf = [0u8; 120];
    st.serialize_to_buffer(&mut buf).unwrap();
    *st = BroCatli::deserialize_from_buffer(&buf).unwrap();
}

fn run_inner(w: u8, members: &[Vec<u8>], s: &Sched, r: &mut Run) {
    let mut st = if w == 0 { BroCatli::new() } else { BroCatli::new_with_window_size(w) };
    let mut k = 0usize; // call counter for the schedule
    let total: usize = members.iter().map(|m| m.len()).sum();
    let bound = 40 * total + 2000;
    let mut idle = 0usize;
    let capof = |c: usize| if c == usize::MAX { total + 64 } else { c };
    macro_rules! maybe_z { () => { if s.z_every != 0 && k % s.z_every == 0 { r.calls.push("Z".into()); r.answers.push("-".into()); roundtrip_state(&mut st); } } }
    for m in members {
        st.new_brotli_file();
        r.calls.push("N".into());
        r.answers.push("-".into());
        let mut pos = 0usize;
        loop {
            k += 1;
            r.ncalls += 1;
            if r.ncalls > bound { r.fin = "livelock".into(); return; }
            maybe_z!();
            let chunk = s.in_chunk[k % s.in_chunk.len()];
            let end = if chunk == usize::MAX { m.len() } else { (pos + chunk).min(m.len()) };
            let mut cap = capof(s.out_cap[k % s.out_cap.len()]);
            let zero = s.zero_every != 0 && k % s.zero_every == 0;
            if zero { cap = 0; }
            let mut out = vec![0u8; cap];
            let (mut io, mut oo) = (0usize, 0usize);
            r.calls.push(format!("S:{}:{}", hex(&m[pos..end]), cap));
            let res = st.stream(&m[pos..end], &mut io, &mut out, &mut oo);
            if io > end - pos || oo > cap { r.answers.push("cursor".into()); r.fin = "cursor".into(); return; }
            r.answers.push(format!("{}:{}:{}", code(res), io, hex(&out[..oo])));
            r.output.extend_from_slice(&out[..oo]);
            let offered_in = end - pos;
            pos += io;
            if io == 0 && oo == 0 && !zero { idle += 1; } else { idle = 0; }
            match res {
                BroCatliResult::NeedsMoreInput => {
                    if pos == m.len() { break; }
                    if idle > 3 && offered_in > 0 && cap > 0 { r.fin = "livelock".into(); return; }
                }
                BroCatliResult::NeedsMoreOutput => {
                    if idle > 3 && cap > 0 { r.fin = "livelock".into(); return; }
                }
                BroCatliResult::Success => { if pos == m.len() { break; } }
                e => { r.fin = format!("err:{}", code(e)); return; }
            }
        }
    }
    loop {
        k += 1;
        r.ncalls += 1;
        if r.ncalls > bound { r.fin = "livelock".into(); return; }
        maybe_z!();
        let mut cap = capof(s.out_cap[k % s.out_cap.len()]);
        let zero = s.zero_every != 0 && k % s.zero_every == 0;
        if zero { cap = 0; }
        let mut out = vec![0u8; cap];
        let mut oo = 0usize;
        r.calls.push(format!("F:{}", cap));
        let res = st.finish(&mut out, &mut oo);
        if oo > cap { r.answers.push("cursor".into()); r.fin = "cursor".into(); return; }
        r.answers.push(format!("{}:0:{}", code(res), hex(&out[..oo])));
        r.output.extend_from_slice(&out[..oo]);
        if oo == 0 && !zero { idle += 1; } else { idle = 0; }
        match res {
            BroCatliResult::Success => { r.fin = "ok".into(); return; }
            BroCatliResult::NeedsMoreOutput => { if idle > 3 && cap > 0 { r.fin = "livelock".into(); return; } }
            e => { r.fin = format!("err:{}", code(e)); return; }
        }
    }
}

/// the same protocol through the C ABI (state serialised on every call)
pub fn run_ffi(w: u8, members: &[Vec<u8>], s: &Sched) -> Run {
    use brotli::ffi::broccoli::*;
    let mut r = Run::default();
    let res = catch_unwind(AssertUnwindSafe(|| unsafe {
        let mut st = if w == 0 { BroccoliCreateInstance() } else { BroccoliCreateInstanceWithWindowSize(w) };
        let total: usize = members.iter().map(|m| m.len()).sum();
        let bound = 40 * total + 2000;
        let mut k = 0usize;
        for m in members {
            BroccoliNewBrotliFile(&mut st);
            let mut pos = 0usize;
            loop {
                k += 1; r.ncalls += 1;
                if r.ncalls > bound { r.fin = "livelock".into(); return; }
                let chunk = s.in_chunk[k % s.in_chunk.len()];
                let end = if chunk == usize::MAX { m.len() } else { (pos + chunk).min(m.len()) };
                let cap = s.out_cap[k % s.out_cap.len()];
                let mut out = vec![0u8; cap.max(1)];
                let mut avail_in = end - pos;
                let mut in_ptr = m[pos..].as_ptr();
                let mut avail_out = cap;
                let mut out_ptr = out.as_mut_ptr();
                let res = BroccoliConcatStream(&mut st, &mut avail_in, &mut in_ptr, &mut avail_out, &mut out_ptr);
                let io = (end - pos) - avail_in; let oo = cap - avail_out;
                if in_ptr as usize != m[pos..].as_ptr() as usize + io || out_ptr as usize != out.as_ptr() as usize + oo { r.fin = "cursor".into(); return; }
                r.output.extend_from_slice(&out[..oo]);
                pos += io;
                match res {
                    BroCatliResult::NeedsMoreInput => { if pos == m.len() { break; } }
                    BroCatliResult::NeedsMoreOutput => {}
                    BroCatliResult::Success => { if pos == m.len() { break; } }
                    e => { r.fin = format!("err:{}", code(e)); return; }
                }
            }
        }
        loop {
            k += 1; r.ncalls += 1;
            if r.ncalls > bound { r.fin = "livelock".into(); return; }
            let cap = s.out_cap[k % s.out_cap.len()];
            let mut out = vec![0u8; cap.max(1)];
            let mut avail_out = cap;
            let mut out_ptr = out.as_mut_ptr();
            let res = BroccoliConcatFinish(&mut st, &mut avail_out, &mut out_ptr);
            let oo = cap - avail_out;
            r.output.extend_from_slice(&out[..oo]);
            match res {
                BroCatliResult::Success => { r.fin = "ok".into(); return; }
                BroCatliResult::NeedsMoreOutput => {}
                e => { r.fin = format!("err:{}", code(e)); return; }
            }
        }
    }));
    if res.is_err() { r.fin = "panic".into(); }
    r
}

fn rand_sched(rng: &mut Rng) -> Sched {
    let pick = |rng: &mut Rng, n: usize, small: bool| -> Vec<usize> {
        (0..n).map(|_| match rng.below(if small { 6 } else { 8 }) { 0 | 1 => 1, 2 => 2, 3 => 3, 4 => rng.range(1, 7) as usize, 5 => rng.range(4, 40) as usize, 6 => rng.range(40, 4000) as usize, _ => 1 << 16 }).collect()
    };
    let small = rng.chance(1, 2);
    let (n1, n2) = (rng.range(1, 5) as usize, rng.range(1, 5) as usize);
    let out_cap = pick(rng, n2, small);
    let mut in_chunk = pick(rng, n1, small);
    // every call re-offers the unconsumed input: keep the offered slice short when output is tight
    if out_cap.iter().any(|c| *c < 64) { for c in in_chunk.iter_mut() { *c = (*c).min(48); } }
    Sched {
        in_chunk,
        out_cap,
        zero_every: if rng.chance(1, 3) { rng.range(2, 5) as usize } else { 0 },
        z_every: if rng.chance(1, 3) { rng.range(1, 3) as usize } else { 0 },
        ffi: false,
    }
}

fn members_json(ms: &[Member]) -> String {
    format!("[{}]", ms.iter().map(|m| format!("{{\"desc\":{},\"hex\":{}}}", jstr(&m.desc), jstr(&hex(&m.bytes)))).collect::<Vec<_>>().join(","))
}

fn alignment_of(bytes: &[u8]) -> Option<u32> {
    // bit index (0..7) of the FIRST of the two end-marker bits within its byte
    let last = *bytes.last()?;
    if last == 0 { return None; }
    let hi = 7 - last.leading_zeros();
    Some(if hi == 0 { 7 } else { hi - 1 })
}
fn header_form(bytes: &[u8]) -> &'static str {
    if bytes.is_empty() { return "none"; }
    if bytes[0] & 1 == 0 { "1bit" } else if bytes[0] & 15 != 1 { "4bit" } else if bytes[0] & 127 == 0x11 { "14bit" } else { "7bit" }
}

struct Ctx { lines: Vec<(String, String)>, rep: Report }
impl Ctx { fn new() -> Self { Ctx { lines: vec![], rep: Report::default() } } }

/// run one scenario under the reference slicing and under `variants`; apply the oracles.
fn scenario(cx: &mut Ctx, w: u8, ms: &[Member], variants: &[Sched], expect_ok: bool) {
    let raw: Vec<Vec<u8>> = ms.iter().map(|m| m.bytes.clone()).collect();
    let reference = run(w, &raw, &Sched::big());
    cx.rep.evaluations += 1;
    let emit = |cx: &mut Ctx, r: &Run| {
        let sz: usize = r.calls.iter().map(|c| c.len() + 1).sum();
        if sz < (1 << 16) { cx.lines.push((format!("concat {} {}", w, r.calls.join(" ")), r.answers.join(" "))); } else { cx.rep.count("corr.line_too_long_skipped"); }
    };
    emit(cx, &reference);
    cx.rep.count(&format!("final.{}", reference.fin));
    let case = |extra: &str| format!("{{\"window_override\":{},\"members\":{}{}}}", w, members_json(ms), extra);
    // ---- C16
    if reference.fin == "panic" || reference.fin == "livelock" || reference.fin == "cursor" {
        cx.rep.violation(&format!("concat:{}", reference.fin), &format!("concatenator {} on these member bytes (reference slicing)", reference.fin), case(""));
    }
    // ---- C03
    let all_valid = ms.iter().all(|m| m.content.is_some());
    if reference.fin == "ok" && all_valid {
        // short members (< 4 bytes... i.e. never "sufficient") contribute nothing and must be empty streams
        let mut expect = vec![];
        for m in ms { expect.extend_from_slice(m.content.as_ref().unwrap()); }
        let large = ms.iter().any(|m| m.large) || w > 24;
        if let Err(e) = dec::decode_both(&reference.output, large, &expect) {
            cx.rep.violation("concat:success-but-undecodable", &format!("concatenator reported success but the output does not decode to the concatenation: {}", e), case(""));
        }
        cx.rep.nontrivial += 1;
    }
    if expect_ok && reference.fin != "ok" && reference.fin != "panic" {
        cx.rep.violation("concat:valid-members-rejected", &format!("valid appendable/catable members with non-growing windows were not concatenated: {}", reference.fin), case(""));
    }
    // ---- C12 (+C16 under other slicings)
    let mut any_panic = reference.fin == "panic";
    for v in variants {
        // a panic inside an `extern "C"` function aborts the process: the C-ABI variant only runs
        // when the same scenario did not panic through the Rust API
        if v.ffi && any_panic { cx.rep.count("sched.c_abi_skipped_after_panic"); continue; }
        let r = if v.ffi { run_ffi(w, &raw, v) } else { run(w, &raw, v) };
        if r.fin == "panic" { any_panic = true; }
        cx.rep.evaluations += 1;
        if !v.ffi { emit(cx, &r); }
        if r.fin == "panic" || r.fin == "livelock" || r.fin == "cursor" {
            cx.rep.violation(&format!("concat:{}", r.fin), &format!("concatenator {} under slicing {}", r.fin, v.desc()), case(&format!(",\"slicing\":{}", jstr(&v.desc()))));
        } else if r.fin != reference.fin || (r.output != reference.output && reference.fin == "ok") {
            cx.rep.violation("concat:slicing-dependent", &format!("result/output differ between the reference slicing ({} / {} bytes) and {} ({} / {} bytes, first diff at {})", reference.fin, reference.output.len(), v.desc(), r.fin, r.output.len(), dec::first_diff(&r.output, &reference.output)), case(&format!(",\"slicing\":{}", jstr(&v.desc()))));
        }
        if v.zero_every != 0 { cx.rep.count("sched.zero_capacity_calls"); }
        if v.z_every != 0 { cx.rep.count("sched.save_restore"); }
        if v.ffi { cx.rep.count("sched.c_abi"); }
    }
    for (i, m) in ms.iter().enumerate() {
        if let Some(a) = alignment_of(&m.bytes) { cx.rep.count(&format!("align{}.{}", a, if i + 1 == ms.len() { "last" } else { "inner" })); }
        if i > 0 { cx.rep.count(&format!("hdr.{}", header_form(&m.bytes))); }
        if m.bytes.len() < 4 { cx.rep.count("member.short"); }
    }
}

fn variants(rng: &mut Rng, n: usize) -> Vec<Sched> {
    let mut v = vec![Sched { in_chunk: vec![1], out_cap: vec![1], zero_every: 0, z_every: 0, ffi: false }];
    v.push(Sched { in_chunk: vec![7], out_cap: vec![1], zero_every: 2, z_every: 1, ffi: false });
    for _ in 0..n { v.push(rand_sched(rng)); }
    let mut f = rand_sched(rng); f.ffi = true; f.zero_every = 0; f.z_every = 0; v.push(f);
    v
}

pub fn run_cmd(args: &Args) {
    let thorough = args.tier == "thorough";
    let mut corr = Corr::new(&args.out);
    let mut rep = Report::default();
    let seed = args.seed;
    let which = args.rest.get(0).map(|s| s.as_str()).unwrap_or("all").to_string();
    let max_lines: u64 = if thorough { 400_000 } else { 60_000 };
    let mut outs: Vec<Ctx> = vec![];

    // ---- corpus (minimised past failures) first
    { let mut cx = Ctx::new(); corpus(&mut cx); outs.push(cx); }

    // ---- A. valid member sequences (C03 + C12)
    if which == "all" || which == "valid" {
        let n = if thorough { 6000 } else { 800 };
        outs.extend(par_tasks(n, move |i| {
            let mut cx = Ctx::new();
            let mut rng = Rng::new(seed ^ 0xC0CA7 ^ ((i as u64) << 20));
            let nm = rng.range(1, if i % 7 == 0 { 8 } else { 4 }) as usize;
            // the header form (large-window or not) must be uniform; 1 in 8 scenarios mixes the
            // forms on purpose: then the concatenator has to refuse (never succeed with garbage)
            let large_all = rng.chance(1, 5);
            let mixed = rng.chance(1, 8);
            let mut ms: Vec<Member> = vec![];
            let mut maxw: i32 = if large_all { *rng.pick(&[25, 25, 26]) } else { match rng.below(10) { 0..=5 => rng.range(10, 16) as i32, 6..=7 => rng.range(17, 20) as i32, 8 => rng.range(21, 23) as i32, _ => 24 } };
            let mut w = 0u8;
            if rng.chance(1, 6) { w = if large_all { rng.range(25, maxw as u64) as u8 } else { rng.range(10, maxw as u64) as u8 }; maxw = w as i32; }
            let mut window_fixed = w != 0;
            for j in 0..nm {
                let first = !window_fixed;
                let big = if thorough && rng.chance(1, 30) { 70000 } else { 1500 };
                let lg = if mixed && j > 0 && rng.chance(1, 2) { !large_all } else { large_all };
                let mw = if lg { maxw.max(10) } else { maxw.min(24) };
                let m = if rng.chance(1, 3) { stored_member(&mut rng, mw, lg) } else { real_member(&mut rng, first, mw, lg, big) };
                if !window_fixed && !is_short(&m.bytes) { maxw = m.lgwin; window_fixed = true; }
                ms.push(m);
            }
            let uniform = ms.iter().all(|m| m.large == large_all || is_short(&m.bytes));
            let mut seen_first = w != 0;
            let mut ok_expected = uniform;
            for m in &ms { if is_short(&m.bytes) { continue; } if seen_first && !m.catable { ok_expected = false; } seen_first = true; }
            if !uniform { cx.rep.count("scenario.mixed_header_forms"); }
            let vs = variants(&mut rng, if thorough { 3 } else { 2 });
            scenario(&mut cx, w, &ms, &vs, ok_expected);
            cx
        }));
    }
    // ---- A2. distance-cache sensitive members (the encoder's catable promise): a catable member
    // whose first meta-block(s) are stored (incompressible prefix) and whose later data repeats
    // at a short period (the initial distance cache holds 4, 11, 15, 16), behind a member that
    // left real distances in the decoder's cache.
    if which == "all" || which == "valid" {
        let n = if thorough { 160 } else { 40 };
        outs.extend(par_tasks(n, move |i| {
            let mut cx = Ctx::new();
            let mut rng = Rng::new(seed ^ 0xD157 ^ ((i as u64) << 20));
            let (q, lgwin) = *rng.pick(&[(5, 16), (6, 18), (9, 16), (4, 17), (2, 16), (7, 16), (3, 18), (8, 17)]);
            let period = *rng.pick(&[4usize, 11, 15, 16, 1, 2, 3, 5, 8, 12, 7, 10]);
            let mut first = Vec::new();
            for k in 0..(100 + rng.below(300)) { first.extend_from_slice(format!("line {} of the first member, with some repeated words\n", k * 7919).as_bytes()); }
            let blocks = rng.range(1, 3) as usize;
            let mut second: Vec<u8> = (0..(blocks << 16) + rng.below(3) as usize * 1000).map(|_| rng.next() as u8).collect();
            let motif: Vec<u8> = (0..period).map(|k| b'a' + ((k as u8).wrapping_mul(7) % 26)).collect();
            for _ in 0..(20000 / period + 1) { second.extend_from_slice(&motif); }
            let mk = |content: Vec<u8>, catable: bool| { let bytes = encode(&content, q, lgwin, true, catable, false, false); Member { bytes, content: Some(content), desc: format!("enc q{} w{} {} (noise+period{})", q, lgwin, if catable { "catable" } else { "appendable" }, period), lgwin, catable, appendable: true, large: false } };
            let mut ms = vec![mk(first, false), mk(second.clone(), true)];
            if rng.chance(1, 2) { ms.push(mk(second, true)); }
            cx.rep.count("scenario.dist_cache_sensitive");
            scenario(&mut cx, 0, &ms, &[], true);
            cx
        }));
    }
    // ---- B. arbitrary bytes (C16 + C12): every 2-byte prefix x continuations, as 2nd member and as 1st member
    if which == "all" || which == "bytes" {
        let step: u32 = if thorough { 1 } else { 5 };
        let first_bytes = encode(b"hello, concatenation", 5, 22, true, false, false, false);
        let nblocks = 256usize;
        let fb = first_bytes.clone();
        outs.extend(par_tasks(nblocks, move |blk| {
            let mut cx = Ctx::new();
            let first = Member { bytes: fb.clone(), content: Some(b"hello, concatenation".to_vec()), desc: "enc q5 w22 appendable".into(), lgwin: 22, catable: false, appendable: true, large: false };
            let conts: [&[u8]; 4] = [&[0x00, 0x00, 0x00, 0x03], &[0xff, 0xff, 0xff, 0xff, 0xff], &[0x61, 0x62, 0x63, 0x03, 0x00, 0x01], &[0x80]];
            let one = Sched { in_chunk: vec![1], out_cap: vec![1], zero_every: 3, z_every: 0, ffi: false };
            let lo = (blk as u32) * 256;
            let mut p = lo + ((seed as u32).wrapping_add(blk as u32) % step);
            while p < lo + 256 {
                let c = conts[(p as usize / step as usize) % conts.len()];
                let mut b = vec![(p & 255) as u8, (p >> 8) as u8];
                b.extend_from_slice(c);
                let crafted = Member { bytes: b, content: None, desc: format!("prefix {:04x}", p), lgwin: 0, catable: false, appendable: false, large: false };
                scenario(&mut cx, 0, &[first.clone(), crafted.clone()], &[one.clone()], false);
                if p % 3 == 0 { scenario(&mut cx, if p % 2 == 0 { 0 } else { 10 + (p % 21) as u8 }, &[crafted.clone(), first.clone()], &[one.clone()], false); }
                p += step;
            }
            cx.rep.add("prefix_scenarios", 1);
            cx
        }));
        // mutated valid streams, truncated streams, random bytes, 1..6 members
        let n = if thorough { 20000 } else { 2500 };
        outs.extend(par_tasks(n, move |i| {
            let mut cx = Ctx::new();
            let mut rng = Rng::new(seed ^ 0xB17E5 ^ ((i as u64) << 20));
            let nm = rng.range(1, 6) as usize;
            let mut ms = vec![];
            for j in 0..nm {
                let lgf = rng.chance(1, 6);
                let mw = if lgf { 26 } else { *rng.pick(&[10, 12, 15, 16, 17, 18, 20, 22, 24]) };
                let mut m = if rng.chance(1, 2) { stored_member(&mut rng, mw, lgf) } else { real_member(&mut rng, j == 0, mw, lgf, 200) };
                match rng.below(5) {
                    0 => {}
                    1 => { let n = rng.range(1, 3); for _ in 0..n { if !m.bytes.is_empty() { let i = rng.below(m.bytes.len().min(8) as u64) as usize; m.bytes[i] ^= 1 << rng.below(8); } } m.content = None; }
                    2 => { let l = rng.below(m.bytes.len() as u64 + 1) as usize; m.bytes.truncate(l); m.content = None; }
                    3 => { m.bytes = (0..rng.range(0, 12)).map(|_| rng.next() as u8).collect(); m.content = None; }
                    _ => { let i = m.bytes.len(); if i > 0 { m.bytes[i - 1] = rng.next() as u8; } m.content = None; }
                }
                if m.content.is_none() { m.desc += " (mutated)"; }
                ms.push(m);
            }
            let w = if rng.chance(1, 4) { rng.range(10, 30) as u8 } else { 0 };
            let vs = variants(&mut rng, 1);
            scenario(&mut cx, w, &ms, &vs, false);
            cx
        }));
    }
    for cx in outs {
        for (o, a) in cx.lines { if corr.n < max_lines { corr.case(&o, &a); } }
        rep.merge(cx.rep);
    }
    rep.sample("concat 0 N S:<member0 hex>:<cap> N S:<member1 hex>:<cap> F:<cap> -> per-call <result>:<consumed>:<produced hex>".into());
    corr.finish();
    rep.write(&args.out);
}


fn corpus(cx: &mut Ctx) {
    let dir = std::path::Path::new("/verif/corpus/concat");
    if let Ok(rd) = std::fs::read_dir(dir) {
        let mut files: Vec<_> = rd.filter_map(|e| e.ok()).map(|e| e.path()).collect();
        files.sort();
        for f in files {
            if let Ok(txt) = std::fs::read_to_string(&f) {
                // format: first line window override, following lines one member hex each; '#' comments
                let mut lines = txt.lines().filter(|l| !l.starts_with('#') && !l.trim().is_empty());
                let w: u8 = lines.next().and_then(|l| l.trim().parse().ok()).unwrap_or(0);
                let ms: Vec<Member> = lines.map(|l| Member { bytes: unhex(l.trim()), content: None, desc: format!("corpus {}", f.file_name().unwrap().to_string_lossy()), lgwin: 0, catable: false, appendable: false, large: false }).collect();
                let mut rng = Rng::new(7);
                let vs = variants(&mut rng, 2);
                scenario(cx, w, &ms, &vs, false);
                cx.rep.count("corpus.files");
            }
        }
    }
}

/// `bvh concat1 <w> <hex>...` : run one scenario (reference slicing) and print everything
pub fn run_one(args: &Args) {
    let w: u8 = args.rest[0].parse().unwrap();
    let raw: Vec<Vec<u8>> = args.rest[1..].iter().map(|h| unhex(h)).collect();
    let r = run(w, &raw, &Sched::big());
    println!("fin={} calls={}", r.fin, r.calls.len());
    println!("answers: {}", r.answers.iter().map(|a| if a.len() > 80 { format!("{}..", &a[..80]) } else { a.clone() }).collect::<Vec<_>>().join(" "));
    println!("output {} bytes: {}", r.output.len(), hex(&r.output[..r.output.len().min(64)]));
    println!("brotli-decompressor: {:?}", match dec::decode(&r.output, 1 << 24) { dec::DResult::Ok(v) => format!("ok {} bytes", v.len()), o => format!("{:?}", o).chars().take(100).collect() });
    println!("libbrotlidec: {:?}", match crate::gdec::decode(&r.output, true, 1 << 24) { crate::gdec::GResult::Ok(v) => format!("ok {} bytes", v.len()), o => format!("{:?}", o).chars().take(100).collect() });
    let one = Sched { in_chunk: vec![1], out_cap: vec![1], zero_every: 3, z_every: 2, ffi: false };
    let r2 = run(w, &raw, &one);
    println!("1-byte slicing: fin={} same_output={}", r2.fin, r2.output == r.output);
}
