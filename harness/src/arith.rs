//! C18: exhaustive correspondence (digest protocol) + RFC-table oracle on the real code.
use crate::util::*;
use brotli::enc::command::{
    CombineLengthCodes, BrotliDistanceParams, Command, GetCopyLengthCode, GetInsertLengthCode,
    PrefixEncodeCopyDistance,
};
use brotli::enc::brotli_bit_stream::verif_hooks as bs;
use std::sync::{Arc, Mutex};

// RFC 7932 tables, transcribed independently of the crate (second transcription; the
// first one is in the Lean model).
const RFC_INS: [(u32, u32); 24] = [(0,0),(1,0),(2,0),(3,0),(4,0),(5,0),(6,1),(8,1),(10,2),(14,2),(18,3),(26,3),(34,4),(50,4),(66,5),(98,5),(130,6),(194,7),(322,8),(578,9),(1090,10),(2114,12),(6210,14),(22594,24)];
const RFC_COPY: [(u32, u32); 24] = [(2,0),(3,0),(4,0),(5,0),(6,0),(7,0),(8,0),(9,0),(10,1),(12,1),(14,2),(18,2),(22,3),(30,3),(38,4),(54,4),(70,5),(102,5),(134,6),(198,7),(326,8),(582,9),(1094,10),(2118,24)];
const RFC_BLEN: [(u32, u32); 26] = [(1,2),(5,2),(9,2),(13,2),(17,3),(25,3),(33,3),(41,3),(49,4),(65,4),(81,4),(97,4),(113,5),(145,5),(177,5),(209,5),(241,6),(305,6),(369,7),(497,8),(753,9),(1265,10),(2289,11),(4337,12),(8433,13),(16625,24)];
const CELL_INS: [u32; 11] = [0, 0, 0, 0, 8, 8, 0, 16, 8, 16, 16];
const CELL_COPY: [u32; 11] = [0, 8, 0, 8, 0, 8, 16, 0, 16, 8, 16];

fn rfc_dist_decode(p: u32, nd: u32, sym: u32, extra: u64) -> u64 {
    if sym < 16 + nd {
        return (sym as u64).wrapping_sub(15);
    }
    let s = (sym - nd - 16) as u64;
    let ndistbits = 1 + (s >> (p + 1));
    let hcode = s >> p;
    let lcode = s & ((1u64 << p) - 1);
    let offset = ((2 + (hcode & 1)) << ndistbits) - 4;
    ((offset + extra) << p) + lcode + nd as u64 + 1
}

fn par_blocks<F: Fn(u64, u64) -> (u64, Vec<String>) + Send + Sync + 'static>(lo: u64, hi: u64, block: u64, f: F) -> Vec<(u64, u64, u64, Vec<String>)> {
    // returns (lo, hi, digest, violations) per block, in order
    let mut blocks = vec![];
    let mut a = lo;
    while a < hi {
        let b = (a + block).min(hi);
        blocks.push((a, b));
        a = b;
    }
    let f = Arc::new(f);
    let next = Arc::new(Mutex::new(0usize));
    let results = Arc::new(Mutex::new(vec![None; blocks.len()]));
    let blocks = Arc::new(blocks);
    let mut hs = vec![];
    for _ in 0..16 {
        let (f, next, results, blocks) = (f.clone(), next.clone(), results.clone(), blocks.clone());
        hs.push(std::thread::spawn(move || loop {
            let i = { let mut g = next.lock().unwrap(); let i = *g; *g += 1; i };
            if i >= blocks.len() { break; }
            let (a, b) = blocks[i];
            let (d, v) = f(a, b);
            results.lock().unwrap()[i] = Some((a, b, d, v));
        }));
    }
    for h in hs { h.join().unwrap(); }
    let r = results.lock().unwrap();
    r.iter().map(|x| x.clone().unwrap()).collect()
}

fn dist_params(p: u32, nd: u32) -> BrotliDistanceParams {
    BrotliDistanceParams { distance_postfix_bits: p, num_direct_distance_codes: nd, alphabet_size: 16 + nd + (24 << (p + 1)), max_distance: 0 }
}

pub fn run(args: &Args) {
    let thorough = args.tier == "thorough";
    let mut corr = Corr::new(&args.out);
    let mut rep = Report::default();
    let mut viol: Vec<(String, String)> = vec![];

    // ---- insert length codes: whole domain 0 .. 2^24 (+ a block beyond) ----
    let top: u64 = (1 << 24) + 70000;
    for (a, b, d, v) in par_blocks(0, top, 1 << 18, |a, b| {
        let mut h = FNV_INIT; let mut v = vec![];
        for n in a..b {
            let c = GetInsertLengthCode(n as usize) as u64;
            h = fnv_step(h, c);
            let ok = n >= 22594 + (1 << 24) || c < 24 && { let (base, ex) = RFC_INS[c as usize]; (base as u64) <= n && n < base as u64 + (1u64 << ex) };
            if !ok && v.len() < 3 { v.push(format!("{{\"fn\":\"GetInsertLengthCode\",\"n\":{},\"code\":{}}}", n, c)); }
        }
        (h, v)
    }) {
        corr.case(&format!("arith ins {} {}", a, b), &d.to_string());
        rep.evaluations += b - a;
        for x in v { viol.push(("arith:ins-code".into(), x)); }
    }
    rep.add("ins_lengths", top);
    // ---- copy length codes ----
    for (a, b, d, v) in par_blocks(0, top, 1 << 18, |a, b| {
        let mut h = FNV_INIT; let mut v = vec![];
        for n in a..b {
            let c = GetCopyLengthCode(n as usize) as u64;
            h = fnv_step(h, c);
            if n >= 2 && n < 2118 + (1 << 24) {
                let ok = c < 24 && { let (base, ex) = RFC_COPY[c as usize]; (base as u64) <= n && n < base as u64 + (1u64 << ex) };
                if !ok && v.len() < 3 { v.push(format!("{{\"fn\":\"GetCopyLengthCode\",\"n\":{},\"code\":{}}}", n, c)); }
            }
        }
        (h, v)
    }) {
        corr.case(&format!("arith copy {} {}", a, b), &d.to_string());
        rep.evaluations += b - a;
        for x in v { viol.push(("arith:copy-code".into(), x)); }
    }
    rep.add("copy_lengths", top);
    // ---- block lengths 1 ..= 2^24 ----
    for (a, b, d, v) in par_blocks(1, (1 << 24) + 1, 1 << 18, |a, b| {
        let mut h = FNV_INIT; let mut v = vec![];
        for n in a..b {
            let (c, ne, e) = bs::block_length_prefix_code(n as u32);
            h = fnv_step(fnv_step(fnv_step(h, c as u64), ne as u64), e as u64);
            let ok = c < 26 && RFC_BLEN[c].1 == ne && (RFC_BLEN[c].0 as u64 + e as u64) == n && (e as u64) < (1u64 << ne);
            if !ok && v.len() < 3 { v.push(format!("{{\"fn\":\"GetBlockLengthPrefixCode\",\"len\":{},\"code\":{},\"n_extra\":{},\"extra\":{}}}", n, c, ne, e)); }
        }
        (h, v)
    }) {
        corr.case(&format!("arith blen {} {}", a, b), &d.to_string());
        rep.evaluations += b - a;
        for x in v { viol.push(("arith:block-len".into(), x)); }
    }
    rep.add("block_lengths", 1 << 24);
    // ---- the 704-way command symbol ----
    {
        let mut h = FNV_INIT;
        for i in 0..(24 * 24 * 2) as u64 {
            let (ins, copy, last) = ((i / 48) as u16, (i / 2 % 24) as u16, i % 2 == 1);
            let s = CombineLengthCodes(ins, copy, last as i32) as u64;
            h = fnv_step(h, s);
            let cell = (s / 64) as usize;
            let ok = s < 704 && CELL_INS[cell] + ((s as u32 / 8) % 8) == ins as u32 && CELL_COPY[cell] + (s as u32 % 8) == copy as u32
                && (cell < 2) == (last && ins < 8 && copy < 16);
            if !ok { viol.push(("arith:cmd-symbol".into(), format!("{{\"fn\":\"combine_length_codes\",\"ins\":{},\"copy\":{},\"last\":{},\"sym\":{}}}", ins, copy, last, s))); }
        }
        corr.case("arith cmdsym", &h.to_string());
        rep.evaluations += 1152;
        rep.add("cmd_symbols", 1152);
    }
    // ---- Command::new / copy_len_code / StoreCommandExtra ----
    {
        let hi: u64 = if thorough { 1 << 24 } else { 1 << 21 };
        for (a, b, d, v) in par_blocks(0, hi, 1 << 17, |a, b| {
            let mut h = FNV_INIT; let mut v = vec![];
            let dp = dist_params(0, 0);
            for n in a..b {
                let cl = 2 + n % 4000;
                let cc = std::cmp::max(2, (cl + n % 7).saturating_sub(3));
                let cmd = Command::new(&dp, n as usize, cl as usize, cc as usize, 20);
                let clc = bs::copy_len_code(&cmd) as u64;
                let (nb, st) = bs::store_command_extra(&cmd);
                let mut val: u64 = 0;
                for i in 0..8 { val |= (st[i] as u64) << (8 * i); }
                h = fnv_step(fnv_step(fnv_step(fnv_step(h, cmd.copy_len_ as u64), clc), nb as u64), val);
                // oracle: RFC reading of the extra bits gives back (insert_len, copy_len_code)
                let ic = GetInsertLengthCode(n as usize) as usize; let ccode = GetCopyLengthCode(cc as usize) as usize;
                let ok = clc == cc && ic < 24 && ccode < 24 && {
                    let (ib, ie) = RFC_INS[ic]; let (cb, ce) = RFC_COPY[ccode];
                    nb as u32 == ie + ce && (ib as u64 + (val & ((1u64 << ie) - 1))) == n && (cb as u64 + (val >> ie)) == cc
                };
                if !ok && v.len() < 3 { v.push(format!("{{\"fn\":\"StoreCommandExtra\",\"insert_len\":{},\"copy_len\":{},\"copy_len_code\":{},\"nbits\":{},\"value\":{}}}", n, cl, cc, nb, val)); }
            }
            (h, v)
        }) {
            corr.case(&format!("arith cmdextra {} {}", a, b), &d.to_string());
            rep.evaluations += b - a;
            for x in v { viol.push(("arith:cmd-extra".into(), x)); }
        }
        rep.add("command_extra", hi);
    }
    // ---- MLEN / var-len uint8 ----
    for (a, b, d, v) in par_blocks(1, (1 << 24) + 1, 1 << 18, |a, b| {
        let mut h = FNV_INIT; let mut v = vec![];
        for n in a..b {
            let (bits, nb, nib) = bs::encode_mlen(n as u32);
            h = fnv_step(fnv_step(fnv_step(h, bits), nb as u64), nib as u64);
            let mn = nib + 4;
            let ok = (4..=6).contains(&mn) && nb == 4 * mn && bits + 1 == n && bits < (1u64 << nb) && (mn == 4 || bits >> (4 * (mn - 1)) != 0);
            if !ok && v.len() < 3 { v.push(format!("{{\"fn\":\"BrotliEncodeMlen\",\"length\":{},\"bits\":{},\"numbits\":{},\"nibblesbits\":{}}}", n, bits, nb, nib)); }
        }
        (h, v)
    }) {
        corr.case(&format!("arith mlen {} {}", a, b), &d.to_string());
        rep.evaluations += b - a;
        for x in v { viol.push(("arith:mlen".into(), x)); }
    }
    {
        let mut h = FNV_INIT;
        for n in 0..256u64 {
            let (ix, st) = bs::store_var_len_uint8(n);
            let word = st[0] as u64 | (st[1] as u64) << 8;
            if n == 0 { h = fnv_step(fnv_step(h, 1), 0); if !(ix == 1 && word == 0) { viol.push(("arith:varlen".into(), format!("{{\"fn\":\"StoreVarLenUint8\",\"n\":0}}"))); } }
            else {
                let nbits = (word >> 1) & 7; let extra = (word >> 4) & ((1 << nbits) - 1);
                h = fnv_step(fnv_step(h, 1), 1); h = fnv_step(fnv_step(h, 3), nbits); h = fnv_step(fnv_step(h, nbits), extra);
                let ok = word & 1 == 1 && ix as u64 == 4 + nbits && (1u64 << nbits) + extra == n;
                if !ok { viol.push(("arith:varlen".into(), format!("{{\"fn\":\"StoreVarLenUint8\",\"n\":{},\"bits\":{},\"word\":{}}}", n, ix, word))); }
            }
        }
        corr.case("arith varlen 0 256", &h.to_string());
        rep.evaluations += 256;
    }
    // ---- distance codes ----
    let mut settings = vec![];
    for p in 0..4u32 { for k in 0..16u32 { settings.push((p, k << p)); } }
    let full_hi: u64 = if thorough { 1 << 26 } else { 1 << 20 };
    let deep: Vec<(u32, u32)> = vec![(0, 0), (1, 12), (3, 120)];
    let mut ranges: Vec<(u32, u32, u64, u64)> = vec![];
    for &(p, nd) in &settings {
        ranges.push((p, nd, 0, full_hi));
        // +-2 around every bucket boundary of `dist = 2^(p+2) + dc - 16 - nd` up to 2^31
        for e in (p + 2)..32 {
            for half in 0..2u64 {
                let d = (1u64 << e) + half * (1u64 << (e - 1));
                let dc = d + 16 + nd as u64 - (1u64 << (p + 2));
                if dc >= full_hi + 3 && dc < (1 << 31) { ranges.push((p, nd, dc - 3, dc + 3)); }
            }
        }
    }
    if !thorough { for &(p, nd) in &deep { ranges.push((p, nd, full_hi, 1 << 24)); } }
    let mut dist_evals = 0u64;
    for (p, nd, lo, hi) in ranges {
        for (a, b, d, v) in par_blocks(lo, hi, 1 << 18, move |a, b| {
            let mut h = FNV_INIT; let mut v = vec![];
            for dc in a..b {
                let mut code = 0u16; let mut extra = 0u32;
                PrefixEncodeCopyDistance(dc as usize, nd as usize, p as u64, &mut code, &mut extra);
                h = fnv_step(fnv_step(h, code as u64), extra as u64);
                let sym = (code & 0x3ff) as u32; let nbits = (code >> 10) as u32;
                let ok = if dc < 16 + nd as u64 { sym as u64 == dc && nbits == 0 && extra == 0 } else {
                    sym >= 16 + nd && nbits as u64 == 1 + (((sym - nd - 16) as u64) >> (p + 1)) && (extra as u64) < (1u64 << nbits)
                        && rfc_dist_decode(p, nd, sym, extra as u64) + 15 == dc
                };
                if !ok && v.len() < 3 { v.push(format!("{{\"fn\":\"PrefixEncodeCopyDistance\",\"npostfix\":{},\"ndirect\":{},\"distance_code\":{},\"code\":{},\"extra\":{}}}", p, nd, dc, code, extra)); }
            }
            (h, v)
        }) {
            corr.case(&format!("arith dist {} {} {} {}", p, nd, a, b), &d.to_string());
            dist_evals += b - a;
            for x in v { viol.push(("arith:dist-code".into(), x)); }
        }
        // restore_distance_code(encode(dc)) == dc
        for (a, b, d, v) in par_blocks(lo, hi, 1 << 18, move |a, b| {
            let mut h = FNV_INIT; let mut v = vec![];
            let dp = dist_params(p, nd);
            for dc in a..b {
                let mut cmd = Command::default();
                PrefixEncodeCopyDistance(dc as usize, nd as usize, p as u64, &mut cmd.dist_prefix_, &mut cmd.dist_extra_);
                let r = cmd.restore_distance_code(&dp) as u64;
                h = fnv_step(h, r);
                if r != dc && v.len() < 3 { v.push(format!("{{\"fn\":\"restore_distance_code\",\"npostfix\":{},\"ndirect\":{},\"distance_code\":{},\"restored\":{}}}", p, nd, dc, r)); }
            }
            (h, v)
        }) {
            corr.case(&format!("arith restore {} {} {} {}", p, nd, a, b), &d.to_string());
            dist_evals += b - a;
            for x in v { viol.push(("arith:restore".into(), x)); }
        }
    }
    rep.add("distance_evaluations", dist_evals);
    rep.add("distance_settings", settings.len() as u64);
    rep.evaluations += dist_evals;
    rep.nontrivial = rep.evaluations; // every enumerated value is a distinct domain point
    rep.sample("arith ins 0 262144 -> digest over GetInsertLengthCode(0..262144)".into());
    rep.sample("arith dist 3 120 0 262144 -> digest over (dist_prefix_, dist_extra_) of PrefixEncodeCopyDistance".into());
    for (sig, case) in viol { rep.violation(&sig, "implementation output does not denote the value under the RFC 7932 tables", case); }
    corr.finish();
    rep.write(&args.out);
}
