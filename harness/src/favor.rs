//! engine `favor` — C06 (part 3): the shared pre-built match index of `CompressMulti`'s
//! `favor_cpu_efficiency` branch against the index a job builds itself, on the REAL hashers.
//!
//! Per case (quality, lgwin, size_hint, thread count t, input, job index j in 1..t):
//!  * SHARED  = the favor loop of `CompressMulti` replayed through the public API exactly as
//!    threading.rs does it (`SanitizeParams(params.clone())`, `HasherSetup` on an `Uninit` handle with
//!    empty data, then for thread_index in 1..=j: `range = get_range(thread_index - 1, t, n)` (the real
//!    private function through its cfg(brotli_verif) hook), `overlap = StoreLookahead() - 1`, the
//!    `stored_end` guard, `BulkStoreRange(input, usize::MAX, stored_end, range.end - overlap)`), cloned
//!    with `clone_with_alloc` as the loop does before it spawns job j;
//!  * OWN     = `state.hasher_` of a job encoder set up as `compress_part` does (`catable`,
//!    `magic_number = false`, `appendable`) after `set_custom_dictionary(lo, &input[..lo])` (favor off);
//!  * JOB-ON  = `state.hasher_` after `set_custom_dictionary_with_optional_precomputed_hasher(lo,
//!    &input[..lo], SHARED)` (favor on, release build: the handed index is kept unless the prefix is
//!    truncated to the window).
//!
//! Correspondence (driver: lean/BV/Drive/Favor.lean):
//!   `favor <kind> <lgwin> <quality> <t> <j> <data>`   lgwin/quality = the job encoder's SANITISED values
//!   kind = the model kind token of the real SHARED hasher (as in engine `hasher`)
//!   answer = `<stored_end> <SHARED> <OWN> <JOB-ON> <OWN>` with each index as
//!   `<num_digest>:<buckets_digest>:<nonzero_num>:<nonzero_buckets>` (FNV over (index, value) of the
//!   non-zero cells: a cell-by-cell comparison with the model's tables) or `panic`.
//! The model answers with `prebuilt`, `selfbuilt`, `jobIndex (some shared)`, `jobIndex none`.
//!
//! Search oracles (real code only): (a) quality >= 2: JOB-ON == OWN (`PartialEq` of `UnionHasher`) for
//! every prefix length — `favor:index-differs[:truncated]`; (b) untruncated, non-empty prefix: SHARED ==
//! OWN — `favor:shared-differs`; (c) SHARED and OWN are of the same kind — `favor:kind-differs`; (d) no
//! panic — `favor:panic`.  Kinds without a concrete model (H10, quality 10/11: class `h10`, ranges around its
//! 128-byte look-ahead and truncated prefixes) run the oracles only — the real-code evidence for the
//! `Store`-locality hypothesis of `favor_cpu_equiv_h10`.
//!
//! `sjob` lines (tie of BV/Model/StreamJob.lean, used by BV.Props.C02Part / C06Pure): a job whose encoder
//! is fresh when it issues its call (job 0; any job at quality 0/1; any job with an empty prefix) is run
//! through the REAL `compress_part` (cfg(brotli_verif) hook) — that result is the expected answer — and
//! through a replica encoder set up exactly as `compress_part` does (engine `stream`'s `Session`, which
//! records the payload-encoder invocations of the FINISH call through `verif_stream_hook`); the model
//! `streamJob` replays the call with the recorded answers as its oracle and must return the same
//! `Ok(bytes)` / `Err`.  Request: `favor sjob <i> <t> <n> <quality> <lgwin> <catable> <appendable>
//! <magic> <piece> <answers>`; search oracle: replica and real job agree (`favor:sjob-replica-differs`).
//!
//! non-trivial case (rep.nontrivial): quality >= 2 and the shared index of job j holds at least one
//! position (prefix longer than the look-ahead).
use crate::prng::Rng;
use crate::util::*;
use alloc_no_stdlib::SliceWrapper;
use alloc_stdlib::StandardAlloc;
use brotli::enc::backward_references::{AnyHasher, BrotliEncoderParams, CloneWithAlloc, UnionHasher};
use brotli::enc::encode::{BrotliEncoderStateStruct, HasherSetup, SanitizeParams};
use std::panic::{catch_unwind, AssertUnwindSafe};
use brotli::enc::BrotliEncoderMaxCompressedSize;
use crate::multi::V;
use crate::stream::{Call, Session};

type UH = UnionHasher<StandardAlloc>;

fn num_slice(h: &UH) -> &[u16] {
    match h {
        UnionHasher::H5(x) => x.num.slice(),
        UnionHasher::H5q5(x) => x.num.slice(),
        UnionHasher::H5q7(x) => x.num.slice(),
        UnionHasher::H6(x) => x.num.slice(),
        UnionHasher::H9(x) => x.num_.slice(),
        _ => &[],
    }
}
fn bucket_slice(h: &UH) -> &[u32] {
    match h {
        UnionHasher::H2(x) => x.buckets_.buckets_.slice(),
        UnionHasher::H3(x) => x.buckets_.buckets_.slice(),
        UnionHasher::H4(x) => x.buckets_.buckets_.slice(),
        UnionHasher::H54(x) => x.buckets_.buckets_.slice(),
        UnionHasher::H5(x) => x.buckets.slice(),
        UnionHasher::H5q5(x) => x.buckets.slice(),
        UnionHasher::H5q7(x) => x.buckets.slice(),
        UnionHasher::H6(x) => x.buckets.slice(),
        UnionHasher::H9(x) => x.buckets_.slice(),
        UnionHasher::H10(x) => x.buckets_.slice(),
        UnionHasher::Uninit => &[],
    }
}
/// (variant name, model kind token)
fn kind_of(h: &UH) -> (&'static str, Option<String>) {
    match h {
        UnionHasher::H2(x) => ("H2", Some(format!("basic:16:1:5:{}", x.buckets_.buckets_.slice().len()))),
        UnionHasher::H3(x) => ("H3", Some(format!("basic:16:2:5:{}", x.buckets_.buckets_.slice().len()))),
        UnionHasher::H4(x) => ("H4", Some(format!("basic:17:4:5:{}", x.buckets_.buckets_.slice().len()))),
        UnionHasher::H54(x) => ("H54", Some(format!("basic:20:4:7:{}", x.buckets_.buckets_.slice().len()))),
        UnionHasher::H5(x) => ("H5", Some(format!("adv32:{}:{}", 32 - x.specialization.hash_shift_, x.specialization.block_bits_))),
        UnionHasher::H5q5(_) => ("H5q5", Some("adv32:14:4".to_string())),
        UnionHasher::H5q7(_) => ("H5q7", Some("adv32:15:6".to_string())),
        UnionHasher::H6(x) => ("H6", Some(format!("adv64:{}:{}:{}", 64 - x.specialization.hash_shift_, x.specialization.block_bits_, x.specialization.hash_mask.count_ones() / 8))),
        UnionHasher::H9(_) => ("H9", Some("h9".to_string())),
        UnionHasher::H10(_) => ("H10", None),
        UnionHasher::Uninit => ("Uninit", None),
    }
}
fn digest<T: Copy + Into<u64>>(xs: &[T]) -> (u64, u64) {
    let mut h = FNV_INIT;
    let mut n = 0u64;
    for (i, &v) in xs.iter().enumerate() {
        let v: u64 = v.into();
        if v != 0 {
            h = fnv_step(fnv_step(h, i as u64), v);
            n += 1;
        }
    }
    (h, n)
}
fn tok(h: &UH) -> String {
    let (dn, cn) = digest(num_slice(h));
    let (db, cb) = digest(bucket_slice(h));
    format!("{}:{}:{}:{}", dn, db, cn, cb)
}

#[derive(Clone, Debug)]
struct Case { q: i32, lgwin: i32, hint: usize, t: usize, j: usize, data: Vec<u8>, gen: &'static str }
impl Case {
    fn json(&self) -> String {
        format!("{{\"quality\":{},\"lgwin\":{},\"size_hint\":{},\"threads\":{},\"job\":{},\"gen\":{},\"input\":{}}}", self.q, self.lgwin, self.hint, self.t, self.j, jstr(self.gen), jstr(&hex(&self.data)))
    }
    fn params(&self) -> BrotliEncoderParams {
        let mut p = BrotliEncoderParams::default();
        p.quality = self.q;
        p.lgwin = self.lgwin;
        p.size_hint = self.hint;
        p.favor_cpu_efficiency = true;
        p
    }
}

/// the favor loop of `CompressMulti` up to and including `thread_index = j`; (clone handed to job j, stored_end)
fn shared_index(params: &BrotliEncoderParams, input: &[u8], t: usize, j: usize) -> (UH, usize) {
    let mut local = params.clone();
    SanitizeParams(&mut local);
    let mut alloc = StandardAlloc::default();
    let mut hasher: UH = UnionHasher::Uninit;
    HasherSetup(&mut alloc, &mut hasher, &mut local, &[], 0, 0, 0);
    let mut stored_end = 0usize;
    for thread_index in 1..=j {
        let range = brotli::enc::threading::verif_hooks::get_range(thread_index - 1, t, input.len());
        let overlap = hasher.StoreLookahead().wrapping_sub(1);
        if range.end > overlap && range.end - overlap > stored_end {
            hasher.BulkStoreRange(input, usize::MAX, stored_end, range.end - overlap);
            stored_end = range.end - overlap;
        }
    }
    (hasher.clone_with_alloc(&mut alloc), stored_end)
}

/// the job encoder of `compress_part` for thread_index = j after its dictionary call
fn job_state(params: &BrotliEncoderParams, input: &[u8], lo: usize, handed: UH) -> BrotliEncoderStateStruct<StandardAlloc> {
    let mut state = BrotliEncoderStateStruct::new(StandardAlloc::default());
    state.params = params.clone();
    state.params.catable = true;
    state.params.magic_number = false;
    state.params.appendable = true;
    state.set_custom_dictionary_with_optional_precomputed_hasher(lo, &input[..lo], handed);
    state
}

struct Obs { line: Option<(String, String)>, kind: &'static str, truncated: bool, nonempty: bool }

fn run_case(c: &Case, rep: &mut Report) -> Option<Obs> {
    let params = c.params();
    let n = c.data.len();
    let r = catch_unwind(AssertUnwindSafe(|| {
        let lo = brotli::enc::threading::verif_hooks::get_range(c.j, c.t, n).start;
        let (shared, stored_end) = shared_index(&params, &c.data, c.t, c.j);
        let mut alloc = StandardAlloc::default();
        let handed = shared.clone_with_alloc(&mut alloc);
        let mut own = job_state(&params, &c.data, lo, UnionHasher::Uninit);
        let mut on = job_state(&params, &c.data, lo, handed);
        let lgwin = own.params.lgwin;
        let q = own.params.quality;
        let max_dict = (1usize << lgwin).wrapping_sub(16);
        let truncated = lo > max_dict;
        let (vs, spec) = kind_of(&shared);
        let (vo, _) = kind_of(&own.hasher_);
        let mut viol: Vec<(String, String)> = vec![];
        if q >= 2 && lo > 0 {
            if vo != vs { viol.push(("favor:kind-differs".into(), format!("shared index is {} but the job builds {}", vs, vo))); }
            if on.hasher_ != own.hasher_ { viol.push((if truncated { "favor:index-differs:truncated" } else { "favor:index-differs" }.into(), "the job's index with the shared one handed in differs from the index it builds itself".into())); }
            if !truncated && shared != own.hasher_ { viol.push(("favor:shared-differs".into(), "shared index differs from the job's own index (untruncated prefix)".into())); }
        }
        let line = spec.map(|s| {
            let req = format!("favor {} {} {} {} {} {}", s, lgwin, q, c.t, c.j, hex(&c.data));
            let ans = format!("{} {} {} {} {}", stored_end, tok(&shared), tok(&own.hasher_), tok(&on.hasher_), tok(&own.hasher_));
            (req, ans)
        });
        brotli::enc::encode::BrotliEncoderDestroyInstance(&mut own);
        brotli::enc::encode::BrotliEncoderDestroyInstance(&mut on);
        (Obs { line, kind: vs, truncated, nonempty: q >= 2 && stored_end > 0 }, viol)
    }));
    match r {
        Ok((obs, viol)) => {
            for (sig, what) in viol { rep.violation(&sig, &what, c.json()); }
            Some(obs)
        }
        Err(_) => {
            rep.violation("favor:panic", "building the shared index or the job's dictionary call panicked", c.json());
            None
        }
    }
}

fn gen_data(rng: &mut Rng, n: usize) -> Vec<u8> {
    let style = rng.below(5);
    let mut v = Vec::with_capacity(n);
    match style {
        0 => { for _ in 0..n { v.push(rng.next() as u8); } }
        1 => { for _ in 0..n { v.push(b"etaoin shrdlu\n"[rng.below(14) as usize]); } }
        2 => { let p = rng.range(1, 9) as usize; let pat: Vec<u8> = (0..p).map(|_| rng.next() as u8).collect(); for i in 0..n { v.push(pat[i % p]); } }
        3 => { for i in 0..n { v.push(if rng.chance(1, 12) { rng.next() as u8 } else { (i / 7) as u8 }); } }
        _ => { let b = rng.next() as u8; for _ in 0..n { v.push(if rng.chance(1, 30) { rng.next() as u8 } else { b }); } }
    }
    v
}

fn gen_case(rng: &mut Rng, class: u64, thorough: bool) -> Case {
    // class 0: short ranges around the look-ahead; 1: truncated prefixes (small windows); 2: general;
    // 3: the big-table kinds (H54, H6, H9), sparse; 4: H10 (quality 10/11, look-ahead 128; search oracles only)
    let (q, lgwin, hint, t, n, gen): (i32, i32, usize, usize, usize, &'static str) = match class {
        0 => { let t = rng.range(2, 16) as usize; (rng.range(2, 8) as i32, *rng.pick(&[10, 16, 18, 22]), 0, t, rng.range(0, 14 * t as u64) as usize, "short") }
        1 => { let t = rng.range(2, 6) as usize; (rng.range(2, 8) as i32, *rng.pick(&[10, 10, 11, 12]), 0, t, rng.range(1100, if thorough { 20000 } else { 9000 }) as usize, "truncated") }
        2 => { let t = rng.range(2, 8) as usize; (rng.range(0, 8) as i32, *rng.pick(&[10, 13, 16, 17, 18, 20, 22, 24]), *rng.pick(&[0, 0, 1 << 20]), t, rng.range(20, if thorough { 24000 } else { 6000 }) as usize, "general") }
        4 => { let t = rng.range(2, 6) as usize; (rng.range(10, 11) as i32, *rng.pick(&[10, 12, 16, 18]), 0, t, if rng.chance(1, 2) { rng.range(0, 200 * t as u64) } else { rng.range(1100, 6000) } as usize, "h10") }
        _ => { let t = rng.range(2, 4) as usize; let (q, hint) = *rng.pick(&[(4, 1usize << 20), (6, (1usize << 22) + 1), (8, (1usize << 22) + 1), (9, 0), (9, 0)]); (q, *rng.pick(&[19, 22]), hint, t, rng.range(40, 4000) as usize, "big-table") }
    };
    // quality >= 5 with lgwin <= 16 falls back to an H6 with 2^23 cells (8M-cell tables on the Lean side): keep 1 in 8
    let q = if class != 3 && class != 4 && q >= 5 && lgwin <= 16 && !rng.chance(1, 8) { rng.range(2, 4) as i32 } else { q };
    let j = rng.range(1, (t - 1) as u64) as usize;
    Case { q, lgwin, hint, t, j, data: gen_data(rng, n), gen }
}

/// one `sjob` case: (request, expected answer) or None when the payload answers cannot be expressed
fn sjob_case(rng: &mut Rng, rep: &mut Report, big: bool) -> Option<(String, String)> {
    // big: quality 0/1, window 2^10 / 2^12, ~12 KB of random bytes: the job buffer is too small, the job answers Err
    let class = if big { 8 } else { rng.below(8) };
    let (q, i, t, n): (i32, usize, usize, usize) = match class {
        0 | 1 | 2 | 3 => { let t = rng.range(1, 6) as usize; (rng.range(0, 11) as i32, 0, t, rng.range(0, 2400) as usize) }           // job 0
        8 => (rng.range(0, 1) as i32, 0, 1, rng.range(11000, 13000) as usize),
        4 | 5 | 6 => { let t = rng.range(2, 6) as usize; (rng.range(0, 1) as i32, rng.range(1, (t - 1) as u64) as usize, t, rng.range(0, 3000) as usize) } // quality 0/1, any job
        _ => { let t = rng.range(3, 16) as usize; (rng.range(0, 9) as i32, 1, t, rng.range(0, (t as u64) / 2) as usize) }                  // empty prefix: (1 * n) / t = 0
    };
    let lgwin = if big { *rng.pick(&[10i32, 12]) } else { *rng.pick(&[10i32, 12, 14, 16, 18, 22]) };
    let (catable, appendable, magic) = (rng.chance(1, 3), rng.chance(1, 3), rng.chance(1, 4));
    let input: Vec<u8> = if big { (0..n).map(|_| rng.next() as u8).collect() } else { gen_data(rng, n) };
    let r = brotli::enc::threading::verif_hooks::get_range(i, t, n);
    let (lo, hi) = (r.start, r.end);
    if lo != 0 && q >= 2 { return None; }
    let mut params = BrotliEncoderParams::default();
    params.quality = q; params.lgwin = lgwin; params.catable = catable; params.appendable = appendable; params.magic_number = magic;
    rep.evaluations += 1;
    rep.count("sjob.cases");
    // the real job
    let pair = (V(input.clone()), params.clone());
    let real = catch_unwind(AssertUnwindSafe(|| brotli::enc::threading::verif_hooks::compress_part(UnionHasher::Uninit, i, t, &pair, StandardAlloc::default())));
    let real_tok = match real {
        Ok(Ok((size, mem))) => format!("ok:{}", hex(&mem.slice()[..size])),
        Ok(Err(_)) => "err".to_string(),
        Err(_) => "panic".to_string(),
    };
    let _ = brotli::enc::encode::verif_stream_hook::take();
    // the replica, recorded
    let mut sess = Session::new();
    sess.enc.params = params.clone();
    if i != 0 { sess.enc.params.catable = true; sess.enc.params.magic_number = false; }
    sess.enc.params.appendable = true;
    if i != 0 {
        let ok = catch_unwind(AssertUnwindSafe(|| sess.enc.set_custom_dictionary_with_optional_precomputed_hasher(lo, &input[..lo], UnionHasher::Uninit)));
        if ok.is_err() { return None; }
    }
    let cap = BrotliEncoderMaxCompressedSize(hi - lo);
    let (ret, _consumed, produced) = sess.stream(2, &input[lo..hi], cap);
    let fin = sess.enc.is_finished();
    let replica_tok = if sess.dead.is_some() { "panic".to_string() } else if ret && fin { format!("ok:{}", hex(&sess.delivered[..produced])) } else { "err".to_string() };
    if replica_tok != real_tok {
        rep.violation("favor:sjob-replica-differs", "compress_part and the replica of its encoder calls disagree", format!("{{\"quality\":{},\"lgwin\":{},\"catable\":{},\"appendable\":{},\"magic\":{},\"job\":{},\"threads\":{},\"input\":{}}}", q, lgwin, catable, appendable, magic, i, t, jstr(&hex(&input))));
        return None;
    }
    rep.count(if real_tok == "err" { "sjob.err" } else if real_tok == "panic" { "sjob.panic" } else { "sjob.ok" });
    if real_tok == "panic" { return None; }
    let rec = sess.recs.last()?;
    if let Call::Stream { .. } = rec.call {} else { return None; }
    let all = &sess.delivered;
    let mut toks: Vec<String> = vec![];
    for e in rec.events.iter() {
        let nbits = (e.out_size * 8 + e.cb_after as u64) as i64 - e.cb_before as i64;
        if nbits < 0 { return None; }
        let start = e.next_out_offset * 8 + e.cb_before as u64;
        let emit = e.lf_after == e.input_pos || e.site == 2;
        let mut v = vec![0u8; ((nbits as usize) + 7) / 8];
        let mut have = true;
        for j in 0..nbits as usize {
            let p = start as usize + j;
            if p / 8 >= all.len() { have = false; break; }
            if (all[p / 8] >> (p % 8)) & 1 == 1 { v[j / 8] |= 1 << (j % 8); }
        }
        // bits that were still pending when the call returned are not in the delivered bytes: only their number matters then (the job is Err)
        if !have && real_tok != "err" { return None; }
        toks.push(format!("{}.{}.{}.{}", e.result as u8, emit as u8, nbits, if have && nbits > 0 { hex(&v) } else { "-".to_string() }));
    }
    if i != 0 { rep.count("sjob.job>0"); }
    let req = format!("favor sjob {} {} {} {} {} {} {} {} {} {}", i, t, n, q, lgwin, catable as u8, appendable as u8, magic as u8, hex(&input[lo..hi]), if toks.is_empty() { "-".to_string() } else { toks.join("/") });
    if req.len() > 60000 { return None; }
    Some((req, real_tok))
}

pub fn run_cmd(args: &Args) {
    let thorough = args.tier == "thorough";
    let seed = args.seed;
    let per_task: usize = if thorough { 160 } else { 18 };
    let results = par_tasks(16, move |i| {
        let mut rng = Rng::new(seed ^ 0xfa40_7c06 ^ ((i as u64) << 20));
        let mut rep = Report::default();
        let mut lines: Vec<(String, String)> = vec![];
        for k in 0..per_task {
            // one big-table case per task in the quick tier (8M-cell tables on the Lean side)
            let class = if k == 0 { 3 } else if k == 1 || k == 2 { 4 } else { [0u64, 1, 2, 2, 1, 0, 2, if thorough { 3 } else { 2 }][k % 8] };
            let c = gen_case(&mut rng, class, thorough);
            rep.evaluations += 1;
            rep.count(&format!("class.{}", c.gen));
            if let Some(obs) = run_case(&c, &mut rep) {
                rep.count(&format!("kind.{}", obs.kind));
                if obs.truncated { rep.count("prefix.truncated"); }
                if obs.nonempty { rep.nontrivial += 1; rep.count("shared.nonempty"); } else { rep.count("shared.empty"); }
                match obs.line { Some(l) => lines.push(l), None => rep.count("no-model-kind") }
            }
        }
        for k in 0..(if thorough { 120 } else { 16 }) {
            if let Some(l) = sjob_case(&mut rng, &mut rep, k % 16 == 0) { lines.push(l); }
        }
        (lines, rep)
    });
    let mut corr = Corr::new(&args.out);
    let mut rep = Report::default();
    for (lines, r) in results {
        for (a, b) in lines { corr.case(&a, &b); }
        rep.merge(r);
    }
    corr.finish();
    rep.write(&args.out);
}
