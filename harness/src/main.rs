#![allow(non_snake_case, dead_code, unused_imports, deprecated)]
mod prng;
mod util;
mod arith;

fn main() {
    let args = util::parse_args();
    std::fs::create_dir_all(&args.out).unwrap();
    match args.cmd.as_str() {
        "arith" => arith::run(&args),
        other => {
            eprintln!("unknown subcommand {}", other);
            std::process::exit(2);
        }
    }
}
