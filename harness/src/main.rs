#![allow(non_snake_case, dead_code, unused_imports, deprecated)]
mod prng;
mod util;
mod arith;
mod concat;
mod dec;
mod gdec;
mod pool;

fn main() {
    let args = util::parse_args();
    std::fs::create_dir_all(&args.out).unwrap();
    match args.cmd.as_str() {
        "arith" => arith::run(&args),
        "concat" => concat::run_cmd(&args),
        "pool" => pool::run_cmd(&args),
        "concat1" => concat::run_one(&args),
        other => {
            eprintln!("unknown subcommand {}", other);
            std::process::exit(2);
        }
    }
}
