#![allow(non_snake_case, dead_code, unused_imports, deprecated)]
mod prng;
mod util;
mod arith;
mod concat;
mod dec;
mod gdec;
mod pool;
mod stream;
mod header;
mod ffi;
mod adapters;
mod multi;
mod favor;
mod ledger;
mod dict;
mod recoder;
mod hasher;
mod huff;
mod metablock;
mod fragment;
mod zopfli;
mod greedy;
mod rs2lean_diff;
mod e2e;
mod window;

fn main() {
    let args = util::parse_args();
    std::fs::create_dir_all(&args.out).unwrap();
    match args.cmd.as_str() {
        "arith" => arith::run(&args),
        "concat" => concat::run_cmd(&args),
        "pool" => pool::run_cmd(&args),
        "stream" => stream::run_cmd(&args),
        "header" => header::run_cmd(&args),
        "ffi" => ffi::run_cmd(&args),
        "adapters" => adapters::run_cmd(&args),
        "multi" => multi::run_cmd(&args),
        "favor" => favor::run_cmd(&args),
        "ledger" => ledger::run_cmd(&args),
        "dict" => dict::run_cmd(&args),
        "recoder" => recoder::run_cmd(&args),
        "hasher" => hasher::run_cmd(&args),
        "huff" => huff::run_cmd(&args),
        "metablock" => metablock::run_cmd(&args),
        "fragment" => fragment::run_cmd(&args),
        "zopfli" => zopfli::run_cmd(&args),
        "e2e" => e2e::run_cmd(&args),
        "greedy" => greedy::run_cmd(&args),
        "concat1" => concat::run_one(&args),
        "rs2lean" => rs2lean_diff::run_cmd(&args),
        "window" => window::run_cmd(&args),
        other => {
            eprintln!("unknown subcommand {}", other);
            std::process::exit(2);
        }
    }
}
