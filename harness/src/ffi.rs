//! engine `ffi` (C13) — under construction; `bvh ffi probe` confirms D10/D11
use crate::util::*;
use brotli::ffi::compressor as c;
use brotli::enc::encode::BrotliEncoderParameter as P;

pub fn probe() {
    unsafe {
        // ---- D10: total_out reset on a call that delivers nothing
        let st = c::BrotliEncoderCreateInstance(None, None, core::ptr::null_mut());
        c::BrotliEncoderSetParameter(st, P::BROTLI_PARAM_QUALITY, 5);
        c::BrotliEncoderSetParameter(st, P::BROTLI_PARAM_LGWIN, 18);
        let data: Vec<u8> = (0..5000u32).map(|i| (i.wrapping_mul(2654435761) >> 13) as u8).collect();
        let mut out = vec![0u8; 1 << 16];
        let mut delivered = 0usize;
        let mut ip = data.as_ptr(); let mut ai = data.len();
        let mut op = out.as_mut_ptr(); let mut ao = out.len();
        let mut total: usize = 777;
        let r = c::BrotliEncoderCompressStream(st, c::BrotliEncoderOperation::BROTLI_OPERATION_FLUSH, &mut ai, &mut ip, &mut ao, &mut op, &mut total);
        delivered = out.len() - ao;
        println!("D10 call1 FLUSH 5000 bytes: ret={} delivered={} total_out={}", r, delivered, total);
        // a call that delivers nothing: PROCESS with 10 bytes of input
        let more = [1u8; 10];
        let mut ip2 = more.as_ptr(); let mut ai2 = more.len();
        let r = c::BrotliEncoderCompressStream(st, c::BrotliEncoderOperation::BROTLI_OPERATION_PROCESS, &mut ai2, &mut ip2, &mut ao, &mut op, &mut total);
        println!("D10 call2 PROCESS 10 bytes: ret={} delivered so far={} total_out={}   (expected total_out == delivered)", r, out.len() - ao, total);
        let mut ai3 = 0usize; let mut ip3: *const u8 = core::ptr::null();
        let r = c::BrotliEncoderCompressStream(st, c::BrotliEncoderOperation::BROTLI_OPERATION_FINISH, &mut ai3, &mut ip3, &mut ao, &mut op, &mut total);
        println!("D10 call3 FINISH: ret={} delivered so far={} total_out={}", r, out.len() - ao, total);
        let r = c::BrotliEncoderCompressStream(st, c::BrotliEncoderOperation::BROTLI_OPERATION_FINISH, &mut ai3, &mut ip3, &mut ao, &mut op, &mut total);
        println!("D10 call4 FINISH again (nothing left): ret={} delivered so far={} total_out={}", r, out.len() - ao, total);
        c::BrotliEncoderDestroyInstance(st);

        // ---- D11: metadata payload bytes not counted
        let st = c::BrotliEncoderCreateInstance(None, None, core::ptr::null_mut());
        c::BrotliEncoderSetParameter(st, P::BROTLI_PARAM_QUALITY, 5);
        let meta = [0xabu8; 100];
        let mut ip = meta.as_ptr(); let mut ai = meta.len();
        let mut op = out.as_mut_ptr(); let mut ao = out.len();
        let mut total: usize = 777;
        let r = c::BrotliEncoderCompressStream(st, c::BrotliEncoderOperation::BROTLI_OPERATION_EMIT_METADATA, &mut ai, &mut ip, &mut ao, &mut op, &mut total);
        println!("D11 EMIT_METADATA 100 bytes: ret={} avail_in={} delivered={} total_out={}", r, ai, out.len() - ao, total);
        let mut ai3 = 0usize; let mut ip3: *const u8 = core::ptr::null();
        let r = c::BrotliEncoderCompressStream(st, c::BrotliEncoderOperation::BROTLI_OPERATION_FINISH, &mut ai3, &mut ip3, &mut ao, &mut op, &mut total);
        println!("D11 FINISH: ret={} delivered so far={} total_out={}  (expected equal)", r, out.len() - ao, total);
        c::BrotliEncoderDestroyInstance(st);
        // same through the Rust API
        let mut s = brotli::enc::encode::BrotliEncoderStateStruct::new(alloc_stdlib::StandardAlloc::default());
        s.set_parameter(P::BROTLI_PARAM_QUALITY, 5);
        let mut ai = meta.len(); let mut io = 0usize; let mut ao = out.len(); let mut oo = 0usize; let mut to = Some(0usize);
        let r = s.compress_stream(brotli::enc::encode::BrotliEncoderOperation::BROTLI_OPERATION_EMIT_METADATA, &mut ai, &meta, &mut io, &mut ao, &mut out, &mut oo, &mut to, &mut |_a, _b, _c, _d| ());
        println!("D11 Rust API EMIT_METADATA: ret={} produced={} total_out={:?} state.total_out_={}", r, oo, to, s.total_out_);
    }
}

pub fn run_cmd(args: &Args) {
    if args.rest.get(0).map(|s| s.as_str()) == Some("probe") { probe(); std::process::exit(0); }
    let corr = Corr::new(&args.out);
    let rep = Report::default();
    corr.finish();
    rep.write(&args.out);
}
