//! engine `ffi` (C13): the exported C functions of brotli::ffi::{compressor, multicompress} against
//! the Rust API, call by call.
//!
//! A *history* = allocator kind (default | counting custom callbacks) + parameter list + optional
//! custom dictionary + calls (stream via CompressStream or CompressStreaming, with/without a
//! total_out pointer, null pointers whenever a count is 0; take_output; has_more; is_finished) +
//! destroy.  The same history is run on a twin `BrotliEncoderStateStruct<StandardAlloc>` through
//! the Rust API.  Per call the oracle compares: return value, bytes produced, input consumed,
//! both cursor pairs (pointer advance = decrease of the available counter = the Rust offsets),
//! `*total_out` = bytes delivered so far (pushed + taken), has_more / is_finished; after destroy
//! the counting allocator must have no live block.  One-shot BrotliEncoderCompress, CompressMulti
//! (desired threads 0..32) and the work-pool calls are compared with their Rust counterparts.
//! SetParameter calls occur at arbitrary points of the histories (before the first stream call,
//! between stream calls, after FINISH; every named parameter + UNUSED ids; in- and out-of-range values):
//! return value 1/0 vs the Rust method's bool, the whole parameter block afterwards (`{:?}` of the pub
//! field) and the rest of the history are compared (`ffi:set-parameter:*`); `bvh ffi c20` runs only
//! SetParameter-heavy histories (second stage of C20).
//! One SetCustomDictionary call (lengths 0 — also with a NULL pointer —, 1, 2, small, above the window) may
//! follow the initial parameters, and SetParameter calls after it must be refused as after any first use
//! (`ffi:set-custom-dictionary:*`); finished streams are decoded with the same dictionary.
//! An output-buffer grid (`grid_case`) drives the multi / work-pool / one-shot entry points with
//! buffers {0, 1, tiny, exact-1, exact, bound-1, bound} x desired threads {0,1,2,4,16,17,32} x
//! {CompressMulti, work pool NULL, work pool real}: success implies size <= buffer, both decoders
//! accept, and the bytes equal the Rust API's.
//! Correspondence (`ffi S …`, `ffi M n`, `ffi O n c`): the Lean model of the wrappers gets what
//! the C caller passed and what the twin Rust call answered, and must predict every out-value.
//! Everything runs in child processes (a panic that crosses `extern "C"` aborts): a child that
//! dies is reported as `ffi:abort` with the history it was running.
//! Non-trivial history (rule): at least one stream call with a zero count / null pointer, a
//! take_output, or a call that delivered no output.
use crate::prng::Rng;
use crate::util::*;
use alloc_no_stdlib::SliceWrapper;
use alloc_stdlib::StandardAlloc;
use brotli::enc::backward_references::{BrotliEncoderParams, UnionHasher};
use brotli::enc::encode::{BrotliEncoderOperation as ROp, BrotliEncoderParameter as P, BrotliEncoderStateStruct};
use brotli::enc::threading::{Owned, SendAlloc};
use brotli::ffi::compressor as c;
use brotli::ffi::multicompress as m;
use brotli_decompressor::ffi::interface::c_void;
use std::sync::atomic::{AtomicIsize, AtomicUsize, Ordering};

// ------------------------------------------------------------------ counting allocator callbacks
#[repr(C)]
pub struct Counter { live: AtomicIsize, allocs: AtomicUsize, bad_free: AtomicUsize, id: usize }
const HDR: usize = 64;
extern "C" fn c_alloc(opaque: *mut c_void, size: usize) -> *mut c_void {
    unsafe {
        let ctr = opaque as *mut Counter;
        if !ctr.is_null() { (*ctr).live.fetch_add(1, Ordering::SeqCst); (*ctr).allocs.fetch_add(1, Ordering::SeqCst); }
        let lay = std::alloc::Layout::from_size_align(size + HDR, 64).unwrap();
        let p = std::alloc::alloc_zeroed(lay);
        *(p as *mut usize) = size;
        *((p as *mut usize).add(1)) = opaque as usize;
        p.add(HDR) as *mut c_void
    }
}
extern "C" fn c_free(opaque: *mut c_void, ptr: *mut c_void) {
    unsafe {
        if ptr.is_null() { return; }
        let base = (ptr as *mut u8).sub(HDR);
        let size = *(base as *mut usize);
        let owner = *((base as *mut usize).add(1));
        let ctr = opaque as *mut Counter;
        if !ctr.is_null() { (*ctr).live.fetch_sub(1, Ordering::SeqCst); if owner != opaque as usize { (*ctr).bad_free.fetch_add(1, Ordering::SeqCst); } }
        std::alloc::dealloc(base, std::alloc::Layout::from_size_align(size + HDR, 64).unwrap());
    }
}
fn new_counter(id: usize) -> Box<Counter> { Box::new(Counter { live: AtomicIsize::new(0), allocs: AtomicUsize::new(0), bad_free: AtomicUsize::new(0), id }) }

// ------------------------------------------------------------------ histories
#[derive(Clone, Debug)]
pub enum Call {
    /// op 0..3, input, out capacity, streaming variant, total_out pointer passed, null in/out pointers when count is 0
    Stream { op: u8, input: Vec<u8>, cap: usize, streaming: bool, tot: bool, null_in: bool, null_out: bool },
    Take(usize),
    HasMore,
    IsFinished,
    /// BrotliEncoderSetParameter(id, value) at this point of the history
    SetParam(u32, u32),
}
#[derive(Clone, Debug)]
/// `dict`: Some((bytes, null pointer for an empty dictionary)) = one SetCustomDictionary call after `params`;
/// `post_params`: SetParameter calls made after it (the dictionary call is a first use: they must be refused)
pub struct History { custom_alloc: bool, params: Vec<(u32, u32)>, dict: Option<(Vec<u8>, bool)>, post_params: Vec<(u32, u32)>, calls: Vec<Call> }

/// every named parameter of `BrotliEncoderParameter` by its discriminant (+ two UNUSED ones)
const PARAM_IDS: [u32; 34] = [0, 1, 2, 3, 4, 5, 6, 150, 151, 152, 153, 154, 155, 156, 157, 158, 159, 160, 161, 162, 164, 165, 166, 167, 168, 169, 170, 171, 7, 18, 100, 200, 254, 255];
fn param_of(k: u32) -> P {
    match k {
        0 => P::BROTLI_PARAM_MODE, 1 => P::BROTLI_PARAM_QUALITY, 2 => P::BROTLI_PARAM_LGWIN, 3 => P::BROTLI_PARAM_LGBLOCK,
        4 => P::BROTLI_PARAM_DISABLE_LITERAL_CONTEXT_MODELING, 5 => P::BROTLI_PARAM_SIZE_HINT, 6 => P::BROTLI_PARAM_LARGE_WINDOW,
        150 => P::BROTLI_PARAM_Q9_5, 151 => P::BROTLI_METABLOCK_CALLBACK, 152 => P::BROTLI_PARAM_STRIDE_DETECTION_QUALITY,
        153 => P::BROTLI_PARAM_HIGH_ENTROPY_DETECTION_QUALITY, 154 => P::BROTLI_PARAM_LITERAL_BYTE_SCORE, 155 => P::BROTLI_PARAM_CDF_ADAPTATION_DETECTION,
        156 => P::BROTLI_PARAM_PRIOR_BITMASK_DETECTION, 157 => P::BROTLI_PARAM_SPEED, 158 => P::BROTLI_PARAM_SPEED_MAX, 159 => P::BROTLI_PARAM_CM_SPEED,
        160 => P::BROTLI_PARAM_CM_SPEED_MAX, 161 => P::BROTLI_PARAM_SPEED_LOW, 162 => P::BROTLI_PARAM_SPEED_LOW_MAX, 164 => P::BROTLI_PARAM_CM_SPEED_LOW,
        165 => P::BROTLI_PARAM_CM_SPEED_LOW_MAX, 166 => P::BROTLI_PARAM_AVOID_DISTANCE_PREFIX_SEARCH, 167 => P::BROTLI_PARAM_CATABLE,
        168 => P::BROTLI_PARAM_APPENDABLE, 169 => P::BROTLI_PARAM_MAGIC_NUMBER, 170 => P::BROTLI_PARAM_NO_DICTIONARY, 171 => P::BROTLI_PARAM_FAVOR_EFFICIENCY,
        7 => P::UNUSED7, 18 => P::UNUSED18, 100 => P::UNUSED100, 200 => P::UNUSED200, 254 => P::UNUSED254, 255 => P::UNUSED255,
        _ => panic!("harness: not a parameter id {}", k),
    }
}
fn rop(op: u8) -> ROp { match op { 0 => ROp::BROTLI_OPERATION_PROCESS, 1 => ROp::BROTLI_OPERATION_FLUSH, 2 => ROp::BROTLI_OPERATION_FINISH, _ => ROp::BROTLI_OPERATION_EMIT_METADATA } }
fn cop(op: u8) -> c::BrotliEncoderOperation { match op { 0 => c::BrotliEncoderOperation::BROTLI_OPERATION_PROCESS, 1 => c::BrotliEncoderOperation::BROTLI_OPERATION_FLUSH, 2 => c::BrotliEncoderOperation::BROTLI_OPERATION_FINISH, _ => c::BrotliEncoderOperation::BROTLI_OPERATION_EMIT_METADATA } }

fn hist_json(h: &History) -> String {
    let calls: Vec<String> = h.calls.iter().map(|c| match c {
        Call::Stream { op, input, cap, streaming, tot, null_in, null_out } => format!("s{}:{}:{}:{}{}{}{}", op, hex(input), cap, *streaming as u8, *tot as u8, *null_in as u8, *null_out as u8),
        Call::Take(n) => format!("t{}", n), Call::HasMore => "m".into(), Call::IsFinished => "f".into(), Call::SetParam(k, v) => format!("p{}={}", k, v) }).collect();
    let ps = |v: &Vec<(u32, u32)>| jstr(&v.iter().map(|(k, v)| format!("{}={}", k, v)).collect::<Vec<_>>().join(","));
    format!("{{\"custom_alloc\":{},\"params\":{},\"dict\":{},\"post_params\":{},\"calls\":{}}}", h.custom_alloc, ps(&h.params), match &h.dict { None => "null".to_string(), Some((d, nul)) => format!("{{\"bytes\":{},\"null_ptr\":{}}}", jstr(&hex(d)), nul) }, ps(&h.post_params), jstr(&calls.join(" ")))
}

const BASE_IN: usize = 1_000_000; // symbolic addresses used in the correspondence lines
const BASE_OUT: usize = 5_000_000;

/// run one history through the C ABI and the Rust API
pub fn run_history(h: &History, rep: &mut Report, extra: &mut Vec<(String, String)>) -> (String, String) {
    let case = hist_json(h);
    rep.evaluations += 1;
    let mut nontrivial = false;
    let mut ops: Vec<String> = vec![]; let mut imp: Vec<String> = vec![];
    unsafe {
        let ctr = new_counter(1);
        let ctr_ptr = &*ctr as *const Counter as *mut c_void;
        let st = if h.custom_alloc { c::BrotliEncoderCreateInstance(Some(c_alloc), Some(c_free), ctr_ptr) } else { c::BrotliEncoderCreateInstance(None, None, core::ptr::null_mut()) };
        if st.is_null() { rep.violation("ffi:create-null", "BrotliEncoderCreateInstance returned NULL", case.clone()); return ("ffi S -".into(), "".into()); }
        let mut twin = BrotliEncoderStateStruct::new(StandardAlloc::default());
        // SetParameter on both instances: return value, the whole parameter block afterwards, model line
        let mut set_param = |st: *mut c::BrotliEncoderState, twin: &mut BrotliEncoderStateStruct<StandardAlloc>, k: u32, v: u32, at: &str, rep: &mut Report, ops: &mut Vec<(String, String)>| {
            let used = twin.is_initialized_;
            let a = c::BrotliEncoderSetParameter(st, param_of(k), v);
            let b = twin.set_parameter(param_of(k), v);
            rep.count(if used { "set_parameter.after_first_use" } else { "set_parameter.before_first_use" });
            rep.count(if a != 0 { "set_parameter.returned_1" } else { "set_parameter.returned_0" });
            ops.push((format!("ffi P {} {} {}", used as u8, k, v), a.to_string()));
            if (a != 0) != b {
                let sig = if used && a != 0 { "ffi:set-parameter:accepted-after-first-use" } else { "ffi:set-parameter:return-differs" };
                rep.violation(sig, &format!("SetParameter({},{}) {} returned {} but the Rust method {}", k, v, at, a, b), case.clone());
            }
            let (pc, pr) = (format!("{:?}", (*st).compressor.params), format!("{:?}", twin.params));
            if pc != pr { rep.violation("ffi:set-parameter:params-differ", &format!("after SetParameter({},{}) {} the C instance's parameters differ from the Rust instance's", k, v, at), case.clone()); }
        };
        let mut plines: Vec<(String, String)> = vec![];
        for (k, v) in &h.params { set_param(st, &mut twin, *k, *v, "before the first stream call", rep, &mut plines); }
        let empty_dict: Vec<u8> = vec![];
        let dict_bytes: &Vec<u8> = h.dict.as_ref().map(|d| &d.0).unwrap_or(&empty_dict);
        if let Some((d, null_ptr)) = &h.dict {
            // the Rust call is a "first use" even for an empty dictionary: it initialises the encoder
            c::BrotliEncoderSetCustomDictionary(st, d.len(), if d.is_empty() && *null_ptr { core::ptr::null() } else { d.as_ptr() });
            twin.set_custom_dictionary(d.len(), d);
            rep.count(&format!("set_custom_dictionary.len_{}", match d.len() { 0 => if *null_ptr { "0_null".to_string() } else { "0".to_string() }, 1 => "1".into(), 2 => "2".into(), n if n <= 300 => "small".into(), _ => "above_window".into() }));
            nontrivial = true;
            let (ic, ir) = ((*st).compressor.is_initialized_, twin.is_initialized_);
            if ic != ir { rep.violation("ffi:set-custom-dictionary:first-use-differs", &format!("after SetCustomDictionary({} bytes) the C instance is{} initialised, the Rust instance is{}", d.len(), if ic { "" } else { " not" }, if ir { "" } else { " not" }), case.clone()); }
            let (pc, pr) = (format!("{:?}", (*st).compressor.params), format!("{:?}", twin.params));
            if pc != pr { rep.violation("ffi:set-custom-dictionary:params-differ", &format!("after SetCustomDictionary({} bytes) the C instance's parameters differ from the Rust instance's", d.len()), case.clone()); }
            for (k, v) in &h.post_params { set_param(st, &mut twin, *k, *v, "after SetCustomDictionary", rep, &mut plines); }
        }
        let mut delivered: usize = 0; // pushed + taken, C side
        let mut tot_cell: usize = 0xDEAD;
        let mut rust_tot: Option<usize> = Some(0);
        let mut all_c: Vec<u8> = vec![]; let mut all_r: Vec<u8> = vec![]; let mut fed: Vec<u8> = vec![]; let mut had_meta = false;
        // whole-history model line `ffi H`: tokens + (for stream calls) the C instance's own payload-encoder invocations
        enum HTok { Plain(String), Stream { head: String, events: Vec<brotli::enc::encode::verif_stream_hook::EncodeEvent>, delivered_before: usize } }
        let mut htoks: Vec<HTok> = h.params.iter().map(|(k, v)| HTok::Plain(format!("P:{}:{}", k, v))).collect();
        let mut hcells: Vec<String> = vec![];
        let mut h_ok = h.dict.is_none();
        for (ci, call) in h.calls.iter().enumerate() {
            match call {
                Call::Stream { op, input, cap, streaming, tot, null_in, null_out } => {
                    // ---- Rust API
                    let mut rout = vec![0u8; *cap];
                    let (mut rai, mut rio, mut rao, mut roo) = (input.len(), 0usize, *cap, 0usize);
                    let enc_total_before = twin.total_out_ as usize;
                    let mut to_probe: Option<usize> = Some(usize::MAX); // detects whether the callee stored a value
                    let rres = std::panic::catch_unwind(std::panic::AssertUnwindSafe(|| twin.compress_stream(rop(*op), &mut rai, input, &mut rio, &mut rao, &mut rout, &mut roo, &mut to_probe, &mut |_a, _b, _c, _d| ())));
                    let (rok, rpanic) = match rres { Ok(b) => (b, false), Err(_) => (false, true) };
                    let to_written = if to_probe == Some(usize::MAX) { None } else { to_probe };
                    if let Some(v) = to_written { rust_tot = Some(v); }
                    // ---- C ABI
                    let mut cout = vec![0u8; (*cap).max(1)];
                    let mut ai = input.len(); let mut ao = *cap;
                    let in_base: *const u8 = if input.is_empty() && *null_in { core::ptr::null() } else { input.as_ptr() };
                    let out_base: *mut u8 = if *cap == 0 && *null_out { core::ptr::null_mut() } else { cout.as_mut_ptr() };
                    let mut ip = in_base; let mut opp = out_base;
                    let tot_before = tot_cell;
                    let _ = brotli::enc::encode::verif_stream_hook::take(); // drop the twin's records
                    let delivered_before_call = delivered;
                    let ret = if *streaming { c::BrotliEncoderCompressStreaming(st, cop(*op), &mut ai, ip, &mut ao, opp) }
                              else { c::BrotliEncoderCompressStream(st, cop(*op), &mut ai, &mut ip, &mut ao, &mut opp, if *tot { &mut tot_cell } else { core::ptr::null_mut() }) };
                    let c_events = brotli::enc::encode::verif_stream_hook::take();
                    let produced = *cap - ao.min(*cap);
                    let consumed = input.len() - ai.min(input.len());
                    let d_in = (ip as usize).wrapping_sub(in_base as usize);
                    let d_out = (opp as usize).wrapping_sub(out_base as usize);
                    delivered += produced;
                    if *op == 3 { had_meta = true; } else { fed.extend_from_slice(&input[..consumed]); }
                    if rpanic { h_ok = false; }
                    let flags = ((*tot && !*streaming) as u8) + 2 * (in_base.is_null() as u8) + 4 * (out_base.is_null() as u8);
                    htoks.push(HTok::Stream { head: format!("{}~C:{}:{}+0:{}", flags, op, hex(input), cap), events: c_events, delivered_before: delivered_before_call });
                    if *tot && !*streaming { hcells.push(format!("{}.{}", tot_cell, delivered)); }
                    all_c.extend_from_slice(&cout[..produced]); all_r.extend_from_slice(&rout[..roo]);
                    if produced == 0 { nontrivial = true; rep.count("stream_calls.no_output"); }
                    if input.is_empty() || *cap == 0 { nontrivial = true; rep.count("stream_calls.zero_count"); }
                    if in_base.is_null() || out_base.is_null() { rep.count("stream_calls.null_pointer"); }
                    rep.count(if *streaming { "stream_calls.streaming_variant" } else { "stream_calls.pointer_variant" });
                    rep.count(&format!("stream_calls.op{}", op));
                    // ---- oracles
                    if rpanic { rep.violation("ffi:rust-api-panics", &format!("call #{}: the Rust compress_stream panicked", ci), case.clone()); }
                    if (ret != 0) != rok && !rpanic { rep.violation("ffi:return-differs", &format!("call #{}: C ABI returned {} but the Rust API {}", ci, ret, rok), case.clone()); }
                    if produced != roo || cout[..produced] != rout[..roo] { rep.violation("ffi:bytes-differ", &format!("call #{}: C ABI produced {} bytes, the Rust API {} (or different content)", ci, produced, roo), case.clone()); }
                    if consumed != rio { rep.violation("ffi:consumed-differs", &format!("call #{}: C ABI consumed {} bytes, the Rust API {}", ci, consumed, rio), case.clone()); }
                    if !*streaming {
                        if d_in != consumed { rep.violation("ffi:cursor:next_in", &format!("call #{}: next_in advanced by {} but available_in decreased by {}", ci, d_in, consumed), case.clone()); }
                        if d_out != produced { rep.violation("ffi:cursor:next_out", &format!("call #{}: next_out advanced by {} but available_out decreased by {}", ci, d_out, produced), case.clone()); }
                        if *tot && tot_cell != delivered { rep.violation(if produced == 0 { "ffi:total_out:reset-on-empty-call" } else { "ffi:total_out:not-the-sum" }, &format!("call #{}: *total_out = {} but {} bytes were delivered so far", ci, tot_cell, delivered), case.clone()); }
                    }
                    // ---- correspondence: caller's view | what the Rust call did
                    let sym = |p: usize, base: usize, sbase: usize| if base == 0 { "n".to_string() } else { (sbase + p.wrapping_sub(base)).to_string() };
                    if !*streaming {
                        ops.push(format!("s:{}:{}:{}:{}:{}:{}:{}|{}:{}:{}:{}:{}:{}:{}", input.len(), sym(in_base as usize, in_base as usize, BASE_IN), cap, sym(out_base as usize, out_base as usize, BASE_OUT), *tot as u8, tot_before, enc_total_before,
                            rio, rai, roo, rao, rok as u8, rpanic as u8, to_written.map(|v| v.to_string()).unwrap_or("n".into())));
                        imp.push(format!("{}:{}:{}:{}:{}:{}", ret, ai, sym(ip as usize, in_base as usize, BASE_IN), ao, sym(opp as usize, out_base as usize, BASE_OUT), tot_cell));
                    }
                }
                Call::Take(n) => {
                    nontrivial = true;
                    let pending_before: Vec<u8> = { let mut z = 0usize; let _ = z; vec![] };
                    let _ = pending_before;
                    let mut rs = *n; let rbytes: Vec<u8> = { let sl = twin.take_output(&mut rs); sl[..rs.min(sl.len())].to_vec() };
                    let mut cs = *n; let p = c::BrotliEncoderTakeOutput(st, &mut cs);
                    let cbytes: Vec<u8> = if cs == 0 || p.is_null() { vec![] } else { std::slice::from_raw_parts(p, cs).to_vec() };
                    delivered += cs;
                    all_c.extend_from_slice(&cbytes); all_r.extend_from_slice(&rbytes);
                    rep.count("take_output_calls"); if cs > 0 { rep.count("take_output_calls.nonempty"); }
                    if cs != rs || cbytes != rbytes { rep.violation("ffi:take-output-differs", &format!("call #{}: TakeOutput({}) gave {} bytes, the Rust API {}", ci, n, cs, rs), case.clone()); }
                    // correspondence needs the pending bytes: what was taken ++ what is still pending is not observable
                    // through the C ABI; the taken prefix is checked against the model with the taken bytes themselves
                    htoks.push(HTok::Plain(format!("T:{}", n)));
                    ops.push(format!("t:{}:{}", n, hex(&rbytes)));
                    imp.push(format!("{}:{}:0", hex(&cbytes), cs));
                }
                Call::SetParam(k, v) => { nontrivial = true; htoks.push(HTok::Plain(format!("P:{}:{}", k, v))); set_param(st, &mut twin, *k, *v, &format!("as call #{}", ci), rep, &mut plines); }
                Call::HasMore | Call::IsFinished => {
                    // both read-only entry points on the same state; model line `ffi Q` gets the two fields they read
                    let (ss, av) = ((*st).compressor.stream_state_ as i32, (*st).compressor.available_out_);
                    let a = c::BrotliEncoderHasMoreOutput(st); let b = twin.has_more_output(); if (a != 0) != b { rep.violation("ffi:has-more-differs", &format!("call #{}", ci), case.clone()); }
                    let f = c::BrotliEncoderIsFinished(st); let g = twin.is_finished(); if (f != 0) != g { rep.violation("ffi:is-finished-differs", &format!("call #{}", ci), case.clone()); }
                    if ((*st).compressor.stream_state_ as i32, (*st).compressor.available_out_) != (ss, av) { rep.violation("ffi:query-changed-state", &format!("call #{}: HasMoreOutput / IsFinished changed stream_state_ or available_out_", ci), case.clone()); }
                    htoks.push(HTok::Plain(if matches!(call, Call::HasMore) { "M".into() } else { "F".into() }));
                    rep.count("query_calls");
                    plines.push((format!("ffi Q {} {}", ss, av.min(4096)), format!("{}:{}", f, a)));
                }
            }
        }
        let fin = c::BrotliEncoderIsFinished(st) != 0;
        // ---- whole-history model line: the model re-runs the history through ffiRun with the recorded answers
        if h_ok {
            let mut line = String::from("ffi H");
            'build: for tk in &htoks {
                match tk {
                    HTok::Plain(s) => { line.push(' '); line.push_str(s); }
                    HTok::Stream { head, events, delivered_before } => {
                        line.push(' '); line.push_str(head);
                        for (k, e) in events.iter().enumerate() {
                            let nbits = (e.out_size * 8 + e.carry_bits_after as u64) as i64 - e.carry_bits_before as i64;
                            if nbits < 0 { h_ok = false; break 'build; }
                            let start = (*delivered_before as u64 + e.next_out_offset) * 8 + e.carry_bits_before as u64;
                            let mut v = vec![0u8; ((nbits as usize) + 7) / 8];
                            for j in 0..nbits as usize {
                                let p = start as usize + j;
                                if p / 8 >= all_c.len() { h_ok = false; break 'build; } // still pending at the end of the history
                                if (all_c[p / 8] >> (p % 8)) & 1 == 1 { v[j / 8] |= 1 << (j % 8); }
                            }
                            let emit = e.last_flush_pos_after == e.input_pos || e.site == 2;
                            line.push_str(&format!("{}{}.{}.{}.{}", if k == 0 { ":" } else { "/" }, e.result as u8, emit as u8, nbits, hex(&v)));
                        }
                    }
                }
            }
            if h_ok && line.len() < 60000 {
                let mut hh: u32 = 2166136261; for b in all_c.iter() { hh = (hh ^ (*b as u32)).wrapping_mul(16777619); }
                let e = &(*st).compressor;
                extra.push((line, format!("{}:{}:{}:{}:{}:{}", if hcells.is_empty() { "-".to_string() } else { hcells.join(",") }, all_c.len(), hh, e.total_out_, fin as u8, (c::BrotliEncoderHasMoreOutput(st) != 0) as u8)));
                rep.count("whole_history_model_lines");
            } else { rep.count("whole_history_model_lines.skipped"); }
        } else { rep.count("whole_history_model_lines.skipped"); }
        if fin {
            // metadata blocks are skipped by a decoder: the stream must decode to exactly what was consumed
            match crate::dec::decode_dict(&all_c, dict_bytes, 1 << 24) {
                crate::dec::DResult::Ok(v) if v == fed => { rep.count("finished_and_decoded"); if had_meta { rep.count("finished_and_decoded.with_metadata"); } if !dict_bytes.is_empty() { rep.count("finished_and_decoded.with_dictionary"); } }
                // a dictionary longer than the window is cut by the encoder; what the decoder then needs is C10's subject
                _ if dict_bytes.len() > 1000 => rep.count("finished_oversize_dictionary_not_decoded_here"),
                _ => rep.violation("ffi:finished-stream-does-not-decode", "is_finished, but the delivered bytes do not decode to the bytes the stream calls consumed", case.clone()),
            }
        }
        c::BrotliEncoderDestroyInstance(st);
        if h.custom_alloc {
            rep.count("custom_allocator_histories");
            let live = ctr.live.load(Ordering::SeqCst);
            if live != 0 { rep.violation("ffi:allocator:live-blocks-after-destroy", &format!("{} blocks obtained through the caller's alloc callback were not freed by DestroyInstance", live), case.clone()); }
            if ctr.bad_free.load(Ordering::SeqCst) != 0 { rep.violation("ffi:allocator:foreign-free", "a block was freed with another opaque than it was allocated with", case.clone()); }
        }
        let _ = rust_tot;
        extra.extend(plines);
    }
    if nontrivial { rep.nontrivial += 1; }
    (format!("ffi S {}", if ops.is_empty() { "-".to_string() } else { ops.join(" ") }), imp.join(" "))
}

fn gen_data(rng: &mut Rng, n: usize) -> Vec<u8> {
    match rng.below(3) { 0 => (0..n).map(|_| rng.below(256) as u8).collect(), 1 => (0..n).map(|i| b"abcabcabd the quick brown fox "[i % 30]).collect(), _ => (0..n).map(|i| (i * 13 % 251) as u8).collect() }
}
fn gen_history(rng: &mut Rng, setparam_heavy: bool) -> History {
    let q = *rng.pick(&[0u32, 1, 2, 4, 5, 6, 9, 9, 10, 11]);
    let lgwin = rng.range(10, 18) as u32;
    let mut params = vec![(1u32, q), (2u32, lgwin)];
    if rng.chance(1, 4) { params.push((0, rng.below(3) as u32)); }
    if rng.chance(1, 4) { params.push((5, rng.below(5000) as u32)); }
    if rng.chance(1, 6) { params.push((167, 1)); }
    if rng.chance(1, 8) { params.push((168, 1)); }
    if rng.chance(1, 8) { params.push((169, 1)); }
    if rng.chance(1, 10) { params.push((3, rng.range(16, 20) as u32)); }
    if rng.chance(1, 12) { params.push((1, 99)); } // out-of-range value: both APIs must agree
    if rng.chance(1, 3) { let k = *rng.pick(&PARAM_IDS); if k != 151 && k != 3 { params.push((k, *rng.pick(&[0u32, 1, 2, 7, 300, 0xFFFF_FFFF]))); } }
    let big = q >= 10;
    let mut calls = vec![];
    let gen_sp = |rng: &mut Rng| -> Call {
        let k = *rng.pick(&PARAM_IDS);
        let v = match rng.below(6) { 0 => 0, 1 => 1, 2 => rng.below(12) as u32, 3 => rng.below(40) as u32, 4 => 0xFFFF_FFFF, _ => rng.next() as u32 };
        Call::SetParam(k, v)
    };
    let sp_rate = if setparam_heavy { 2 } else { 8 };
    let n = rng.range(1, 10);
    let caps: [usize; 8] = [0, 1, 3, 16, 100, 1000, 5000, 70000];
    let mk = |rng: &mut Rng, op: u8, input: Vec<u8>, cap: usize| Call::Stream { op, input, cap, streaming: rng.chance(1, 4), tot: rng.chance(3, 4), null_in: rng.chance(1, 2), null_out: rng.chance(1, 2) };
    for _ in 0..n {
        if rng.chance(1, sp_rate) { calls.push(gen_sp(rng)); }
        match rng.below(12) {
            0 => calls.push(Call::Take(*rng.pick(&[0usize, 1, 5, 100, 100000]))),
            1 => calls.push(Call::HasMore),
            2 => calls.push(Call::IsFinished),
            3 => { let cap = *rng.pick(&caps); calls.push(mk(rng, 1, vec![], cap)); if rng.chance(1, 2) { calls.push(Call::Take(0)); } }
            4 => { // metadata, driven to completion as the contract demands
                let len = *rng.pick(&[0usize, 1, 16, 17, 100, 300]); let data = gen_data(rng, len);
                let cap = *rng.pick(&[1usize, 16, 1000]);
                let rounds = len / cap.max(1) + 6;
                for _ in 0..rounds { calls.push(mk(rng, 3, data.clone(), cap)); }
                // NB every round re-offers the whole block; the harness trims to what is left below
            }
            _ => { let len = if big { rng.below(400) } else { *rng.pick(&[0u64, 1, 10, 300, 2000, 20000]) } as usize; let len = if len > 2 { rng.range(1, len as u64) as usize } else { len }; let d = gen_data(rng, len); let cap = *rng.pick(&caps); let op = if rng.chance(1, 6) { 1 } else { 0 }; calls.push(mk(rng, op, d, cap)); }
        }
    }
    // finish: FINISH with shrinking patience, then generous
    for cap in [0usize, 1, 7, 70000, 70000, 70000] { if rng.chance(2, 3) || cap == 70000 { calls.push(mk(rng, 2, vec![], cap)); if rng.chance(1, 4) { calls.push(Call::Take(0)); } if rng.chance(1, sp_rate * 2) { calls.push(gen_sp(rng)); } } }
    if rng.chance(1, sp_rate) { calls.push(gen_sp(rng)); } // after FINISH
    if setparam_heavy {
        // the seeded-regression shape: a quality / window change in the middle of a stream
        let pos = rng.below(calls.len() as u64 + 1) as usize;
        calls.insert(pos, Call::SetParam(*rng.pick(&[1u32, 2, 3, 167, 169]), *rng.pick(&[0u32, 1, 5, 9, 11, 16, 24])));
        calls.push(mk(rng, 2, vec![], 70000));
    }
    calls.push(Call::IsFinished); calls.push(Call::HasMore);
    let dict = if rng.chance(1, if setparam_heavy { 3 } else { 5 }) {
        let dl = match rng.below(8) { 0 | 1 => 0, 2 => 1, 3 => 2, 4 | 5 => rng.range(3, 300) as usize, 6 => rng.range(1025, 3000) as usize, _ => (1usize << lgwin) + rng.range(0, 40) as usize };
        let dl = if q >= 10 { dl.min(300) } else { dl };
        Some((gen_data(rng, dl), rng.chance(1, 2)))
    } else { None };
    let mut post_params = vec![];
    if dict.is_some() { for _ in 0..rng.below(3) { post_params.push((*rng.pick(&[1u32, 2, 0, 5, 167, 168, 169, 4]), *rng.pick(&[0u32, 1, 5, 9, 18]))); } }
    History { custom_alloc: rng.chance(1, 2), params, dict, post_params, calls }
}
/// metadata rounds re-offer the whole block in the generator; trim each round to what the
/// previous one left unconsumed (needs the real run) — done lazily here by simulating on a twin
fn fix_metadata(h: &mut History) {
    let mut twin = BrotliEncoderStateStruct::new(StandardAlloc::default());
    for (k, v) in &h.params { twin.set_parameter(param_of(*k), *v); }
    if let Some((d, _)) = &h.dict { twin.set_custom_dictionary(d.len(), d); for (k, v) in &h.post_params { twin.set_parameter(param_of(*k), *v); } }
    let mut left: Option<Vec<u8>> = None;
    let mut out: Vec<Call> = vec![];
    for c in h.calls.iter() {
        match c {
            Call::Stream { op, input, cap, streaming, tot, null_in, null_out } => {
                let inp: Vec<u8> = if *op == 3 { match &left { Some(l) => l.clone(), None => input.clone() } } else { input.clone() };
                if *op == 3 && left.as_ref().map(|l| l.is_empty()).unwrap_or(false) && !twin.has_more_output() { continue; }
                let mut ro = vec![0u8; *cap]; let (mut ai, mut io_, mut ao, mut oo) = (inp.len(), 0, *cap, 0); let mut to = Some(0);
                let r = std::panic::catch_unwind(std::panic::AssertUnwindSafe(|| twin.compress_stream(rop(*op), &mut ai, &inp, &mut io_, &mut ao, &mut ro, &mut oo, &mut to, &mut |_a, _b, _c, _d| ())));
                if *op == 3 { left = if r.unwrap_or(false) { Some(inp[io_..].to_vec()) } else { None }; if left.as_ref().map(|l| l.is_empty()).unwrap_or(false) && twin.remaining_metadata_bytes_ == u32::MAX { left = None; } } else { left = None; }
                out.push(Call::Stream { op: *op, input: inp, cap: *cap, streaming: *streaming, tot: *tot, null_in: *null_in, null_out: *null_out });
            }
            Call::Take(n) => { let mut s = *n; let _ = twin.take_output(&mut s); out.push(c.clone()); }
            Call::SetParam(k, v) => { twin.set_parameter(param_of(*k), *v); out.push(c.clone()); }
            other => out.push(other.clone()),
        }
    }
    h.calls = out;
}

// ------------------------------------------------------------------ one-shot, multi, work pool
struct OwnedVec(Vec<u8>);
impl SliceWrapper<u8> for OwnedVec { fn slice(&self) -> &[u8] { &self.0 } }

fn cmode(mode: u32) -> c::BrotliEncoderMode { match mode { 0 => c::BrotliEncoderMode::BROTLI_MODE_GENERIC, 1 => c::BrotliEncoderMode::BROTLI_MODE_TEXT, _ => c::BrotliEncoderMode::BROTLI_MODE_FONT } }
fn rmode(mode: u32) -> brotli::enc::backward_references::BrotliEncoderMode { use brotli::enc::backward_references::BrotliEncoderMode as M; match mode { 0 => M::BROTLI_MODE_GENERIC, 1 => M::BROTLI_MODE_TEXT, _ => M::BROTLI_MODE_FONT } }

fn oneshot_case(rng: &mut Rng, rep: &mut Report, corr: &mut Vec<(String, String)>) {
    let q = *rng.pick(&[0i32, 1, 2, 5, 9, 10, 11]); let lgwin = rng.range(10, 20) as i32; let mode = rng.below(3) as u32;
    let n = *rng.pick(&[0usize, 1, 2, 100, 3000]); let data = gen_data(rng, n);
    let maxsz = brotli::enc::BrotliEncoderMaxCompressedSize(n);
    let cap = *rng.pick(&[0usize, 1, 2, maxsz.saturating_sub(1), maxsz, maxsz + 10, n / 2 + 1]);
    let case = format!("{{\"oneshot\":{{\"q\":{},\"lgwin\":{},\"mode\":{},\"input\":{},\"cap\":{}}}}}", q, lgwin, mode, jstr(&hex(&data)), cap);
    rep.evaluations += 1; rep.count("oneshot_calls"); if cap == 0 || n == 0 { rep.nontrivial += 1; rep.count("oneshot_calls.zero_size"); }
    unsafe {
        let mut cout = vec![0u8; cap.max(1)]; let mut csz = cap;
        let null_in = n == 0 && rng.chance(1, 2); let null_out = cap == 0 && rng.chance(1, 2);
        let ret = c::BrotliEncoderCompress(q, lgwin, cmode(mode), n, if null_in { core::ptr::null() } else { data.as_ptr() }, &mut csz, if null_out { core::ptr::null_mut() } else { cout.as_mut_ptr() });
        let mut rout = vec![0u8; cap]; let mut rsz = cap;
        let mut m8 = StandardAlloc::default();
        let rres = std::panic::catch_unwind(std::panic::AssertUnwindSafe(|| brotli::enc::encode::BrotliEncoderCompress(StandardAlloc::default(), &mut m8, q, lgwin, rmode(mode), n, &data, &mut rsz, &mut rout, &mut |_a, _b, _c, _d| ())));
        // model line `ffi C`: the wrapper over `encoder_compress`, given the outcome of the stream phase re-run on a
        // twin encoder with the parameters encoder_compress sets (quality 10 runs as 9 with the q9.5 hasher: no twin)
        if q != 10 && n <= 3000 && cap <= 4000 {
            let mut e = BrotliEncoderStateStruct::new(StandardAlloc::default());
            e.set_parameter(P::BROTLI_PARAM_QUALITY, q as u32); e.set_parameter(P::BROTLI_PARAM_LGWIN, lgwin as u32); e.set_parameter(P::BROTLI_PARAM_MODE, mode);
            e.set_parameter(P::BROTLI_PARAM_SIZE_HINT, n as u32); if lgwin > 24 { e.set_parameter(P::BROTLI_PARAM_LARGE_WINDOW, 1); }
            let mut so_out = vec![0u8; cap]; let (mut ai, mut io_, mut ao, mut oo) = (n, 0usize, cap, 0usize); let mut to = Some(0usize);
            let so = std::panic::catch_unwind(std::panic::AssertUnwindSafe(|| { let r = if cap != 0 && n != 0 { e.compress_stream(ROp::BROTLI_OPERATION_FINISH, &mut ai, &data, &mut io_, &mut ao, &mut so_out, &mut oo, &mut to, &mut |_a, _b, _c, _d| ()) } else { false }; (r, e.is_finished()) }));
            if let Ok((sr, sf)) = so {
                let tot = to.unwrap_or(0);
                let got = if ret != 0 { &cout[..csz.min(cout.len())] } else { &cout[..0] };
                let fnv = got.iter().fold(FNV_INIT, |h, b| fnv_step(h, *b as u64));
                corr.push((format!("ffi C {} {} {} {} {} {} {} {} {}", n, null_in as u8, cap, null_out as u8, sr as u8, sf as u8, tot, hex(&so_out[..oo]), hex(&data)),
                           format!("{}:{}:{}:{}:0", ret, csz, got.len(), fnv)));
                rep.count("oneshot_calls.model_line");
            }
        }
        match rres {
            Ok(rret) => {
                if ret != rret { rep.violation("ffi:oneshot:return-differs", &format!("C ABI returned {} but the Rust API {}", ret, rret), case.clone()); }
                else if ret != 0 { if csz != rsz || cout[..csz.min(cout.len())] != rout[..rsz.min(rout.len())] { rep.violation("ffi:oneshot:bytes-differ", &format!("encoded_size {} vs {}", csz, rsz), case.clone()); }
                    if csz > cap { rep.violation("ffi:oneshot:size-exceeds-capacity", &format!("*encoded_size = {} > {}", csz, cap), case.clone()); }
                    else { match crate::dec::decode(&cout[..csz], n + 65536) { crate::dec::DResult::Ok(v) if v == data => rep.count("oneshot_calls.decoded"), _ => rep.violation("ffi:oneshot:success-but-undecodable", "returned 1 but the output does not decode to the input", case.clone()) } } }
                else { rep.count("oneshot_calls.returned_0"); if csz != 0 && csz != cap { rep.count("oneshot_calls.failed_size_not_zero"); } }
            }
            Err(_) => { if ret != 0 { rep.violation("ffi:oneshot:rust-panics-c-succeeds", "the Rust call panicked but the C ABI returned success", case.clone()); } else { rep.count("oneshot_calls.panic_mapped_to_0"); } }
        }
    }
}

fn multi_case(rng: &mut Rng, rep: &mut Report, corr: &mut Vec<(String, String)>, desired: usize) {
    let q = *rng.pick(&[0u32, 1, 2, 5, 9]); let lgwin = rng.range(10, 18) as u32;
    let n = *rng.pick(&[0usize, 1, 50, 2000, 20000]); let data = gen_data(rng, n);
    let keys = [P::BROTLI_PARAM_QUALITY, P::BROTLI_PARAM_LGWIN]; let vals = [q, lgwin];
    let cap = brotli::enc::BrotliEncoderMaxCompressedSizeMulti(n, desired.max(1).min(16)) + 64;
    let custom = rng.chance(1, 2); let per_thread = custom && rng.chance(1, 2);
    let case = format!("{{\"multi\":{{\"q\":{},\"lgwin\":{},\"input\":{},\"desired\":{},\"custom_alloc\":{},\"opaque_array\":{}}}}}", q, lgwin, jstr(&hex(&data)), desired, custom, per_thread);
    rep.evaluations += 1; rep.count(&format!("multi.desired.{}", if desired > 16 { "17-32".to_string() } else if desired >= 2 { "2-16".to_string() } else { desired.to_string() }));
    unsafe {
        let ctrs: Vec<Box<Counter>> = (0..desired.max(1)).map(new_counter).collect();
        let mut opaques: Vec<*mut c_void> = ctrs.iter().map(|b| &**b as *const Counter as *mut c_void).collect();
        let mut out = vec![0u8; cap]; let mut sz = cap; let sentinel = cap;
        let (af, ff): (brotli_decompressor::ffi::interface::brotli_alloc_func, brotli_decompressor::ffi::interface::brotli_free_func) = if custom { (Some(c_alloc), Some(c_free)) } else { (None, None) };
        let use_pool = rng.chance(1, 3);
        let ret = if use_pool {
            let pool = m::BrotliEncoderCreateWorkPool(*rng.pick(&[0usize, 1, 4, 16, 40]), af, ff, if custom { opaques[0] } else { core::ptr::null_mut() });
            let r = m::BrotliEncoderCompressWorkPool(pool, 2, keys.as_ptr(), vals.as_ptr(), n, data.as_ptr(), &mut sz, out.as_mut_ptr(), desired, af, ff, if per_thread { opaques.as_mut_ptr() } else { core::ptr::null_mut() });
            if !pool.is_null() { m::BrotliEncoderDestroyWorkPool(pool); }
            rep.count("multi.via_work_pool"); r
        } else { m::BrotliEncoderCompressMulti(2, keys.as_ptr(), vals.as_ptr(), n, data.as_ptr(), &mut sz, out.as_mut_ptr(), desired, af, ff, if per_thread { opaques.as_mut_ptr() } else { core::ptr::null_mut() }) };
        // model correspondence: dispatch + opaque indices
        let threads = desired.min(16);
        corr.push((format!("ffi M {}", desired), if desired == 0 { "reject".into() } else if threads == 1 { "single".into() } else { format!("multi:{}", threads) }));
        if desired == 0 {
            if ret != 0 || sz != sentinel { rep.violation("ffi:multi:zero-threads-not-rejected", &format!("desired_num_threads = 0 returned {} (encoded_size {})", ret, sz), case.clone()); }
            rep.nontrivial += 1; return;
        }
        // (encode.h: the advertised bound is only valid for quality >= 2 — at quality 0/1 incompressible
        // input may legitimately not fit, and the call then has to fail by return value)
        if ret == 0 { if q >= 2 { rep.violation("ffi:multi:failed", "returned 0 with an output buffer of the advertised maximum size", case.clone()); } else { rep.count("multi.q01_did_not_fit_bound"); } return; }
        match crate::dec::decode(&out[..sz.min(cap)], n + 65536) { crate::dec::DResult::Ok(v) if v == data => rep.count("multi.decoded"), _ => { rep.violation("ffi:multi:success-but-undecodable", "returned 1 but the output does not decode to the input", case.clone()); return; } }
        // thread-count clamp: same bytes as the Rust API with min(desired, 16) jobs
        if threads >= 2 {
            let mut params = BrotliEncoderParams::default();
            brotli::enc::encode::set_parameter(&mut params, P::BROTLI_PARAM_QUALITY, q); brotli::enc::encode::set_parameter(&mut params, P::BROTLI_PARAM_LGWIN, lgwin);
            let mut allocs: Vec<_> = (0..threads).map(|_| SendAlloc::new(StandardAlloc::default(), UnionHasher::Uninit)).collect();
            let mut rout = vec![0u8; cap];
            let r = brotli::enc::compress_multi_no_threadpool(&params, &mut Owned::new(OwnedVec(data.clone())), &mut rout, &mut allocs[..]);
            match r { Ok(rsz) => { if rsz != sz || rout[..rsz] != out[..sz] { rep.violation("ffi:multi:thread-clamp-or-bytes-differ", &format!("desired {} -> expected the bytes of {} jobs ({} bytes), got {} bytes", desired, threads, rsz, sz), case.clone()); } else { rep.count("multi.equals_rust_api_with_min_n_16_jobs"); rep.nontrivial += 1; } } Err(_) => rep.violation("ffi:multi:rust-api-fails", "the Rust multi-threaded compressor failed where the C ABI succeeded", case.clone()) }
        }
        if custom {
            for (i, ctr) in ctrs.iter().enumerate() {
                let used = ctr.allocs.load(Ordering::SeqCst) > 0;
                if per_thread && used && i >= threads.max(1) && !(i == 0) { rep.violation("ffi:multi:opaque-of-unused-thread", &format!("allocator opaque #{} was used although only {} threads run", i, threads), case.clone()); }
                if ctr.live.load(Ordering::SeqCst) != 0 { rep.violation("ffi:multi:allocator-live-blocks", &format!("opaque #{}: {} blocks not freed", i, ctr.live.load(Ordering::SeqCst)), case.clone()); }
            }
            corr.push((format!("ffi O {} {}", desired, per_thread as u8), (0..16).map(|k| (if k == 0 { 0 } else { k % desired }).to_string()).collect::<Vec<_>>().join(",")));
        }
    }
}


/// the output-buffer grid: multi / work-pool / one-shot calls whose output buffer is one of
/// {0, 1, tiny, exact-1, exact, bound-1, bound} (exact = the size the same call produces into a
/// bound-sized buffer) x desired threads {0,1,2,4,16,17,32} x {CompressMulti, work pool with a NULL
/// pool, work pool with a real pool} x inputs that do not fit the small classes.
/// Oracle: return 1 => *encoded_size <= buffer, the bytes decode (both decoders) to the input and
/// equal what the Rust API produces for the same settings; return 0 is a violation only when the
/// buffer has the advertised bound.
fn grid_case(idx: u64, seed: u64, rep: &mut Report) {
    const THREADS: [usize; 7] = [0, 1, 2, 4, 16, 17, 32];
    let ti = (idx % 7) as usize; let pool_mode = ((idx / 7) % 3) as usize; let input_kind = ((idx / 21) % 3) as usize; let q = [2u32, 5, 9, 0][((idx / 63) % 4) as usize];
    let desired = THREADS[ti];
    let mut rng = Rng::new(seed ^ 0x6A1D ^ (idx << 20));
    let data: Vec<u8> = match input_kind { 0 => (0..3000).map(|_| rng.below(256) as u8).collect(), 1 => (0..5000).map(|i| b"the quick brown fox jumps over the lazy dog. "[i % 45]).collect(), _ => (0..60).map(|_| rng.below(256) as u8).collect() };
    let lgwin = 16u32;
    let keys = [P::BROTLI_PARAM_QUALITY, P::BROTLI_PARAM_LGWIN]; let vals = [q, lgwin];
    let threads = desired.min(16);
    let bound = brotli::enc::BrotliEncoderMaxCompressedSizeMulti(data.len(), threads.max(1));
    let call = |cap: usize, out: &mut Vec<u8>| -> (i32, usize) { unsafe {
        *out = vec![0xEEu8; cap.max(1)]; let mut sz = cap;
        let r = match pool_mode {
            0 => m::BrotliEncoderCompressMulti(2, keys.as_ptr(), vals.as_ptr(), data.len(), data.as_ptr(), &mut sz, out.as_mut_ptr(), desired, None, None, core::ptr::null_mut()),
            1 => m::BrotliEncoderCompressWorkPool(core::ptr::null_mut(), 2, keys.as_ptr(), vals.as_ptr(), data.len(), data.as_ptr(), &mut sz, out.as_mut_ptr(), desired, None, None, core::ptr::null_mut()),
            _ => { let pool = m::BrotliEncoderCreateWorkPool(4, None, None, core::ptr::null_mut()); let r = m::BrotliEncoderCompressWorkPool(pool, 2, keys.as_ptr(), vals.as_ptr(), data.len(), data.as_ptr(), &mut sz, out.as_mut_ptr(), desired, None, None, core::ptr::null_mut()); if !pool.is_null() { m::BrotliEncoderDestroyWorkPool(pool); } r }
        };
        (r, sz)
    } };
    // reference through the Rust API for the same settings
    // (only CompressMulti — and the work-pool call with a NULL pool, which forwards to it — take the
    // single-stream helper for one thread; a real pool runs the multi-thread code with one job)
    let single = threads == 1 && pool_mode != 2;
    let reference: Option<Vec<u8>> = if desired == 0 { None } else if single {
        let mut e = BrotliEncoderStateStruct::new(StandardAlloc::default()); e.set_parameter(P::BROTLI_PARAM_QUALITY, q); e.set_parameter(P::BROTLI_PARAM_LGWIN, lgwin);
        let mut out = vec![0u8; bound + 64]; let (mut ai, mut io_, mut ao, mut oo) = (data.len(), 0usize, out.len(), 0usize); let mut to = Some(0);
        let ok = e.compress_stream(ROp::BROTLI_OPERATION_FINISH, &mut ai, &data, &mut io_, &mut ao, &mut out, &mut oo, &mut to, &mut |_a, _b, _c, _d| ());
        if ok && e.is_finished() { out.truncate(oo); Some(out) } else { None }
    } else {
        let mut params = BrotliEncoderParams::default();
        brotli::enc::encode::set_parameter(&mut params, P::BROTLI_PARAM_QUALITY, q); brotli::enc::encode::set_parameter(&mut params, P::BROTLI_PARAM_LGWIN, lgwin);
        let mut allocs: Vec<_> = (0..threads).map(|_| SendAlloc::new(StandardAlloc::default(), UnionHasher::Uninit)).collect();
        let mut rout = vec![0u8; bound + 64];
        match brotli::enc::compress_multi_no_threadpool(&params, &mut Owned::new(OwnedVec(data.clone())), &mut rout, &mut allocs[..]) { Ok(n) => { rout.truncate(n); Some(rout) } Err(_) => None }
    };
    let exact = reference.as_ref().map(|r| r.len()).unwrap_or(bound);
    let classes: [(&str, usize); 7] = [("0", 0), ("1", 1), ("tiny", 5), ("exact-1", exact.saturating_sub(1)), ("exact", exact), ("bound-1", bound.saturating_sub(1)), ("bound", bound)];
    for (cname, cap) in classes.iter() {
        let case = format!("{{\"grid\":{{\"entry\":{},\"desired\":{},\"q\":{},\"lgwin\":{},\"input\":{},\"buffer_class\":{},\"buffer\":{},\"exact\":{},\"bound\":{}}}}}", jstr(["CompressMulti", "CompressWorkPool(NULL pool)", "CompressWorkPool(pool of 4)"][pool_mode]), desired, q, lgwin, jstr(&hex(&data)), jstr(cname), cap, exact, bound);
        rep.evaluations += 1; rep.count(&format!("grid.buffer.{}", cname)); rep.count(&format!("grid.desired.{}", desired)); rep.count(&format!("grid.entry.{}", pool_mode));
        let mut out = vec![]; let (ret, sz) = call(*cap, &mut out);
        if desired == 0 { if ret != 0 || sz != *cap { rep.violation("ffi:multi:zero-threads-not-rejected", &format!("desired_num_threads = 0 returned {} (encoded_size {} of {})", ret, sz, cap), case); } continue; }
        if *cap < exact { rep.nontrivial += 1; }
        if ret != 0 {
            rep.count("grid.returned_1");
            let one = if single { ":single-thread-path" } else { "" };
            if sz > *cap { rep.violation(&format!("ffi:multi:size-exceeds-buffer{}", one), &format!("returned 1 with *encoded_size = {} > buffer {}", sz, cap), case); continue; }
            if let Err(e) = crate::dec::decode_both(&out[..sz], false, &data) { rep.violation(&format!("ffi:multi:success-but-undecodable{}", one), &format!("returned 1 with a {}-byte buffer ({}), {} bytes reported: {}", cap, cname, sz, e), case); continue; }
            match &reference { Some(r) if r[..] == out[..sz] => rep.count("grid.equals_rust_api"), Some(r) => rep.violation("ffi:multi:thread-clamp-or-bytes-differ", &format!("{} bytes, the Rust API for the same settings gives {}", sz, r.len()), case), None => rep.violation("ffi:multi:rust-api-fails", "the Rust API failed for the same settings with a bound-sized buffer", case) }
        } else {
            rep.count("grid.returned_0");
            if *cap >= bound && q >= 2 { rep.violation("ffi:multi:failed", &format!("returned 0 although the buffer has the advertised bound ({} bytes)", bound), case); }
        }
    }
    // the one-shot entry point over the same buffer classes
    if pool_mode == 0 && ti == 1 { unsafe {
        let obound = brotli::enc::BrotliEncoderMaxCompressedSize(data.len());
        let probe = { let mut o = vec![0u8; obound.max(1)]; let mut sz = obound; let r = c::BrotliEncoderCompress(q as i32, lgwin as i32, c::BrotliEncoderMode::BROTLI_MODE_GENERIC, data.len(), data.as_ptr(), &mut sz, o.as_mut_ptr()); if r != 0 { sz } else { obound } };
        for (cname, cap) in [("0", 0usize), ("1", 1), ("tiny", 5), ("exact-1", probe.saturating_sub(1)), ("exact", probe), ("bound-1", obound.saturating_sub(1)), ("bound", obound)] {
            let case = format!("{{\"grid_oneshot\":{{\"q\":{},\"lgwin\":{},\"input\":{},\"buffer_class\":{},\"buffer\":{}}}}}", q, lgwin, jstr(&hex(&data)), jstr(cname), cap);
            rep.evaluations += 1; rep.count(&format!("grid.oneshot.buffer.{}", cname));
            let mut o = vec![0xEEu8; cap.max(1)]; let mut sz = cap;
            let r = c::BrotliEncoderCompress(q as i32, lgwin as i32, c::BrotliEncoderMode::BROTLI_MODE_GENERIC, data.len(), data.as_ptr(), &mut sz, o.as_mut_ptr());
            let mut ro = vec![0u8; cap]; let mut rsz = cap; let mut m8 = StandardAlloc::default();
            let rr = brotli::enc::encode::BrotliEncoderCompress(StandardAlloc::default(), &mut m8, q as i32, lgwin as i32, rmode(0), data.len(), &data, &mut rsz, &mut ro, &mut |_a, _b, _c, _d| ());
            if r != rr { rep.violation("ffi:oneshot:return-differs", &format!("C ABI returned {} but the Rust API {}", r, rr), case); continue; }
            if r != 0 {
                if sz > cap { rep.violation("ffi:oneshot:size-exceeds-capacity", &format!("*encoded_size = {} > {}", sz, cap), case); continue; }
                if let Err(e) = crate::dec::decode_both(&o[..sz], false, &data) { rep.violation("ffi:oneshot:success-but-undecodable", &format!("returned 1 with a {}-byte buffer: {}", cap, e), case); continue; }
                if sz != rsz || o[..sz] != ro[..rsz] { rep.violation("ffi:oneshot:bytes-differ", &format!("encoded_size {} vs {}", sz, rsz), case); }
            } else if cap >= obound && obound != 0 { rep.violation("ffi:oneshot:failed-with-bound-buffer", &format!("returned 0 although the buffer has the advertised bound ({})", obound), case); }
        }
    } }
}

/// the small exported functions, one model line each: Version, MaxCompressedSize (edge arguments incl. the
/// wrap-to-0 zone; release build: the last addition is unchecked), SetCustomDictionary on a fresh instance
/// (first use; empty dictionary or quality 0/1 switch catable/appendable on), NULL dictionary with size 0.
fn entry_lines(rep: &mut Report, corr: &mut Corr) {
    corr.case("ffi V", &c::BrotliEncoderVersion().to_string());
    if c::BrotliEncoderVersion() != brotli::enc::encode::BrotliEncoderVersion() { rep.violation("ffi:version-differs", "BrotliEncoderVersion differs from the Rust function", "{}".into()); }
    let mut ns: Vec<usize> = vec![0, 1, 2, 100, (1 << 14) - 1, 1 << 14, (1 << 14) + 1, (1 << 20), (1 << 20) + 1, (1 << 24) - 1, 1 << 24, (1 << 24) + 1, (1 << 24) + (1 << 20) + 1, 1 << 32, (1 << 54) - 1, 1 << 54, usize::MAX >> 1, usize::MAX - (1 << 52), 18442241573325438940, 18442241573325438941, usize::MAX - 17, usize::MAX - 1, usize::MAX];
    for k in 0..40u64 { ns.push((k.wrapping_mul(0x9E3779B97F4A7C15) >> (k % 50)) as usize); }
    for n in ns {
        let v = c::BrotliEncoderMaxCompressedSize(n);
        rep.count("max_compressed_size_calls");
        if v != brotli::enc::BrotliEncoderMaxCompressedSize(n) { rep.violation("ffi:max-compressed-size-differs", &format!("n = {}", n), "{}".into()); }
        corr.case(&format!("ffi X {}", n), &v.to_string());
    }
    unsafe {
        let buf = vec![7u8; 70000];
        for q in [0u32, 1, 2, 5, 9, 11] { for lgwin in [10u32, 16, 22] { for (size, null) in [(0usize, true), (0, false), (1, false), (2, false), (300, false), (70000, false)] {
            let st = c::BrotliEncoderCreateInstance(None, None, core::ptr::null_mut());
            c::BrotliEncoderSetParameter(st, P::BROTLI_PARAM_QUALITY, q); c::BrotliEncoderSetParameter(st, P::BROTLI_PARAM_LGWIN, lgwin);
            let (ip0, lf0) = ((*st).compressor.input_pos_, (*st).compressor.last_flush_pos_);
            c::BrotliEncoderSetCustomDictionary(st, size, if null { core::ptr::null() } else { buf.as_ptr() });
            let e = &(*st).compressor;
            let copied = e.input_pos_ != ip0 || e.last_flush_pos_ != lf0;
            rep.count("set_custom_dictionary.entry_lines");
            corr.case(&format!("ffi D {} {} {}", q, lgwin, size), &format!("{}:{}:{}:{}:{}:{}", e.is_initialized_ as u8, e.params.catable as u8, e.params.appendable as u8, e.params.quality, e.params.lgwin, copied as u8));
            c::BrotliEncoderDestroyInstance(st);
        } } }
    }
}

/// contract violations that must come back as return values, never as an abort.
/// (A NULL pointer together with a NON-zero count is outside the documented contract — the wrappers
/// hand it to `slice::from_raw_parts`, as the C library would dereference it; pointer validity is
/// the caller's obligation and not exercised here.)
fn risky_cases(rep: &mut Report) {
    unsafe {
        rep.count("risky.started");
        let mut out = vec![0u8; 100];
        // alloc without free: must yield NULL (the panic inside is caught)
        let st = c::BrotliEncoderCreateInstance(Some(c_alloc), None, core::ptr::null_mut());
        rep.count(if st.is_null() { "risky.alloc_without_free.null" } else { "risky.alloc_without_free.instance" });
        if !st.is_null() { rep.violation("ffi:create:alloc-without-free-accepted", "alloc_func without free_func must yield NULL", "{}".into()); }
        let wp = m::BrotliEncoderCreateWorkPool(2, Some(c_alloc), None, core::ptr::null_mut());
        rep.count(if wp.is_null() { "risky.workpool_alloc_without_free.null" } else { "risky.workpool_alloc_without_free.instance" });
        if !wp.is_null() { rep.violation("ffi:create-work-pool:alloc-without-free-accepted", "alloc_func without free_func must yield NULL", "{}".into()); }
        // destroy(NULL)
        c::BrotliEncoderDestroyInstance(core::ptr::null_mut());
        // every pointer null, every count 0 (stream): allowed by the contract
        let st = c::BrotliEncoderCreateInstance(None, None, core::ptr::null_mut());
        let (mut ai, mut ao) = (0usize, 0usize); let mut ip: *const u8 = core::ptr::null(); let mut opp: *mut u8 = core::ptr::null_mut();
        let r = c::BrotliEncoderCompressStream(st, c::BrotliEncoderOperation::BROTLI_OPERATION_FINISH, &mut ai, &mut ip, &mut ao, &mut opp, core::ptr::null_mut());
        rep.count(&format!("risky.stream_all_null_zero.ret{}", r));
        if r != 1 || !ip.is_null() || !opp.is_null() { rep.violation("ffi:null-zero-stream-call", "a FINISH call with null pointers and zero counts must succeed and leave the pointers null", "{}".into()); }
        // operations after finish / protocol violations: PROCESS with input after FINISH has started
        let d = [5u8; 20]; let mut ai = 20usize; let mut ip = d.as_ptr(); let mut ao = 100usize; let mut opp = out.as_mut_ptr();
        let r = c::BrotliEncoderCompressStream(st, c::BrotliEncoderOperation::BROTLI_OPERATION_PROCESS, &mut ai, &mut ip, &mut ao, &mut opp, core::ptr::null_mut());
        rep.count(&format!("risky.process_after_finish.ret{}", r));
        if r != 0 && ai != 20 { rep.violation("ffi:input-accepted-after-finish", "input was consumed after FINISH had been requested", "{}".into()); }
        c::BrotliEncoderDestroyInstance(st);
        // multi with null params / input and zero counts
        let mut sz = 100usize;
        let r = m::BrotliEncoderCompressMulti(0, core::ptr::null(), core::ptr::null(), 0, core::ptr::null(), &mut sz, out.as_mut_ptr(), 3, None, None, core::ptr::null_mut());
        rep.count(&format!("risky.multi_null_zero.ret{}", r));
        if r == 1 { match crate::dec::decode(&out[..sz.min(100)], 100) { crate::dec::DResult::Ok(v) if v.is_empty() => {} _ => rep.violation("ffi:multi:empty-input-undecodable", "empty input on 3 threads: success reported, output does not decode to the empty string", "{}".into()) } }
        // work pool: null pool pointer falls back to the thread-per-job path
        let d = [7u8; 3000]; let keys = [P::BROTLI_PARAM_QUALITY]; let vals = [5u32]; let mut big = vec![0u8; 8000]; let mut sz = big.len();
        let r = m::BrotliEncoderCompressWorkPool(core::ptr::null_mut(), 1, keys.as_ptr(), vals.as_ptr(), d.len(), d.as_ptr(), &mut sz, big.as_mut_ptr(), 4, None, None, core::ptr::null_mut());
        rep.count(&format!("risky.null_work_pool.ret{}", r));
        if r != 1 { rep.violation("ffi:work-pool:null-pool-fails", "a null work pool must fall back to BrotliEncoderCompressMulti", "{}".into()); }
        // output buffer far too small: failure by return value
        let mut sz = 5usize;
        let r = m::BrotliEncoderCompressMulti(1, keys.as_ptr(), vals.as_ptr(), d.len(), d.as_ptr(), &mut sz, big.as_mut_ptr(), 4, None, None, core::ptr::null_mut());
        rep.count(&format!("risky.multi_tiny_output.ret{}", r));
        if r != 0 { rep.violation("ffi:multi:success-with-tiny-output", "3000 bytes on 4 threads cannot fit 5 bytes of output", "{}".into()); }
        let mut sz = 5usize;
        let r = c::BrotliEncoderCompress(5, 22, c::BrotliEncoderMode::BROTLI_MODE_GENERIC, d.len(), d.as_ptr(), &mut sz, big.as_mut_ptr());
        rep.count(&format!("risky.oneshot_tiny_output.ret{}", r));
        rep.count("risky.completed");
    }
}

pub fn run_cmd(args: &Args) {
    if args.rest.get(0).map(|s| s.as_str()) == Some("shard") { return run_shard(args, args.rest[1].parse().unwrap(), args.rest[2].parse().unwrap()); }
    // `bvh ffi c20`: only the twin histories with SetParameter calls at arbitrary points (second stage of C20)
    let c20 = args.rest.get(0).map(|s| s.as_str()) == Some("c20");
    let nshards = 16u64;
    let exe = std::env::current_exe().unwrap();
    let mut kids = vec![];
    for s in 0..nshards {
        let d = args.out.join(format!("shard{}", s));
        std::fs::create_dir_all(&d).unwrap();
        kids.push((s, d.clone(), std::process::Command::new(&exe).args(["ffi", "--tier", &args.tier, "--seed", &args.seed.to_string(), "--out", d.to_str().unwrap(), "shard", &s.to_string(), &nshards.to_string(), if c20 { "c20" } else { "all" }]).stderr(std::process::Stdio::null()).spawn().unwrap()));
    }
    let mut corr = Corr::new(&args.out);
    let mut rep = Report::default();
    for (s, d, mut k) in kids {
        let st = k.wait();
        let ok = st.map(|x| x.success()).unwrap_or(false);
        if let (Ok(o), Ok(i)) = (std::fs::read_to_string(d.join("ops.txt")), std::fs::read_to_string(d.join("impl.txt"))) { for (a, b) in o.lines().zip(i.lines()) { corr.case(a, b); } }
        if let Ok(r) = std::fs::read_to_string(d.join("report.tsv")) { rep.merge_tsv(&r); }
        if !ok {
            let last = std::fs::read_to_string(d.join("current.txt")).unwrap_or_default();
            rep.violation("ffi:abort", "a child process running C ABI calls died (a panic crossed the extern \"C\" boundary, or memory was corrupted)", format!("{{\"shard\":{},\"last\":{}}}", s, if last.is_empty() { "{}".to_string() } else { last }));
        }
    }
    rep.sample("ffi S s:5:1000000:10:5000000:1:57005:0|5:0:0:10:1:0:n -> 1:0:1000005:10:5000000:0".into());
    corr.finish();
    rep.write(&args.out);
}

fn run_shard(args: &Args, shard: u64, nshards: u64) {
    let thorough = args.tier == "thorough";
    let mut corr = Corr::new(&args.out);
    let mut rep = Report::default();
    let total: u64 = if thorough { 24000 } else { 1600 };
    let c20 = args.rest.get(3).map(|s| s.as_str()) == Some("c20");
    let mut extra: Vec<(String, String)> = vec![];
    let total: u64 = if c20 { if thorough { 8000 } else { 800 } } else { total };
    for i in (0..total).filter(|i| i % nshards == shard) {
        let mut rng = Rng::new(args.seed ^ (if c20 { 0xC20 } else { 0xFF1 }) ^ (i << 20));
        let mut h = gen_history(&mut rng, c20 || i % 4 == 0);
        fix_metadata(&mut h);
        std::fs::write(args.out.join("current.txt"), hist_json(&h)).ok();
        let (o, a) = run_history(&h, &mut rep, &mut extra);
        // a history made only of CompressStreaming / has_more / is_finished calls has no model line
        if o != "ffi S -" && o.len() < 60000 { corr.case(&o, &a); } else if o == "ffi S -" { rep.count("histories_without_model_line"); }
    }
    for (o, a) in extra.drain(..) { corr.case(&o, &a); }
    if c20 { std::fs::write(args.out.join("current.txt"), "").ok(); corr.finish(); rep.write(&args.out); return; }
    let n1: u64 = if thorough { 4000 } else { 400 };
    let mut lines1: Vec<(String, String)> = vec![];
    for i in (0..n1).filter(|i| i % nshards == shard) { let mut rng = Rng::new(args.seed ^ 0x0115 ^ (i << 20)); std::fs::write(args.out.join("current.txt"), format!("{{\"oneshot_index\":{}}}", i)).ok(); oneshot_case(&mut rng, &mut rep, &mut lines1); }
    for (o, a) in lines1 { if o.len() < 60000 { corr.case(&o, &a); } }
    // every desired thread count 0..32, several inputs each
    let reps: u64 = if thorough { 12 } else { 2 };
    let mut lines = vec![];
    for j in (0..33 * reps).filter(|j| j % nshards == shard) { let desired = (j % 33) as usize; let mut rng = Rng::new(args.seed ^ 0x3017 ^ (j << 20)); std::fs::write(args.out.join("current.txt"), format!("{{\"multi_index\":{},\"desired\":{}}}", j, desired)).ok(); multi_case(&mut rng, &mut rep, &mut lines, desired); }
    for (o, a) in lines { corr.case(&o, &a); }
    // output-buffer grid: 7 thread counts x 3 entry points x 3 inputs x 4 qualities (x 7 buffer classes each)
    let ngrid: u64 = if thorough { 7 * 3 * 3 * 4 * 4 } else { 7 * 3 * 3 * 4 };
    for g in (0..ngrid).filter(|g| g % nshards == shard) { std::fs::write(args.out.join("current.txt"), format!("{{\"grid_index\":{}}}", g)).ok(); grid_case(g, args.seed.wrapping_add(g / 252), &mut rep); }
    if shard == 0 {
        for d in 0..=40usize { corr.case(&format!("ffi M {}", d), &(if d == 0 { "reject".to_string() } else if d.min(16) == 1 { "single".into() } else { format!("multi:{}", d.min(16)) })); }
        std::fs::write(args.out.join("current.txt"), "{\"entry_lines\":true}").ok();
        entry_lines(&mut rep, &mut corr);
        std::fs::write(args.out.join("current.txt"), "{\"risky\":true}").ok();
        risky_cases(&mut rep);
    }
    std::fs::write(args.out.join("current.txt"), "").ok();
    corr.finish();
    rep.write(&args.out);
}
