//! engine `multi` — C02 / C06: multi-threaded compression (`src/enc/threading.rs` CompressMulti
//! through the three spawners: thread per job, worker pool, inline).
//!
//! `bvh multi [c02|c06] --tier … --seed … --out …` = the registered run: corpus
//! (/verif/corpus/multi/*.case), arithmetic lines, then 16 child processes (`multi shard k`) with the
//! correspondence cases, the search cases and the scheduled-pool scenarios. `c02` / `c06` keep only
//! that property's violation signatures. `bvh multi c07` = the pool-through-the-production-submitter
//! stage for C07 (sequences of failing and succeeding calls on one reused pool, one child process per
//! group with a 6 s watchdog; signatures `multi:c07:*`; no correspondence lines). `bvh multi probe <d13|sticky|d16|d16grid|shortranges|q01|
//! sized|lgwin>` prints the minimal defect reproductions (release and debug builds).
//!
//! Correspondence (driver protocol: lean/BV/Drive/Multi.lean): `max`, `maxmulti` against the real
//! functions; `dict` against the real encoder's positions after the dictionary call; every job is
//! recomputed through the public single-stream API exactly as `compress_part` does (incl. the
//! favor-cpu shared index), `range`/`part` lines tie the replica to the model, and `run` lines compare
//! the model's prediction (class, ownership flag, stitched bytes) from the recomputed job outputs with
//! what the REAL spawners return for buffers above, at and below the bound.
//!
//! Search oracles (real code only): no panic; Ok(n) decodes with both decoders to the input; buffer
//! >= BrotliEncoderMaxCompressedSizeMulti and quality >= 2 => Ok; input handed back on Ok and Err; byte
//! identity across spawners / fresh vs reused pool / repeats / favor on vs off / random pool schedules
//! (scheduler shim); every recomputed job Ok => finished stream.
//!
//! Non-trivial case (rule for `rep.nontrivial`): a CompressMulti call with >= 2 threads, an input of
//! >= 2 bytes and a non-empty first piece.
use crate::prng::Rng;
use crate::util::*;
use alloc_no_stdlib::{Allocator, SliceWrapper, SliceWrapperMut};
use alloc_stdlib::StandardAlloc;
use brotli::enc::backward_references::{BrotliEncoderParams, UnionHasher};
use brotli::enc::encode::{BrotliEncoderOperation, BrotliEncoderStateStruct};
use brotli::enc::threading::{BrotliEncoderThreadError, InternalOwned, Owned, SendAlloc};
use brotli::enc::{BrotliEncoderMaxCompressedSize, BrotliEncoderMaxCompressedSizeMulti};
use std::panic::{catch_unwind, AssertUnwindSafe};

pub struct V(pub Vec<u8>);
impl SliceWrapper<u8> for V {
    fn slice(&self) -> &[u8] { &self.0[..] }
}

#[derive(Clone, Copy, PartialEq, Debug)]
pub enum Spawner { Threads, PoolFresh, Inline }
impl Spawner {
    pub fn name(self) -> &'static str { match self { Spawner::Threads => "threads", Spawner::PoolFresh => "pool", Spawner::Inline => "inline" } }
}

/// what one CompressMulti call did
#[derive(Clone, PartialEq, Debug)]
pub struct Outcome {
    /// "ok" | "panic" | error class
    pub class: String,
    /// bytes reported (Ok(n)) — `out[..n]`
    pub bytes: Vec<u8>,
    /// the input token is back in `owned_input`
    pub returned: bool,
    /// panic message, if any
    pub msg: String,
}

pub fn err_class(e: &BrotliEncoderThreadError) -> String {
    match e {
        BrotliEncoderThreadError::InsufficientOutputSpace => "insufficient".into(),
        BrotliEncoderThreadError::ConcatenationDidNotProcessFullFile => "notfull".into(),
        BrotliEncoderThreadError::ConcatenationError(r) => format!("caterr{}", *r as u8),
        BrotliEncoderThreadError::ConcatenationFinalizationError(r) => format!("finerr{}", *r as u8),
        BrotliEncoderThreadError::OtherThreadPanic => "otherpanic".into(),
        BrotliEncoderThreadError::ThreadExecError(_) => "threadexec".into(),
    }
}

fn panic_msg(e: Box<dyn std::any::Any + Send>) -> String {
    if let Some(s) = e.downcast_ref::<&str>() { s.to_string() } else if let Some(s) = e.downcast_ref::<String>() { s.clone() } else { "?".into() }
}

type Pool = brotli::enc::WorkerPool<brotli::enc::CompressionThreadResult<StandardAlloc>, UnionHasher<StandardAlloc>, StandardAlloc, (V, BrotliEncoderParams)>;

/// one call through the chosen spawner; `pool` (if given, with `Spawner::PoolFresh`) is a
/// caller-owned pool that is REUSED across calls
pub fn run_multi(sp: Spawner, params: &BrotliEncoderParams, input: &[u8], t: usize, cap: usize, pool: Option<&mut Pool>) -> Outcome {
    let mut out = vec![0u8; cap];
    let mut owned = Owned::new(V(input.to_vec()));
    let r = catch_unwind(AssertUnwindSafe(|| match sp {
        Spawner::Threads => {
            let mut allocs: Vec<_> = (0..t).map(|_| SendAlloc::new(StandardAlloc::default(), UnionHasher::Uninit)).collect();
            brotli::enc::compress_multi_no_threadpool(params, &mut owned, &mut out[..], &mut allocs[..])
        }
        Spawner::PoolFresh => {
            let mut allocs: Vec<_> = (0..t).map(|_| SendAlloc::new(StandardAlloc::default(), UnionHasher::Uninit)).collect();
            match pool {
                Some(p) => brotli::enc::compress_worker_pool(params, &mut owned, &mut out[..], &mut allocs[..], p),
                None => brotli::enc::compress_multi(params, &mut owned, &mut out[..], &mut allocs[..]),
            }
        }
        Spawner::Inline => {
            let mut allocs: Vec<_> = (0..t).map(|_| SendAlloc::new(StandardAlloc::default(), UnionHasher::Uninit)).collect();
            brotli::enc::singlethreading::compress_multi(params, &mut owned, &mut out[..], &mut allocs[..])
        }
    }));
    let returned = match owned.0 { InternalOwned::Item(ref v) => v.0 == input, InternalOwned::Borrowed => false };
    match r {
        Ok(Ok(n)) => {
            if n > cap { return Outcome { class: "ok-overrun".into(), bytes: vec![], returned, msg: format!("n={} cap={}", n, cap) }; }
            out.truncate(n);
            Outcome { class: "ok".into(), bytes: out, returned, msg: String::new() }
        }
        Ok(Err(e)) => Outcome { class: err_class(&e), bytes: vec![], returned, msg: String::new() },
        Err(e) => Outcome { class: "panic".into(), bytes: vec![], returned, msg: panic_msg(e) },
    }
}

/// `get_range` of threading.rs, recomputed (wrapping u64 arithmetic as in a release build)
pub fn get_range(i: usize, t: usize, n: usize) -> (usize, usize) {
    (i.wrapping_mul(n) / t, (i + 1).wrapping_mul(n) / t)
}

/// one job recomputed through the public single-stream API exactly as `compress_part` does
/// (appendable job 0, catable jobs > 0 with the preceding input as custom dictionary, one
/// FINISH call loop into a buffer of `BrotliEncoderMaxCompressedSize(len)` bytes).
/// Returns (Ok(bytes) | Err(class), finished, has_more_output)
pub fn job_bytes(params: &BrotliEncoderParams, input: &[u8], i: usize, t: usize) -> (Result<Vec<u8>, String>, bool, bool) {
    let (lo, hi) = get_range(i, t, input.len());
    let mut mem = vec![0u8; BrotliEncoderMaxCompressedSize(hi - lo)];
    let mut state = BrotliEncoderStateStruct::new(StandardAlloc::default());
    state.params = params.clone();
    if i != 0 { state.params.catable = true; state.params.magic_number = false; }
    state.params.appendable = true;
    if i != 0 { state.set_custom_dictionary(lo, &input[..lo]); }
    let mut out_offset = 0usize;
    let mut available_out = mem.len();
    let mut cur = lo;
    let res;
    let mut rounds = 0;
    loop {
        let mut next_in_offset = 0usize;
        let mut available_in = hi - cur;
        let result = state.compress_stream(BrotliEncoderOperation::BROTLI_OPERATION_FINISH, &mut available_in, &input[cur..hi], &mut next_in_offset, &mut available_out, &mut mem[..], &mut out_offset, &mut None, &mut |_a, _b, _c, _d| ());
        cur += next_in_offset;
        rounds += 1;
        if result && state.is_finished() { res = Ok(out_offset); break; } else if result || available_out == 0 { res = Err("insufficient".to_string()); break; }
        if rounds > 1000 { res = Err("livelock".to_string()); break; }
    }
    let fin = state.is_finished();
    let more = state.has_more_output();
    brotli::enc::encode::BrotliEncoderDestroyInstance(&mut state);
    (res.map(|n| mem[..n].to_vec()), fin, more)
}

pub fn mk_params(q: i32, lgwin: i32, favor: bool, catable: bool, appendable: bool, magic: bool, large: bool) -> BrotliEncoderParams {
    let mut p = BrotliEncoderParams::default();
    p.quality = q; p.lgwin = lgwin; p.favor_cpu_efficiency = favor; p.catable = catable; p.appendable = appendable; p.magic_number = magic; p.large_window = large;
    p
}

/// input generators (all from one PRNG state)
pub fn gen_input(rng: &mut Rng, n: usize, kind: u64) -> Vec<u8> {
    let mut v = Vec::with_capacity(n);
    if kind == 5 { return gen_dict_text(rng, n); }
    if kind == 6 {
        // records | noise | counters (4 : 4 : 1): a job that starts inside the noise stores its first
        // meta-block(s) raw and later codes copies at the initial-ring distances 4 / 8 / 12 / 16
        let a = n * 4 / 9; let b = n * 8 / 9;
        let rec: Vec<u8> = (0..7).map(|_| rng.next() as u8).collect();
        for i in 0..a { v.push(if i % 7 == 6 { (i / 7) as u8 } else { rec[i % 7] }); }
        for _ in a..b { v.push(rng.next() as u8); }
        let step = *rng.pick(&[4usize, 4, 11, 15, 16]);
        for i in b..n { let k = (i - b) / step; v.push(if (i - b) % step == 0 { k as u8 } else { ((i - b) % step) as u8 ^ 0x5a }); }
        return v;
    }
    match kind % 5 {
        0 => { for _ in 0..n { v.push(rng.next() as u8); } } // incompressible
        1 => { // text-like with long-range repeats
            let words: Vec<Vec<u8>> = (0..40).map(|_| { let l = rng.range(2, 9) as usize; (0..l).map(|_| b'a' + rng.below(26) as u8).collect() }).collect();
            while v.len() < n { let w = &words[rng.below(40) as usize]; v.extend_from_slice(w); v.push(b' '); }
            v.truncate(n);
        }
        2 => { // repeats of a random block at varying distances (copies reach far back)
            let bl = rng.range(50, 3000) as usize;
            let block: Vec<u8> = (0..bl).map(|_| rng.next() as u8).collect();
            while v.len() < n { if rng.chance(1, 3) { let l = rng.range(1, 400); for _ in 0..l { v.push(rng.next() as u8); } } let a = rng.below(bl as u64) as usize; let b = rng.range(a as u64, bl as u64) as usize; v.extend_from_slice(&block[a..b]); }
            v.truncate(n);
        }
        3 => { for i in 0..n { v.push(((i * 7 + (i >> 3) * 13) % 251) as u8); } }
        _ => { // low-entropy bytes
            for _ in 0..n { v.push(b"abcd"[(rng.below(4)) as usize]); }
        }
    }
    v
}

/// kind 5: text made of words of brotli's STATIC dictionary. The vocabulary changes every 192 KiB
/// (8 disjoint word groups, a group recurs only after 1.5 MiB and by then has left the match
/// finders' buckets), so first occurrences — encoded as static-dictionary references, i.e. as
/// distances beyond the encoder's idea of its position — occur throughout the input.
fn gen_dict_text(rng: &mut Rng, n: usize) -> Vec<u8> {
    use brotli_decompressor::dictionary::{kBrotliDictionary, kBrotliDictionaryOffsetsByLength, kBrotliDictionarySizeBitsByLength};
    let mut words: Vec<&[u8]> = vec![];
    for len in 5..=12usize {
        let cnt = 1usize << kBrotliDictionarySizeBitsByLength[len];
        let off = kBrotliDictionaryOffsetsByLength[len] as usize;
        for w in 0..cnt { words.push(&kBrotliDictionary[off + w * len..off + (w + 1) * len]); }
    }
    // a fixed shuffle (from the case's own PRNG) and 8 groups
    for i in (1..words.len()).rev() { let j = rng.below(i as u64 + 1) as usize; words.swap(i, j); }
    let per = words.len() / 8;
    let mut v = Vec::with_capacity(n + 16);
    while v.len() < n {
        let seg = v.len() / (192 << 10);
        let g = (seg * 3) % 8;
        let w = words[g * per + rng.below(per as u64) as usize];
        v.extend_from_slice(w);
        v.push(if rng.chance(1, 12) { b'\n' } else { b' ' });
    }
    v.truncate(n);
    v
}

fn decode_ok(bytes: &[u8], large: bool, expect: &[u8]) -> Result<(), String> { crate::dec::decode_both(bytes, large, expect) }

fn probe(args: &Args) {
    let which = args.rest.get(1).map(|s| s.as_str()).unwrap_or("all");
    let dbg = cfg!(debug_assertions);
    println!("build: {}", if dbg { "debug (debug_assertions on)" } else { "release" });
    if which == "d13" || which == "all" {
        // any error after spawning: output too small
        let mut rng = Rng::new(13);
        let input = gen_input(&mut rng, 5000, 0);
        for sp in [Spawner::Threads, Spawner::PoolFresh, Spawner::Inline] {
            for t in [1usize, 2, 4] {
                for cap in [10usize, BrotliEncoderMaxCompressedSizeMulti(input.len(), t)] {
                    let p = mk_params(5, 22, false, false, false, false, false);
                    let o = run_multi(sp, &p, &input, t, cap, None);
                    println!("D13 spawner={} t={} cap={} -> class={} returned={} {}", sp.name(), t, cap, o.class, o.returned, o.msg);
                }
            }
        }
    }
    if which == "sticky" || which == "all" {
        // an error of an earlier job is overwritten by a later job's NeedsMoreInput
        for (n, t, cap, magic) in [(0usize, 2usize, 2usize, true), (0, 2, 1, true), (0, 2, 3, true), (0, 3, 2, true), (0, 2, 0, true), (0, 2, 100, true), (0, 2, 2, false), (0, 2, 0, false), (0, 1, 0, false), (0, 1, 2, true)] {
            for sp in [Spawner::Threads, Spawner::Inline] {
                let p = mk_params(5, 22, false, false, false, magic, false);
                let o = run_multi(sp, &p, &vec![0u8; n], t, cap, None);
                let d = if o.class == "ok" { format!("{:?}", decode_ok(&o.bytes, false, &vec![0u8; n])) } else { "-".into() };
                let jobs: Vec<String> = (0..t).map(|i| match job_bytes(&p, &vec![0u8; n], i, t).0 { Ok(b) => hex(&b), Err(e) => e }).collect();
                println!("STICKY spawner={} n={} t={} cap={} magic={} jobs={:?} -> class={} bytes={} returned={} decode={}", sp.name(), n, t, cap, magic, jobs, o.class, hex(&o.bytes), o.returned, d);
            }
        }
    }
    if which == "q01" {
        // quality 0/1: per-job buffer of BrotliEncoderMaxCompressedSize(len) too small => truncated part accepted
        for q in [0, 1] { for lgwin in [10, 12, 16, 18, 22] { for t in [1usize, 2, 3] { for (catable, appendable, magic) in [(false, false, false), (true, false, false), (false, true, true)] {
            let mut rng = Rng::new(77);
            let n = 12359 * t;
            let input = gen_input(&mut rng, n, 0);
            let p = mk_params(q, lgwin, false, catable, appendable, magic, false);
            let cap = 2 * n + 10000;
            let o = run_multi(Spawner::Inline, &p, &input, t, cap, None);
            let d = if o.class == "ok" { format!("{:?}", decode_ok(&o.bytes, false, &input)) } else { "-".into() };
            let jobs = recompute_jobs(&p, &input, t);
            let jf: Vec<String> = jobs.iter().map(|j| format!("{}B/{}{}", j.bytes.as_ref().map(|b| b.len()).unwrap_or(0), BrotliEncoderMaxCompressedSize(j.hi - j.lo), if j.finished { "" } else { " UNFINISHED" })).collect();
            println!("Q01 q={} lgwin={} t={} catable={} appendable={} magic={} n={} -> class={} len={} decode={} jobs={:?}", q, lgwin, t, catable, appendable, magic, n, o.class, o.bytes.len(), d, jf);
        } } } }
    }
    if which == "lgwin" {
        // dictionary bound computed from the UNSANITISED lgwin
        for (lgwin, large, n, t) in [(25, false, 40usize << 20, 2usize), (30, false, 40 << 20, 2), (24, false, 40 << 20, 2)] {
            let mut rng = Rng::new(78);
            let input = gen_input(&mut rng, n, 2);
            let p = mk_params(2, lgwin, false, false, false, false, large);
            let cap = BrotliEncoderMaxCompressedSizeMulti(n, t);
            let o = run_multi(Spawner::Threads, &p, &input, t, cap, None);
            let d = if o.class == "ok" { format!("{:?}", decode_ok(&o.bytes, large, &input)) } else { "-".into() };
            println!("LGWIN lgwin={} large={} n={} t={} -> class={} {} len={} decode={}", lgwin, large, n, t, o.class, o.msg, o.bytes.len(), d);
        }
    }
    if which == "shortranges" {
        // favor: ranges shorter than the hasher's look-ahead while the prefix is longer
        for (q, lgwin, t, n, kind) in [(10, 18, 5usize, 387usize, 1u64), (11, 18, 5, 387, 1), (10, 18, 3, 300, 1), (5, 18, 5, 14, 4), (5, 18, 8, 20, 4), (9, 18, 6, 17, 4), (2, 18, 6, 17, 4), (4, 18, 6, 23, 4), (7, 22, 16, 40, 4), (5, 18, 4, 4000, 1)] {
            let mut rng = Rng::new(4242);
            let input = gen_input(&mut rng, n, kind);
            let cap = BrotliEncoderMaxCompressedSizeMulti(n, t) + 1000;
            let off = run_multi(Spawner::Inline, &mk_params(q, lgwin, false, false, false, false, false), &input, t, cap, None);
            let on = run_multi(Spawner::Inline, &mk_params(q, lgwin, true, false, false, false, false), &input, t, cap, None);
            let d_on = if on.class == "ok" { format!("{:?}", decode_ok(&on.bytes, false, &input)) } else { "-".into() };
            println!("SHORT q={} lgwin={} t={} n={} kind={}: favor-off class={} len={} | favor-on class={} len={} same-bytes={} decode={} {}", q, lgwin, t, n, kind, off.class, off.bytes.len(), on.class, on.bytes.len(), on.bytes == off.bytes, d_on, on.msg);
        }
    }
    if which == "sized" {
        // worst case for the advertised bound: many threads x incompressible block-aligned pieces
        let mut worst: i64 = i64::MIN; let mut fails = 0; let mut total = 0;
        for q in 2..=9 { for t in [8usize, 13, 14, 15, 16] { for k in [1usize, 2] { for r in [0usize, 1, 2, 3, 5] { for lgwin in [10, 14, 16, 17, 18, 22] { for (magic, large) in [(false, false), (true, false), (true, true)] {
            let piece = 16384 * k + r;
            let n = piece * t;
            let mut rng = Rng::new((q as u64) << 32 | (t as u64) << 16 | r as u64);
            let input = gen_input(&mut rng, n, 0);
            let mut p = mk_params(q, if large { 24 } else { lgwin }, false, false, false, magic, large);
            p.size_hint = 0;
            let bound = BrotliEncoderMaxCompressedSizeMulti(n, t);
            let o = run_multi(Spawner::Inline, &p, &input, t, bound + 4096, None);
            total += 1;
            if o.class == "ok" { let margin = bound as i64 - o.bytes.len() as i64; if -margin > worst { worst = -margin; println!("SIZED q={} t={} piece={} lgwin={} magic={} large={} -> len={} bound={} margin={}", q, t, piece, lgwin, magic, large, o.bytes.len(), bound, margin); } if margin < 0 { fails += 1; } }
            else { println!("SIZED q={} t={} piece={} lgwin={} magic={} large={} -> {}", q, t, piece, lgwin, magic, large, o.class); }
        } } } } } }
        println!("SIZED total={} over-bound={} worst(len-bound)={}", total, fails, worst);
    }
    if which == "sized16" {
        // many threads x tiny incompressible pieces x small windows: per-job overhead dominates
        let mut worst: i64 = i64::MIN; let mut fails = 0; let mut total = 0;
        for q in 2..=11 { for t in [12usize, 14, 15, 16] { for piece in [1usize, 2, 3, 4, 5, 8, 16, 33, 100, 300, 1000] { for lgwin in [10, 13, 15, 16, 17, 18, 22] { for (magic, catable) in [(false, false), (true, false), (true, true)] { for kind in [0u64, 4] {
            let n = piece * t + (q as usize % 3);
            let mut rng = Rng::new((q as u64) << 32 | (t as u64) << 16 | piece as u64);
            let input = gen_input(&mut rng, n, kind);
            let p = mk_params(q, lgwin, false, catable, false, magic, false);
            let bound = BrotliEncoderMaxCompressedSizeMulti(n, t);
            let o = run_multi(Spawner::Inline, &p, &input, t, bound, None);
            total += 1;
            if o.class == "ok" { let over = o.bytes.len() as i64 - bound as i64; if over > worst { worst = over; println!("SIZED16 q={} t={} piece={} lgwin={} magic={} catable={} kind={} -> len={} bound={} margin={}", q, t, piece, lgwin, magic, catable, kind, o.bytes.len(), bound, -over); } }
            else { fails += 1; if fails <= 10 { let o2 = run_multi(Spawner::Inline, &p, &input, t, bound + 4096, None); println!("SIZED16 FAIL q={} t={} piece={} n={} lgwin={} magic={} catable={} kind={} -> {} at cap=bound={}, needs {}", q, t, piece, n, lgwin, magic, catable, kind, o.class, bound, o2.bytes.len()); } }
        } } } } } }
        println!("SIZED16 total={} failed-at-bound={} worst(len-bound)={}", total, fails, worst);
    }
    if which == "jobs" {
        let input = b"abcdefgh".to_vec();
        let p = mk_params(5, 22, false, false, false, false, false);
        let jobs: Vec<String> = recompute_jobs(&p, &input, 2).iter().map(|j| j.token.clone()).collect();
        let o = run_multi(Spawner::Inline, &p, &input, 2, BrotliEncoderMaxCompressedSizeMulti(8, 2), None);
        println!("JOBS {:?} -> {} {} (bound {})", jobs, o.class, hex(&o.bytes), BrotliEncoderMaxCompressedSizeMulti(8, 2));
    }
    if which == "d16grid" {
        // favor on/off over quality x {no truncation, truncation}; counts of differing / wrong outputs
        for q in 0..=11 {
            for (lgwin, n) in [(22, 50000usize), (16, 50000), (13, 50000), (10, 6000)] {
                let (mut same, mut diff, mut wrong, mut other) = (0, 0, 0, 0);
                let mut first = String::new();
                for s in 0..(if q >= 10 { 4 } else { 12 }) {
                    let mut rng = Rng::new(1600 + s);
                    let kind = s % 5; let t = 2 + (s as usize % 5);
                    let input = gen_input(&mut rng, n - (s as usize * 37), kind);
                    let cap = BrotliEncoderMaxCompressedSizeMulti(input.len(), t) + 1000;
                    let off = run_multi(Spawner::Inline, &mk_params(q, lgwin, false, false, false, false, false), &input, t, cap, None);
                    let on = run_multi(Spawner::Inline, &mk_params(q, lgwin, true, false, false, false, false), &input, t, cap, None);
                    if on.class != "ok" || off.class != "ok" { other += 1; if first.is_empty() { first = format!("s={} on={} {} off={}", s, on.class, on.msg, off.class); } continue; }
                    if on.bytes == off.bytes { same += 1; } else { diff += 1; }
                    if let Err(e) = decode_ok(&on.bytes, false, &input) { wrong += 1; if first.is_empty() { first = format!("s={} kind={} t={} n={}: {}", s, kind, t, input.len(), e); } }
                }
                println!("GRID q={} lgwin={} n~{}: same={} differ={} wrong-decode={} not-ok={} {}", q, lgwin, n, same, diff, wrong, other, first);
            }
        }
    }
    if which == "d16" || which == "all" {
        let mut rng = Rng::new(16);
        for (q, lgwin, t, n, kind) in [(3, 22, 2usize, 20000usize, 1u64), (4, 22, 3, 20000, 1), (2, 22, 2, 20000, 1), (5, 22, 3, 20000, 1), (6, 13, 4, 60000, 1), (6, 13, 4, 60000, 2), (9, 13, 7, 12000, 1), (9, 13, 7, 12000, 2), (5, 10, 4, 20000, 2), (7, 12, 5, 40000, 2), (10, 13, 4, 60000, 2), (11, 13, 4, 30000, 2), (5, 18, 4, 60000, 2), (9, 22, 4, 60000, 2)] {
            let input = gen_input(&mut rng, n, kind);
            let cap = BrotliEncoderMaxCompressedSizeMulti(n, t) + 1000;
            let off = run_multi(Spawner::Threads, &mk_params(q, lgwin, false, false, false, false, false), &input, t, cap, None);
            let on = run_multi(Spawner::Threads, &mk_params(q, lgwin, true, false, false, false, false), &input, t, cap, None);
            let d_off = if off.class == "ok" { format!("{:?}", decode_ok(&off.bytes, false, &input)) } else { "-".into() };
            let d_on = if on.class == "ok" { format!("{:?}", decode_ok(&on.bytes, false, &input)) } else { "-".into() };
            println!("D16 q={} lgwin={} t={} n={} kind={}: favor-off class={} len={} decode={} | favor-on class={} len={} same-bytes={} decode={} {}", q, lgwin, t, n, kind, off.class, off.bytes.len(), d_off, on.class, on.bytes.len(), on.bytes == off.bytes, d_on, on.msg);
        }
    }
}

/// one `compress_stream` call of a recomputed job
#[derive(Clone)]
pub struct CallObs { pub result: bool, pub finished: bool, pub consumed: usize, pub produced: Vec<u8>, pub panicked: bool }
/// a job recomputed through the public API as `compress_part` does it
#[derive(Clone)]
pub struct JobObs { pub token: String, pub bytes: Option<Vec<u8>>, pub calls: Vec<CallObs>, pub finished: bool, pub lo: usize, pub hi: usize, pub dict_pos: u64 }

type Hasher = UnionHasher<StandardAlloc>;

fn one_job(params: &BrotliEncoderParams, input: &[u8], i: usize, t: usize, hasher: Hasher) -> JobObs {
    let (lo, hi) = get_range(i, t, input.len());
    let r = catch_unwind(AssertUnwindSafe(|| {
        let mut mem = vec![0u8; BrotliEncoderMaxCompressedSize(hi - lo)];
        let mut state = BrotliEncoderStateStruct::new(StandardAlloc::default());
        state.params = params.clone();
        if i != 0 { state.params.catable = true; state.params.magic_number = false; }
        state.params.appendable = true;
        if i != 0 { state.set_custom_dictionary_with_optional_precomputed_hasher(lo, &input[..lo], hasher); }
        let dict_pos = state.last_processed_pos_;
        let mut out_offset = 0usize;
        let mut available_out = mem.len();
        let mut cur = lo;
        let mut calls = vec![];
        let token;
        let mut bytes = None;
        loop {
            let mut next_in_offset = 0usize;
            let mut available_in = hi - cur;
            let before = out_offset;
            let result = state.compress_stream(BrotliEncoderOperation::BROTLI_OPERATION_FINISH, &mut available_in, &input[cur..hi], &mut next_in_offset, &mut available_out, &mut mem[..], &mut out_offset, &mut None, &mut |_a, _b, _c, _d| ());
            cur += next_in_offset;
            let fin = state.is_finished();
            calls.push(CallObs { result, finished: fin, consumed: next_in_offset, produced: mem[before..out_offset].to_vec(), panicked: false });
            if result && fin { token = format!("ok:{}", hex(&mem[..out_offset])); bytes = Some(mem[..out_offset].to_vec()); break; } else if result || available_out == 0 { token = "err".to_string(); break; }
            if calls.len() > 64 { token = "spin".to_string(); break; }
        }
        let finished = state.is_finished();
        brotli::enc::encode::BrotliEncoderDestroyInstance(&mut state);
        JobObs { token, bytes, calls, finished, lo, hi, dict_pos }
    }));
    match r { Ok(j) => j, Err(_) => JobObs { token: "panic".into(), bytes: None, calls: vec![CallObs { result: false, finished: false, consumed: 0, produced: vec![], panicked: true }], finished: false, lo, hi, dict_pos: 0 } }
}

/// all jobs of one CompressMulti call, recomputed; with `favor_cpu_efficiency` the shared index is
/// built exactly as the favor branch of CompressMulti does (public API only)
pub fn recompute_jobs(params: &BrotliEncoderParams, input: &[u8], t: usize) -> Vec<JobObs> {
    use brotli::enc::backward_references::{AnyHasher, CloneWithAlloc};
    let mut jobs = vec![];
    if t > 1 && params.favor_cpu_efficiency {
        jobs.push(one_job(params, input, 0, t, UnionHasher::Uninit));
        let built = catch_unwind(AssertUnwindSafe(|| {
            let mut local = params.clone();
            brotli::enc::encode::SanitizeParams(&mut local);
            let mut alloc = StandardAlloc::default();
            let mut hasher: Hasher = UnionHasher::Uninit;
            brotli::enc::encode::HasherSetup(&mut alloc, &mut hasher, &mut local, &[], 0, 0, 0);
            let mut hs: Vec<Hasher> = vec![];
            let mut stored_end = 0usize;
            for ti in 1..t {
                let (_lo, hi) = get_range(ti - 1, t, input.len());
                let overlap = hasher.StoreLookahead().wrapping_sub(1);
                if hi > overlap && hi - overlap > stored_end { hasher.BulkStoreRange(input, usize::MAX, stored_end, hi - overlap); stored_end = hi - overlap; }
                hs.push(hasher.clone_with_alloc(&mut alloc));
            }
            hs
        }));
        match built {
            Ok(hs) => { for (k, h) in hs.into_iter().enumerate() { jobs.push(one_job(params, input, k + 1, t, h)); } }
            Err(_) => { for k in 1..t { let (lo, hi) = get_range(k, t, input.len()); jobs.push(JobObs { token: "panic".into(), bytes: None, calls: vec![], finished: false, lo, hi, dict_pos: 0 }); } }
        }
    } else {
        for i in 0..t { jobs.push(one_job(params, input, i, t, UnionHasher::Uninit)); }
    }
    jobs
}

#[derive(Clone, Debug)]
pub struct Case { pub q: i32, pub lgwin: i32, pub large: bool, pub favor: bool, pub catable: bool, pub appendable: bool, pub magic: bool, pub t: usize, pub n: usize, pub kind: u64, pub dseed: u64, pub size_hint: usize }
impl Case {
    pub fn params(&self) -> BrotliEncoderParams { let mut p = mk_params(self.q, self.lgwin, self.favor, self.catable, self.appendable, self.magic, self.large); p.size_hint = self.size_hint; p }
    pub fn input(&self) -> Vec<u8> { let mut r = Rng::new(self.dseed); gen_input(&mut r, self.n, self.kind) }
    pub fn json(&self, extra: &str) -> String {
        format!("{{\"quality\":{},\"lgwin\":{},\"large_window\":{},\"favor_cpu_efficiency\":{},\"catable\":{},\"appendable\":{},\"magic_number\":{},\"size_hint\":{},\"threads\":{},\"input_len\":{},\"input_kind\":{},\"input_seed\":{}{}}}", self.q, self.lgwin, self.large, self.favor, self.catable, self.appendable, self.magic, self.size_hint, self.t, self.n, self.kind, self.dseed, extra)
    }
    /// sanitised lgwin as the encoder will use it for the dictionary bound
    pub fn eff_lgwin(&self) -> i32 { let l = self.lgwin.max(10); if l > 24 { if self.large { l.min(30) } else { 24 } } else { l } }
    /// some job > 0 has a prefix longer than the window
    pub fn truncated(&self) -> bool { self.q >= 2 && self.t > 1 && get_range(self.t - 1, self.t, self.n).0 > (1usize << self.eff_lgwin()) - 16 }
}

fn gen_case(rng: &mut Rng, small: bool) -> Case {
    let q = match rng.below(10) { 0 => 0, 1 => 1, 2 => *rng.pick(&[10, 11]), _ => rng.range(2, 9) as i32 };
    let t = match rng.below(8) { 0 => 1, 1 => 16, 2 => rng.range(9, 15), _ => rng.range(2, 8) } as usize;
    // quality 7..11 zeroes 8–32 MB of hash table per job: mostly few threads there
    let t = if q >= 7 && t > 4 && !rng.chance(1, 4) { rng.range(2, 4) as usize } else { t };
    let (lgwin, n): (i32, usize) = if small {
        match rng.below(6) {
            0 => (rng.range(10, 24) as i32, rng.below(t as u64 + 2) as usize),              // shorter than the thread count
            1 | 2 => (*rng.pick(&[10, 10, 11]), rng.range(1100, 3500) as usize),             // truncated prefixes
            _ => (rng.range(10, 24) as i32, rng.range(1, 3000) as usize),
        }
    } else {
        match rng.below(10) {
            0 => (rng.range(10, 24) as i32, rng.below(t as u64 + 2) as usize),
            1 | 2 | 3 => (rng.range(10, 13) as i32, if q >= 10 { rng.range(3000, 30000) } else { rng.range(20000, 200000) } as usize),
            4 => (rng.range(14, 24) as i32, if q >= 10 { rng.range(3000, 30000) } else { rng.range(20000, 200000) } as usize),
            5 => (rng.range(16, 22) as i32, if q >= 10 { 5000 } else if q <= 6 && rng.chance(1, 4) { (1 << 20) + rng.below(100000) as usize } else { rng.range(100000, 250000) as usize }),
            _ => (rng.range(10, 24) as i32, rng.range(1, 20000) as usize),
        }
    };
    let lgwin = if q >= 10 { lgwin.min(if rng.chance(1, 12) && t <= 3 { 22 } else { 18 }) } else if lgwin > 20 && !(t <= 4 || rng.chance(1, 6)) { 20 } else { lgwin };
    let large = rng.chance(1, 12) && q < 10 && t <= 4;
    let lgwin = if large && rng.chance(1, 2) { rng.range(25, 30) as i32 } else if rng.chance(1, 30) { *rng.pick(&[0, 5, 9, 25, 40]) } else { lgwin };
    let n = if lgwin > 24 && large { n.min(20000) } else { n };
    let size_hint = if rng.chance(1, 10) { *rng.pick(&[1usize << 20, (1 << 22) + 1, 100, n]) } else { 0 };
    Case { q, lgwin, large, favor: rng.chance(1, 2), catable: rng.chance(1, 3), appendable: rng.chance(1, 3), magic: rng.chance(1, 4), t, n, kind: rng.below(5), dseed: rng.next(), size_hint }
}

fn out_token(o: &Outcome) -> String {
    match o.class.as_str() {
        "panic" => "panic".to_string(),
        "ok" => format!("ok:{}:{}", o.returned as u8, hex(&o.bytes)),
        c => format!("{}:{}:-", c, o.returned as u8),
    }
}

static BEAT: std::sync::atomic::AtomicU64 = std::sync::atomic::AtomicU64::new(0);
fn beat() { BEAT.fetch_add(1, std::sync::atomic::Ordering::SeqCst); }

/// the search-stage oracles for one case; returns the ample-buffer reference outcome
fn search_case(c: &Case, rep: &mut Report, pool: &mut Pool, rng: &mut Rng) {
    set_current(c.json("")); sync_partial(rep);
    let params = c.params();
    let input = c.input();
    let t = c.t;
    let bound = BrotliEncoderMaxCompressedSizeMulti(c.n, t);
    rep.evaluations += 1;
    if t >= 2 && get_range(0, t, c.n).1 > 0 && c.n >= 2 { rep.nontrivial += 1; }
    rep.count(&format!("q.{}", c.q));
    rep.count(&format!("threads.{}", if t == 1 { "1".into() } else if t <= 8 { "2-8".to_string() } else { "9-16".to_string() }));
    if c.n < t { rep.count("input.shorter_than_threads"); }
    if c.truncated() { rep.count("prefix.longer_than_window"); }
    if c.favor { rep.count("favor.on"); }
    if c.catable { rep.count("flag.catable"); } if c.appendable { rep.count("flag.appendable"); } if c.magic { rep.count("flag.magic"); } if c.large { rep.count("flag.large_window"); }
    let mut check = |o: &Outcome, sp: &str, cap: usize, rep: &mut Report| {
        beat();
        let extra = format!(",\"spawner\":\"{}\",\"out_capacity\":{},\"result\":\"{}\"", sp, cap, o.class);
        if o.class == "panic" {
            let kind = if o.msg.contains("orig_hasher") { "debug-assert-shared-index" } else { "other" };
            rep.violation(&format!("multi:panic:{}", kind), &format!("CompressMulti panicked: {}", o.msg), c.json(&extra));
            return;
        }
        if !o.returned {
            rep.violation(if o.class == "ok" { "multi:input-not-returned:on-ok" } else { "multi:input-not-returned:on-error" }, "the input was not handed back to the caller (owned_input is InternalOwned::Borrowed)", c.json(&extra));
        }
        if o.class == "ok" {
            rep.count("result.ok");
            if let Err(e) = decode_ok(&o.bytes, c.large, &input) {
                let sig = if c.favor && c.truncated() { "multi:ok-wrong-data:favor-truncated-prefix" } else if cap < bound { "multi:ok-wrong-data:short-output-buffer" } else { "multi:ok-wrong-data" };
                rep.violation(sig, &format!("success reported but the {} bytes do not decode to the input: {}", o.bytes.len(), e), c.json(&extra));
            } else { rep.count("decoded.both"); }
        } else {
            rep.count(&format!("result.err.{}", o.class));
            if cap >= bound && c.q >= 2 { rep.violation("multi:sized-not-ok", &format!("output buffer of {} >= advertised maximum {} and quality >= 2 but the call failed ({})", cap, bound, o.class), c.json(&extra)); }
        }
    };
    // ample buffer: the advertised bound (q >= 2) — every spawner, reused pool, repeat
    let cap = if c.q >= 2 { bound } else { bound + c.n / 2 + 4096 };
    let th = run_multi(Spawner::Threads, &params, &input, t, cap, None); check(&th, "threads", cap, rep);
    let pf = run_multi(Spawner::PoolFresh, &params, &input, t, cap, None); check(&pf, "pool", cap, rep);
    let heavy = c.q >= 7 && t > 4;
    let pr = if heavy { pf.clone() } else { let pr = run_multi(Spawner::PoolFresh, &params, &input, t, cap, Some(pool)); check(&pr, "pool-reused", cap, rep); pr };
    let il = run_multi(Spawner::Inline, &params, &input, t, cap, None); check(&il, "inline", cap, rep);
    let th2 = if heavy { th.clone() } else { let th2 = run_multi(Spawner::Threads, &params, &input, t, cap + 1 + rng.below(5000) as usize, None); check(&th2, "threads", cap + 1, rep); th2 };
    if c.q < 2 && th.class != "ok" { rep.count("q01.bound_not_enough"); }
    let same = |a: &Outcome, b: &Outcome| a.class == b.class && a.bytes == b.bytes;
    if th.class != "panic" && il.class != "panic" {
        if !same(&th, &pf) || !same(&th, &il) { rep.violation("multi:spawner-differs", &format!("thread-per-job / pool / inline disagree: {} {} / {} {} / {} {}", th.class, th.bytes.len(), pf.class, pf.bytes.len(), il.class, il.bytes.len()), c.json("")); }
        if !same(&pf, &pr) { rep.violation("multi:pool-reuse-differs", "fresh pool and reused pool disagree", c.json("")); }
        if !same(&th, &th2) { rep.violation("multi:repeat-differs", "a repeated run (larger output buffer) gave a different result", c.json("")); }
        rep.count("compared.spawners");
    }
    // favor on vs off (C06)
    if t > 1 {
        let mut p2 = params.clone(); p2.favor_cpu_efficiency = !c.favor;
        let other = run_multi(Spawner::Inline, &p2, &input, t, cap, None);
        let mut c2 = c.clone(); c2.favor = !c.favor;
        check(&other, "inline", cap, rep);
        // attribute a wrong decode of the flipped run to the flipped case
        if il.class == "ok" && other.class == "ok" {
            rep.count("compared.favor");
            if il.bytes != other.bytes {
                let sig = if c.truncated() { "multi:favor-differs:truncated-prefix" } else if c.q == 3 || c.q == 4 { "multi:favor-differs:q3-4" } else { "multi:favor-differs:other" };
                rep.violation(sig, &format!("favor_cpu_efficiency on/off give different bytes ({} vs {} bytes)", il.bytes.len(), other.bytes.len()), c.json(""));
                if let Err(e) = decode_ok(if c.favor { &il.bytes } else { &other.bytes }, c.large, &input) { let _ = e; }
            }
        }
        let _ = c2;
    }
    // buffers below the bound: exact fit, one short, random, tiny
    if th.class == "ok" {
        let l = th.bytes.len();
        let mut caps = vec![l, l.saturating_sub(1), rng.below(l as u64 + 1) as usize, rng.below(7) as usize];
        if rng.chance(1, 2) { caps.push(l / 2); }
        if heavy { caps.truncate(2); }
        for (k, cp) in caps.into_iter().enumerate() {
            let sp = [Spawner::Inline, Spawner::Threads, Spawner::PoolFresh][(k + c.t) % 3];
            let o = run_multi(sp, &params, &input, t, cp, if sp == Spawner::PoolFresh && k % 2 == 0 { Some(&mut *pool) } else { None });
            if cp == l { rep.count(if o.class == "ok" { "exact_fit.ok" } else { "exact_fit.err" }); if o.class == "ok" && o.bytes != th.bytes { rep.violation("multi:repeat-differs", "exact-fit buffer gave different bytes", c.json("")); } }
            else if cp < l { rep.count("below_needed"); if o.class == "ok" { rep.count("below_needed.ok"); } }
            check(&o, sp.name(), cp, rep);
        }
    }
    // every job recomputed: Ok must mean a finished stream; size hypotheses of
    // `multi_succeeds_when_sized_partial` are recorded (slack histogram) and checked (splice room) (compress_part cannot see a truncated part)
    if c.n <= 60000 && !heavy {
        let mut sum_jobs = 0usize;
        let jobs = recompute_jobs(&params, &input, t);
        for (i, j) in jobs.iter().enumerate() {
            if let Some(b) = &j.bytes { let pl = j.hi - j.lo; let slack = b.len() as i64 - (pl + 4 * (pl >> 14)) as i64; rep.count(&format!("slack.{}.{}.{}", if c.q >= 2 { "q2p" } else { "q01" }, if i == 0 { if c.magic { "job0_magic" } else { "job0" } } else { "jobi" }, if slack < 0 { "neg".to_string() } else { format!("{:02}", slack) })); }
            if j.bytes.is_some() && !j.finished { rep.violation("multi:part-truncated", &format!("job {} reports Ok({}) for an unfinished stream (buffer of BrotliEncoderMaxCompressedSize({}) bytes too small)", i, j.bytes.as_ref().unwrap().len(), j.hi - j.lo), c.json("")); }
            if j.token == "err" || j.token == "spin" || j.token == "panic" { rep.count(&format!("job.{}", j.token)); }
            sum_jobs += j.bytes.as_ref().map(|b| b.len()).unwrap_or(0);
            if j.calls.len() > 1 { rep.count("job.multi_call"); }
        }
        // assumption `SpliceRoom` of multi_succeeds_when_sized_partial: the stitched stream is never
        // longer than the job outputs together (+1 for the empty-stream byte)
        if th.class == "ok" && jobs.iter().all(|j| j.bytes.is_some()) {
            rep.count("splice_room.checked");
            if th.bytes.len() > sum_jobs + 1 { rep.violation("multi:assumption:splice-expands", &format!("stitched output {} bytes > sum of job outputs {} + 1", th.bytes.len(), sum_jobs), c.json("")); }
        }
    }
}

/// correspondence lines for one (small) case
fn corr_case(c: &Case, lines: &mut Vec<(String, String)>, rep: &mut Report, pool: &mut Pool, rng: &mut Rng) {
    set_current(c.json("")); sync_partial(rep);
    let params = c.params();
    let input = c.input();
    let (t, n) = (c.t, c.n);
    lines.push((format!("multi max {}", n), format!("{}", BrotliEncoderMaxCompressedSize(n))));
    lines.push((format!("multi maxmulti {} {}", n, t), format!("{}", BrotliEncoderMaxCompressedSizeMulti(n, t))));
    let jobs = recompute_jobs(&params, &input, t);
    beat();
    for (i, j) in jobs.iter().enumerate() {
        lines.push((format!("multi range {} {} {}", i, t, n), format!("ok {} {}", j.lo, j.hi)));
        lines.push((format!("multi max {}", j.hi - j.lo), format!("{}", BrotliEncoderMaxCompressedSize(j.hi - j.lo))));
        let calls: Vec<String> = j.calls.iter().map(|k| if k.panicked { "P".to_string() } else { format!("{}:{}:{}:{}", k.result as u8, k.finished as u8, k.consumed, hex(&k.produced)) }).collect();
        lines.push((format!("multi part {} {} {} {}", i, t, n, calls.join(" ")), j.token.clone()));
        if i != 0 && j.token != "panic" && !(c.favor && t > 1) {
            // position arithmetic of the dictionary call (real encoder state) vs the model's plan
            let used = j.dict_pos != 0;
            lines.push((format!("multi dict {} {} {}", j.lo, c.eff_lgwin(), c.q.clamp(0, 11)), format!("{} {} {}", used as u8, if used { j.lo as u64 - j.dict_pos } else { 0 }, j.dict_pos)));
            rep.count(if !used { "dict.unused" } else if (j.dict_pos as usize) < j.lo { "dict.truncated" } else { "dict.whole" });
        }
    }
    if jobs.iter().any(|j| j.token == "panic") { rep.count("corr.skipped_job_panic"); return; }
    let jl: Vec<String> = jobs.iter().map(|j| j.token.clone()).collect();
    let jl = jl.join(" ");
    let bound = BrotliEncoderMaxCompressedSizeMulti(n, t);
    let refo = run_multi(Spawner::Inline, &params, &input, t, bound + n + 4096, None);
    let l = if refo.class == "ok" { refo.bytes.len() } else { bound };
    let mut caps: Vec<(usize, Spawner, bool)> = vec![(bound + n + 4096, Spawner::Inline, false), (bound, Spawner::Threads, false), (bound, Spawner::PoolFresh, false), (bound + 7, Spawner::PoolFresh, true), (l, Spawner::Threads, false), (l.saturating_sub(1), Spawner::Inline, false)];
    for k in 0..(if c.q >= 7 && t > 4 { 1 } else { 4 }) { let sp = [Spawner::Inline, Spawner::Threads, Spawner::PoolFresh][(k + t) % 3]; caps.push((match k { 0 => rng.below(l as u64 + 1) as usize, 1 => rng.below(8) as usize, 2 => rng.below(l as u64 + 1) as usize, _ => l.saturating_sub(rng.below(6) as usize) }, sp, k == 2)); }
    for (cap, sp, reuse) in caps {
        let o = run_multi(sp, &params, &input, t, cap, if reuse && sp == Spawner::PoolFresh { Some(&mut *pool) } else { None });
        beat();
        lines.push((format!("multi run {} {} {} {}", sp.name(), t, cap, jl), out_token(&o)));
        rep.count(&format!("corr.run.{}", if o.class == "ok" { "ok" } else { "err" }));
        if cap < l { rep.count("corr.run.below_needed"); }
    }
    rep.count("corr.cases");
}

pub fn run_cmd(args: &Args) {
    if args.rest.get(0).map(|s| s.as_str()) == Some("probe") { return probe(args); }
    let thorough = args.tier == "thorough";
    let seed = args.seed;
    if args.rest.get(0).map(|s| s.as_str()) == Some("shard") { return run_shard(args, args.rest[1].parse().unwrap()); }
    if args.rest.get(0).map(|s| s.as_str()) == Some("c07") { return c07_parent(args); }
    if args.rest.get(0).map(|s| s.as_str()) == Some("c07seq") { return c07_child(args, args.rest[1].parse().unwrap()); }
    // keep freed encoder tables in the heap: repeated mmap/munmap of 1–32 MB blocks (zero-fill page
    // faults) dominated the run time otherwise.  Allocation behaviour only; no effect on results.
    unsafe { extern "C" { fn mallopt(param: i32, value: i32) -> i32; } mallopt(-3, 32 << 20); mallopt(-1, 1 << 30); }
    spawn_watchdog(args.out.clone(), 600, "multi:hang");
    let t0 = std::time::Instant::now();
    let mut corr = Corr::new(&args.out);
    let mut rep = Report::default();
    // ---- corpus first: the minimal reproductions (regressions)
    {
        let mut pool: Pool = brotli::enc::new_work_pool(3);
        let mut rng = Rng::new(seed ^ 0xC0);
        let mut lines = vec![];
        // /verif/corpus/multi/*.case (format: README.txt there): minimal reproductions of D13, D16, D16b, D18, D19
        let mut files: Vec<_> = std::fs::read_dir("/verif/corpus/multi").map(|d| d.filter_map(|e| e.ok().map(|e| e.path())).filter(|p| p.extension().map(|x| x == "case").unwrap_or(false)).collect()).unwrap_or_default();
        files.sort();
        for f in files {
            let txt = std::fs::read_to_string(&f).unwrap_or_default();
            let v: Vec<u64> = txt.split_whitespace().filter_map(|x| x.parse().ok()).collect();
            if v.len() != 12 { continue; }
            let c = Case { q: v[0] as i32, lgwin: v[1] as i32, large: v[2] != 0, favor: v[3] != 0, catable: v[4] != 0, appendable: v[5] != 0, magic: v[6] != 0, t: v[7] as usize, n: v[8] as usize, kind: v[9], dseed: v[10], size_hint: v[11] as usize };
            if c.n <= 4000 { corr_case(&c, &mut lines, &mut rep, &mut pool, &mut rng); }
            search_case(&c, &mut rep, &mut pool, &mut rng);
            rep.count("corpus.cases");
        }
        for (a, b) in lines { corr.case(&a, &b); }
    }
    eprintln!("multi: corpus {:?}", t0.elapsed());
    // ---- arithmetic lines (ranges incl. the overflow edge, bounds)
    {
        let mut rng = Rng::new(seed ^ 0xA1);
        for k in 0..(if thorough { 20000 } else { 3000 }) {
            let t = rng.range(1, 16) as usize;
            let n: usize = match k % 6 { 0 => rng.below(40) as usize, 1 => rng.below(1 << 20) as usize, 2 => (1usize << rng.range(10, 62)) + rng.below(3) as usize - 1, 3 => usize::MAX / t - rng.below(3) as usize, 4 => (usize::MAX / t).wrapping_add(1 + rng.below(1000) as usize), _ => rng.next() as usize >> rng.below(64) };
            let i = rng.below(t as u64) as usize;
            let (lo, hi) = get_range(i, t, n);
            corr.case(&format!("multi rangew {} {} {}", i, t, n), &format!("ok {} {}", lo, hi));
            let ovf = (i as u128 + 1) * (n as u128) >= (1u128 << 64);
            corr.case(&format!("multi range {} {} {}", i, t, n), &if ovf { "panic".to_string() } else { format!("ok {} {}", lo, hi) });
            if n < (1 << 62) { corr.case(&format!("multi max {}", n), &format!("{}", BrotliEncoderMaxCompressedSize(n))); corr.case(&format!("multi maxmulti {} {}", n, t), &format!("{}", BrotliEncoderMaxCompressedSizeMulti(n, t))); }
            rep.count("corr.arith");
        }
        for n in [0usize, 1, 16383, 16384, 16385, (1 << 20) - 1, 1 << 20, (1 << 20) + 1, (1 << 24) - 1, 1 << 24, (1 << 24) + 1, usize::MAX - 30, usize::MAX] { corr.case(&format!("multi max {}", n), &format!("{}", BrotliEncoderMaxCompressedSize(n))); }
    }
    // ---- correspondence + search cases: sharded over 16 child PROCESSES (all threads of one
    // process share one address-space lock; the encoders' zero-fill page faults serialise on it)
    let nshards = 16usize;
    let exe = std::env::current_exe().unwrap();
    let mut kids = vec![];
    for k in 0..nshards {
        let d = args.out.join(format!("shard{}", k));
        std::fs::create_dir_all(&d).unwrap();
        kids.push((k, d.clone(), std::process::Command::new(&exe).args(["multi", "--tier", &args.tier, "--seed", &seed.to_string(), "--out", d.to_str().unwrap(), "shard", &k.to_string()]).spawn().unwrap()));
    }
    for (k, d, mut kid) in kids {
        // the children have their own watchdogs; keep this process's one fed while waiting
        let ok = loop { match kid.try_wait() { Ok(Some(st)) => break st.success(), Ok(None) => { beat(); std::thread::sleep(std::time::Duration::from_millis(100)); } Err(_) => break false } };
        if let (Ok(o), Ok(i)) = (std::fs::read_to_string(d.join("ops.txt")), std::fs::read_to_string(d.join("impl.txt"))) {
            // only complete lines (a shard stopped by its watchdog leaves unflushed tails)
            let complete = |t: &str| -> usize { t.matches('\n').count() };
            let n = complete(&o).min(complete(&i));
            for (a, b) in o.lines().zip(i.lines()).take(n) { corr.case(a, b); }
        }
        if let Ok(r) = std::fs::read_to_string(d.join("report.tsv")) { rep.merge_tsv(&r); }
        if !ok { rep.violation("multi:crash", "a shard of the multi engine crashed (abort / stack overflow inside the code under test?)", format!("{{\"shard\":{}}}", k)); }
        let _ = std::fs::remove_dir_all(&d);
    }
    eprintln!("multi: shards {:?}", t0.elapsed());
    // focus: `multi c02` keeps the C02 oracles (wrong data, hand-back, sized, panic, part), `multi c06`
    // the C06 ones (byte identity across spawners / pool reuse / repeats / favor); no word = all
    let c06 = |sig: &str| sig.starts_with("multi:spawner-differs") || sig.starts_with("multi:pool-reuse-differs") || sig.starts_with("multi:repeat-differs") || sig.starts_with("multi:favor-differs");
    match args.rest.get(0).map(|s| s.as_str()) { Some("c02") => rep.violations.retain(|v| !c06(&v.signature)), Some("c06") => rep.violations.retain(|v| c06(&v.signature)), _ => {} }
    corr.finish();
    rep.write(&args.out);
}

static CURRENT: std::sync::Mutex<String> = std::sync::Mutex::new(String::new());
fn sync_partial(rep: &Report) { if let Ok(mut g) = PARTIAL.lock() { *g = rep.violations.iter().map(|v| (v.signature.clone(), v.what.clone(), v.case.clone())).collect(); } }
fn set_current(c: String) { if let Ok(mut g) = CURRENT.lock() { *g = c; } }
/// violations recorded so far by a child that may be stopped by its watchdog (signature, what, case)
static PARTIAL: std::sync::Mutex<Vec<(String, String, String)>> = std::sync::Mutex::new(Vec::new());

/// a stalled child is an observation (`sig`), reported with the case that was running, after
/// `idle_secs` without a finished CompressMulti call; the process then exits (fail fast)
fn spawn_watchdog(out: std::path::PathBuf, idle_secs: u64, sig: &'static str) {
    std::thread::spawn(move || {
        let mut last = 0; let mut idle = 0;
        loop {
            std::thread::sleep(std::time::Duration::from_secs(1));
            let b = BEAT.load(std::sync::atomic::Ordering::SeqCst);
            if b == last {
                idle += 1;
                if idle > idle_secs {
                    let mut rep = Report::default();
                    if let Ok(g) = PARTIAL.lock() { for (a, b, c) in g.iter() { rep.violation(a, b, c.clone()); } }
                    let cur = CURRENT.lock().map(|g| g.clone()).unwrap_or_default();
                    rep.violation(sig, &format!("no CompressMulti call returned for {} s (a join that never returns / a stuck pool)", idle_secs), if cur.is_empty() { "{}".into() } else { cur });
                    rep.write(&out);
                    std::process::exit(0);
                }
            } else { idle = 0; last = b; }
        }
    });
}

fn run_shard(args: &Args, task: usize) {
    let thorough = args.tier == "thorough";
    let seed = args.seed;
    spawn_watchdog(args.out.clone(), if thorough { 90 } else { 25 }, "multi:hang");
    let mut corr = Corr::new(&args.out);
    let mut rep = Report::default();
    let ncorr = if thorough { 1600 } else { 224 };
    {
        let mut lines = vec![];
        let mut pool: Pool = brotli::enc::new_work_pool(1 + task % 5);
        for k in 0..ncorr / 16 {
            let mut rng = Rng::new(seed ^ 0xC022 ^ ((task as u64) << 20) ^ ((k as u64) << 36));
            let c = gen_case(&mut rng, true);
            corr_case(&c, &mut lines, &mut rep, &mut pool, &mut rng);
        }
        for (a, b) in lines { corr.case(&a, &b); }
    }
    let mut pool_l: Pool = brotli::enc::new_work_pool(2);
    let nsearch = if thorough { 6400 } else { 400 };
    {
        let mut pool: Pool = brotli::enc::new_work_pool(1 + (task * 7) % 16);
        for k in 0..nsearch / 16 {
            let mut rng = Rng::new(seed ^ 0x5EA2 ^ ((task as u64) << 20) ^ ((k as u64) << 36));
            let c = gen_case(&mut rng, k % 4 == 0);
            search_case(&c, &mut rep, &mut pool, &mut rng);
            if rep.samples.len() < 1 { rep.sample(c.json("")); }
        }
    }
    // ---- sparse "large prefix" class: 2–3 MiB of static-dictionary text, window 4–16 MiB, so that a
    // job starts MiBs into the input with its whole prefix inside the window and keeps emitting
    // static-dictionary references (distance = f(stream position)): the job's position must be the
    // decoder's. Reduced run set (thread-per-job at the bound, inline, pool): decode + byte identity.
    let nlarge = if thorough { 3 } else if task < 6 { 1 } else { 0 };
    for k in 0..nlarge {
        let mut rng = Rng::new(seed ^ 0x1A26E ^ ((task as u64) << 20) ^ ((k as u64) << 36));
        let c = Case { q: *rng.pick(&[5, 9, 5, 4, 6, 7]), lgwin: rng.range(22, 24) as i32, large: false, favor: rng.chance(1, 2), catable: rng.chance(1, 4), appendable: rng.chance(1, 4), magic: rng.chance(1, 4),
            t: rng.range(2, 3) as usize, n: rng.range((2 << 20) + 4096, 3 << 20) as usize, kind: 5, dseed: rng.next(), size_hint: 0 };
        large_case(&c, &mut rep, &mut pool_l);
    }
    // ---- "mid prefix, fast hashers" class: 100-400 KiB of static-dictionary text at quality 2-4
    // (BasicHasher H2/H3/H4/H54: the only kinds whose dictionary lookup is on at these qualities is
    // quality 2, but 3 and 4 share set_custom_dictionary's quality-dependent branches), window 2^17..2^22,
    // 2-6 jobs: every job after the first starts 64 KiB or more into the input with its WHOLE prefix
    // inside the window, so its stream position (=> max_distance => meaning of a static-dictionary
    // distance) must be the untruncated prefix length. Cheap (milliseconds per case).
    let nmid = if thorough { 24 } else { 2 };
    for k in 0..nmid {
        let mut rng = Rng::new(seed ^ 0x31D0 ^ ((task as u64) << 20) ^ ((k as u64) << 36));
        let c = Case { q: *rng.pick(&[2, 2, 2, 3, 4, 4]), lgwin: rng.range(17, 22) as i32, large: false, favor: rng.chance(1, 2), catable: rng.chance(1, 4), appendable: rng.chance(1, 4), magic: rng.chance(1, 4),
            t: rng.range(2, 6) as usize, n: rng.range(100 << 10, 400 << 10) as usize, kind: 5, dseed: rng.next(), size_hint: 0 };
        large_case(&c, &mut rep, &mut pool_l);
    }
    // ---- "raw first meta-block of a later job" class: records | noise | short-period counters with the job
    // boundary inside the noise and at least one whole meta-block of noise behind it (a meta-block of
    // literals only ends at 2^(1+max(lgwin,lgblock)) bytes), so that job k > 0 opens with a meta-block
    // stored raw — the distance-ring rollback on that path must keep the catable placeholder — and then
    // codes copies at distance 4 / 11 / 15 / 16 while the decoder still holds the previous job's ring.
    let nraw = if thorough { 12 } else { 1 };
    for k in 0..nraw {
        let mut rng = Rng::new(seed ^ 0x4A3 ^ ((task as u64) << 20) ^ ((k as u64) << 36));
        let q = *rng.pick(&[2, 3, 4, 5, 6, 9, 10]);
        let lgwin = if q <= 3 { rng.range(10, 14) as i32 } else { rng.range(10, 16) as i32 };
        let m = if q <= 3 { 1usize << 15 } else { 1usize << 17 };
        let t = rng.range(2, 3) as usize;
        let n = m * 9 / 2 + rng.below(2000) as usize;
        let c = Case { q: if q == 10 && m > (1 << 15) { 9 } else { q }, lgwin, large: false, favor: rng.chance(1, 3), catable: false, appendable: false, magic: rng.chance(1, 4), t, n, kind: 6, dseed: rng.next(), size_hint: 0 };
        large_case(&c, &mut rep, &mut pool_l);
    }
    // ---- "window edge" class: some job k > 0 starts EXACTLY at (1 << lgwin) - 16 + d, d in -2..=2 —
    // the length where the job's prefix stops fitting the window (dictionary truncation, the shared
    // index of favor_cpu_efficiency being kept or dropped). Two sites decide this independently
    // (threading.rs builds/extends the shared index, encode.rs keeps or discards it); an off-by-one
    // between them shows only at the exact edge. Deterministic grid, spread over the 16 shards.
    {
        let mut pool: Pool = brotli::enc::new_work_pool(1 + (task * 3) % 8);
        let mut idx = 0usize;
        for &lgwin in &[10i32, 11, 12, 14, 16] {
            for t in 2usize..=4 {
                for k in 1..t {
                    for d in -2i64..=2 {
                        idx += 1;
                        if idx % 16 != task { continue; }
                        if !thorough && lgwin > 12 && d != 0 { continue; }
                        let target = ((1i64 << lgwin) - 16 + d) as usize;
                        // smallest n with get_range(k, t, n).0 == target
                        let mut n = (target * t + k - 1) / k;
                        while get_range(k, t, n).0 < target { n += 1; }
                        if get_range(k, t, n).0 != target { continue; }
                        let mut rng = Rng::new(seed ^ 0xED6E ^ ((idx as u64) << 24));
                        for &q in &[2i32, 5, 9, 10] {
                            if !thorough && q == 10 && lgwin > 12 { continue; }
                            let c = Case { q, lgwin, large: false, favor: true, catable: false, appendable: false, magic: false, t, n, kind: rng.below(5), dseed: rng.next(), size_hint: 0 };
                            rep.count("edge.cases");
                            search_case(&c, &mut rep, &mut pool, &mut rng);
                        }
                    }
                }
            }
        }
    }
    // ---- C06 bonus: the REAL pool under the deterministic scheduler shim with REAL compression
    // jobs: random schedules (uniform / sticky / spurious wake-ups) must give the bytes of the
    // inline spawner; the pool is reused for a second call under the same schedule source
    let nsched = if thorough { 40 } else { 6 };
    for k in 0..nsched {
        let mut rng = Rng::new(seed ^ 0x5C4ED ^ ((task as u64) << 20) ^ ((k as u64) << 36));
        let mut c = gen_case(&mut rng, true);
        c.t = rng.range(2, 6) as usize; c.q = *rng.pick(&[2, 4, 5, 6]); c.lgwin = *rng.pick(&[10, 16, 18]); c.large = false;
        let workers = rng.range(1, 4) as usize;
        let (params, input) = (c.params(), c.input());
        let cap = BrotliEncoderMaxCompressedSizeMulti(c.n, c.t) + 64;
        let reference = run_multi(Spawner::Inline, &params, &input, c.t, cap, None);
        let outs = sched_run(&params, &input, c.t, cap, workers, rng.next(), *rng.pick(&[0u64, 10, 30]), *rng.pick(&[0u64, 50, 90]));
        beat();
        rep.count("sched.scenarios");
        match outs {
            None => rep.violation("multi:sched-stuck", "the pool got stuck or panicked under a scheduled run with real jobs", c.json(&format!(",\"workers\":{}", workers))),
            Some(v) => { for o in v { if o.class != reference.class || o.bytes != reference.bytes { rep.violation("multi:spawner-differs", &format!("pool under a random schedule ({} workers) differs from the inline spawner: {} {} vs {} {}", workers, o.class, o.bytes.len(), reference.class, reference.bytes.len()), c.json("")); } else { rep.count("sched.equal_to_inline"); } } }
        }
    }
    corr.finish();
    rep.write(&args.out);
}

/// two CompressMulti calls on one pool of `workers` threads, every lock/wait/notify/spawn/join of
/// the pool scheduled by a PRNG-driven chooser (brotli::enc::verif_sched)
fn sched_run(params: &BrotliEncoderParams, input: &[u8], t: usize, cap: usize, workers: usize, seed: u64, spurious_pct: u64, sticky_pct: u64) -> Option<Vec<Outcome>> {
    use brotli::enc::verif_sched as vs;
    let mut rng = Rng::new(seed);
    let mut last: Option<usize> = None;
    let chooser: vs::Chooser = Box::new(move |run: &[usize], wait: &[usize]| {
        if !wait.is_empty() && rng.below(100) < spurious_pct { return Some(vs::Choice::Wake(wait[rng.below(wait.len() as u64) as usize])); }
        if run.is_empty() { return None; }
        if let Some(l) = last { if run.contains(&l) && rng.below(100) < sticky_pct { return Some(vs::Choice::Run(l)); } }
        let th = run[rng.below(run.len() as u64) as usize];
        last = Some(th);
        Some(vs::Choice::Run(th))
    });
    vs::install(chooser, Box::new(|| String::new()));
    let mut outs = vec![];
    let body = catch_unwind(AssertUnwindSafe(|| {
        let pool: &'static mut Option<Pool> = Box::leak(Box::new(Some(brotli::enc::new_work_pool(workers))));
        for _ in 0..2 { outs.push(run_multi(Spawner::PoolFresh, params, input, t, cap, pool.as_mut())); }
        drop(pool.take());
        vs::finish_submitter();
    }));
    let (_sched, trace, stuck) = vs::uninstall();
    if body.is_err() || stuck || trace.iter().any(|x| x.contains("PANIC")) { return None; }
    Some(outs)
}

fn large_case(c: &Case, rep: &mut Report, pool: &mut Pool) {
    set_current(c.json("")); sync_partial(rep);
    let (params, input) = (c.params(), c.input());
    let bound = BrotliEncoderMaxCompressedSizeMulti(c.n, c.t);
    rep.evaluations += 1; rep.nontrivial += 1;
    rep.count("large_prefix.cases");
    rep.count(&format!("q.{}", c.q));
    let mut runs = vec![];
    for (sp, name) in [(Spawner::Threads, "threads"), (Spawner::Inline, "inline"), (Spawner::PoolFresh, "pool-reused")] {
        let o = run_multi(sp, &params, &input, c.t, bound, if sp == Spawner::PoolFresh { Some(&mut *pool) } else { None });
        beat();
        let extra = format!(",\"spawner\":\"{}\",\"out_capacity\":{},\"result\":\"{}\"", name, bound, o.class);
        if o.class == "panic" { rep.violation("multi:panic:other", &format!("CompressMulti panicked: {}", o.msg), c.json(&extra)); }
        else if !o.returned { rep.violation("multi:input-not-returned:on-error", "the input was not handed back", c.json(&extra)); }
        if o.class == "ok" {
            rep.count("result.ok");
            if sp == Spawner::Threads {
                match decode_ok(&o.bytes, false, &input) { Ok(()) => rep.count("decoded.both"), Err(e) => rep.violation("multi:ok-wrong-data:large-prefix", &format!("success reported but the {} bytes do not decode to the {} byte input: {}", o.bytes.len(), input.len(), e), c.json(&extra)) }
            }
        } else if o.class != "panic" { rep.violation("multi:sized-not-ok", &format!("buffer of the advertised maximum {} and quality >= 2 but the call failed ({})", bound, o.class), c.json(&extra)); }
        runs.push(o);
    }
    if runs.iter().all(|o| o.class != "panic") && !(runs[0].class == runs[1].class && runs[0].bytes == runs[1].bytes && runs[1].class == runs[2].class && runs[1].bytes == runs[2].bytes) {
        rep.violation("multi:spawner-differs", "thread-per-job / inline / reused pool disagree on a large input", c.json(""));
    }
    // favor_cpu_efficiency on vs off (C06) on the same large input: the shared pre-built index must be
    // the index each job would build itself also when a job's prefix is MiBs long (hasher choice
    // thresholds on the size hint / prefix length lie at 1 MiB and 4 MiB)
    if !c.truncated() && c.t > 1 {
        let mut p2 = params.clone(); p2.favor_cpu_efficiency = !c.favor;
        let other = run_multi(Spawner::Inline, &p2, &input, c.t, bound, None);
        beat();
        rep.count("large_prefix.compared.favor");
        if other.class != "panic" && runs[1].class != "panic" && !(other.class == runs[1].class && other.bytes == runs[1].bytes) {
            rep.violation("multi:favor-differs:large-prefix", &format!("favor_cpu_efficiency on/off give different results on a large input ({} {} bytes vs {} {} bytes)", runs[1].class, runs[1].bytes.len(), other.class, other.bytes.len()), c.json(""));
        }
    }
}

// ---------------------------------------------------------------------------------------------
// stage `multi c07`: C07's clauses (every job joined exactly once, nothing left in the pool's
// 16-slot queues, no deadlock, pool reusable and droppable) seen through the PRODUCTION submitter:
// sequences of 3–8 CompressMulti calls on ONE reused pool through the real compress_worker_pool,
// mixing calls that fail (output buffer too small: the first / a middle / the last job's splice
// fails, or finish fails) with calls that succeed.  One child process per group of sequences, each
// with a watchdog, so a hang costs seconds.
// ---------------------------------------------------------------------------------------------

fn c07_parent(args: &Args) {
    let nkids = 16usize;
    let exe = std::env::current_exe().unwrap();
    let corr = Corr::new(&args.out);
    let mut rep = Report::default();
    let mut kids = vec![];
    for k in 0..nkids {
        let d = args.out.join(format!("c07-{}", k));
        std::fs::create_dir_all(&d).unwrap();
        kids.push((k, d.clone(), std::process::Command::new(&exe).args(["multi", "--tier", &args.tier, "--seed", &args.seed.to_string(), "--out", d.to_str().unwrap(), "c07seq", &k.to_string()]).spawn().unwrap()));
    }
    let deadline = std::time::Instant::now() + std::time::Duration::from_secs(if args.tier == "thorough" { 240 } else { 45 });
    for (k, d, mut kid) in kids {
        let ok = loop { match kid.try_wait() { Ok(Some(st)) => break st.success(), Ok(None) => { if std::time::Instant::now() > deadline { let _ = kid.kill(); break false; } std::thread::sleep(std::time::Duration::from_millis(50)); } Err(_) => break false } };
        if let Ok(r) = std::fs::read_to_string(d.join("report.tsv")) { rep.merge_tsv(&r); }
        else if !ok { rep.violation("multi:c07:hang", "a group of pool sequences neither finished nor was stopped by its watchdog (process killed)", format!("{{\"group\":{}}}", k)); }
        if !ok && std::fs::metadata(d.join("report.tsv")).is_ok() { rep.violation("multi:c07:crash", "a group of pool sequences crashed the process", format!("{{\"group\":{}}}", k)); }
        let _ = std::fs::remove_dir_all(&d);
    }
    corr.finish();
    rep.write(&args.out);
}

fn c07_child(args: &Args, group: usize) {
    let thorough = args.tier == "thorough";
    spawn_watchdog(args.out.clone(), 6, "multi:c07:hang");
    let mut rep = Report::default();
    let nseq = if thorough { 40 } else { 4 };
    for k in 0..nseq {
        let mut rng = Rng::new(args.seed ^ 0xC07 ^ ((group as u64) << 20) ^ ((k as u64) << 36));
        c07_sequence(&mut rng, &mut rep);
        sync_partial(&rep);
    }
    rep.write(&args.out);
}

fn c07_sequence(rng: &mut Rng, rep: &mut Report) {
    let workers = *rng.pick(&[1usize, 2, 3, 4, 8, 15, 16]);
    let ncalls = rng.range(3, 8) as usize;
    let mut log: Vec<String> = vec![];
    let mut failed_before = false;
    rep.evaluations += 1; rep.nontrivial += 1;
    rep.count("c07.sequences");
    let case = |log: &Vec<String>| format!("{{\"workers\":{},\"calls\":[{}]}}", workers, log.join(","));
    set_current(case(&log));
    let pool: &'static mut Option<Pool> = Box::leak(Box::new(Some(brotli::enc::new_work_pool(workers))));
    for ci in 0..ncalls {
        let t = match rng.below(4) { 0 => rng.range(9, 16), 1 => 16, _ => rng.range(2, 8) } as usize;
        let n = rng.range(t as u64 * 8, 3000) as usize;
        let c = Case { q: *rng.pick(&[2, 4, 5, 6]), lgwin: *rng.pick(&[10, 16, 18, 22]), large: false, favor: rng.chance(1, 3), catable: false, appendable: false, magic: rng.chance(1, 4), t, n, kind: rng.below(5), dseed: rng.next(), size_hint: 0 };
        let (params, input) = (c.params(), c.input());
        let bound = BrotliEncoderMaxCompressedSizeMulti(n, t);
        let reference = run_multi(Spawner::Inline, &params, &input, t, bound, None);
        beat();
        if reference.class != "ok" { continue; }
        let l = reference.bytes.len();
        // where the failure strikes: per-job prefix sums of the recomputed job outputs
        let jobs = recompute_jobs(&params, &input, t);
        let pre: Vec<usize> = jobs.iter().scan(0usize, |a, j| { *a += j.bytes.as_ref().map(|b| b.len()).unwrap_or(0); Some(*a) }).collect();
        // mostly failing calls, interleaved with succeeding ones; the last call always succeeds
        let mode = if ci + 1 == ncalls { 0 } else { rng.below(6) };
        let (cap, what) = match mode {
            0 | 1 => (bound, "ample"),
            2 => (rng.below((pre[0] / 2).max(1) as u64) as usize, "first-job-fails"),
            3 => { let j = t / 2; (pre[j - 1] + rng.below(3) as usize, "middle-job-fails") }
            4 => (pre[t - 2] + rng.below(3) as usize, "last-job-fails"),
            _ => (l - 1, "finish-fails"),
        };
        log.push(format!("{{\"threads\":{},\"input_len\":{},\"quality\":{},\"lgwin\":{},\"input_kind\":{},\"input_seed\":{},\"out_capacity\":{},\"intent\":\"{}\"}}", t, n, c.q, c.lgwin, c.kind, c.dseed, cap, what));
        set_current(case(&log));
        let o = run_multi(Spawner::PoolFresh, &params, &input, t, cap, pool.as_mut());
        beat();
        rep.count(&format!("c07.call.{}", what));
        rep.count(&format!("c07.result.{}", if o.class == "ok" { "ok" } else if o.class == "panic" { "panic" } else { "err" }));
        if o.class == "panic" { rep.violation("multi:c07:panic", &format!("call {} on the reused pool panicked: {}", ci, o.msg), case(&log)); return; }
        if !o.returned { rep.violation("multi:c07:input-not-returned", &format!("call {} did not hand the input back ({})", ci, o.class), case(&log)); }
        if o.class == "ok" {
            if o.bytes != reference.bytes { rep.violation("multi:c07:ok-wrong-data", &format!("call {} on the reused pool{} returned bytes that differ from the inline spawner's", ci, if failed_before { " (after failed calls)" } else { "" }), case(&log)); }
            else if let Err(e) = decode_ok(&o.bytes, false, &input) { rep.violation("multi:c07:ok-wrong-data", &format!("call {}: {}", ci, e), case(&log)); }
            else { rep.count("c07.decoded"); if failed_before { rep.count("c07.ok_after_failure"); } }
        } else {
            failed_before = true;
            if cap >= bound { rep.violation("multi:c07:sized-call-failed", &format!("call {} with a buffer of the advertised bound failed ({}){}", ci, o.class, if log.len() > 1 { " on a pool that served earlier calls" } else { "" }), case(&log)); }
        }
    }
    // the pool must drop cleanly (all workers exit; a stuck worker trips the watchdog)
    let d = catch_unwind(AssertUnwindSafe(|| drop(pool.take())));
    beat();
    if d.is_err() { rep.violation("multi:c07:drop-panic", "dropping the pool panicked (a worker died)", case(&log)); } else { rep.count("c07.dropped_cleanly"); }
    set_current(String::new());
}
