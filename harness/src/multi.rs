//! engine `multi` — C02 / C06: multi-threaded compression (`src/enc/threading.rs` CompressMulti
//! through the three spawners: thread per job, worker pool, inline).
//!
//! Sub-modes (`args.rest[0]`): none = the registered run (correspondence + search);
//! `probe <name>` = the minimal defect reproductions (D13, D16, …) printed to stdout.
//!
//! Non-trivial case (rule for `rep.nontrivial`): a CompressMulti call with ≥ 2 jobs of which at
//! least two have a non-empty range.
use crate::prng::Rng;
use crate::util::*;
use alloc_no_stdlib::{Allocator, SliceWrapper, SliceWrapperMut};
use alloc_stdlib::StandardAlloc;
use brotli::enc::backward_references::{BrotliEncoderParams, UnionHasher};
use brotli::enc::encode::{BrotliEncoderOperation, BrotliEncoderStateStruct};
use brotli::enc::threading::{BrotliEncoderThreadError, InternalOwned, Owned, SendAlloc};
use brotli::enc::{BrotliEncoderMaxCompressedSize, BrotliEncoderMaxCompressedSizeMulti};
use std::panic::{catch_unwind, AssertUnwindSafe};

pub struct V(pub Vec<u8>);
impl SliceWrapper<u8> for V {
    fn slice(&self) -> &[u8] { &self.0[..] }
}

#[derive(Clone, Copy, PartialEq, Debug)]
pub enum Spawner { Threads, PoolFresh, Inline }
impl Spawner {
    pub fn name(self) -> &'static str { match self { Spawner::Threads => "threads", Spawner::PoolFresh => "pool", Spawner::Inline => "inline" } }
}

/// what one CompressMulti call did
#[derive(Clone, PartialEq, Debug)]
pub struct Outcome {
    /// "ok" | "panic" | error class
    pub class: String,
    /// bytes reported (Ok(n)) — `out[..n]`
    pub bytes: Vec<u8>,
    /// the input token is back in `owned_input`
    pub returned: bool,
    /// panic message, if any
    pub msg: String,
}

pub fn err_class(e: &BrotliEncoderThreadError) -> String {
    match e {
        BrotliEncoderThreadError::InsufficientOutputSpace => "insufficient".into(),
        BrotliEncoderThreadError::ConcatenationDidNotProcessFullFile => "notfull".into(),
        BrotliEncoderThreadError::ConcatenationError(r) => format!("caterr{}", *r as u8),
        BrotliEncoderThreadError::ConcatenationFinalizationError(r) => format!("finerr{}", *r as u8),
        BrotliEncoderThreadError::OtherThreadPanic => "otherpanic".into(),
        BrotliEncoderThreadError::ThreadExecError(_) => "threadexec".into(),
    }
}

fn panic_msg(e: Box<dyn std::any::Any + Send>) -> String {
    if let Some(s) = e.downcast_ref::<&str>() { s.to_string() } else if let Some(s) = e.downcast_ref::<String>() { s.clone() } else { "?".into() }
}

type Pool = brotli::enc::WorkerPool<brotli::enc::CompressionThreadResult<StandardAlloc>, UnionHasher<StandardAlloc>, StandardAlloc, (V, BrotliEncoderParams)>;

/// one call through the chosen spawner; `pool` (if given, with `Spawner::PoolFresh`) is a
/// caller-owned pool that is REUSED across calls
pub fn run_multi(sp: Spawner, params: &BrotliEncoderParams, input: &[u8], t: usize, cap: usize, pool: Option<&mut Pool>) -> Outcome {
    let mut out = vec![0u8; cap];
    let mut owned = Owned::new(V(input.to_vec()));
    let r = catch_unwind(AssertUnwindSafe(|| match sp {
        Spawner::Threads => {
            let mut allocs: Vec<_> = (0..t).map(|_| SendAlloc::new(StandardAlloc::default(), UnionHasher::Uninit)).collect();
            brotli::enc::compress_multi_no_threadpool(params, &mut owned, &mut out[..], &mut allocs[..])
        }
        Spawner::PoolFresh => {
            let mut allocs: Vec<_> = (0..t).map(|_| SendAlloc::new(StandardAlloc::default(), UnionHasher::Uninit)).collect();
            match pool {
                Some(p) => brotli::enc::compress_worker_pool(params, &mut owned, &mut out[..], &mut allocs[..], p),
                None => brotli::enc::compress_multi(params, &mut owned, &mut out[..], &mut allocs[..]),
            }
        }
        Spawner::Inline => {
            let mut allocs: Vec<_> = (0..t).map(|_| SendAlloc::new(StandardAlloc::default(), UnionHasher::Uninit)).collect();
            brotli::enc::singlethreading::compress_multi(params, &mut owned, &mut out[..], &mut allocs[..])
        }
    }));
    let returned = match owned.0 { InternalOwned::Item(ref v) => v.0 == input, InternalOwned::Borrowed => false };
    match r {
        Ok(Ok(n)) => {
            if n > cap { return Outcome { class: "ok-overrun".into(), bytes: vec![], returned, msg: format!("n={} cap={}", n, cap) }; }
            out.truncate(n);
            Outcome { class: "ok".into(), bytes: out, returned, msg: String::new() }
        }
        Ok(Err(e)) => Outcome { class: err_class(&e), bytes: vec![], returned, msg: String::new() },
        Err(e) => Outcome { class: "panic".into(), bytes: vec![], returned, msg: panic_msg(e) },
    }
}

/// `get_range` of threading.rs, recomputed (wrapping u64 arithmetic as in a release build)
pub fn get_range(i: usize, t: usize, n: usize) -> (usize, usize) {
    (i.wrapping_mul(n) / t, (i + 1).wrapping_mul(n) / t)
}

/// one job recomputed through the public single-stream API exactly as `compress_part` does
/// (appendable job 0, catable jobs > 0 with the preceding input as custom dictionary, one
/// FINISH call loop into a buffer of `BrotliEncoderMaxCompressedSize(len)` bytes).
/// Returns (Ok(bytes) | Err(class), finished, has_more_output)
pub fn job_bytes(params: &BrotliEncoderParams, input: &[u8], i: usize, t: usize) -> (Result<Vec<u8>, String>, bool, bool) {
    let (lo, hi) = get_range(i, t, input.len());
    let mut mem = vec![0u8; BrotliEncoderMaxCompressedSize(hi - lo)];
    let mut state = BrotliEncoderStateStruct::new(StandardAlloc::default());
    state.params = params.clone();
    if i != 0 { state.params.catable = true; state.params.magic_number = false; }
    state.params.appendable = true;
    if i != 0 { state.set_custom_dictionary(lo, &input[..lo]); }
    let mut out_offset = 0usize;
    let mut available_out = mem.len();
    let mut cur = lo;
    let res;
    let mut rounds = 0;
    loop {
        let mut next_in_offset = 0usize;
        let mut available_in = hi - cur;
        let result = state.compress_stream(BrotliEncoderOperation::BROTLI_OPERATION_FINISH, &mut available_in, &input[cur..hi], &mut next_in_offset, &mut available_out, &mut mem[..], &mut out_offset, &mut None, &mut |_a, _b, _c, _d| ());
        cur += next_in_offset;
        rounds += 1;
        if result { res = Ok(out_offset); break; } else if available_out == 0 { res = Err("insufficient".to_string()); break; }
        if rounds > 1000 { res = Err("livelock".to_string()); break; }
    }
    let fin = state.is_finished();
    let more = state.has_more_output();
    brotli::enc::encode::BrotliEncoderDestroyInstance(&mut state);
    (res.map(|n| mem[..n].to_vec()), fin, more)
}

pub fn mk_params(q: i32, lgwin: i32, favor: bool, catable: bool, appendable: bool, magic: bool, large: bool) -> BrotliEncoderParams {
    let mut p = BrotliEncoderParams::default();
    p.quality = q; p.lgwin = lgwin; p.favor_cpu_efficiency = favor; p.catable = catable; p.appendable = appendable; p.magic_number = magic; p.large_window = large;
    p
}

/// input generators (all from one PRNG state)
pub fn gen_input(rng: &mut Rng, n: usize, kind: u64) -> Vec<u8> {
    let mut v = Vec::with_capacity(n);
    match kind % 5 {
        0 => { for _ in 0..n { v.push(rng.next() as u8); } } // incompressible
        1 => { // text-like with long-range repeats
            let words: Vec<Vec<u8>> = (0..40).map(|_| { let l = rng.range(2, 9) as usize; (0..l).map(|_| b'a' + rng.below(26) as u8).collect() }).collect();
            while v.len() < n { let w = &words[rng.below(40) as usize]; v.extend_from_slice(w); v.push(b' '); }
            v.truncate(n);
        }
        2 => { // repeats of a random block at varying distances (copies reach far back)
            let bl = rng.range(50, 3000) as usize;
            let block: Vec<u8> = (0..bl).map(|_| rng.next() as u8).collect();
            while v.len() < n { if rng.chance(1, 3) { let l = rng.range(1, 400); for _ in 0..l { v.push(rng.next() as u8); } } let a = rng.below(bl as u64) as usize; let b = rng.range(a as u64, bl as u64) as usize; v.extend_from_slice(&block[a..b]); }
            v.truncate(n);
        }
        3 => { for i in 0..n { v.push(((i * 7 + (i >> 3) * 13) % 251) as u8); } }
        _ => { // low-entropy bytes
            for _ in 0..n { v.push(b"abcd"[(rng.below(4)) as usize]); }
        }
    }
    v
}

fn decode_ok(bytes: &[u8], large: bool, expect: &[u8]) -> Result<(), String> { crate::dec::decode_both(bytes, large, expect) }

fn probe(args: &Args) {
    let which = args.rest.get(1).map(|s| s.as_str()).unwrap_or("all");
    let dbg = cfg!(debug_assertions);
    println!("build: {}", if dbg { "debug (debug_assertions on)" } else { "release" });
    if which == "d13" || which == "all" {
        // any error after spawning: output too small
        let mut rng = Rng::new(13);
        let input = gen_input(&mut rng, 5000, 0);
        for sp in [Spawner::Threads, Spawner::PoolFresh, Spawner::Inline] {
            for t in [1usize, 2, 4] {
                for cap in [10usize, BrotliEncoderMaxCompressedSizeMulti(input.len(), t)] {
                    let p = mk_params(5, 22, false, false, false, false, false);
                    let o = run_multi(sp, &p, &input, t, cap, None);
                    println!("D13 spawner={} t={} cap={} -> class={} returned={} {}", sp.name(), t, cap, o.class, o.returned, o.msg);
                }
            }
        }
    }
    if which == "d16" || which == "all" {
        let mut rng = Rng::new(16);
        for (q, lgwin, t, n, kind) in [(3, 22, 2usize, 20000usize, 1u64), (4, 22, 3, 20000, 1), (2, 22, 2, 20000, 1), (5, 22, 3, 20000, 1), (6, 13, 4, 60000, 1), (6, 13, 4, 60000, 2), (9, 13, 7, 12000, 1), (9, 13, 7, 12000, 2), (5, 10, 4, 20000, 2), (7, 12, 5, 40000, 2), (10, 13, 4, 60000, 2), (11, 13, 4, 30000, 2), (5, 18, 4, 60000, 2), (9, 22, 4, 60000, 2)] {
            let input = gen_input(&mut rng, n, kind);
            let cap = BrotliEncoderMaxCompressedSizeMulti(n, t) + 1000;
            let off = run_multi(Spawner::Threads, &mk_params(q, lgwin, false, false, false, false, false), &input, t, cap, None);
            let on = run_multi(Spawner::Threads, &mk_params(q, lgwin, true, false, false, false, false), &input, t, cap, None);
            let d_off = if off.class == "ok" { format!("{:?}", decode_ok(&off.bytes, false, &input)) } else { "-".into() };
            let d_on = if on.class == "ok" { format!("{:?}", decode_ok(&on.bytes, false, &input)) } else { "-".into() };
            println!("D16 q={} lgwin={} t={} n={} kind={}: favor-off class={} len={} decode={} | favor-on class={} len={} same-bytes={} decode={} {}", q, lgwin, t, n, kind, off.class, off.bytes.len(), d_off, on.class, on.bytes.len(), on.bytes == off.bytes, d_on, on.msg);
        }
    }
}

pub fn run_cmd(args: &Args) {
    if args.rest.get(0).map(|s| s.as_str()) == Some("probe") { return probe(args); }
    let corr = Corr::new(&args.out);
    let rep = Report::default();
    corr.finish();
    rep.write(&args.out);
}
