//! engine `zopfli` — quality 10 / 11 command generation (H10 binary-tree hasher + Zopfli optimal parsing,
//! `src/enc/backward_references/hq.rs`): supports C01 (module BV.Props.C01Zopfli, model BV/Model/Zopfli.lean).
//!
//! A generated stream is cut into input blocks and processed exactly as `encode.rs` does it: the ring
//! buffer holds what has been written so far (tail mirroring the head, 7 slack bytes), per block
//! `StitchToPreviousBlock` then `BrotliCreateZopfliBackwardReferences` (quality 10) or
//! `BrotliCreateHqZopfliBackwardReferences` (quality 11) on ONE H10 instance, the distance cache,
//! `last_insert_len` and `num_literals` carried from block to block.  Structured inputs: LZ-style text
//! (literal runs + copies at earlier distances, short-code friendly), runs, periodic data, static
//! dictionary words (plain and with transforms: upper-case first, trailing space, cut-offs), tiny
//! windows (lgwin 10..12 with the input several windows long, so that the ring wraps), high absolute
//! positions (`base` beyond 2 GiB).
//!
//! Search stage (real code only): every command of every block is replayed by an independent
//! transcription of the RFC 7932 rules — distance symbol against the ring of last distances,
//! `distance <= min(position, 2^lgwin - 16)` = copy from the text produced so far, beyond = static
//! dictionary reference expanded with the DECODER's dictionary and `TransformDictionaryWord`
//! (brotli-decompressor), which must produce exactly `copy_len` bytes — and compared with the input;
//! field ranges (`cmdOK`), `num_literals`, `last_insert_len`, and the encoder's distance cache = the
//! decoder's ring after every block.  No panic.
//!
//! Correspondence (quality 10, last block of a case; the pieces are the pub functions the real
//! wrapper calls, in its order; the wrapper itself runs on a clone and must agree):
//!   `zopfli cc <lgwin> <block_start> <num_bytes> <cache,4> <last_insert_len> <num_literals> <hist_len> <text> N <node>… W <word>…`
//!     the REAL node array after `BrotliZopfliComputeShortestPath` (trace), the model's
//!     `zopfliCreateCommands` on it; answer `<n> <cmd_digest> <cache,4> <last_insert_len> <num_literals> <ok>`
//!     (`ok`: on the model side = the model's commands, closed, satisfy cmdOK + lockstep and the spec
//!     decoder `replayCommands` yields the text; on the implementation side the constant 1).
//!     node token `i:length:distance:dcil:u` (u = `n<next>` | `s<shortcut>` | `c`), stub nodes omitted;
//!     word token `len.idx.transform=hex` = the decoder's expansion (for the dictionary references on the path).
//!   `zopfli path <num_bytes> N <node>…` — the same array with every `u` erased; the model's
//!     `computeShortestPathFromNodes`; answer `<num_commands> <digest of the (index, next) pairs>`.
//!   `zopfli sp …` — see `sp_request`: the whole `BrotliZopfliComputeShortestPath` (dictionary off) against
//!     the model with `K = f32`, the H10 model, and the literal-cost / log2 tables RECORDED from the real
//!     `BrotliEstimateBitCostsForLiterals` / `FastLog2`; answer = digest of the node array.
//!
//! non-trivial case: the block under test produced at least one copy command.
use crate::prng::Rng;
use crate::util::*;
use alloc_no_stdlib::{Allocator, SliceWrapper, SliceWrapperMut};
use alloc_stdlib::StandardAlloc;
use brotli::enc::backward_references::hash_to_binary_tree::{Union1, ZopfliNode, H10Buckets, H10DefaultParams, H10};
use brotli::enc::backward_references::hq::{
    BrotliCreateHqZopfliBackwardReferences, BrotliCreateZopfliBackwardReferences, BrotliInitZopfliNodes, BrotliZopfliComputeShortestPath,
    BrotliZopfliCreateCommands,
};
use brotli::enc::backward_references::{AnyHasher, CloneWithAlloc, UnionHasher};
use brotli::enc::command::Command;
use brotli::enc::encode::{BrotliEncoderInitParams, HasherSetup};
use brotli::enc::static_dict::kBrotliEncDictionary;
use brotli_decompressor::dictionary::{kBrotliDictionary, kBrotliDictionaryOffsetsByLength, kBrotliDictionarySizeBitsByLength};
use brotli_decompressor::transform::TransformDictionaryWord;
use std::panic::{catch_unwind, AssertUnwindSafe};

const SP_ENABLED: bool = true;
type HH = H10<StandardAlloc, H10Buckets<StandardAlloc>, H10DefaultParams>;

pub struct Case {
    pub quality: i32,
    pub lgwin: i32,
    pub lg: u32,          // ring = 2^lg
    pub tail: usize,
    pub base: usize,      // absolute position of stream[0]
    pub mirror: bool,
    pub use_dict: bool,
    pub stream: Vec<u8>,
    pub start0: usize,    // the hasher sees the stream from here on (earlier bytes are ring history only)
    pub blocks: Vec<usize>, // block end offsets (strictly increasing, last = stream.len())
    pub cache: [i32; 4],
    pub kind: &'static str,
}

fn ring_view(stream: &[u8], written: usize, lg: u32, tail: usize, base: usize, mirror_first_lap: bool) -> Vec<u8> {
    let size = 1usize << lg;
    let mask = size - 1;
    let mut data = vec![0u8; size + tail + 7];
    let lo = written.saturating_sub(size);
    for p in lo..written {
        data[p & mask] = stream[p];
        if (p & mask) < tail && (base + p >= size || mirror_first_lap) {
            data[size + (p & mask)] = stream[p];
        }
    }
    data
}

fn dict_word(rng: &mut Rng) -> Vec<u8> {
    let wlen = rng.range(4, 24) as usize;
    let idx = rng.below(1u64 << kBrotliDictionarySizeBitsByLength[wlen]) as usize;
    let off = kBrotliDictionaryOffsetsByLength[wlen] as usize + wlen * idx;
    let w = &kBrotliDictionary[off..off + wlen];
    let tr = match rng.below(8) { 0 => 0, 1 => 1, 2 => 9, 3 => 4, 4 => rng.below(121) as i32, 5 => 12 + 0, _ => 0 };
    let mut dst = vec![0u8; 64];
    let n = TransformDictionaryWord(&mut dst, w, wlen as i32, tr);
    dst.truncate(n as usize);
    dst
}

fn gen_stream(rng: &mut Rng, n: usize, kind: &str) -> (Vec<u8>, Vec<usize>) {
    let mut v: Vec<u8> = Vec::with_capacity(n + 64);
    let mut dists = vec![];
    let alpha = *rng.pick(&[2u64, 4, 16, 64, 256]);
    match kind {
        "periodic" => {
            let per = 1 + rng.below(40) as usize;
            let pat: Vec<u8> = (0..per).map(|_| rng.below(alpha) as u8 + 97).collect();
            while v.len() < n {
                if rng.chance(1, 60) { v.push(rng.below(256) as u8); } else { let b = pat[v.len() % per]; v.push(b); }
            }
            dists.push(per);
        }
        "runs" => {
            while v.len() < n {
                let b = rng.below(alpha) as u8 + 32;
                let l = if rng.chance(1, 4) { 1 + rng.below(700) as usize } else { 1 + rng.below(12) as usize };
                for _ in 0..l { v.push(b); }
            }
        }
        _ => {
            let words = kind == "dict";
            while v.len() < n {
                let c = rng.below(10);
                if v.len() > 8 && c < 5 {
                    // a copy; every so often at (nearly) a recent distance: short codes
                    let d = if !dists.is_empty() && rng.chance(1, 3) {
                        let d0 = dists[dists.len() - 1 - rng.below(dists.len().min(4) as u64) as usize] as i64;
                        (d0 + rng.range(0, 6) as i64 - 3).max(1) as usize
                    } else if rng.chance(1, 3) { 1 + rng.below(16) as usize } else { 1 + rng.below(v.len().min(6000) as u64) as usize };
                    let d = d.min(v.len());
                    let l = if rng.chance(1, 30) { 200 + rng.below(400) as usize } else { 2 + rng.below(40) as usize };
                    dists.push(d);
                    for _ in 0..l { let b = v[v.len() - d]; v.push(b); }
                } else if words && c < 8 {
                    let w = dict_word(rng);
                    v.extend_from_slice(&w);
                    if rng.chance(1, 2) { v.push(b' '); }
                } else {
                    let l = 1 + rng.below(12) as usize;
                    for _ in 0..l { v.push((rng.below(alpha) as u8).wrapping_mul(37).wrapping_add(if words { 65 } else { 0 })); }
                }
            }
        }
    }
    v.truncate(n);
    (v, dists)
}

fn gen_case(rng: &mut Rng, quality: i32, corr: bool) -> Case {
    let lg = *rng.pick(&[11u32, 11, 12, 13]);
    let size = 1usize << lg;
    let lgwin = lg as i32 - 1;
    let tail = size / 2;
    let kind: &'static str = *rng.pick(&["lz", "lz", "dict", "dict", "periodic", "runs"]);
    let use_dict = kind == "dict" || rng.chance(1, 4);
    let high = rng.chance(1, 6);
    let nblocks = 1 + rng.below(4) as usize;
    let bmax = if corr { 700 } else { tail.min(3000) };
    let mut lens = vec![];
    for _ in 0..nblocks {
        lens.push(match rng.below(8) { 0 => rng.range(0, 6) as usize, 1 => rng.range(6, 40) as usize, _ => rng.range(20, bmax as u64) as usize });
    }
    let total: usize = lens.iter().sum();
    // history that is only in the ring (not stored in the hasher): up to several windows
    let pre = if high { size + rng.below(size as u64) as usize } else { match rng.below(4) { 0 => 0, 1 => rng.below(300) as usize, _ => rng.below(3 * size as u64) as usize } };
    let n = pre + total;
    let (stream, dists) = gen_stream(rng, n, kind);
    let base: usize = if high { (*rng.pick(&[1usize << 31, (1usize << 31) + (1 << 30), (1usize << 32) + (1 << 20)])) & !(size - 1) } else { 0 };
    let mut blocks = vec![];
    let mut e = pre;
    for l in lens { e += l; blocks.push(e); }
    let window = (1usize << lgwin) - 16;
    let mut cache = [4i32, 11, 15, 16];
    for k in 0..4 {
        if rng.chance(1, 2) && !dists.is_empty() { let d = *rng.pick(&dists); if d > 0 && d <= (base + pre).min(window) { cache[k] = d as i32; } }
    }
    if rng.chance(1, 12) { cache = [0x7ffffff0u32 as i32; 4]; }
    Case { quality, lgwin, lg, tail, base, mirror: rng.chance(1, 2), use_dict, stream, start0: pre, blocks, cache, kind }
}

fn params_of(c: &Case) -> brotli::enc::BrotliEncoderParams {
    let mut p = BrotliEncoderInitParams();
    p.quality = c.quality;
    p.lgwin = c.lgwin;
    p.use_dictionary = c.use_dict;
    p
}

fn new_h10(c: &Case) -> Option<HH> {
    let mut alloc = StandardAlloc::default();
    let mut params = params_of(c);
    let mut h: UnionHasher<StandardAlloc> = UnionHasher::Uninit;
    HasherSetup(&mut alloc, &mut h, &mut params, &[], 0, 0, 0);
    match h { UnionHasher::H10(x) => Some(x), _ => None }
}

pub struct BlockOut {
    pub position: usize,
    pub num_bytes: usize,
    pub cache_in: [i32; 4],
    pub last_in: usize,
    pub nlit_in: usize,
    pub cmds: Vec<Command>,
    pub cache: [i32; 4],
    pub last: usize,
    pub nlit: usize,
    pub nodes: Option<Vec<ZopfliNode>>, // quality 10, block under test: the array after the path computation
    pub data: Vec<u8>,
}

fn cmd_digest(cmds: &[Command]) -> u64 {
    let mut d = FNV_INIT;
    for x in cmds {
        for v in [x.insert_len_ as u64, x.copy_len_ as u64, x.dist_extra_ as u64, x.cmd_prefix_ as u64, x.dist_prefix_ as u64] { d = fnv_step(d, v); }
    }
    d
}

/// run the real code over all blocks; Err = (signature, text)
pub fn run_real(c: &Case, sp_probe: &mut Option<SpProbe>) -> Result<Vec<BlockOut>, (String, String)> {
    let mut h = new_h10(c).ok_or(("zopfli:no-h10".to_string(), "HasherSetup did not select H10".to_string()))?;
    let params = params_of(c);
    let mask = (1usize << c.lg) - 1;
    let mbl = (1usize << c.lgwin) - 16;
    let mut cache = c.cache;
    let mut last = 0usize;
    let mut nlit = 0usize;
    let mut outs = vec![];
    let mut prev = c.start0;
    let dict = if c.use_dict { Some(&kBrotliEncDictionary) } else { None };
    for (bi, &end) in c.blocks.iter().enumerate() {
        let data = ring_view(&c.stream, end, c.lg, c.tail, c.base, c.mirror);
        let position = c.base + prev;
        let num_bytes = end - prev;
        let is_last = bi + 1 == c.blocks.len();
        let (cache_in, last_in, nlit_in) = (cache, last, nlit);
        let mut cmds = vec![Command::default(); num_bytes / 2 + 8];
        let mut ncmd = 0usize;
        let mut alloc = StandardAlloc::default();
        let mut nodes_out = None;
        let r = catch_unwind(AssertUnwindSafe(|| {
            h.StitchToPreviousBlock(num_bytes, position, &data, mask);
            if c.quality >= 11 {
                BrotliCreateHqZopfliBackwardReferences(&mut alloc, dict, num_bytes, position, &data, mask, &params, &mut h, &mut cache, &mut last, &mut cmds, &mut ncmd, &mut nlit);
            } else if !is_last {
                BrotliCreateZopfliBackwardReferences(&mut alloc, dict, num_bytes, position, &data, mask, &params, &mut h, &mut cache, &mut last, &mut cmds, &mut ncmd, &mut nlit);
            } else {
                // the wrapper on a clone (reference), then its pub pieces in its order on the real instance
                let mut h2 = h.clone_with_alloc(&mut alloc);
                let (mut cache2, mut last2, mut nlit2, mut ncmd2) = (cache, last, nlit, 0usize);
                let mut cmds2 = vec![Command::default(); num_bytes / 2 + 8];
                BrotliCreateZopfliBackwardReferences(&mut alloc, dict, num_bytes, position, &data, mask, &params, &mut h2, &mut cache2, &mut last2, &mut cmds2, &mut ncmd2, &mut nlit2);
                if let Some(p) = sp_probe.as_mut() { p.before = Some(SpState { buckets: h.buckets_.slice().to_vec(), forest: h.forest.slice().to_vec() }); }
                let mut nodes = vec![ZopfliNode::default(); num_bytes + 1];
                BrotliInitZopfliNodes(&mut nodes, num_bytes + 1);
                ncmd = BrotliZopfliComputeShortestPath(&mut alloc, dict, num_bytes, position, &data, mask, &params, mbl, &cache, &mut h, &mut nodes);
                BrotliZopfliCreateCommands(num_bytes, position, mbl, &nodes, &mut cache, &mut last, &params, &mut cmds, &mut nlit);
                let same = ncmd == ncmd2 && cache == cache2 && last == last2 && nlit == nlit2 && cmd_digest(&cmds[..ncmd]) == cmd_digest(&cmds2[..ncmd2]) && h == h2;
                h2.free(&mut alloc);
                nodes_out = Some((nodes, same));
            }
        }));
        if r.is_err() {
            return Err(("zopfli:panic".to_string(), format!("block {} (position {}, {} bytes) panicked", bi, position, num_bytes)));
        }
        let mut nodes_keep = None;
        if let Some((nodes, same)) = nodes_out {
            if !same { return Err(("zopfli:glue-differs".to_string(), "BrotliCreateZopfliBackwardReferences and its pub pieces disagree".to_string())); }
            nodes_keep = Some(nodes);
        }
        cmds.truncate(ncmd);
        outs.push(BlockOut { position, num_bytes, cache_in, last_in, nlit_in, cmds, cache, last, nlit, nodes: nodes_keep, data });
        prev = end;
    }
    let mut alloc = StandardAlloc::default();
    h.free(&mut alloc);
    Ok(outs)
}

/// RFC 7932 section 4 (transcribed independently): distance of a distance symbol (NPOSTFIX = NDIRECT = 0)
fn rfc_distance(sym: usize, extra: usize, ring: &[i64; 4]) -> (i64, bool) {
    match sym {
        0 => (ring[0], false),
        1 => (ring[1], true), 2 => (ring[2], true), 3 => (ring[3], true),
        4 => (ring[0] - 1, true), 5 => (ring[0] + 1, true), 6 => (ring[0] - 2, true), 7 => (ring[0] + 2, true),
        8 => (ring[0] - 3, true), 9 => (ring[0] + 3, true),
        10 => (ring[1] - 1, true), 11 => (ring[1] + 1, true), 12 => (ring[1] - 2, true), 13 => (ring[1] + 2, true),
        14 => (ring[1] - 3, true), 15 => (ring[1] + 3, true),
        _ => {
            let x = sym - 16;
            let nbits = 1 + (x >> 1);
            let offset = ((2 + (x & 1)) << nbits) - 4;
            ((offset + extra + 1) as i64, true)
        }
    }
}

pub struct Judged { pub ncopy: u64, pub ndict: u64, pub nshort: u64, pub ntransform: u64, pub words: Vec<String> }

/// the soundness oracle over all blocks of a case
pub fn judge(c: &Case, outs: &[BlockOut]) -> Result<Judged, (String, String)> {
    let window = (1usize << c.lgwin) - 16;
    let mut out: Vec<u8> = c.stream[..c.start0].to_vec();
    let mut ring: [i64; 4] = [c.cache[0] as i64, c.cache[1] as i64, c.cache[2] as i64, c.cache[3] as i64];
    let mut j = Judged { ncopy: 0, ndict: 0, nshort: 0, ntransform: 0, words: vec![] };
    let mut nlit = 0usize;
    for (bi, o) in outs.iter().enumerate() {
        let end = o.position - c.base + o.num_bytes;
        let is_last = bi + 1 == outs.len();
        for (k, cmd) in o.cmds.iter().enumerate() {
            let ins = cmd.insert_len_ as usize;
            let copy_len = (cmd.copy_len_ & 0x1ff_ffff) as usize;
            let delta = (cmd.copy_len_ >> 25) as u8;
            let delta = (delta | ((delta & 0x40) << 1)) as i8;
            let code_len = (copy_len as i64 + delta as i64) as usize;
            let sym = (cmd.dist_prefix_ & 0x3ff) as usize;
            let nbits = (cmd.dist_prefix_ >> 10) as usize;
            let at_cmd = format!("block {} command {}", bi, k);
            if ins > 1 << 24 || code_len < 2 || copy_len < 2 { return Err(("field-range".into(), format!("{}: insert {} copy {} code {}", at_cmd, ins, copy_len, code_len))); }
            if sym >= 64 { return Err(("distance-symbol".into(), format!("{}: distance symbol {} outside the 64-symbol alphabet", at_cmd, sym))); }
            if cmd.cmd_prefix_ < 128 && sym != 0 { return Err(("implicit-distance".into(), format!("{}: cmd_prefix {} with distance symbol {}", at_cmd, cmd.cmd_prefix_, sym))); }
            if cmd.cmd_prefix_ >= 704 { return Err(("cmd-prefix".into(), format!("{}: cmd_prefix {}", at_cmd, cmd.cmd_prefix_))); }
            if sym >= 16 && ((cmd.dist_extra_ as u64) >= (1u64 << nbits) || nbits != 1 + ((sym - 16) >> 1)) { return Err(("extra-bits".into(), format!("{}: extra {} / {} bits for symbol {}", at_cmd, cmd.dist_extra_, nbits, sym))); }
            if sym < 16 && (nbits != 0 || cmd.dist_extra_ != 0) { return Err(("extra-bits".into(), format!("{}: short code {} with extra bits", at_cmd, sym))); }
            if out.len() + ins > end { return Err(("insert-overrun".into(), format!("{}: insert {} beyond the block", at_cmd, ins))); }
            let at = out.len();
            out.extend_from_slice(&c.stream[at..at + ins]);
            nlit += ins;
            let (d, upd) = rfc_distance(sym, cmd.dist_extra_ as usize, &ring);
            if d <= 0 { return Err(("distance-nonpositive".into(), format!("{}: distance {} (symbol {}, ring {:?})", at_cmd, d, sym, ring))); }
            let d = d as usize;
            let maxd = (c.base + out.len()).min(window);
            if d <= maxd {
                if code_len != copy_len { return Err(("copy-len-code".into(), format!("{}: copy {} code {}", at_cmd, copy_len, code_len))); }
                if out.len() + copy_len > end { return Err(("copy-overrun".into(), format!("{}: copy {} beyond the block", at_cmd, copy_len))); }
                if d > out.len() { return Err(("distance-before-stream".into(), format!("{}: distance {} at text length {}", at_cmd, d, out.len()))); }
                for _ in 0..copy_len { let b = out[out.len() - d]; out.push(b); }
                if upd { ring = [d as i64, ring[0], ring[1], ring[2]]; }
                j.ncopy += 1;
                if sym < 16 { j.nshort += 1; }
            } else {
                if !c.use_dict { return Err(("distance-beyond-window".into(), format!("{}: distance {} > {} without a dictionary", at_cmd, d, maxd))); }
                if sym < 16 { return Err(("short-code-beyond-window".into(), format!("{}: short code {} denotes {} > {}", at_cmd, sym, d, maxd))); }
                if !(4..=24).contains(&code_len) { return Err(("dict-word-length".into(), format!("{}: word length {}", at_cmd, code_len))); }
                let bits = kBrotliDictionarySizeBitsByLength[code_len] as usize;
                let wid = d - maxd - 1;
                let (idx, tid) = (wid & ((1 << bits) - 1), wid >> bits);
                if tid >= 121 { return Err(("dict-transform".into(), format!("{}: transform {}", at_cmd, tid))); }
                let off = kBrotliDictionaryOffsetsByLength[code_len] as usize + code_len * idx;
                let mut dst = vec![0u8; 64];
                let n = TransformDictionaryWord(&mut dst, &kBrotliDictionary[off..off + code_len], code_len as i32, tid as i32) as usize;
                dst.truncate(n);
                if n != copy_len { return Err(("dict-copy-len".into(), format!("{}: word {} transform {} expands to {} bytes, copy_len {}", at_cmd, code_len, tid, n, copy_len))); }
                if out.len() + copy_len > end { return Err(("copy-overrun".into(), format!("{}: word beyond the block", at_cmd))); }
                if is_last { j.words.push(format!("{}.{}.{}={}", code_len, idx, tid, hex(&dst))); }
                out.extend_from_slice(&dst);
                j.ndict += 1;
                if tid != 0 { j.ntransform += 1; }
            }
            if out[at..] != c.stream[at..out.len()] { return Err(("replay-differs".into(), format!("{} (insert {} copy {} distance {}): replayed bytes differ from the input", at_cmd, ins, copy_len, d))); }
        }
        if out.len() + o.last != end { return Err(("lockstep".into(), format!("block {}: commands reach {} + last_insert_len {} != block end {}", bi, out.len(), o.last, end))); }
        if nlit != o.nlit { return Err(("num-literals".into(), format!("block {}: num_literals {} but the commands insert {}", bi, o.nlit, nlit))); }
        for k in 0..4 { if ring[k] != o.cache[k] as i64 { return Err(("cache-differs".into(), format!("block {}: distance cache {:?} but the decoder's ring is {:?}", bi, o.cache, ring))); } }
    }
    Ok(j)
}

fn node_token(i: usize, n: &ZopfliNode, erase: bool) -> Option<String> {
    let stub = n.length == 1 && n.distance == 0 && n.dcode_insert_length == 0;
    let u = match n.u { Union1::next(x) => format!("n{}", x), Union1::shortcut(x) => format!("s{}", x), Union1::cost(_) => "c".to_string() };
    if erase {
        if stub { None } else { Some(format!("{}:{}:{}:{}:c", i, n.length, n.distance, n.dcode_insert_length)) }
    } else if stub && u == "c" { None } else { Some(format!("{}:{}:{}:{}:{}", i, n.length, n.distance, n.dcode_insert_length, u)) }
}

fn cc_lines(c: &Case, o: &BlockOut, words: &[String]) -> Vec<(String, String)> {
    let nodes = match &o.nodes { Some(n) => n, None => return vec![] };
    let window = (1usize << c.lgwin) - 16;
    let blk0 = o.position - c.base;
    let start = blk0 - o.last_in;
    let end = blk0 + o.num_bytes;
    // enough history for every in-window distance; the whole stream when it starts at absolute 0
    let hlo = if c.base == 0 && start <= window + 64 { 0 } else { start - (window + 64).min(start) };
    if c.base > 0 && start - hlo < window { return vec![]; }
    if c.base == 0 && hlo > 0 && start - hlo < window { return vec![]; }
    let mut lines = vec![];
    let toks: Vec<String> = nodes.iter().enumerate().filter_map(|(i, n)| node_token(i, n, false)).collect();
    let cache_in = o.cache_in.iter().map(|x| x.to_string()).collect::<Vec<_>>().join(",");
    let req = format!("zopfli cc {} {} {} {} {} {} {} {} N {} W {}", c.lgwin, o.position, o.num_bytes, cache_in, o.last_in, o.nlit_in, start - hlo, hex(&c.stream[hlo..end]), toks.join(" "), words.join(" "));
    let ans = format!("{} {} {} {} {} 1", o.cmds.len(), cmd_digest(&o.cmds), o.cache.iter().map(|x| x.to_string()).collect::<Vec<_>>().join(","), o.last, o.nlit);
    if req.len() < 64000 { lines.push((req, ans)); }
    let toks: Vec<String> = nodes.iter().enumerate().filter_map(|(i, n)| node_token(i, n, true)).collect();
    let mut d = FNV_INIT;
    for (i, n) in nodes.iter().enumerate() { if let Union1::next(x) = n.u { d = fnv_step(fnv_step(d, i as u64), x as u64); } }
    let req = format!("zopfli path {} N {}", o.num_bytes, toks.join(" "));
    if req.len() < 64000 { lines.push((req, format!("{} {}", o.cmds.len(), d))); }
    lines
}

// ---------------------------------------------------------------------------------------------
// whole-path correspondence (`zopfli sp`): see BV/Drive/Zopfli.lean

pub struct SpState { pub buckets: Vec<u32>, pub forest: Vec<u32> }
pub struct SpProbe { pub before: Option<SpState> }

fn f32s(xs: &[f32]) -> String { xs.iter().map(|x| format!("{:08x}", x.to_bits())).collect::<Vec<_>>().join("") }

fn nodes_digest(nodes: &[ZopfliNode]) -> u64 {
    let mut d = FNV_INIT;
    for n in nodes {
        let (t, v) = match n.u { Union1::cost(c) => (0u64, c.to_bits() as u64), Union1::next(x) => (1, x as u64), Union1::shortcut(x) => (2, x as u64) };
        for x in [n.length as u64, n.distance as u64, n.dcode_insert_length as u64, t, v] { d = fnv_step(d, x); }
    }
    d
}

/// `zopfli sp <quality> <lgwin> <mask> <position> <num_bytes> <cache,4> <data> <literal costs f32 bits> <log2 11.. f32 bits> <log2 20.. f32 bits> B <sparse buckets> F <sparse forest> D <cm=l.id+l.id…>`
fn sp_line(c: &Case, o: &BlockOut, before: &SpState) -> Option<(String, String)> {
    let nodes = o.nodes.as_ref()?;
    let mask = (1usize << c.lg) - 1;
    let mut dtoks: Vec<String> = vec![];
    if c.use_dict {
        // the answers of the real `BrotliFindAllStaticDictionaryMatches` (min_length 4: entries at l >= minlen do not depend on it)
        for i in 0..o.num_bytes {
            if i + 3 >= o.num_bytes { break; }
            let cm = (o.position + i) & mask;
            let mut dm = [0xfffffffu32; 38];
            let found = brotli::enc::static_dict::BrotliFindAllStaticDictionaryMatches(&kBrotliEncDictionary, &o.data[cm..], 4, o.num_bytes - i, &mut dm[..]);
            if found != 0 {
                let e: Vec<String> = (4..38).filter(|&l| dm[l] < 0xfffffff).map(|l| format!("{}.{}", l, dm[l])).collect();
                if !e.is_empty() { dtoks.push(format!("{}={}", cm, e.join("+"))); }
            }
        }
    }
    let mut lit = vec![0f32; o.num_bytes + 2];
    brotli::enc::literal_cost::BrotliEstimateBitCostsForLiterals(o.position, o.num_bytes, mask, &o.data, &mut lit[1..]);
    let cmd: Vec<f32> = (0..704u64).map(|i| brotli::enc::util::FastLog2(11 + i)).collect();
    let dist: Vec<f32> = (0..64u64).map(|i| brotli::enc::util::FastLog2(20 + i)).collect();
    let invalid = 0u32.wrapping_sub(((1u32 << c.lgwin) - 1) as u32);
    let b: Vec<String> = before.buckets.iter().enumerate().filter(|(_, &v)| v != invalid).map(|(i, v)| format!("{}:{}", i, v)).collect();
    let f: Vec<String> = before.forest.iter().enumerate().filter(|(_, &v)| v != 0).map(|(i, v)| format!("{}:{}", i, v)).collect();
    let req = format!("zopfli sp {} {} {} {} {} {} {} {} {} {} B {} F {} D {}", c.quality, c.lgwin, mask, o.position, o.num_bytes,
        o.cache_in.iter().map(|x| x.to_string()).collect::<Vec<_>>().join(","), hex(&o.data), f32s(&lit), f32s(&cmd), f32s(&dist), b.join(" "), f.join(" "), dtoks.join(" "));
    if req.len() >= 64000 { return None; }
    Some((req, format!("{} {}", o.cmds.len(), nodes_digest(nodes))))
}

fn case_json(c: &Case, seed: u64, task: usize, ci: usize) -> String {
    format!("{{\"quality\": {}, \"lgwin\": {}, \"ring_lg\": {}, \"base\": {}, \"use_dict\": {}, \"kind\": {}, \"start0\": {}, \"blocks\": {:?}, \"cache\": {:?}, \"stream\": {}, \"seed\": {}, \"task\": {}, \"case\": {}}}",
        c.quality, c.lgwin, c.lg, c.base, c.use_dict, jstr(c.kind), c.start0, c.blocks, c.cache, jstr(&if c.stream.len() <= 3000 { hex(&c.stream) } else { format!("({} bytes; regenerate from seed)", c.stream.len()) }), seed, task, ci)
}

pub fn run_cmd(args: &Args) {
    let thorough = args.tier == "thorough";
    let seed = args.seed;
    if std::env::var("VERIF_VERBOSE_PANIC").is_err() { std::panic::set_hook(Box::new(|_| {})); }
    let mut corr = Corr::new(&args.out);
    let mut rep = Report::default();
    let ntasks = 32usize;
    let scale = if thorough { 12 } else { 1 };
    let results = par_tasks(ntasks, move |ti| {
        let mut rng = Rng::new(seed ^ 0x20F11 ^ ((ti as u64) << 20));
        let mut rep = Report::default();
        let mut lines: Vec<(String, String)> = vec![];
        let quality = if ti % 2 == 0 { 10 } else { 11 };
        let ncases = (if quality == 10 { 500 } else { 300 }) * scale;
        let ncorr = 10 * scale.min(3);
        for ci in 0..ncases {
            let want_corr = quality == 10 && ci < ncorr;
            let c = gen_case(&mut rng, quality, want_corr);
            rep.evaluations += 1;
            rep.count(&format!("quality.{}", quality));
            rep.count(&format!("kind.{}", c.kind));
            if c.use_dict { rep.count("dict.on"); }
            if c.base > 0 { rep.count("pos.beyond_2g"); }
            if c.start0 > (1usize << c.lg) { rep.count("ring.wrapped_before_start"); }
            if c.stream.len() > (1usize << c.lgwin) { rep.count("input.longer_than_window"); }
            let mut probe = if want_corr { Some(SpProbe { before: None }) } else { None };
            match run_real(&c, &mut probe) {
                Err((sig, what)) => {
                    rep.count(&format!("viol.{}", sig));
                    if !rep.violations.iter().any(|v| v.signature == sig) { rep.violations.push(Violation { signature: sig, what, case: case_json(&c, seed, ti, ci) }); }
                }
                Ok(outs) => {
                    rep.add("blocks", outs.len() as u64);
                    rep.add("commands", outs.iter().map(|o| o.cmds.len() as u64).sum());
                    if outs.iter().any(|o| o.last_in > 0 && !o.cmds.is_empty()) { rep.count("last_insert_len.carried_into_command"); }
                    match judge(&c, &outs) {
                        Ok(j) => {
                            if j.ncopy + j.ndict > 0 { rep.nontrivial += 1; }
                            rep.add("copy.commands", j.ncopy);
                            rep.add("copy.short_code", j.nshort);
                            rep.add("dict.references", j.ndict);
                            rep.add("dict.with_transform", j.ntransform);
                            if want_corr {
                                if let Some(o) = outs.last() {
                                    for l in cc_lines(&c, o, &j.words) { rep.count(&format!("corr.{}", l.0.split(' ').nth(1).unwrap_or("?"))); lines.push(l); }
                                    if let Some(SpProbe { before: Some(b) }) = &probe {
                                        if SP_ENABLED { if let Some(l) = sp_line(&c, o, b) { rep.count("corr.sp"); lines.push(l); } }
                                    }
                                }
                            }
                        }
                        Err((sig, what)) => {
                            let sig = format!("zopfli:{}:q{}", sig, quality);
                            rep.count(&format!("viol.{}", sig));
                            if !rep.violations.iter().any(|v| v.signature == sig) { rep.violations.push(Violation { signature: sig, what, case: case_json(&c, seed, ti, ci) }); }
                        }
                    }
                }
            }
        }
        (lines, rep)
    });
    let mut per_sig: std::collections::BTreeMap<String, usize> = Default::default();
    for (lines, mut r) in results {
        for (rq, an) in lines { corr.case(&rq, &an); }
        let vs = std::mem::take(&mut r.violations);
        rep.merge(r);
        for v in vs {
            let c = per_sig.entry(v.signature.clone()).or_insert(0);
            *c += 1;
            if *c <= 2 { rep.violations.push(v); }
        }
    }
    corr.finish();
    rep.write(&args.out);
}
