//! engine `ledger` — C09: every block obtained from a plugged-in allocator is returned to it
//! exactly once.
//!
//! **Counting allocators.**  `CAlloc` implements `alloc_no_stdlib::Allocator<T>` for every `T`
//! (`Clone + Default`, like the crate's own C-ABI allocator), so it is a `BrotliAlloc`.  Every instance
//! has an id and its own ledger; a block (`CBlock<T>`) remembers the ledger that produced it.
//! `free_cell` through another instance = "foreign"; a non-empty block that is dropped without
//! `free_cell` = "dropped" (with a pool allocator that memory is gone for good); still live after an
//! entry point returned = "leak".  Double free cannot be expressed in safe Rust (blocks are moved); it
//! is checked on the C ABI, where blocks are raw pointers: `FfiSession` = counting `alloc_func` /
//! `free_func` with one `opaque` per allocator (unknown / repeated / cross-opaque frees are recorded).
//!
//! **Oracles (search stage, real code only).**
//! * streaming instances (Rust API with `CAlloc`, C ABI with the callbacks), after EVERY call:
//!   live set == exactly the blocks held by the public long-lived fields (`snapshot`, compared by
//!   pointer and byte length) and temporaries allocated == freed in the call → `ledger:scoped-unbalanced`
//!   (this is the run-time check of the Lean oracle hypothesis `ScopedBalanced`), `ledger:field-not-live`,
//!   `ledger:field-block-lost` (a field's old block lost its reference without `free_cell`);
//! * after destroy / drop / return of every entry point: nothing live (`…-leak`), nothing dropped
//!   without `free_cell` (`…-dropped`), nothing freed through another instance (`…-foreign`), no bad
//!   free seen by the C callbacks (`ledger:ffi-bad-free`); named defects keep their own signatures
//!   (`ledger:ffi-destroy-leak`, `ledger:ffi-multi1-leak`, `ledger:oneshot-q10-foreign-free`,
//!   `ledger:set-dict-drops-hasher`); a panic of the code under test is `ledger:*-panic`.
//!
//! **Correspondence lines** (see `lean/BV/Drive/Ledger.lean` for the grammar):
//! `ledger inst <rust|ffi> <q> <call>…` — per call, what happened to each slot (derived from the
//! allocator's event log and the field snapshot) ↔ the model must accept the event and reproduce the
//! fates and the owed/alloc/free counters; `ledger ep <entry point> …` — class of the final ledger
//! (`clean`/`leak`/`foreign`); `ledger log <events>` — the raw log of the opaque entry points judged
//! by the Lean spec-side judge ↔ the Rust accounting; `ledger cq <cap0> <pushes>` — the IR logger's
//! command queue of one logged meta-block (first allocation, doublings, release, taken from the
//! allocator log; pushes = length of the IR handed to the callback) ↔ the model's `cqPushN`/`cqFree`.
//!
//! **Default allocator of the C ABI** (`alloc_func = NULL`): a counting `#[global_allocator]`
//! (pass-through to `System` unless switched on) is switched on only in the child processes
//! `bvh ledger gchild <seed> <n>`; per scenario (create/dictionary/stream/destroy incl. destroy before
//! finish, one-shot, multi, work pool) the process heap must return to its level before the call
//! (blocks and bytes) → `ledger:default-alloc-leak:<scenario>`.
//!
//! **IR-logging family** (kind 7, `irlog_case`): `log_meta_block` on, the analysis passes of `LogMetaBlock` walked over
//! their whole option grid (stride_detection_quality 0..4, high_entropy_detection_quality 0..2,
//! cdf_adaptation_detection 0..4, prior_bitmask_detection 0/1, literal_adaptation), quality 2..11, piecewise i.i.d.
//! inputs of 100..400 KiB with many literal block types per meta-block (`gen_piecewise`), through the streaming API
//! (oracle after every call) and the copy functions BrotliCompressCustomAlloc / BrotliCompressCustomIoCustomDict.
//!
//! Non-trivial case = at least one block was allocated (multi-threaded: every per-thread allocator
//! was used).  Regression corpus = the minimal reproductions of the defects found with this engine,
//! in code (`d9_*`), run first.  `bvh ledger d9` prints them; `bvh ledger only <kind 1..7>` runs one
//! family.  Every random choice comes from `Rng::new(seed ^ kind ^ index)`.
use crate::prng::Rng;
use crate::util::*;
use alloc_no_stdlib::{Allocator, SliceWrapper, SliceWrapperMut};
use brotli::enc::backward_references::UnionHasher;
use brotli::enc::encode::{BrotliEncoderOperation, BrotliEncoderParameter, BrotliEncoderStateStruct};
use brotli::enc::BrotliAlloc;
use brotli_decompressor::ffi::interface::c_void;
use std::collections::{BTreeMap, HashMap};
use std::sync::atomic::{AtomicU32, Ordering};
use std::sync::{Arc, Mutex};

// ---------------------------------------------------------------------------------------------
// counting allocator
// ---------------------------------------------------------------------------------------------

#[derive(Clone, Debug)]
pub struct Ev {
    pub kind: char,      // 'A' alloc, 'F' free, 'X' free through a foreign allocator, 'D' dropped without free
    pub via: u32,        // allocator instance the call went through (for 'D': the origin)
    pub origin: u32,     // allocator instance that produced the block
    pub bid: u64,        // block number within the origin
    pub ty: &'static str,
    pub len: usize,      // elements
    pub ptr: usize,
}
#[derive(Clone, Debug)]
pub struct Blk {
    pub ptr: usize,
    pub len: usize,
    pub esz: usize,
    pub ty: &'static str,
}
#[derive(Default)]
pub struct Inner {
    pub id: u32,
    pub next_bid: u64,
    pub live: BTreeMap<u64, Blk>,
    pub events: Vec<Ev>,
    pub n_alloc: u64,
    pub n_free: u64,
    pub n_foreign: u64, // blocks of THIS ledger freed through another instance, or foreign blocks freed through this one
    pub n_dropped: u64, // blocks of this ledger dropped without free_cell
    pub bytes_live: usize,
    pub bytes_peak: usize,
    pub log_events: bool,
}
#[derive(Clone)]
pub struct Ledger(pub Arc<Mutex<Inner>>);
static NEXT_ALLOC_ID: AtomicU32 = AtomicU32::new(1);
impl Ledger {
    pub fn new() -> Ledger {
        let mut i = Inner::default();
        i.id = NEXT_ALLOC_ID.fetch_add(1, Ordering::SeqCst);
        i.log_events = true;
        Ledger(Arc::new(Mutex::new(i)))
    }
    pub fn id(&self) -> u32 { self.0.lock().unwrap().id }
    pub fn live_count(&self) -> usize { self.0.lock().unwrap().live.len() }
    pub fn live_bytes(&self) -> usize { self.0.lock().unwrap().bytes_live }
    pub fn live_blocks(&self) -> Vec<(u64, Blk)> { self.0.lock().unwrap().live.iter().map(|(k, v)| (*k, v.clone())).collect() }
    pub fn counts(&self) -> (u64, u64, u64, u64) { let g = self.0.lock().unwrap(); (g.n_alloc, g.n_free, g.n_foreign, g.n_dropped) }
    pub fn events_len(&self) -> usize { self.0.lock().unwrap().events.len() }
    pub fn events_from(&self, k: usize) -> Vec<Ev> { self.0.lock().unwrap().events[k..].to_vec() }
    pub fn peak(&self) -> usize { self.0.lock().unwrap().bytes_peak }
}
pub struct CAlloc { pub led: Ledger }
impl CAlloc {
    pub fn new() -> (CAlloc, Ledger) { let l = Ledger::new(); (CAlloc { led: l.clone() }, l) }
}
/// Markers for the skeleton lines (`ledger sk`): `encode_data` records (cfg(brotli_verif), thread-local) the points
/// 0 = entry, 1 = behind the backward-reference search, 2 = just before `WriteMetaBlockInternal`, 3 = exit.
/// The counting allocator drains that log at every event, so a marker ('B', `bid` = point) sits in the event
/// log exactly between the allocator events that happened before and after it.
fn drain_book(g: &mut Inner) {
    if !g.log_events { return; }
    for b in brotli::enc::encode::verif_stream_hook::take_book() {
        let id = g.id;
        g.events.push(Ev { kind: 'B', via: id, origin: id, bid: b.point as u64, ty: "", len: 0, ptr: 0 });
    }
}
impl Ledger {
    pub fn flush_book(&self) { drain_book(&mut self.0.lock().unwrap()); }
}
/// `brotli::enc::histogram::HistogramLiteral` -> `HistogramLiteral`, `…::Command<…>` -> `Command`
pub fn sktag(ty: &str) -> &str {
    let base = ty.split('<').next().unwrap_or(ty);
    base.rsplit("::").next().unwrap_or(base)
}
/// the allocator events of every `WriteMetaBlockInternal` activation (between markers 2 and 3) in `evs`
pub fn wmbi_words(evs: &[Ev]) -> Vec<Vec<String>> {
    let mut out = vec![];
    let mut cur: Option<Vec<String>> = None;
    for e in evs {
        match e.kind {
            'B' => { if e.bid == 2 { cur = Some(vec![]); } else if let Some(w) = cur.take() { if e.bid == 3 { out.push(w); } } }
            k => { if let Some(w) = cur.as_mut() { w.push(format!("{}:{}", k, sktag(e.ty))); } }
        }
    }
    out
}
/// the allocator events of the Zopfli front end of one encode_data round (between markers 0 and 1): quality 10 =
/// `BrotliCreateZopfliBackwardReferences` (from the first `A:ZopfliNode` to the last `F:ZopfliNode`), quality 11 =
/// `BrotliCreateHqZopfliBackwardReferences` (it starts with `num_matches: u32`, `matches: u64` and ends with their
/// release: from the event before the first `A:u64` to the event after the last `F:u64`)
pub fn zopfli_words(evs: &[Ev], q: i32) -> Vec<(&'static str, Vec<String>)> {
    let mut out = vec![];
    let mut cur: Option<Vec<&Ev>> = None;
    for e in evs {
        if e.kind == 'B' {
            if e.bid == 0 { cur = Some(vec![]); } else if let Some(seg) = cur.take() {
                if e.bid != 1 { continue; }
                let tok = |e: &Ev| format!("{}:{}", e.kind, sktag(e.ty));
                if q == 10 {
                    let a = seg.iter().position(|e| e.kind == 'A' && sktag(e.ty) == "ZopfliNode");
                    let b = seg.iter().rposition(|e| e.kind == 'F' && sktag(e.ty) == "ZopfliNode");
                    if let (Some(a), Some(b)) = (a, b) { if a < b { out.push(("BrotliCreateZopfliBackwardReferences", seg[a..=b].iter().map(|e| tok(e)).collect())); } }
                } else if q == 11 {
                    let a = seg.iter().position(|e| e.kind == 'A' && e.ty == "u64");
                    let b = seg.iter().rposition(|e| e.kind == 'F' && e.ty == "u64");
                    if let (Some(a), Some(b)) = (a, b) {
                        if a >= 1 && b + 1 < seg.len() && a < b && seg[a - 1].kind == 'A' && seg[a - 1].ty == "u32" && seg[b + 1].kind == 'F' && seg[b + 1].ty == "u32" {
                            out.push(("BrotliCreateHqZopfliBackwardReferences", seg[a - 1..=b + 1].iter().map(|e| tok(e)).collect()));
                        }
                    }
                }
            }
        } else if let Some(seg) = cur.as_mut() { seg.push(e); }
    }
    out
}
pub struct CBlock<T> {
    data: Box<[T]>,
    origin: Option<Ledger>,
    bid: u64,
}
impl<T> Default for CBlock<T> {
    fn default() -> Self { CBlock { data: Vec::new().into_boxed_slice(), origin: None, bid: 0 } }
}
impl<T> SliceWrapper<T> for CBlock<T> { fn slice(&self) -> &[T] { &self.data } }
impl<T> SliceWrapperMut<T> for CBlock<T> { fn slice_mut(&mut self) -> &mut [T] { &mut self.data } }
impl<T> Drop for CBlock<T> {
    fn drop(&mut self) {
        if let Some(o) = self.origin.take() {
            let mut g = o.0.lock().unwrap();
            if let Some(b) = g.live.remove(&self.bid) {
                g.bytes_live -= b.len * b.esz;
                g.n_dropped += 1;
                let id = g.id;
                if g.log_events { g.events.push(Ev { kind: 'D', via: id, origin: id, bid: self.bid, ty: b.ty, len: b.len, ptr: b.ptr }); }
            }
        }
    }
}
impl<T: Clone + Default> Allocator<T> for CAlloc {
    type AllocatedMemory = CBlock<T>;
    fn alloc_cell(&mut self, len: usize) -> CBlock<T> {
        if len == 0 { return CBlock::default(); }
        let data = vec![T::default(); len].into_boxed_slice();
        let mut g = self.led.0.lock().unwrap();
        drain_book(&mut g);
        let bid = g.next_bid;
        g.next_bid += 1;
        let ptr = data.as_ptr() as usize;
        let ty = core::any::type_name::<T>();
        let esz = core::mem::size_of::<T>();
        g.live.insert(bid, Blk { ptr, len, esz, ty });
        g.n_alloc += 1;
        g.bytes_live += len * esz;
        if g.bytes_live > g.bytes_peak { g.bytes_peak = g.bytes_live; }
        let id = g.id;
        if g.log_events { g.events.push(Ev { kind: 'A', via: id, origin: id, bid, ty, len, ptr }); }
        drop(g);
        CBlock { data, origin: Some(self.led.clone()), bid }
    }
    fn free_cell(&mut self, mut b: CBlock<T>) {
        let o = match b.origin.take() { Some(o) => o, None => return }; // empty / default block
        let my = self.led.id();
        let same = Arc::ptr_eq(&o.0, &self.led.0);
        let mut g = o.0.lock().unwrap();
        if same { drain_book(&mut g); }
        let oid = g.id;
        if let Some(blk) = g.live.remove(&b.bid) {
            g.bytes_live -= blk.len * blk.esz;
            if same { g.n_free += 1; } else { g.n_foreign += 1; }
            if g.log_events { g.events.push(Ev { kind: if same { 'F' } else { 'X' }, via: my, origin: oid, bid: b.bid, ty: blk.ty, len: blk.len, ptr: blk.ptr }); }
        }
        drop(g);
        if !same {
            let mut h = self.led.0.lock().unwrap();
            h.n_foreign += 1;
            if h.log_events { h.events.push(Ev { kind: 'X', via: my, origin: oid, bid: b.bid, ty: core::any::type_name::<T>(), len: b.data.len(), ptr: b.data.as_ptr() as usize }); }
        }
    }
}
impl BrotliAlloc for CAlloc {}

/// short type tag for lines
pub fn tytag(ty: &str) -> &str {
    match ty.rsplit("::").next().unwrap_or(ty) { x => x }
}

// ---------------------------------------------------------------------------------------------
// C ABI: counting alloc_func / free_func
// ---------------------------------------------------------------------------------------------

#[derive(Default)]
pub struct FfiState {
    pub live: HashMap<usize, (u32, usize, u64)>, // ptr -> (owner opaque id, bytes, serial)
    pub n_alloc: u64,
    pub n_free: u64,
    pub bad_free: Vec<String>, // double / unknown / through another opaque
    pub bytes_live: usize,
    pub bytes_peak: usize,
    pub log: Vec<(char, u32, usize)>, // kind, opaque id, bytes
}
pub struct FfiOpaque { pub id: u32, pub st: Arc<Mutex<FfiState>> }
pub struct FfiSession { pub st: Arc<Mutex<FfiState>>, pub opaques: Vec<Box<FfiOpaque>> }
impl FfiSession {
    pub fn new(n: usize) -> FfiSession {
        let st = Arc::new(Mutex::new(FfiState::default()));
        FfiSession { opaques: (0..n).map(|i| Box::new(FfiOpaque { id: i as u32, st: st.clone() })).collect(), st }
    }
    pub fn opaque(&self, i: usize) -> *mut c_void { &*self.opaques[i] as *const FfiOpaque as *mut c_void }
    pub fn live(&self) -> (usize, usize) { let g = self.st.lock().unwrap(); (g.live.len(), g.bytes_live) }
    pub fn live_of(&self, id: u32) -> usize { self.st.lock().unwrap().live.values().filter(|v| v.0 == id).count() }
    /// release what the code under test leaked (so that a long run does not run out of memory)
    pub fn reclaim(&self) {
        let mut g = self.st.lock().unwrap();
        let l: Vec<(usize, usize)> = g.live.iter().map(|(p, v)| (*p, v.1)).collect();
        for (p, sz) in l { unsafe { std::alloc::dealloc(p as *mut u8, std::alloc::Layout::from_size_align(sz.max(1), 64).unwrap()) }; }
        g.live.clear();
        g.bytes_live = 0;
    }
}
pub extern "C" fn ffi_alloc(opaque: *mut c_void, size: usize) -> *mut c_void {
    let o = unsafe { &*(opaque as *const FfiOpaque) };
    let p = unsafe { std::alloc::alloc_zeroed(std::alloc::Layout::from_size_align(size.max(1), 64).unwrap()) };
    let mut g = o.st.lock().unwrap();
    let serial = g.n_alloc;
    g.live.insert(p as usize, (o.id, size, serial));
    g.n_alloc += 1;
    g.bytes_live += size;
    if g.bytes_live > g.bytes_peak { g.bytes_peak = g.bytes_live; }
    g.log.push(('A', o.id, size));
    p as *mut c_void
}
pub extern "C" fn ffi_free(opaque: *mut c_void, ptr: *mut c_void) {
    if ptr.is_null() { return; }
    let o = unsafe { &*(opaque as *const FfiOpaque) };
    let mut g = o.st.lock().unwrap();
    match g.live.get(&(ptr as usize)).cloned() {
        None => { g.bad_free.push(format!("free of unknown or already freed pointer through opaque {}", o.id)); }
        Some((owner, sz, _serial)) => {
            if owner != o.id { g.bad_free.push(format!("block of opaque {} ({} bytes) freed through opaque {}", owner, sz, o.id)); }
            g.live.remove(&(ptr as usize));
            g.n_free += 1;
            g.bytes_live -= sz;
            g.log.push(('F', o.id, sz));
            unsafe { std::alloc::dealloc(ptr as *mut u8, std::alloc::Layout::from_size_align(sz.max(1), 64).unwrap()) };
        }
    }
}

// ---------------------------------------------------------------------------------------------
// minimal reproductions (bvh ledger d9)
// ---------------------------------------------------------------------------------------------

fn sample_text(n: usize) -> Vec<u8> {
    let words: [&[u8]; 8] = [b"the ", b"quick ", b"brown ", b"fox ", b"jumps ", b"over ", b"lazy ", b"dog. "];
    let mut r = Rng::new(12345);
    let mut v = Vec::with_capacity(n + 8);
    while v.len() < n { v.extend_from_slice(words[r.below(8) as usize]); }
    v.truncate(n);
    v
}

pub fn d9_ffi_stream(quality: u32, lgwin: u32, n: usize) -> (usize, usize, u64, u64) {
    use brotli::ffi::compressor::*;
    let ses = FfiSession::new(1);
    let input = sample_text(n);
    let mut out = vec![0u8; n + 1024];
    unsafe {
        let st = BrotliEncoderCreateInstance(Some(ffi_alloc), Some(ffi_free), ses.opaque(0));
        BrotliEncoderSetParameter(st, BrotliEncoderParameter::BROTLI_PARAM_QUALITY, quality);
        BrotliEncoderSetParameter(st, BrotliEncoderParameter::BROTLI_PARAM_LGWIN, lgwin);
        let mut avail_in = input.len();
        let mut next_in = input.as_ptr();
        let mut avail_out = out.len();
        let mut next_out = out.as_mut_ptr();
        let mut total = 0usize;
        let r = BrotliEncoderCompressStream(st, BrotliEncoderOperation::BROTLI_OPERATION_FINISH, &mut avail_in, &mut next_in, &mut avail_out, &mut next_out, &mut total);
        assert!(r == 1 && BrotliEncoderIsFinished(st) == 1);
        BrotliEncoderDestroyInstance(st);
    }
    let (cnt, bytes) = ses.live();
    let g = ses.st.lock().unwrap();
    let r = (cnt, bytes, g.n_alloc, g.n_free);
    drop(g);
    ses.reclaim();
    r
}

pub fn d9_ffi_multi1(quality: u32, lgwin: u32, n: usize) -> (usize, usize, u64, u64) {
    use brotli::ffi::multicompress::*;
    let ses = FfiSession::new(1);
    let input = sample_text(n);
    let mut out = vec![0u8; BrotliEncoderMaxCompressedSizeMulti(n, 1)];
    let keys = [BrotliEncoderParameter::BROTLI_PARAM_QUALITY, BrotliEncoderParameter::BROTLI_PARAM_LGWIN];
    let vals = [quality, lgwin];
    let mut osz = out.len();
    let mut ops = [ses.opaque(0)];
    let r = unsafe { BrotliEncoderCompressMulti(2, keys.as_ptr(), vals.as_ptr(), input.len(), input.as_ptr(), &mut osz, out.as_mut_ptr(), 1, Some(ffi_alloc), Some(ffi_free), ops.as_mut_ptr()) };
    assert!(r == 1);
    let (cnt, bytes) = ses.live();
    let g = ses.st.lock().unwrap();
    let r = (cnt, bytes, g.n_alloc, g.n_free);
    drop(g);
    ses.reclaim();
    r
}

pub fn d9_oneshot_q10() -> String {
    let (mut m8, led_m8) = CAlloc::new();
    let (empty, led_empty) = CAlloc::new();
    let input = sample_text(3000);
    let mut out = vec![0u8; 4000];
    let mut osz = out.len();
    let r = brotli::enc::encode::BrotliEncoderCompress(empty, &mut m8, 10, 18, brotli::enc::backward_references::BrotliEncoderMode::BROTLI_MODE_GENERIC, input.len(), &input, &mut osz, &mut out, &mut |_a, _b, _c, _d| ());
    format!("ret={} m8(id {}): alloc/free/foreign/dropped={:?} live={} | empty_m8(id {}): {:?} live={}", r, led_m8.id(), led_m8.counts(), led_m8.live_count(), led_empty.id(), led_empty.counts(), led_empty.live_count())
}

pub fn d9_set_dict_twice() -> String {
    let (a, led) = CAlloc::new();
    let mut s = BrotliEncoderStateStruct::new(a);
    s.set_parameter(BrotliEncoderParameter::BROTLI_PARAM_QUALITY, 5);
    s.set_parameter(BrotliEncoderParameter::BROTLI_PARAM_LGWIN, 16);
    let d = sample_text(500);
    s.set_custom_dictionary(d.len(), &d);
    let c1 = led.counts();
    s.set_custom_dictionary(d.len(), &d);
    let c2 = led.counts();
    brotli::enc::encode::BrotliEncoderDestroyInstance(&mut s);
    format!("after 1st: {:?}; after 2nd: {:?}; after destroy: {:?} live={}", c1, c2, led.counts(), led.live_count())
}

pub fn d9_ffi_default() {
    use brotli::ffi::compressor::*;
    let input = sample_text(100000);
    let mut out = vec![0u8; 101024];
    unsafe {
        let st = BrotliEncoderCreateInstance(None, None, core::ptr::null_mut());
        BrotliEncoderSetParameter(st, BrotliEncoderParameter::BROTLI_PARAM_QUALITY, 5);
        let mut avail_in = input.len();
        let mut next_in = input.as_ptr();
        let mut avail_out = out.len();
        let mut next_out = out.as_mut_ptr();
        let mut total = 0usize;
        let r = BrotliEncoderCompressStream(st, BrotliEncoderOperation::BROTLI_OPERATION_FINISH, &mut avail_in, &mut next_in, &mut avail_out, &mut next_out, &mut total);
        assert!(r == 1);
        println!("-- default allocator destroy begins");
        BrotliEncoderDestroyInstance(st);
        println!("-- default allocator destroy ends");
    }
}

fn run_d9() {
    if std::env::var("D9_DEFAULT").is_ok() { d9_ffi_default(); return; }
    for (q, w) in [(5u32, 22u32), (11, 22), (0, 22), (1, 22), (9, 16)] {
        let (cnt, bytes, na, nf) = d9_ffi_stream(q, w, 100000);
        println!("ffi create/stream/destroy q{} lgwin{}: alloc calls {}, free calls {}, live after destroy: {} blocks, {} bytes", q, w, na, nf, cnt, bytes);
    }
    for (q, w) in [(5u32, 22u32), (11, 22)] {
        let (cnt, bytes, na, nf) = d9_ffi_multi1(q, w, 100000);
        println!("ffi BrotliEncoderCompressMulti 1 thread q{} lgwin{}: alloc calls {}, free calls {}, live after return: {} blocks, {} bytes", q, w, na, nf, cnt, bytes);
    }
    println!("rust one-shot q10: {}", d9_oneshot_q10());
    println!("set_custom_dictionary twice: {}", d9_set_dict_twice());
}


// ---------------------------------------------------------------------------------------------
// field snapshot + per-call classification (ScopedBalanced oracle, site events for the model)
// ---------------------------------------------------------------------------------------------

/// slots: 0 storage_, 1 commands_, 2 ringbuffer_.data_mo, 3 hasher_ (sub-blocks), 4 large_table_,
/// 5 command_buf_, 6 literal_buf_, 7 ext (a pre-computed hasher held by the caller), 8 self (C-ABI state block)
pub const NSLOT: usize = 9;
#[derive(Clone, Debug)]
pub struct FB { pub slot: usize, pub ptr: usize, pub bytes: usize, pub len: usize }
fn fbp<T>(slot: usize, s: &[T], out: &mut Vec<FB>) {
    if !s.is_empty() { out.push(FB { slot, ptr: s.as_ptr() as usize, bytes: s.len() * core::mem::size_of::<T>(), len: s.len() }); }
}
pub fn hasher_blocks<A: Allocator<u16> + Allocator<u32>>(h: &UnionHasher<A>, slot: usize, v: &mut Vec<FB>) {
    match h {
        UnionHasher::Uninit => {}
        UnionHasher::H2(h) => fbp(slot, h.buckets_.buckets_.slice(), v),
        UnionHasher::H3(h) => fbp(slot, h.buckets_.buckets_.slice(), v),
        UnionHasher::H4(h) => fbp(slot, h.buckets_.buckets_.slice(), v),
        UnionHasher::H54(h) => fbp(slot, h.buckets_.buckets_.slice(), v),
        UnionHasher::H5(h) => { fbp(slot, h.num.slice(), v); fbp(slot, h.buckets.slice(), v); }
        UnionHasher::H5q7(h) => { fbp(slot, h.num.slice(), v); fbp(slot, h.buckets.slice(), v); }
        UnionHasher::H5q5(h) => { fbp(slot, h.num.slice(), v); fbp(slot, h.buckets.slice(), v); }
        UnionHasher::H6(h) => { fbp(slot, h.num.slice(), v); fbp(slot, h.buckets.slice(), v); }
        UnionHasher::H9(h) => { fbp(slot, h.num_.slice(), v); fbp(slot, h.buckets_.slice(), v); }
        UnionHasher::H10(h) => { fbp(slot, h.buckets_.slice(), v); fbp(slot, h.forest.slice(), v); }
    }
}
pub fn snapshot<A: BrotliAlloc>(s: &BrotliEncoderStateStruct<A>) -> Vec<FB> {
    let mut v = vec![];
    fbp(0, s.storage_.slice(), &mut v);
    fbp(1, s.commands_.slice(), &mut v);
    fbp(2, s.ringbuffer_.data_mo.slice(), &mut v);
    hasher_blocks(&s.hasher_, 3, &mut v);
    fbp(4, s.large_table_.slice(), &mut v);
    fbp(5, s.command_buf_.slice(), &mut v);
    fbp(6, s.literal_buf_.slice(), &mut v);
    v
}
pub type Live = Vec<(u64, usize, usize)>; // serial, ptr, bytes
impl Ledger {
    pub fn live_view(&self) -> Live { self.0.lock().unwrap().live.iter().map(|(k, b)| (*k, b.ptr, b.len * b.esz)).collect() }
    pub fn dropped_since(&self, k: usize) -> Vec<u64> { self.0.lock().unwrap().events[k..].iter().filter(|e| e.kind == 'D').map(|e| e.bid).collect() }
}
impl FfiSession {
    pub fn live_view(&self) -> Live { self.st.lock().unwrap().live.iter().map(|(p, v)| (v.2, *p, v.1)).collect() }
}
pub struct Obs { pub fields: Vec<FB>, pub live: Live, pub allocs: u64, pub frees: u64, pub foreign: u64, pub dropped: Vec<u64>, pub ss: usize, pub ca: usize }

pub struct Tracker { held: Vec<Vec<u64>>, a0: u64, f0: u64 }
pub struct StepOut { pub tok: String, pub ans: String, pub viol: Vec<(String, String)> }
impl Tracker {
    pub fn new() -> Tracker { Tracker { held: vec![vec![]; NSLOT], a0: 0, f0: 0 } }
    /// `unref_ok`: a slot whose old block is still live but no longer referenced is reported in the token
    /// (fate 'D') and is a violation unless the caller files it under a named defect
    pub fn step(&mut self, o: &Obs) -> StepOut {
        let mut viol = vec![];
        let byptr: HashMap<usize, (u64, usize)> = o.live.iter().map(|(s, p, b)| (*p, (*s, *b))).collect();
        let mut newh: Vec<Vec<u64>> = vec![vec![]; NSLOT];
        let mut lens: Vec<Vec<usize>> = vec![vec![]; NSLOT];
        for f in &o.fields {
            match byptr.get(&f.ptr) {
                Some((s, b)) if *b == f.bytes => { newh[f.slot].push(*s); lens[f.slot].push(f.len); }
                _ => viol.push(("ledger:field-not-live".to_string(), format!("slot {} holds {} bytes at {:#x} which the allocator does not list as live", f.slot, f.bytes, f.ptr))),
            }
        }
        let old_all: std::collections::HashSet<u64> = self.held.iter().flatten().cloned().collect();
        let new_all: std::collections::HashSet<u64> = newh.iter().flatten().cloned().collect();
        let live_all: std::collections::HashSet<u64> = o.live.iter().map(|x| x.0).collect();
        let dropped: std::collections::HashSet<u64> = o.dropped.iter().cloned().collect();
        let stray: Vec<&(u64, usize, usize)> = o.live.iter().filter(|x| !new_all.contains(&x.0)).collect();
        let mut toks = vec![];
        let mut new_count = 0u64;
        let mut freed_gone = 0u64;
        for s in 0..NSLOT {
            let (old, new) = (&self.held[s], &newh[s]);
            if old == new { toks.push("=".to_string()); continue; }
            let fate = if old.is_empty() { '-' }
                else if old.iter().all(|x| new_all.contains(x)) { 'M' }
                else if old.iter().all(|x| !live_all.contains(x) && !dropped.contains(x)) { 'F' }
                else { 'D' }; // dropped without free_cell, or still live but unreferenced
            let kind = if new.is_empty() { "-".to_string() }
                else if new.iter().all(|x| old_all.contains(x)) { "T".to_string() }
                else { format!("N{}", lens[s].iter().map(|l| l.to_string()).collect::<Vec<_>>().join("+")) };
            toks.push(format!("{}{}", fate, kind));
        }
        for x in new_all.iter() { if !old_all.contains(x) { new_count += 1; } }
        for x in old_all.iter() { if !live_all.contains(x) && !dropped.contains(x) { freed_gone += 1; } }
        let da = o.allocs - self.a0;
        let df = o.frees - self.f0;
        let sa = da as i64 - new_count as i64;
        let sf = df as i64 - freed_gone as i64;
        // stray = live but not held. Old blocks that lost their reference are reported through fate 'D';
        // anything else is a temporary that outlived the call.
        let stray_new: Vec<String> = stray.iter().filter(|x| !old_all.contains(&x.0)).map(|x| format!("#{}:{}B", x.0, x.2)).collect();
        if !stray_new.is_empty() || sa != sf {
            viol.push(("ledger:scoped-unbalanced".to_string(), format!("after the call {} block(s) are live outside the long-lived fields [{}]; temporaries allocated {} freed {}", stray_new.len(), stray_new.join(" "), sa, sf)));
        }
        self.held = newh;
        self.a0 = o.allocs;
        self.f0 = o.frees;
        let outstanding = o.allocs as i64 - o.frees as i64 - o.foreign as i64;
        StepOut { tok: format!("{},s{}/{}", toks.join(","), sa, sf), ans: format!("o{}a{}f{}x{}s{}c{}", outstanding, o.allocs, o.frees, o.foreign, o.ss, o.ca), viol }
    }
}

// ---------------------------------------------------------------------------------------------
// streaming instances (Rust API with CAlloc, C ABI with counting callbacks)
// ---------------------------------------------------------------------------------------------

pub trait Inst {
    fn set_param(&mut self, p: BrotliEncoderParameter, v: u32);
    fn set_dict(&mut self, d: &[u8]);
    fn compress(&mut self, op: u32, input: &[u8], out_cap: usize) -> (bool, usize, usize);
    fn take_output(&mut self, max: usize) -> usize;
    fn observe(&mut self) -> Obs;
    fn finished(&self) -> bool;
}
fn op_of(op: u32) -> BrotliEncoderOperation {
    match op { 0 => BrotliEncoderOperation::BROTLI_OPERATION_PROCESS, 1 => BrotliEncoderOperation::BROTLI_OPERATION_FLUSH, 2 => BrotliEncoderOperation::BROTLI_OPERATION_FINISH, _ => BrotliEncoderOperation::BROTLI_OPERATION_EMIT_METADATA }
}
pub struct RustInst { pub s: BrotliEncoderStateStruct<CAlloc>, pub led: Ledger, pub ext: UnionHasher<CAlloc>, ev0: usize, pub ir_calls: u64, pub cq: Vec<(String, String)>, pub cq_unpaired: u64, pub sk: Vec<(String, String)>, pub sk_seen: u64, pub log_mb: bool, pub zk: u32, pub zk_seen: u64 }
impl RustInst {
    pub fn new() -> RustInst { let (a, led) = CAlloc::new(); RustInst { s: BrotliEncoderStateStruct::new(a), led, ext: UnionHasher::Uninit, ev0: 0, ir_calls: 0, cq: vec![], cq_unpaired: 0, sk: vec![], sk_seen: 0, log_mb: false, zk: 0, zk_seen: 0 } }
    /// a pre-computed hasher made by the caller with the instance's own allocator (what CompressMulti does)
    pub fn make_ext_hasher(&mut self) {
        let mut p = self.s.params.clone();
        brotli::enc::encode::SanitizeParams(&mut p);
        brotli::enc::encode::HasherSetup(&mut self.s.m8, &mut self.ext, &mut p, &[], 0, 0, 0);
    }
    pub fn set_dict_with_ext(&mut self, d: &[u8]) {
        let h = core::mem::replace(&mut self.ext, UnionHasher::Uninit);
        self.s.set_custom_dictionary_with_optional_precomputed_hasher(d.len(), d, h);
    }
    pub fn destroy(&mut self) { brotli::enc::encode::BrotliEncoderDestroyInstance(&mut self.s); }
}
impl Inst for RustInst {
    fn set_param(&mut self, p: BrotliEncoderParameter, v: u32) { self.s.set_parameter(p, v); }
    fn set_dict(&mut self, d: &[u8]) { self.s.set_custom_dictionary(d.len(), d); }
    fn compress(&mut self, op: u32, input: &[u8], out_cap: usize) -> (bool, usize, usize) {
        let mut out = vec![0u8; out_cap];
        let (mut ai, mut io, mut ao, mut oo) = (input.len(), 0usize, out_cap, 0usize);
        let mut ir = 0u64;
        let mut pushes: Vec<usize> = vec![];
        let e0 = self.led.events_len();
        let r = self.s.compress_stream(op_of(op), &mut ai, input, &mut io, &mut ao, &mut out, &mut oo, &mut None, &mut |_a, b, _c, _d| { ir += 1; pushes.push(b.len()); });
        self.ir_calls += ir;
        // skeleton lines: the events of each WriteMetaBlockInternal activation of this call
        self.led.flush_book();
        {
            let q = self.s.params.quality;
            for w in wmbi_words(&self.led.events_from(e0)) {
                self.sk_seen += 1;
                if w.len() <= 600 && (self.sk.len() < 4 || (self.sk.len() < 8 && self.sk_seen % 7 == 0)) {
                    self.sk.push((format!("ledger sk WriteMetaBlockInternal q{} log{} {}", q, self.log_mb as u32, w.join(" ")).trim_end().to_string(), "ok".to_string()));
                }
            }
        }
        {
            let q = self.s.params.quality;
            if q >= 10 {
                for (root, w) in zopfli_words(&self.led.events_from(e0), q) {
                    self.zk_seen += 1;
                    if w.len() <= 600 && self.zk < 3 { self.zk += 1; self.sk.push((format!("ledger sk {} q{} log{} {}", root, q, self.log_mb as u32, w.join(" ")), "ok".to_string())); }
                }
            }
        }
        if ir > 0 {
            // the IR command queue of each logged meta-block: first allocation, doublings, release
            let mut groups: Vec<(Vec<usize>, u64, u64)> = vec![];
            let (mut cur, mut pending): (Option<u64>, Option<u64>) = (None, None);
            let mut g: (Vec<usize>, u64, u64) = (vec![], 0, 0);
            for e in self.led.events_from(e0).iter().filter(|e| e.ty.contains("interface::Command<")) {
                match e.kind {
                    'A' => { if cur.is_none() { g = (vec![e.len], 1, 0); cur = Some(e.bid); } else { g.0.push(e.len); g.1 += 1; pending = Some(e.bid); } }
                    'F' => { g.2 += 1; if pending.is_some() && Some(e.bid) == cur { cur = pending.take(); } else if Some(e.bid) == cur { groups.push(g.clone()); cur = None; } else { g.2 += 1000; } }
                    _ => { g.2 += 100000; }
                }
            }
            if groups.len() == pushes.len() && cur.is_none() {
                for (gr, p) in groups.iter().zip(pushes.iter()) {
                    if self.cq.len() < 6 { self.cq.push((format!("ledger cq {} {}", gr.0[0], p), format!("a={} f={} live=0 caps={} loc={} ok=1", gr.1, gr.2, gr.0.iter().map(|x| x.to_string()).collect::<Vec<_>>().join("+"), p))); }
                }
            } else { self.cq_unpaired += 1; }
        }
        (r, io, oo)
    }
    fn take_output(&mut self, max: usize) -> usize { let mut sz = max; self.s.take_output(&mut sz).len().min(sz) }
    fn observe(&mut self) -> Obs {
        let mut fields = snapshot(&self.s);
        hasher_blocks(&self.ext, 7, &mut fields);
        let (a, f, x, _d) = self.led.counts();
        let dropped = self.led.dropped_since(self.ev0);
        self.ev0 = self.led.events_len();
        // a block dropped without free_cell left the allocator's books through CBlock::drop; for the
        // outstanding count it is still owed to the allocator, so it is NOT added to `frees`
        Obs { fields, live: self.led.live_view(), allocs: a, frees: f, foreign: x / 2, dropped, ss: self.s.storage_size_, ca: self.s.cmd_alloc_size_ }
    }
    fn finished(&self) -> bool { self.s.is_finished() }
}
pub struct FfiInst { pub st: *mut brotli::ffi::compressor::BrotliEncoderState, pub ses: FfiSession, last: (usize, usize) }
impl FfiInst {
    pub fn new() -> FfiInst {
        let ses = FfiSession::new(1);
        let st = unsafe { brotli::ffi::compressor::BrotliEncoderCreateInstance(Some(ffi_alloc), Some(ffi_free), ses.opaque(0)) };
        FfiInst { st, ses, last: (0, 0) }
    }
    pub fn destroy(&mut self) { unsafe { brotli::ffi::compressor::BrotliEncoderDestroyInstance(self.st) }; self.st = core::ptr::null_mut(); }
}
fn ffi_op(op: u32) -> brotli::ffi::compressor::BrotliEncoderOperation {
    use brotli::ffi::compressor::BrotliEncoderOperation as O;
    match op { 0 => O::BROTLI_OPERATION_PROCESS, 1 => O::BROTLI_OPERATION_FLUSH, 2 => O::BROTLI_OPERATION_FINISH, _ => O::BROTLI_OPERATION_EMIT_METADATA }
}
impl Inst for FfiInst {
    fn set_param(&mut self, p: BrotliEncoderParameter, v: u32) { unsafe { brotli::ffi::compressor::BrotliEncoderSetParameter(self.st, p, v) }; }
    fn set_dict(&mut self, d: &[u8]) { unsafe { brotli::ffi::compressor::BrotliEncoderSetCustomDictionary(self.st, d.len(), d.as_ptr()) }; }
    fn compress(&mut self, op: u32, input: &[u8], out_cap: usize) -> (bool, usize, usize) {
        let mut out = vec![0u8; out_cap.max(1)];
        let (mut ai, mut ao) = (input.len(), out_cap);
        let mut ip = input.as_ptr();
        let mut opp = out.as_mut_ptr();
        let mut total = 0usize;
        let r = unsafe { brotli::ffi::compressor::BrotliEncoderCompressStream(self.st, ffi_op(op), &mut ai, &mut ip, &mut ao, &mut opp, &mut total) };
        (r == 1, input.len() - ai, out_cap - ao)
    }
    fn take_output(&mut self, max: usize) -> usize { let mut sz = max; unsafe { brotli::ffi::compressor::BrotliEncoderTakeOutput(self.st, &mut sz) }; sz }
    fn observe(&mut self) -> Obs {
        let mut fields = vec![];
        let (mut ss, mut ca) = self.last; // cleanup does not reset storage_size_ / cmd_alloc_size_
        if !self.st.is_null() {
            let c = unsafe { &(*self.st).compressor };
            fields = snapshot(c);
            ss = c.storage_size_;
            ca = c.cmd_alloc_size_;
            self.last = (ss, ca);
            fields.push(FB { slot: 8, ptr: self.st as usize, bytes: core::mem::size_of::<brotli::ffi::compressor::BrotliEncoderState>(), len: 1 });
        }
        let g = self.ses.st.lock().unwrap();
        let (a, f) = (g.n_alloc, g.n_free);
        drop(g);
        Obs { fields, live: self.ses.live_view(), allocs: a, frees: f, foreign: 0, dropped: vec![], ss, ca }
    }
    fn finished(&self) -> bool { unsafe { brotli::ffi::compressor::BrotliEncoderIsFinished(self.st) == 1 } }
}

pub fn gen_input(r: &mut Rng, n: usize) -> Vec<u8> {
    let mut v = Vec::with_capacity(n + 16);
    match r.below(6) {
        5 => {
            // Fibonacci-skewed byte histogram (k = 16..24 symbols, counts ~ F(i)): the optimal prefix code is deeper than
            // the 14/15-bit limits, so BrotliBuildAndStoreHuffmanTreeFast / BrotliCreateHuffmanTree take their
            // count_limit retry paths (scratch tree re-use / re-allocation on every attempt); shuffled, not sorted,
            // so that literals stay literals
            let k = 16 + r.below(9) as usize;
            let mut w: Vec<u64> = vec![1, 1];
            while w.len() < k { let l = w.len(); w.push(w[l - 1] + w[l - 2]); }
            let total: u64 = w.iter().sum();
            let base = r.next() as u8;
            while v.len() < n { let mut x = r.below(total); let mut s = 0usize; while x >= w[s] { x -= w[s]; s += 1; } v.push(base.wrapping_add((s as u8).wrapping_mul(7))); }
        }
        0 => { while v.len() < n { v.push(r.next() as u8); } }                      // incompressible
        1 => { v.resize(n, 0); }                                                    // zeros
        2 => { let w = 1 + r.below(300) as usize; let pat: Vec<u8> = (0..w).map(|_| r.next() as u8).collect(); while v.len() < n { v.extend_from_slice(&pat); } } // periodic
        _ => { let words: [&[u8]; 10] = [b"the ", b"quick ", b"brown ", b"fox ", b"jumps ", b"over ", b"a ", b"lazy ", b"dog. ", b"\n"]; while v.len() < n { v.extend_from_slice(words[r.below(10) as usize]); if r.chance(1, 40) { v.push(r.next() as u8); } } }
    }
    v.truncate(n);
    v
}

#[derive(Clone, Debug)]
pub struct Cfg { pub q: u32, pub lgwin: u32, pub catable: bool, pub appendable: bool, pub magic: bool, pub log_mb: bool, pub large: bool, pub size_hint: u32, pub lgblock: u32, pub dict: usize, pub prehash: bool, pub middict: bool, pub favor: bool, pub ir: [u32; 4] }
impl Cfg {
    pub fn gen(r: &mut Rng, thorough: bool) -> Cfg {
        let q = if r.chance(1, 3) { *r.pick(&[0u32, 1, 1, 10, 11]) } else { r.below(12) as u32 };
        let mut lgwin = match r.below(10) { 0 => 10, 1 => 22, 2 | 3 => 17 + r.below(2) as u32, _ => 10 + r.below(10) as u32 };
        if q >= 10 && lgwin > 18 && !thorough { lgwin = 18; }
        let dict = if r.chance(1, 3) { *r.pick(&[1usize, 2, 17, 500, 5000, 70000]) } else { 0 };
        Cfg { q, lgwin, catable: r.chance(1, 5), appendable: r.chance(1, 5), magic: r.chance(1, 8), log_mb: r.chance(1, 6), large: r.chance(1, 16), size_hint: if r.chance(1, 4) { *r.pick(&[1u32, 1000, 1 << 20, 1 << 22]) } else { 0 }, lgblock: if r.chance(1, 6) { 16 + r.below(9) as u32 } else { 0 }, dict, prehash: dict > 0 && r.chance(1, 3), middict: r.chance(1, 24), favor: r.chance(1, 2), ir: [0; 4] }.with_ir(r)
    }
    /// analysis passes of the IR logger (each has its own temporaries): stride detection, high-entropy
    /// detection, CDF adaptation detection, prior bitmask detection — only meaningful with log_mb
    fn with_ir(mut self, r: &mut Rng) -> Cfg {
        if self.log_mb && r.chance(1, 2) { self.ir = [r.below(4) as u32, r.below(2) as u32, r.below(3) as u32, r.below(2) as u32]; }
        self
    }
    pub fn apply<I: Inst>(&self, i: &mut I) {
        use BrotliEncoderParameter::*;
        i.set_param(BROTLI_PARAM_QUALITY, self.q);
        i.set_param(BROTLI_PARAM_LGWIN, self.lgwin);
        if self.lgblock != 0 { i.set_param(BROTLI_PARAM_LGBLOCK, self.lgblock); }
        if self.catable { i.set_param(BROTLI_PARAM_CATABLE, 1); }
        if self.appendable { i.set_param(BROTLI_PARAM_APPENDABLE, 1); }
        if self.magic { i.set_param(BROTLI_PARAM_MAGIC_NUMBER, 1); }
        if self.log_mb { i.set_param(BROTLI_METABLOCK_CALLBACK, 1); }
        if self.ir[0] != 0 { i.set_param(BROTLI_PARAM_STRIDE_DETECTION_QUALITY, self.ir[0]); }
        if self.ir[1] != 0 { i.set_param(BROTLI_PARAM_HIGH_ENTROPY_DETECTION_QUALITY, self.ir[1]); }
        if self.ir[2] != 0 { i.set_param(BROTLI_PARAM_CDF_ADAPTATION_DETECTION, self.ir[2]); }
        if self.ir[3] != 0 { i.set_param(BROTLI_PARAM_PRIOR_BITMASK_DETECTION, self.ir[3]); }
        if self.large { i.set_param(BROTLI_PARAM_LARGE_WINDOW, 1); }
        if self.size_hint != 0 { i.set_param(BROTLI_PARAM_SIZE_HINT, self.size_hint); }
    }
    pub fn json(&self) -> String { format!("{{\"q\":{},\"lgwin\":{},\"catable\":{},\"appendable\":{},\"magic\":{},\"log_mb\":{},\"large\":{},\"size_hint\":{},\"lgblock\":{},\"dict\":{},\"prehash\":{},\"middict\":{},\"ir\":{:?}}}", self.q, self.lgwin, self.catable, self.appendable, self.magic, self.log_mb, self.large, self.size_hint, self.lgblock, self.dict, self.prehash, self.middict, self.ir) }
    pub fn budget(&self, thorough: bool) -> usize { let m = if thorough { 4 } else { 1 }; m * match self.q { 10 | 11 => 40_000, 5..=9 => 300_000, _ => 700_000 } }
}

struct Scn { toks: Vec<String>, ans: Vec<String>, calls: u64, failed: u64, grew: [u64; NSLOT], repl: [u64; NSLOT] }
fn record(t: &mut Tracker, name: &str, o: &Obs, sc: &mut Scn, rep: &mut Report, case: &str, allow_unref: Option<&str>) {
    let so = t.step(o);
    for (i, d) in so.tok.split(',').enumerate() { if i < NSLOT && d != "=" { sc.grew[i] += 1; if d.starts_with("FN") { sc.repl[i] += 1; } } }
    for (sig, what) in so.viol { rep.violation(&sig, &what, case.to_string()); }
    // an old field block that lost its reference without being freed
    let unref: Vec<usize> = so.tok.split(',').enumerate().filter(|(i, d)| *i < NSLOT && d.starts_with('D')).map(|x| x.0).collect();
    if !unref.is_empty() {
        match allow_unref { Some(sig) => rep.violation(sig, &format!("op {}: slot(s) {:?}: the old block(s) were overwritten or abandoned without free_cell", name, unref), case.to_string()), None => rep.violation("ledger:field-block-lost", &format!("op {}: slot(s) {:?} lost their block without free_cell", name, unref), case.to_string()) }
    }
    sc.toks.push(format!("{}:{}", name, so.tok));
    sc.ans.push(so.ans);
}

/// one streaming history; returns (request line, implementation answer)
fn run_history<I: Inst>(inst: &mut I, kind: &str, cfg: &Cfg, r: &mut Rng, thorough: bool, rep: &mut Report, case: &str, rust: Option<&mut dyn FnMut(&mut I, &str, &[u8])>) -> (Tracker, Scn, Vec<u8>) {
    let mut t = Tracker::new();
    let mut sc = Scn { toks: vec![], ans: vec![], calls: 0, failed: 0, grew: [0; NSLOT], repl: [0; NSLOT] };
    let mut rust = rust;
    let o = inst.observe();
    record(&mut t, "cr", &o, &mut sc, rep, case, None);
    cfg.apply(inst);
    let dict = gen_input(r, cfg.dict);
    if cfg.dict > 0 {
        if cfg.prehash && rust.is_some() {
            (rust.as_mut().unwrap())(inst, "mk", &[]);
            let o = inst.observe();
            record(&mut t, "mk", &o, &mut sc, rep, case, None);
            (rust.as_mut().unwrap())(inst, "sdh", &dict);
            let o = inst.observe();
            record(&mut t, "sdh", &o, &mut sc, rep, case, None);
        } else {
            inst.set_dict(&dict);
            let o = inst.observe();
            record(&mut t, "sd", &o, &mut sc, rep, case, None);
        }
    }
    let budget = cfg.budget(thorough);
    let total = match r.below(6) { 0 => 0, 1 => r.below(200) as usize, 2 => (1usize << 17) + r.below(70000) as usize, _ => r.below(budget as u64) as usize }.min(budget);
    let data = gen_input(r, total);
    let mut pos = 0usize;
    let ncalls = 1 + r.below(if thorough { 40 } else { 14 });
    let stop_early = r.chance(1, 3);
    let mut k = 0;
    while k < ncalls {
        k += 1;
        if cfg.middict && k == 2 {
            let d2 = gen_input(r, 300);
            inst.set_dict(&d2);
            let o = inst.observe();
            record(&mut t, "sd", &o, &mut sc, rep, case, Some("ledger:set-dict-drops-hasher"));
            rep.count("inst.set_dict_on_live_instance");
        }
        let left = data.len() - pos;
        let mut op = match r.below(10) { 0 | 1 => 1, 2 => 2, 3 => 3, _ => 0 };
        if k == ncalls && !stop_early { op = 2; }
        if op == 3 {
            // metadata: small body, ample room, repeat until consumed (bounded)
            let bl = r.below(40) as usize;
            let body = gen_input(r, bl);
            let mut off = 0;
            for _ in 0..6 {
                let (ok, c, _p) = inst.compress(3, &body[off..], 4096);
                sc.calls += 1;
                if !ok { sc.failed += 1; }
                off += c;
                let o = inst.observe();
                record(&mut t, "cs", &o, &mut sc, rep, case, None);
                if !ok || off >= body.len() { break; }
            }
            continue;
        }
        let chunk = if op == 2 && !r.chance(1, 4) { left } else { match r.below(8) { 0 => 0, 1 => 1 + r.below(100) as usize, 2 => (1 << 14) + r.below(3) as usize, 3 => (1 << 16) + r.below(3) as usize, 4 => (1 << 17) + r.below(5) as usize, _ => r.below(left as u64 + 1) as usize } }.min(left);
        let cap = match r.below(8) { 0 => 0, 1 => 1, 2 => 2 + r.below(20) as usize, 3 => 4096, _ => 2 * chunk + 1024 };
        let (ok, c, _p) = inst.compress(op, &data[pos..pos + chunk], cap);
        sc.calls += 1;
        if !ok { sc.failed += 1; rep.count("inst.call_returned_false"); }
        pos += c;
        let o = inst.observe();
        record(&mut t, "cs", &o, &mut sc, rep, case, None);
        if r.chance(1, 10) {
            inst.take_output(if r.chance(1, 2) { 0 } else { 1 + r.below(50) as usize });
            let o = inst.observe();
            record(&mut t, "cs", &o, &mut sc, rep, case, None);
        }
        if inst.finished() {
            rep.count("inst.finished");
            if r.chance(1, 3) {
                // a call after the end of the stream (with input it must fail, without it is a no-op)
                let extra = if r.chance(1, 2) { vec![1u8, 2, 3] } else { vec![] };
                let (ok, _c, _p) = inst.compress(r.below(3) as u32, &extra, 100);
                sc.calls += 1;
                if !ok { sc.failed += 1; rep.count("inst.call_after_finish_failed"); }
                let o = inst.observe();
                record(&mut t, "cs", &o, &mut sc, rep, case, None);
            }
            break;
        }
    }
    if !inst.finished() { rep.count("inst.destroyed_before_finish"); }
    (t, sc, data)
}

fn count_growth(sc: &Scn, rep: &mut Report, pfx: &str) {
    const N: [&str; NSLOT] = ["storage", "commands", "ring", "hasher", "table", "cbuf", "lbuf", "ext", "self"];
    for i in 0..NSLOT { if sc.grew[i] > 0 { rep.add(&format!("{}.slot_changed.{}", pfx, N[i]), sc.grew[i]); } if sc.repl[i] > 0 { rep.add(&format!("{}.slot_replaced_old_freed.{}", pfx, N[i]), sc.repl[i]); } }
}

fn rust_instance_case(seed: u64, thorough: bool) -> (Vec<(String, String)>, Report) {
    let mut rep = Report::default();
    let mut r = Rng::new(seed);
    let cfg = Cfg::gen(&mut r, thorough);
    let case = format!("{{\"engine\":\"ledger\",\"kind\":\"rust-inst\",\"seed\":{},\"cfg\":{}}}", seed, cfg.json());
    let mut lines = vec![];
    let res = std::panic::catch_unwind(std::panic::AssertUnwindSafe(|| {
        let mut inst = RustInst::new();
        inst.log_mb = cfg.log_mb;
        brotli::enc::encode::verif_stream_hook::set_book(true); // the bookkeeping log is off by default
        drop(brotli::enc::encode::verif_stream_hook::take_book()); // markers of an earlier case on this thread
        let mut hook = |i: &mut RustInst, what: &str, d: &[u8]| { if what == "mk" { i.make_ext_hasher(); } else { i.set_dict_with_ext(d); } };
        let (mut t, mut sc, _data) = run_history(&mut inst, "rust", &cfg, &mut r, thorough, &mut rep, &case, Some(&mut hook));
        inst.destroy();
        let o = inst.observe();
        record(&mut t, "cl", &o, &mut sc, &mut rep, &case, None);
        let led = inst.led.clone();
        let ir = inst.ir_calls;
        let mut cq = std::mem::take(&mut inst.cq);
        let skn = inst.sk_seen;
        cq.extend(std::mem::take(&mut inst.sk));
        if skn > 0 { rep.add("inst.rust.sk_wmbi_activations", skn); }
        if inst.zk_seen > 0 { rep.add("inst.rust.sk_zopfli_activations", inst.zk_seen); }
        let cqu = inst.cq_unpaired;
        brotli::enc::encode::verif_stream_hook::set_book(false);
        drop(brotli::enc::encode::verif_stream_hook::take_book());
        drop(inst);
        let (a, f, x, d) = led.counts();
        if led.live_count() != 0 || d != 0 {
            // blocks that were already reported as lost by a set-dict on a live instance are not reported twice
            let known = cfg.middict;
            if !known || led.live_count() != 0 { rep.violation("ledger:rust-inst-leak", &format!("after BrotliEncoderDestroyInstance + drop: {} live, {} dropped without free_cell (alloc {}, free {})", led.live_count(), d, a, f), case.clone()); }
        }
        if x != 0 { rep.violation("ledger:rust-inst-foreign", &format!("{} frees went through another allocator instance", x), case.clone()); }
        rep.evaluations += 1;
        if a > 0 && sc.calls > 0 { rep.nontrivial += 1; }
        rep.add("inst.rust.peak_mib_max_sum", (led.peak() >> 20) as u64);
        rep.add("inst.rust.calls", sc.calls);
        rep.add("inst.rust.allocs", a);
        if ir > 0 { rep.count("inst.rust.ir_callback_ran"); }
        if cfg.ir != [0; 4] { rep.count("inst.rust.ir_analysis_passes"); }
        rep.count(&format!("inst.rust.q{}", cfg.q));
        if cfg.dict > 0 { rep.count(if cfg.prehash { "inst.rust.dict_precomputed_hasher" } else { "inst.rust.dict" }); }
        count_growth(&sc, &mut rep, "inst.rust");
        (format!("ledger inst rust {} {}", cfg.q, sc.toks.join(" ")), sc.ans.join(" "), cq, cqu)
    }));
    match res { Ok((a, b, cq, cqu)) => { lines.push((a, b)); if cqu > 0 { rep.add("inst.rust.ir_queue_unpaired", cqu); } for l in cq { if l.0.starts_with("ledger sk ") { rep.count("inst.rust.sk_lines"); if l.0.split(' ').count() > 6 { rep.count("inst.rust.sk_lines_with_events"); } } else { if l.1.contains('+') { rep.count("inst.rust.ir_queue_grew"); } rep.count("inst.rust.ir_queue_lines"); } lines.push(l); } }, Err(_) => { rep.count("inst.rust.panic"); rep.violation("ledger:panic", "panic inside a streaming history (blocks held by the instance are lost)", case) } }
    (lines, rep)
}

fn ffi_instance_case(seed: u64, thorough: bool) -> (Vec<(String, String)>, Report) {
    let mut rep = Report::default();
    let mut r = Rng::new(seed);
    let mut cfg = Cfg::gen(&mut r, thorough);
    cfg.prehash = false;
    cfg.log_mb = false; // the C ABI has no callback
    let case = format!("{{\"engine\":\"ledger\",\"kind\":\"ffi-inst\",\"seed\":{},\"cfg\":{}}}", seed, cfg.json());
    let mut lines = vec![];
    let res = std::panic::catch_unwind(std::panic::AssertUnwindSafe(|| {
        let mut inst = FfiInst::new();
        let (mut t, mut sc, _data) = run_history(&mut inst, "ffi", &cfg, &mut r, thorough, &mut rep, &case, None);
        let before = inst.observe();
        let held = before.fields.iter().filter(|f| f.slot < 7).count();
        let held_bytes: usize = before.fields.iter().filter(|f| f.slot < 7).map(|f| f.bytes).sum();
        inst.destroy();
        let o = inst.observe();
        // the destroy function is where D9 shows: the tracker files unreferenced live blocks under the named defect
        record(&mut t, "fd", &o, &mut sc, &mut rep, &case, Some("ledger:ffi-destroy-leak"));
        let (live, bytes) = inst.ses.live();
        let g = inst.ses.st.lock().unwrap();
        let (a, f, bad) = (g.n_alloc, g.n_free, g.bad_free.clone());
        drop(g);
        for b in bad { rep.violation("ledger:ffi-bad-free", &b, case.clone()); }
        if live != 0 && held == 0 { rep.violation("ledger:ffi-inst-leak", &format!("{} blocks / {} bytes live after destroy although no field held a block", live, bytes), case.clone()); }
        rep.evaluations += 1;
        if a > 1 && sc.calls > 0 { rep.nontrivial += 1; }
        rep.add("inst.ffi.calls", sc.calls);
        rep.add("inst.ffi.allocs", a);
        rep.add("inst.ffi.bytes_never_freed", bytes as u64);
        let _ = (f, held_bytes);
        rep.count(&format!("inst.ffi.q{}", cfg.q));
        count_growth(&sc, &mut rep, "inst.ffi");
        inst.ses.reclaim();
        (format!("ledger inst ffi {} {}", cfg.q, sc.toks.join(" ")), sc.ans.join(" "))
    }));
    match res { Ok(l) => lines.push(l), Err(_) => { rep.count("inst.ffi.panic"); rep.violation("ledger:panic", "panic inside a C-ABI streaming history", case) } }
    (lines, rep)
}

// ---------------------------------------------------------------------------------------------
// opaque entry points: adapters, copy, one-shot, multi-threaded, C-ABI multi / work pool
// ---------------------------------------------------------------------------------------------

pub struct FaultyW { pub budget: usize, pub mode: u32, pub got: usize, pub max_per_call: usize }
impl std::io::Write for FaultyW {
    fn write(&mut self, b: &[u8]) -> std::io::Result<usize> {
        if self.got >= self.budget {
            match self.mode { 1 => return Err(std::io::Error::new(std::io::ErrorKind::Other, "injected write error")), 2 => return Ok(0), _ => {} }
        }
        let n = b.len().min(self.max_per_call.max(1));
        self.got += n;
        Ok(n)
    }
    fn flush(&mut self) -> std::io::Result<()> { if self.mode == 1 && self.got >= self.budget { Err(std::io::Error::new(std::io::ErrorKind::Other, "injected flush error")) } else { Ok(()) } }
}
pub struct FaultyR { pub data: Vec<u8>, pub pos: usize, pub fail_at: usize, pub max_per_call: usize, pub interrupted: bool }
impl std::io::Read for FaultyR {
    fn read(&mut self, b: &mut [u8]) -> std::io::Result<usize> {
        if self.pos >= self.fail_at { return Err(std::io::Error::new(std::io::ErrorKind::Other, "injected read error")); }
        let n = b.len().min(self.max_per_call.max(1)).min(self.data.len() - self.pos).min(self.fail_at - self.pos);
        b[..n].copy_from_slice(&self.data[self.pos..self.pos + n]);
        self.pos += n;
        Ok(n)
    }
}

/// judge a set of per-allocator ledgers after an entry point returned; returns the class token
fn judge(leds: &[Ledger], rep: &mut Report, sig_pfx: &str, case: &str, known_foreign: Option<&str>) -> String {
    let mut live = 0; let mut foreign = 0; let mut dropped = 0;
    for l in leds { let (_a, _f, x, d) = l.counts(); live += l.live_count(); foreign += x; dropped += d; }
    let foreign = foreign / 2; // recorded on both sides
    let mut cls = vec![];
    if live > 0 { cls.push("leak"); rep.violation(&format!("{}-leak", sig_pfx), &format!("{} block(s) still live after the entry point returned: {}", live, leds.iter().map(|l| format!("alloc{}:{:?}", l.id(), l.live_blocks().iter().map(|b| format!("{}x{}", tytag(b.1.ty), b.1.len)).collect::<Vec<_>>())).collect::<Vec<_>>().join(" ")), case.to_string()); }
    if dropped > 0 { cls.push("dropped"); rep.violation(&format!("{}-dropped", sig_pfx), &format!("{} block(s) dropped without free_cell", dropped), case.to_string()); }
    if foreign > 0 { cls.push("foreign"); rep.violation(known_foreign.unwrap_or(&format!("{}-foreign", sig_pfx)), &format!("{} block(s) were freed through an allocator instance that did not produce them", foreign), case.to_string()); }
    if cls.is_empty() { "clean".to_string() } else { cls.join("+") }
}
/// the event log of a set of ledgers as a request for the Lean spec-side judge
fn log_line(leds: &[Ledger]) -> Option<(String, String)> {
    let mut toks = vec![];
    let (mut out, mut foreign, mut dropped) = (0i64, 0u64, 0u64);
    let ids: Vec<u32> = leds.iter().map(|l| l.id()).collect();
    let norm = |x: u32| ids.iter().position(|y| *y == x).map(|p| p as u32).unwrap_or(1000 + x);
    for l in leds {
        let id = l.id();
        for e in l.events_from(0) {
            if e.origin != id || e.kind == 'B' { continue; }
            match e.kind { 'A' => { toks.push(format!("A{}.{}", norm(e.origin), e.bid)); out += 1; } 'F' => { toks.push(format!("F{}.{}.{}", norm(e.via), norm(e.origin), e.bid)); out -= 1; } 'X' => { toks.push(format!("F{}.{}.{}", norm(e.via), norm(e.origin), e.bid)); foreign += 1; out -= 1; } _ => { toks.push(format!("D{}.{}", norm(e.origin), e.bid)); dropped += 1; } }
        }
    }
    if toks.is_empty() || toks.len() > 4000 { return None; }
    // `out` counts blocks still owed to their allocator: never freed (dropped ones included)
    Some((format!("ledger log {}", toks.join(" ")), format!("owed={} foreign={} dropped={} double=0 unknown=0", out + foreign as i64, foreign, dropped)))
}

fn adapter_case(seed: u64, thorough: bool) -> (Vec<(String, String)>, Report) {
    use std::io::{Read, Write};
    let mut rep = Report::default();
    let mut r = Rng::new(seed);
    let q = if r.chance(1, 3) { *r.pick(&[0u32, 1, 10, 11]) } else { r.below(12) as u32 };
    let lgwin = 10 + r.below(if q >= 10 { 8 } else { 12 }) as u32;
    let which = r.below(3);
    let n = match r.below(5) { 0 => 0, 1 => r.below(100) as usize, _ => r.below(if q >= 10 { 30_000 } else { 200_000 }) as usize };
    let data = gen_input(&mut r, n);
    let bufsz = *r.pick(&[1usize, 2, 16, 300, 4096, 65536]);
    let wmode = r.below(4) as u32;
    let wbudget = if wmode == 0 { usize::MAX } else { r.below(n as u64 / 2 + 50) as usize };
    let fail_at = if r.chance(1, 3) { r.below(n as u64 + 1) as usize } else { usize::MAX };
    let fin = r.below(3); // 0 drop, 1 into_inner, 2 drop early
    let case = format!("{{\"engine\":\"ledger\",\"kind\":\"adapter\",\"seed\":{},\"which\":{},\"q\":{},\"lgwin\":{},\"n\":{},\"bufsz\":{},\"wmode\":{},\"wbudget\":{},\"fail_at\":{},\"fin\":{}}}", seed, which, q, lgwin, n, bufsz, wmode, wbudget as u64, fail_at as u64, fin);
    let (alloc, led) = CAlloc::new();
    let mut io_err = false;
    let name;
    let res = std::panic::catch_unwind(std::panic::AssertUnwindSafe(|| {
        match which {
            0 => {
                let w = FaultyW { budget: wbudget, mode: wmode, got: 0, max_per_call: *r.pick(&[1usize, 7, 1 << 20]) };
                let buf = alloc_stdlib::heap_alloc::WrapBox::<u8>::from(vec![0u8; bufsz]);
                let mut cw = brotli::enc::writer::CompressorWriterCustomAlloc::new(w, buf, alloc, q, lgwin);
                let mut pos = 0;
                let limit = if fin == 2 { r.below(n as u64 + 1) as usize } else { n };
                while pos < limit {
                    let c = (1 + r.below(70000) as usize).min(limit - pos);
                    if cw.write_all(&data[pos..pos + c]).is_err() { io_err = true; if r.chance(1, 2) { break; } }
                    pos += c;
                    if r.chance(1, 6) { if cw.flush().is_err() { io_err = true; } }
                }
                if fin == 1 { let _w = cw.into_inner(); } else { drop(cw); }
            }
            1 => {
                let rd = FaultyR { data: data.clone(), pos: 0, fail_at, max_per_call: *r.pick(&[1usize, 100, 1 << 20]), interrupted: false };
                let buf = alloc_stdlib::heap_alloc::WrapBox::<u8>::from(vec![0u8; bufsz]);
                let mut cr = brotli::enc::reader::CompressorReaderCustomAlloc::new(rd, buf, alloc, q, lgwin);
                let mut out = vec![0u8; 1 + r.below(9000) as usize];
                let maxreads = if fin == 2 { r.below(6) } else { 1_000_000 };
                let mut k = 0;
                while k < maxreads {
                    k += 1;
                    match cr.read(&mut out) { Ok(0) => break, Ok(_) => {}, Err(_) => { io_err = true; if r.chance(1, 2) { break; } if k > 50 { break; } } }
                }
                if fin == 1 { let _r = cr.into_inner(); } else { drop(cr); }
            }
            _ => {
                let mut rd = FaultyR { data: data.clone(), pos: 0, fail_at, max_per_call: *r.pick(&[1usize, 100, 1 << 20]), interrupted: false };
                // Ok(0) from the writer makes the copy loop spin (not this property): only error / short-write modes
                let mut w = FaultyW { budget: wbudget, mode: if wmode == 2 { 1 } else { wmode }, got: 0, max_per_call: *r.pick(&[1usize, 7, 1 << 20]) };
                let mut params = brotli::enc::BrotliEncoderParams::default();
                params.quality = q as i32;
                params.lgwin = lgwin as i32;
                params.log_meta_block = r.chance(1, 4);
                params.catable = r.chance(1, 6);
                let mut ib = vec![0u8; bufsz];
                let mut ob = vec![0u8; *r.pick(&[1usize, 64, 4096])];
                if r.chance(1, 3) {
                    let dl = 1 + r.below(3000) as usize;
                    let dict = gen_input(&mut r, dl);
                    let mut cb = |_a: &mut brotli::interface::PredictionModeContextMap<brotli::InputReferenceMut>, _b: &mut [brotli::interface::StaticCommand], _c: brotli::InputPair, _d: &mut CAlloc| ();
                    let res = brotli::BrotliCompressCustomIoCustomDict(&mut brotli::IoReaderWrapper(&mut rd), &mut brotli::IoWriterWrapper(&mut w), &mut ib, &mut ob, &params, alloc, &mut cb, &dict, std::io::Error::new(std::io::ErrorKind::UnexpectedEof, "eof"));
                    if res.is_err() { io_err = true; }
                } else {
                    let res = brotli::BrotliCompressCustomAlloc(&mut rd, &mut w, &mut ib, &mut ob, &params, alloc);
                    if res.is_err() { io_err = true; }
                }
            }
        }
    }));
    name = match which { 0 => if fin == 1 { "writer-into-inner" } else { "writer-drop" }, 1 => if fin == 1 { "reader-into-inner" } else { "reader-drop" }, _ => "copy" };
    rep.evaluations += 1;
    let (a, _f, _x, _d) = led.counts();
    if a > 0 { rep.nontrivial += 1; }
    rep.count(&format!("ep.{}{}", name, if io_err { ".io_error" } else { "" }));
    if fin == 2 && which < 2 { rep.count(&format!("ep.{}.early", name)); }
    let mut lines = vec![];
    if res.is_err() {
        rep.count("ep.adapter.panic");
        rep.violation("ledger:adapter-panic", &format!("{} panicked; {} block(s) live, counts {:?}", name, led.live_count(), led.counts()), case.clone());
    } else {
        let cls = judge(&[led.clone()], &mut rep, &format!("ledger:{}", name), &case, None);
        lines.push((format!("ledger ep {} q{} err{}", name, q, io_err as u32), cls));
        if let Some(l) = log_line(&[led]) { lines.push(l); }
    }
    let _ = thorough;
    (lines, rep)
}

fn oneshot_case(seed: u64, _thorough: bool) -> (Vec<(String, String)>, Report) {
    let mut rep = Report::default();
    let mut r = Rng::new(seed);
    let q = if r.chance(1, 4) { 10 } else { r.below(12) as i32 };
    let lgwin = 10 + r.below(if q >= 10 { 8 } else { 13 }) as i32;
    let n = match r.below(5) { 0 => 0, 1 => 1 + r.below(100) as usize, _ => 1 + r.below(if q >= 10 { 30_000 } else { 150_000 }) as usize };
    let data = gen_input(&mut r, n);
    let cap = match r.below(5) { 0 => 0, 1 => 1 + r.below(20) as usize, 2 => n / 2, _ => n + 1024 };
    let case = format!("{{\"engine\":\"ledger\",\"kind\":\"oneshot\",\"seed\":{},\"q\":{},\"lgwin\":{},\"n\":{},\"cap\":{}}}", seed, q, lgwin, n, cap);
    let (mut m8, l1) = CAlloc::new();
    let (empty, l2) = CAlloc::new();
    let mut out = vec![0u8; cap];
    let mut osz = cap;
    let res = std::panic::catch_unwind(std::panic::AssertUnwindSafe(|| {
        brotli::enc::encode::BrotliEncoderCompress(empty, &mut m8, q, lgwin, brotli::enc::backward_references::BrotliEncoderMode::BROTLI_MODE_GENERIC, n, &data, &mut osz, &mut out, &mut |_a, _b, _c, _d| ())
    }));
    rep.evaluations += 1;
    let early = cap == 0 || n == 0;
    if !early { rep.nontrivial += 1; }
    rep.count(&format!("ep.oneshot.q{}", q));
    let mut lines = vec![];
    match res {
        Err(_) => { rep.count("ep.oneshot.panic"); rep.violation("ledger:oneshot-panic", "one-shot panicked", case) }
        Ok(ret) => {
            if ret == 0 { rep.count("ep.oneshot.failed"); }
            let cls = judge(&[l1.clone(), l2.clone()], &mut rep, "ledger:oneshot", &case, if q == 10 { Some("ledger:oneshot-q10-foreign-free") } else { None });
            lines.push((format!("ledger ep oneshot q{} early{}", q, early as u32), cls));
            if let Some(l) = log_line(&[l1, l2]) { lines.push(l); }
        }
    }
    drop(m8);
    (lines, rep)
}

struct VecW(Vec<u8>);
impl SliceWrapper<u8> for VecW { fn slice(&self) -> &[u8] { &self.0 } }

fn multi_case(seed: u64, _thorough: bool) -> (Vec<(String, String)>, Report) {
    use brotli::enc::threading::{CompressMultiSlice, Owned, SendAlloc};
    let mut rep = Report::default();
    let mut r = Rng::new(seed);
    let t = if r.chance(1, 4) { *r.pick(&[1usize, 2, 15, 16]) } else { 1 + r.below(16) as usize };
    // a q7..q9 hasher is 8..32 MiB per thread and 16 cases run side by side: keep those for few threads
    let q = if t > 4 { *r.pick(&[0i32, 1, 2, 3, 4, 5, 5, 6]) } else if r.chance(1, 4) { *r.pick(&[0i32, 1, 10, 11]) } else { 2 + r.below(8) as i32 };
    let lgwin = 10 + r.below(if q >= 10 { 7 } else { 11 }) as i32;
    let n = match r.below(6) { 0 => 0, 1 => r.below(40) as usize, _ => r.below(if q >= 10 { 24_000 } else { 200_000 }) as usize };
    let data = gen_input(&mut r, n);
    let variant = r.below(5);
    let mut params = brotli::enc::BrotliEncoderParams::default();
    params.quality = q;
    params.lgwin = lgwin;
    params.favor_cpu_efficiency = r.chance(1, 2);
    params.magic_number = r.chance(1, 8);
    let full = brotli::enc::encode::BrotliEncoderMaxCompressedSizeMulti(n, t);
    let cap = match r.below(5) { 0 => r.below(full as u64 / 2 + 1) as usize, 1 => 0, _ => full };
    let case = format!("{{\"engine\":\"ledger\",\"kind\":\"multi\",\"seed\":{},\"variant\":{},\"threads\":{},\"q\":{},\"lgwin\":{},\"favor\":{},\"n\":{},\"cap\":{}}}", seed, variant, t, q, lgwin, params.favor_cpu_efficiency, n, cap);
    let mut leds = vec![];
    let mut out = vec![0u8; cap];
    let res = std::panic::catch_unwind(std::panic::AssertUnwindSafe(|| {
        macro_rules! allocs { () => { (0..t).map(|_| { let (a, l) = CAlloc::new(); leds.push(l); SendAlloc::new(a, UnionHasher::Uninit) }).collect::<Vec<_>>() } }
        match variant {
            0 => { let mut a = allocs!(); brotli::enc::compress_multi_no_threadpool(&params, &mut Owned::new(VecW(data.clone())), &mut out, &mut a[..]).is_ok() }
            1 => { let mut a = allocs!(); brotli::enc::compress_multi(&params, &mut Owned::new(VecW(data.clone())), &mut out, &mut a[..]).is_ok() }
            2 => { let mut a = allocs!(); let mut pool = brotli::enc::worker_pool::new_work_pool(t.saturating_sub(1).max(1)); let ok = brotli::enc::worker_pool::compress_worker_pool(&params, &mut Owned::new(VecW(data.clone())), &mut out, &mut a[..], &mut pool).is_ok(); drop(pool); ok }
            3 => { let mut a = allocs!(); CompressMultiSlice(&params, &data, &mut out, &mut a[..], &mut brotli::enc::multithreading::MultiThreadedSpawner::default()).is_ok() }
            _ => { let mut a = allocs!(); CompressMultiSlice(&params, &data, &mut out, &mut a[..], &mut brotli::enc::singlethreading::SingleThreadedSpawner::default()).is_ok() }
        }
    }));
    rep.evaluations += 1;
    rep.count(&format!("ep.multi.variant{}", variant));
    rep.count(&format!("ep.multi.threads{}", t));
    if params.favor_cpu_efficiency && t > 1 { rep.count("ep.multi.shared_hasher_cloned"); }
    let mut lines = vec![];
    match res {
        Err(_) => { rep.count("ep.multi.panic"); rep.violation("ledger:multi-panic", &format!("multi-threaded compression panicked; live blocks {}", leds.iter().map(|l| l.live_count()).sum::<usize>()), case) }
        Ok(ok) => {
            if !ok { rep.count("ep.multi.error_return"); }
            if leds.iter().all(|l| l.counts().0 > 0) { rep.nontrivial += 1; }
            let cls = judge(&leds, &mut rep, "ledger:multi", &case, None);
            lines.push((format!("ledger ep multi q{} t{} ok{}", q, t, ok as u32), cls));
            if let Some(l) = log_line(&leds) { lines.push(l); }
        }
    }
    (lines, rep)
}

fn ffi_multi_case(seed: u64, _thorough: bool) -> (Vec<(String, String)>, Report) {
    use brotli::ffi::multicompress::*;
    let mut rep = Report::default();
    let mut r = Rng::new(seed);
    let t = if r.chance(1, 3) { 1 } else { 1 + r.below(18) as usize };
    let q = if t > 4 { *r.pick(&[0u32, 1, 2, 3, 4, 5, 5, 6]) } else if r.chance(1, 4) { *r.pick(&[0u32, 1, 10, 11]) } else { 2 + r.below(8) as u32 };
    let lgwin = 10 + r.below(if q >= 10 { 7 } else { 11 }) as u32;
    let n = match r.below(6) { 0 => 0, 1 => r.below(40) as usize, _ => r.below(if q >= 10 { 24_000 } else { 150_000 }) as usize };
    let data = gen_input(&mut r, n);
    let pool = r.chance(1, 2);
    let same_opaque = r.chance(1, 4);
    let full = BrotliEncoderMaxCompressedSizeMulti(n, t.min(16));
    let cap = match r.below(5) { 0 => r.below(full as u64 / 2 + 1) as usize, _ => full };
    let case = format!("{{\"engine\":\"ledger\",\"kind\":\"ffi-multi\",\"seed\":{},\"threads\":{},\"q\":{},\"lgwin\":{},\"n\":{},\"cap\":{},\"pool\":{},\"same_opaque\":{}}}", seed, t, q, lgwin, n, cap, pool, same_opaque);
    let ses = FfiSession::new(t + 1);
    let keys = [BrotliEncoderParameter::BROTLI_PARAM_QUALITY, BrotliEncoderParameter::BROTLI_PARAM_LGWIN, BrotliEncoderParameter::BROTLI_PARAM_FAVOR_EFFICIENCY];
    let vals = [q, lgwin, r.below(2) as u32];
    let mut out = vec![0u8; cap.max(1)];
    let mut osz = cap;
    let mut ops: Vec<*mut c_void> = (0..t).map(|i| ses.opaque(if same_opaque { 0 } else { i })).collect();
    let ret = unsafe {
        if pool {
            let wp = BrotliEncoderCreateWorkPool(t.min(16), Some(ffi_alloc), Some(ffi_free), ses.opaque(t));
            let ret = BrotliEncoderCompressWorkPool(wp, 3, keys.as_ptr(), vals.as_ptr(), n, data.as_ptr(), &mut osz, out.as_mut_ptr(), t, Some(ffi_alloc), Some(ffi_free), ops.as_mut_ptr());
            BrotliEncoderDestroyWorkPool(wp);
            ret
        } else {
            BrotliEncoderCompressMulti(3, keys.as_ptr(), vals.as_ptr(), n, data.as_ptr(), &mut osz, out.as_mut_ptr(), t, Some(ffi_alloc), Some(ffi_free), ops.as_mut_ptr())
        }
    };
    rep.evaluations += 1;
    rep.nontrivial += 1;
    rep.count(if pool { "ep.ffi_workpool" } else { "ep.ffi_multi" });
    rep.count(&format!("ep.ffi_multi.threads{}", t.min(17)));
    if ret == 0 { rep.count("ep.ffi_multi.error_return"); }
    let (live, bytes) = ses.live();
    let g = ses.st.lock().unwrap();
    let bad = g.bad_free.clone();
    drop(g);
    for b in bad { rep.violation("ledger:ffi-bad-free", &b, case.clone()); }
    let single = t == 1 && !pool;
    if live > 0 {
        rep.add("ep.ffi_multi.bytes_never_freed", bytes as u64);
        rep.violation(if single { "ledger:ffi-multi1-leak" } else { "ledger:ffi-multi-leak" }, &format!("{} block(s) / {} bytes obtained through alloc_func were never passed to free_func", live, bytes), case.clone());
    }
    ses.reclaim();
    (vec![(format!("ledger ep {} q{} t{}", if pool { "ffi-pool" } else { "ffi-multi" }, q, t), if live > 0 { "leak".to_string() } else { "clean".to_string() })], rep)
}

// ---------------------------------------------------------------------------------------------
// IR-logging option structures (LogMetaBlock: StrideEval / PriorEval / EntropyTally / EntropyPyramid /
// ContextMapEntropy / CommandQueue) on inputs with many literal block types per meta-block
// ---------------------------------------------------------------------------------------------

/// piecewise i.i.d. input: segments of 0.6..12 KiB, each drawn uniformly from its own alphabet (2..64 symbols at a
/// random base, a few alphabets recur), so that the block splitters (greedy at quality 4..9, BrotliSplitBlock at 10/11)
/// cut the literals of one meta-block into many blocks of several types: the evaluators of the IR logger see a long
/// sequence of block switches (StrideEval doubles its score array from the 4th switch on)
pub fn gen_piecewise(r: &mut Rng, n: usize) -> Vec<u8> {
    let mut v = Vec::with_capacity(n + 16);
    if r.chance(1, 4) {
        // "many mutually incompatible distributions": 70-110 consecutive stretches, each random over its OWN
        // two-byte alphabet and never recurring, so that the first clustering pass of the slow block splitter
        // (quality 10/11) is left with more than 64 clusters and takes its re-allocation paths
        let stretches = 70 + r.below(41) as usize;
        let seg = (n / stretches).max(64);
        let mut k = 0usize;
        while v.len() < n {
            let a = (k * 2) as u8; let b = a.wrapping_add(1 + 2 * r.below(3) as u8);
            let bias = 2 + r.below(3);
            for _ in 0..seg { v.push(if r.below(bias) == 0 { b } else { a }); }
            k += 1;
        }
        v.truncate(n);
        return v;
    }
    let nalpha = 3 + r.below(6) as usize;
    let alphas: Vec<(u8, u64)> = (0..nalpha).map(|_| { let wide = r.chance(1, 3); (r.next() as u8, 2 + r.below(if wide { 63 } else { 14 })) }).collect();
    while v.len() < n {
        let (base, k) = alphas[r.below(nalpha as u64) as usize];
        let long = r.chance(1, 4);
        let seg = 600 + r.below(if long { 12000 } else { 3500 }) as usize;
        let stride = 1 + 2 * r.below(4) as u8;
        for _ in 0..seg { v.push(base.wrapping_add((r.below(k) as u8).wrapping_mul(stride))); }
    }
    v.truncate(n);
    v
}

/// one case of the IR-logging family: `idx` walks the option grid deterministically (stride_detection_quality
/// idx % 5, high_entropy_detection_quality (idx / 5) % 3, cdf_adaptation_detection (idx / 15) % 5 folded with the seed,
/// prior_bitmask_detection), quality 2..11, literal_adaptation set in 2 of 3 cases; entry point idx % 3:
/// streaming API (oracle after EVERY call), BrotliCompressCustomAlloc, BrotliCompressCustomIoCustomDict + callback
fn irlog_case(seed: u64, idx: u64, thorough: bool) -> (Vec<(String, String)>, Report) {
    let mut rep = Report::default();
    let mut r = Rng::new(seed);
    let stride = (idx % 5) as u32;
    let he = ((idx / 5) % 3) as u32;
    let cdf = ((idx / 15 + r.below(5)) % 5) as u32;
    let prior = ((idx / 3 + r.below(2)) % 2) as u32;
    let q = *r.pick(&[2u32, 3, 4, 5, 5, 6, 7, 8, 9, 9, 10, 11]);
    let lgwin = if q >= 10 { 16 + r.below(3) as u32 } else { 16 + r.below(7) as u32 };
    let n = if q >= 10 { (100usize << 10) + r.below(if thorough { 100 << 10 } else { 30 << 10 }) as usize } else { (100usize << 10) + r.below(300 << 10) as usize };
    let data = gen_piecewise(&mut r, n);
    let adapt: Option<[u32; 4]> = if r.chance(2, 3) { Some([*r.pick(&[1u32, 2, 4, 16, 64]), *r.pick(&[1024u32, 2048, 8192, 16384]), *r.pick(&[1u32, 2, 8, 32]), *r.pick(&[1024u32, 4096, 16384])]) } else { None };
    let which = idx % 3;
    let cfg = Cfg { q, lgwin, catable: false, appendable: false, magic: false, log_mb: true, large: false, size_hint: 0, lgblock: if r.chance(1, 4) { 18 + r.below(5) as u32 } else { 0 }, dict: 0, prehash: false, middict: false, favor: false, ir: [stride, he, cdf, prior] };
    let case = format!("{{\"engine\":\"ledger\",\"kind\":\"irlog\",\"seed\":{},\"idx\":{},\"entry\":{},\"n\":{},\"adapt\":{:?},\"cfg\":{}}}", seed, idx, which, n, adapt.map(|a| a.to_vec()).unwrap_or_default(), cfg.json());
    rep.count(&format!("irlog.stride_detection_quality{}", stride));
    rep.count(&format!("irlog.high_entropy_detection_quality{}", he));
    rep.count(&format!("irlog.cdf_adaptation_detection{}", cdf));
    rep.count(&format!("irlog.prior_bitmask_detection{}", prior));
    rep.count(&format!("irlog.q{}", q));
    rep.count(["irlog.entry.stream", "irlog.entry.custom_alloc", "irlog.entry.custom_io_callback"][which as usize]);
    if adapt.is_some() { rep.count("irlog.literal_adaptation_set"); }
    let mut lines = vec![];
    // growth of StrideEval::score: an f32 block of 64 << k elements (it starts at 32 and doubles)
    let grew = |evs: &[Ev]| evs.iter().filter(|e| e.kind == 'A' && e.ty == "f32" && e.len >= 64 && e.len.is_power_of_two()).count() as u64;
    if which == 0 {
        let res = std::panic::catch_unwind(std::panic::AssertUnwindSafe(|| {
            let mut inst = RustInst::new();
            inst.log_mb = true;
            brotli::enc::encode::verif_stream_hook::set_book(true);
            drop(brotli::enc::encode::verif_stream_hook::take_book());
            let mut t = Tracker::new();
            let mut sc = Scn { toks: vec![], ans: vec![], calls: 0, failed: 0, grew: [0; NSLOT], repl: [0; NSLOT] };
            let o = inst.observe();
            record(&mut t, "cr", &o, &mut sc, &mut rep, &case, None);
            cfg.apply(&mut inst);
            if let Some(a) = adapt {
                use BrotliEncoderParameter::*;
                inst.set_param(BROTLI_PARAM_SPEED, a[0]); inst.set_param(BROTLI_PARAM_SPEED_MAX, a[1]);
                inst.set_param(BROTLI_PARAM_CM_SPEED, a[2]); inst.set_param(BROTLI_PARAM_CM_SPEED_MAX, a[3]);
            }
            // 1..4 calls: PROCESS / FLUSH chunks, then FINISH with the rest
            let ncalls = 1 + r.below(4) as usize;
            let mut pos = 0usize;
            for k in 0..ncalls {
                let last = k + 1 == ncalls;
                let chunk = if last { data.len() - pos } else { (data.len() - pos) / (ncalls - k) };
                let op = if last { 2 } else if r.chance(1, 3) { 1 } else { 0 };
                let mut guard = 0;
                let end = pos + chunk;
                loop {
                    let (ok, c, _p) = inst.compress(op, &data[pos..end], 2 * chunk + 4096);
                    sc.calls += 1;
                    pos += c;
                    let o = inst.observe();
                    record(&mut t, "cs", &o, &mut sc, &mut rep, &case, None);
                    guard += 1;
                    if !ok { sc.failed += 1; break; }
                    if pos >= end || guard > 8 { break; }
                }
            }
            let fin = inst.finished();
            let g = grew(&inst.led.events_from(0));
            inst.destroy();
            let o = inst.observe();
            record(&mut t, "cl", &o, &mut sc, &mut rep, &case, None);
            let led = inst.led.clone();
            let ir = inst.ir_calls;
            let mut extra = std::mem::take(&mut inst.cq);
            extra.extend(std::mem::take(&mut inst.sk));
            brotli::enc::encode::verif_stream_hook::set_book(false);
            drop(brotli::enc::encode::verif_stream_hook::take_book());
            drop(inst);
            let (a, f, x, d) = led.counts();
            if led.live_count() != 0 || d != 0 { rep.violation("ledger:rust-inst-leak", &format!("IR-logging stream: after BrotliEncoderDestroyInstance + drop: {} live, {} dropped without free_cell (alloc {}, free {})", led.live_count(), d, a, f), case.clone()); }
            if x != 0 { rep.violation("ledger:rust-inst-foreign", &format!("{} frees went through another allocator instance", x), case.clone()); }
            (format!("ledger inst rust {} {}", cfg.q, sc.toks.join(" ")), sc.ans.join(" "), extra, ir, g, fin, sc.failed)
        }));
        rep.evaluations += 1;
        match res {
            Ok((a, b, extra, ir, g, fin, failed)) => {
                if a.len() < 60000 { lines.push((a, b)); }
                for l in extra.into_iter().take(4) { lines.push(l); }
                if ir > 0 { rep.nontrivial += 1; rep.add("irlog.meta_blocks_logged", ir); }
                if g > 0 { rep.count("irlog.stride_score_grew.cases"); rep.add("irlog.stride_score_grew.doublings", g); }
                if !fin || failed > 0 { rep.count("irlog.stream_not_finished"); }
            }
            Err(_) => { rep.count("irlog.panic"); rep.violation("ledger:panic", "panic inside an IR-logging streaming history", case.clone()); }
        }
    } else {
        let (alloc, led) = CAlloc::new();
        let mut params = brotli::enc::BrotliEncoderParams::default();
        params.quality = q as i32;
        params.lgwin = lgwin as i32;
        if cfg.lgblock != 0 { params.lgblock = cfg.lgblock as i32; }
        params.log_meta_block = true;
        params.stride_detection_quality = stride as u8;
        params.high_entropy_detection_quality = he as u8;
        params.cdf_adaptation_detection = cdf as u8;
        params.prior_bitmask_detection = prior as u8;
        if let Some(a) = adapt { params.literal_adaptation = [(a[0] as u16, a[1] as u16), (a[0] as u16, a[1] as u16), (a[2] as u16, a[3] as u16), (a[2] as u16, a[3] as u16)]; }
        let mut ir = 0u64;
        let res = std::panic::catch_unwind(std::panic::AssertUnwindSafe(|| {
            let mut rd = FaultyR { data: data.clone(), pos: 0, fail_at: usize::MAX, max_per_call: *r.pick(&[4096usize, 1 << 16, 1 << 20]), interrupted: false };
            let mut w = FaultyW { budget: usize::MAX, mode: 0, got: 0, max_per_call: 1 << 20 };
            let mut ib = vec![0u8; *r.pick(&[4096usize, 65536, 1 << 18])];
            let mut ob = vec![0u8; *r.pick(&[4096usize, 65536])];
            if which == 1 {
                brotli::BrotliCompressCustomAlloc(&mut rd, &mut w, &mut ib, &mut ob, &params, alloc).is_ok()
            } else {
                let mut cb = |_a: &mut brotli::interface::PredictionModeContextMap<brotli::InputReferenceMut>, _b: &mut [brotli::interface::StaticCommand], _c: brotli::InputPair, _d: &mut CAlloc| { ir += 1; };
                brotli::BrotliCompressCustomIoCustomDict(&mut brotli::IoReaderWrapper(&mut rd), &mut brotli::IoWriterWrapper(&mut w), &mut ib, &mut ob, &params, alloc, &mut cb, &[], std::io::Error::new(std::io::ErrorKind::UnexpectedEof, "eof")).is_ok()
            }
        }));
        rep.evaluations += 1;
        let (a, _f, _x, _d) = led.counts();
        if a > 0 { rep.nontrivial += 1; }
        if ir > 0 { rep.add("irlog.meta_blocks_logged", ir); }
        let g = grew(&led.events_from(0));
        if g > 0 { rep.count("irlog.stride_score_grew.cases"); rep.add("irlog.stride_score_grew.doublings", g); }
        match res {
            Err(_) => { rep.count("irlog.panic"); rep.violation("ledger:adapter-panic", &format!("IR-logging copy function panicked; {} block(s) live, counts {:?}", led.live_count(), led.counts()), case.clone()); }
            Ok(ok) => {
                if !ok { rep.count("irlog.copy_returned_error"); }
                let cls = judge(&[led.clone()], &mut rep, "ledger:copy", &case, None);
                lines.push((format!("ledger ep copy q{} err0", q), cls));
                if let Some(l) = log_line(&[led]) { lines.push(l); }
            }
        }
    }
    (lines, rep)
}

// ---------------------------------------------------------------------------------------------
// default allocator of the C ABI (alloc_func = NULL): observed through a counting #[global_allocator]
// ---------------------------------------------------------------------------------------------
// The wrapper is a pass-through to `System` for every engine; it only counts while `G_ON` is set, and that
// happens only in the child processes this engine spawns (`bvh ledger gchild <seed> <n>`), because the
// counter is process-global.

pub struct CountingGlobal;
static G_ON: std::sync::atomic::AtomicBool = std::sync::atomic::AtomicBool::new(false);
static G_BLOCKS: std::sync::atomic::AtomicI64 = std::sync::atomic::AtomicI64::new(0);
static G_BYTES: std::sync::atomic::AtomicI64 = std::sync::atomic::AtomicI64::new(0);
unsafe impl std::alloc::GlobalAlloc for CountingGlobal {
    unsafe fn alloc(&self, l: std::alloc::Layout) -> *mut u8 {
        let p = std::alloc::System.alloc(l);
        if G_ON.load(Ordering::Relaxed) && !p.is_null() { G_BLOCKS.fetch_add(1, Ordering::Relaxed); G_BYTES.fetch_add(l.size() as i64, Ordering::Relaxed); }
        p
    }
    unsafe fn alloc_zeroed(&self, l: std::alloc::Layout) -> *mut u8 {
        let p = std::alloc::System.alloc_zeroed(l);
        if G_ON.load(Ordering::Relaxed) && !p.is_null() { G_BLOCKS.fetch_add(1, Ordering::Relaxed); G_BYTES.fetch_add(l.size() as i64, Ordering::Relaxed); }
        p
    }
    unsafe fn dealloc(&self, p: *mut u8, l: std::alloc::Layout) {
        if G_ON.load(Ordering::Relaxed) { G_BLOCKS.fetch_sub(1, Ordering::Relaxed); G_BYTES.fetch_sub(l.size() as i64, Ordering::Relaxed); }
        std::alloc::System.dealloc(p, l)
    }
    unsafe fn realloc(&self, p: *mut u8, l: std::alloc::Layout, n: usize) -> *mut u8 {
        let q = std::alloc::System.realloc(p, l, n);
        if G_ON.load(Ordering::Relaxed) && !q.is_null() { G_BYTES.fetch_add(n as i64 - l.size() as i64, Ordering::Relaxed); }
        q
    }
}
#[global_allocator]
static GLOBAL: CountingGlobal = CountingGlobal;
fn g_now() -> (i64, i64) { (G_BLOCKS.load(Ordering::SeqCst), G_BYTES.load(Ordering::SeqCst)) }

/// one scenario on the default allocator; everything the harness itself needs is allocated by the caller
fn gscenario(kind: u64, q: u32, lgwin: u32, t: usize, ncalls: usize, finish: bool, data: &[u8], out: &mut [u8], dict: &[u8]) {
    use brotli::ffi::compressor::*;
    use brotli::ffi::multicompress::*;
    match kind {
        0 => unsafe {
            // create / (dictionary) / stream / destroy — possibly before the stream is finished
            let st = BrotliEncoderCreateInstance(None, None, core::ptr::null_mut());
            BrotliEncoderSetParameter(st, BrotliEncoderParameter::BROTLI_PARAM_QUALITY, q);
            BrotliEncoderSetParameter(st, BrotliEncoderParameter::BROTLI_PARAM_LGWIN, lgwin);
            if !dict.is_empty() { BrotliEncoderSetCustomDictionary(st, dict.len(), dict.as_ptr()); }
            let step = data.len() / ncalls.max(1) + 1;
            let mut pos = 0usize;
            for k in 0..ncalls {
                let c = step.min(data.len() - pos);
                let last = k + 1 == ncalls;
                let mut avail_in = c;
                let mut next_in = data[pos..].as_ptr();
                let mut avail_out = out.len();
                let mut next_out = out.as_mut_ptr();
                let mut total = 0usize;
                BrotliEncoderCompressStream(st, if last && finish { BrotliEncoderOperation::BROTLI_OPERATION_FINISH } else if k % 2 == 1 { BrotliEncoderOperation::BROTLI_OPERATION_FLUSH } else { BrotliEncoderOperation::BROTLI_OPERATION_PROCESS }, &mut avail_in, &mut next_in, &mut avail_out, &mut next_out, &mut total);
                pos += c - avail_in;
            }
            BrotliEncoderDestroyInstance(st);
        },
        1 => unsafe {
            let mut osz = out.len();
            BrotliEncoderCompress(q as i32, lgwin as i32, BrotliEncoderMode::BROTLI_MODE_GENERIC, data.len(), data.as_ptr(), &mut osz, out.as_mut_ptr());
        },
        2 => unsafe {
            let keys = [BrotliEncoderParameter::BROTLI_PARAM_QUALITY, BrotliEncoderParameter::BROTLI_PARAM_LGWIN];
            let vals = [q, lgwin];
            let mut osz = out.len();
            BrotliEncoderCompressMulti(2, keys.as_ptr(), vals.as_ptr(), data.len(), data.as_ptr(), &mut osz, out.as_mut_ptr(), t, None, None, core::ptr::null_mut());
        },
        _ => unsafe {
            let keys = [BrotliEncoderParameter::BROTLI_PARAM_QUALITY, BrotliEncoderParameter::BROTLI_PARAM_LGWIN];
            let vals = [q, lgwin];
            let mut osz = out.len();
            let wp = BrotliEncoderCreateWorkPool(t, None, None, core::ptr::null_mut());
            BrotliEncoderCompressWorkPool(wp, 2, keys.as_ptr(), vals.as_ptr(), data.len(), data.as_ptr(), &mut osz, out.as_mut_ptr(), t, None, None, core::ptr::null_mut());
            BrotliEncoderDestroyWorkPool(wp);
        },
    }
}
/// child process: `bvh ledger gchild <seed> <n>`; prints one line `G kind q lgwin t ncalls finish n dict dblocks dbytes` per scenario
fn run_gchild(seed: u64, n: usize) {
    let mut r = Rng::new(seed ^ 0x6c0ba1);
    let mut scn = vec![];
    for i in 0..n {
        let kind = (i as u64) % 4;
        let q = if r.chance(1, 3) { *r.pick(&[0u32, 1, 10, 11]) } else { r.below(12) as u32 };
        let lgwin = 10 + r.below(if q >= 10 { 8 } else { 11 }) as u32;
        let t = 1 + r.below(4) as usize;
        let ncalls = 1 + r.below(4) as usize;
        let finish = !r.chance(1, 3);
        let len = if r.chance(1, 6) { 0 } else { r.below(if q >= 10 { 20000 } else { 120000 }) as usize };
        let dl = if kind == 0 && r.chance(1, 3) { 1 + r.below(3000) as usize } else { 0 };
        scn.push((kind, q, lgwin, t, ncalls, finish, gen_input(&mut r, len), gen_input(&mut r, dl)));
    }
    let mut out = vec![0u8; 400000];
    let mut lines: Vec<String> = Vec::with_capacity(n + 8);
    // the library prints "leaking memory block ..." through print!: let stdout allocate its buffer first
    println!("gchild start");
    G_ON.store(true, Ordering::SeqCst);
    // warm-up: lazily initialised process-wide state (thread-locals, the std runtime) is not a leak
    for s in scn.iter().take(4) { gscenario(s.0, s.1, s.2, s.3, s.4, s.5, &s.6, &mut out, &s.7); }
    drop(brotli::enc::encode::verif_stream_hook::take());
    for s in scn.iter() {
        let b0 = g_now();
        let res = std::panic::catch_unwind(std::panic::AssertUnwindSafe(|| gscenario(s.0, s.1, s.2, s.3, s.4, s.5, &s.6, &mut out, &s.7)));
        drop(brotli::enc::encode::verif_stream_hook::take()); // the verification hook's per-thread event log is not the library's
        let b1 = g_now();
        G_ON.store(false, Ordering::SeqCst);
        lines.push(format!("G {} {} {} {} {} {} {} {} {} {} {}", s.0, s.1, s.2, s.3, s.4, s.5 as u32, s.6.len(), s.7.len(), b1.0 - b0.0, b1.1 - b0.1, res.is_err() as u32));
        G_ON.store(true, Ordering::SeqCst);
    }
    G_ON.store(false, Ordering::SeqCst);
    for l in lines { println!("{}", l); }
}
/// parent side: spawn the children, turn their lines into evaluations / violations
fn run_gchildren(seed: u64, children: usize, n: usize, rep: &mut Report) {
    let exe = match std::env::current_exe() { Ok(e) => e, Err(_) => { rep.count("default_alloc.no_exe"); return; } };
    let hs: Vec<_> = (0..children).map(|c| std::process::Command::new(&exe).args(["ledger", "gchild", &format!("{}", seed.wrapping_add(c as u64 * 7919)), &format!("{}", n)]).output()).collect();
    const KN: [&str; 4] = ["create-stream-destroy", "oneshot", "multi", "workpool"];
    for (c, o) in hs.into_iter().enumerate() {
        let o = match o { Ok(o) => o, Err(_) => { rep.count("default_alloc.spawn_failed"); continue; } };
        let txt = String::from_utf8_lossy(&o.stdout);
        let mut seen = 0;
        for l in txt.lines() {
            if l.starts_with("leaking memory block") { rep.count("default_alloc.library_printed_leaking_memory_block"); }
            let f: Vec<&str> = l.split(' ').collect();
            if f.len() != 12 || f[0] != "G" { continue; }
            seen += 1;
            let kind: usize = f[1].parse().unwrap_or(0);
            let (db, dby): (i64, i64) = (f[9].parse().unwrap_or(0), f[10].parse().unwrap_or(0));
            rep.evaluations += 1;
            rep.nontrivial += 1;
            rep.count(&format!("default_alloc.{}", KN[kind.min(3)]));
            if f[6] == "0" && kind == 0 { rep.count("default_alloc.destroyed_before_finish"); }
            let case = format!("{{\"engine\":\"ledger\",\"kind\":\"default-alloc\",\"child_seed\":{},\"scenario\":\"{}\",\"q\":{},\"lgwin\":{},\"threads\":{},\"calls\":{},\"finish\":{},\"n\":{},\"dict\":{}}}", seed.wrapping_add(c as u64 * 7919), KN[kind.min(3)], f[2], f[3], f[4], f[5], f[6], f[7], f[8]);
            if f[11] == "1" { rep.violation("ledger:default-alloc-panic", "panic escaped a C-ABI call on the default allocator", case.clone()); }
            if db != 0 || dby != 0 { rep.violation(&format!("ledger:default-alloc-leak:{}", KN[kind.min(3)]), &format!("process heap after the call differs from before: {} blocks, {} bytes (C ABI with alloc_func = NULL)", db, dby), case); }
        }
        if seen != n { rep.count("default_alloc.child_incomplete"); rep.violation("ledger:default-alloc-child", &format!("child reported {} of {} scenarios (exit {:?})", seen, n, o.status.code()), format!("{{\"engine\":\"ledger\",\"kind\":\"default-alloc\",\"child_seed\":{}}}", seed.wrapping_add(c as u64 * 7919))); }
    }
}

pub fn run_cmd(args: &Args) {
    if args.rest.first().map(|s| s.as_str()) == Some("d9") { run_d9(); return; }
    if args.rest.first().map(|s| s.as_str()) == Some("gchild") {
        run_gchild(args.rest.get(1).and_then(|x| x.parse().ok()).unwrap_or(1), args.rest.get(2).and_then(|x| x.parse().ok()).unwrap_or(16));
        return;
    }
    let thorough = args.tier == "thorough";
    let seed = args.seed;
    let mut corr = Corr::new(&args.out);
    let mut rep = Report::default();
    // regression corpus first: the minimal reproductions of the defects found with this engine
    for (q, w) in [(5u32, 22u32), (11, 18), (0, 18), (1, 18)] {
        let (cnt, bytes, _na, _nf) = d9_ffi_stream(q, w, 100000);
        rep.evaluations += 1; rep.nontrivial += 1; rep.count("corpus.ffi_destroy");
        if cnt != 0 { rep.violation("ledger:ffi-destroy-leak", &format!("corpus: create/stream/destroy q{} lgwin{}: {} blocks / {} bytes never freed", q, w, cnt, bytes), format!("{{\"engine\":\"ledger\",\"kind\":\"corpus-ffi-destroy\",\"q\":{},\"lgwin\":{}}}", q, w)); }
    }
    {
        let (cnt, bytes, _na, _nf) = d9_ffi_multi1(5, 18, 100000);
        rep.evaluations += 1; rep.nontrivial += 1; rep.count("corpus.ffi_multi1");
        if cnt != 0 { rep.violation("ledger:ffi-multi1-leak", &format!("corpus: 1-thread BrotliEncoderCompressMulti: {} blocks / {} bytes never freed", cnt, bytes), "{\"engine\":\"ledger\",\"kind\":\"corpus-ffi-multi1\"}".to_string()); }
        let s1 = d9_oneshot_q10();
        rep.evaluations += 1; rep.nontrivial += 1; rep.count("corpus.oneshot_q10");
        // "(alloc, free, foreign, dropped)" of both allocators: foreign must be 0 and nothing live
        let clean = s1.matches(", 0, 0) live=0").count() == 2;
        if !clean { rep.violation("ledger:oneshot-q10-foreign-free", &format!("corpus: {}", s1), "{\"engine\":\"ledger\",\"kind\":\"corpus-oneshot-q10\"}".to_string()); }
        let s2 = d9_set_dict_twice();
        rep.evaluations += 1; rep.nontrivial += 1; rep.count("corpus.set_dict_twice");
        if !s2.ends_with("0, 0) live=0") { rep.violation("ledger:set-dict-drops-hasher", &format!("corpus: {}", s2), "{\"engine\":\"ledger\",\"kind\":\"corpus-set-dict-twice\"}".to_string()); }
        rep.sample(format!("corpus: oneshot q10: {} || set_dict twice: {}", s1, s2));
    }
    run_gchildren(seed, if thorough { 8 } else { 2 }, 40, &mut rep);
    let m = if thorough { 8 } else { 1 };
    let plan: Vec<(u64, usize)> = vec![(7, 90 * m), (1, 660 * m), (2, 360 * m), (3, 520 * m), (4, 240 * m), (5, 240 * m), (6, 160 * m)];
    let only: Option<u64> = if args.rest.first().map(|s| s.as_str()) == Some("only") { args.rest.get(1).and_then(|x| x.parse().ok()) } else { None };
    let mut tasks: Vec<(u64, u64)> = vec![];
    for (kind, n) in &plan { if only.is_some() && only != Some(*kind) { continue; } for i in 0..*n { tasks.push((*kind, i as u64)); } }
    // interleave kinds so that the heavy ones are spread over the threads
    let tasks = std::sync::Arc::new(tasks);
    let tk = tasks.clone();
    let results = par_tasks(tasks.len(), move |i| {
        let (kind, idx) = tk[i];
        let s = seed ^ (kind << 56) ^ (idx << 20) ^ 0x1ed9e5;
        let r = match kind { 1 => rust_instance_case(s, thorough), 2 => ffi_instance_case(s, thorough), 3 => adapter_case(s, thorough), 4 => oneshot_case(s, thorough), 5 => multi_case(s, thorough), 7 => irlog_case(s, idx, thorough), _ => ffi_multi_case(s, thorough) };
        drop(brotli::enc::encode::verif_stream_hook::take()); // per-thread event log of the stream hook
        r
    });
    for (lines, r) in results {
        for (a, b) in lines { if a.len() < 60000 { corr.case(&a, &b); } }
        rep.merge(r);
    }
    corr.finish();
    rep.write(&args.out);
}
