//! `bvh rs2lean <fn> <count> --seed N`: differential self-check of tools/rs2lean.py.
//!
//! For the named function, prints `<count>` lines `ARGS => RESULT` to stdout: ARGS are the Lean
//! arguments of the GENERATED definition (numbers, `[a, b]` lists, `(-3)` for negative integers,
//! `true`/`false`), RESULT the integers the REAL Rust function produced on them (booleans as 0/1,
//! `Option` as `0` / `1 v`).  tools/test_rs2lean.py evaluates the generated Lean definition on the same
//! arguments and compares.  A disagreement is a translator bug (or a wrong semantic assumption of
//! lean/BV/Model/RsPrelude.lean).
use crate::prng::Rng;
use crate::util::Args;
use brotli::concat::BroCatli;
use brotli::enc::backward_references::BrotliEncoderParams;
use brotli::enc::command::{self, BrotliDistanceParams, Command};
use brotli::enc::entropy_encode::{self, HuffmanTree};

fn li(v: i64) -> String {
    if v < 0 {
        format!("({})", v)
    } else {
        format!("{}", v)
    }
}
fn lst<T: std::fmt::Display>(v: &[T]) -> String {
    let parts: Vec<String> = v.iter().map(|x| format!("{}", x)).collect();
    format!("[{}]", parts.join(", "))
}
fn ints<T: std::fmt::Display>(v: &[T]) -> String {
    let parts: Vec<String> = v.iter().map(|x| format!("{}", x)).collect();
    parts.join(" ")
}

/// a value with a random number of significant bits (so that every magnitude is exercised)
fn mag(r: &mut Rng, maxbits: u64) -> u64 {
    let b = r.range(0, maxbits);
    if b == 0 {
        0
    } else if b == 64 {
        r.next()
    } else {
        r.next() & ((1u64 << b) - 1)
    }
}

fn dist_params(r: &mut Rng) -> (u32, u32, bool) {
    let npostfix = r.range(0, 3) as u32;
    let ndirect = (r.range(0, 15) as u32) << npostfix;
    (npostfix, ndirect, r.below(2) == 1)
}

fn one(name: &str, r: &mut Rng) -> Option<String> {
    Some(match name {
        "Log2FloorNonZero" => {
            let v = mag(r, 64).max(1);
            format!("{} => {}", v, brotli::enc::util::Log2FloorNonZero(v))
        }
        "GetInsertLengthCode" => {
            let v = mag(r, 26) as usize;
            format!("{} => {}", v, command::GetInsertLengthCode(v))
        }
        "GetCopyLengthCode" => {
            let v = (mag(r, 26) as usize).max(2);
            format!("{} => {}", v, command::GetCopyLengthCode(v))
        }
        "PrefixEncodeCopyDistance" => {
            let (np, nd, _) = dist_params(r);
            let dc = mag(r, 40) as usize;
            let (mut c, mut e) = (7u16, 9u32);
            command::PrefixEncodeCopyDistance(dc, nd as usize, np as u64, &mut c, &mut e);
            format!("{} {} {} 7 9 => {} {}", dc, nd, np, c, e)
        }
        "BrotliEncoderMaxCompressedSize" => {
            let v = mag(r, 64) as usize;
            format!("{} => {}", v, brotli::enc::encode::BrotliEncoderMaxCompressedSize(v))
        }
        "BROTLI_DISTANCE_ALPHABET_SIZE" => {
            let (a, b, c) = (r.range(0, 3) as u32, mag(r, 8) as u32, r.range(0, 62) as u32);
            format!("{} {} {} => {}", a, b, c, brotli::enc::encode::BROTLI_DISTANCE_ALPHABET_SIZE(a, b, c))
        }
        "SanitizeParams" => {
            let mut p = BrotliEncoderParams::default();
            p.quality = r.range(0, 40) as i32 - 10;
            p.lgwin = r.range(0, 50) as i32 - 5;
            p.large_window = r.below(2) == 1;
            p.catable = r.below(2) == 1;
            p.appendable = r.below(2) == 1;
            let a = format!("{} {} {} {} {}", li(p.quality as i64), li(p.lgwin as i64), p.large_window, p.catable, p.appendable);
            brotli::enc::encode::SanitizeParams(&mut p);
            format!("{} => {} {} {}", a, p.quality, p.lgwin, p.appendable as u8)
        }
        "BrotliInitDistanceParams" => {
            let (np, nd, large) = dist_params(r);
            let nd = if r.below(4) == 0 { r.range(0, 120) as u32 } else { nd };
            let mut p = BrotliEncoderParams::default();
            p.large_window = large;
            brotli::enc::metablock::BrotliInitDistanceParams(&mut p, np, nd);
            format!("{} {} {} => {} {} {} {}", large, np, nd, p.dist.distance_postfix_bits, p.dist.num_direct_distance_codes,
                p.dist.alphabet_size, p.dist.max_distance)
        }
        "Command_new" | "distance_index_and_offset" | "copy_len_code" | "restore_distance_code" => {
            let (np, nd, _) = dist_params(r);
            let dist = BrotliDistanceParams { distance_postfix_bits: np, num_direct_distance_codes: nd, alphabet_size: 0, max_distance: 0 };
            let insertlen = mag(r, 22) as usize;
            let copylen = (mag(r, 22) as usize).max(2);
            let delta = r.range(0, 18) as i64 - 9;
            let copylen_code = ((copylen as i64 + delta).max(2)) as usize;
            let distance_code = mag(r, 28) as usize;
            let c = Command::new(&dist, insertlen, copylen, copylen_code, distance_code);
            let a = format!("{} {} {} {} {} {}", np, nd, insertlen, copylen, copylen_code, distance_code);
            match name {
                "Command_new" => format!("{} => {} {} {} {} {}", a, c.insert_len_, c.copy_len_, c.dist_extra_, c.cmd_prefix_, c.dist_prefix_),
                "copy_len_code" => format!("{} => {}", a, brotli::enc::brotli_bit_stream::verif_hooks::copy_len_code(&c)),
                "restore_distance_code" => format!("{} => {}", a, c.restore_distance_code(&dist)),
                _ => {
                    let (i, o) = c.distance_index_and_offset(&dist);
                    format!("{} => {} {}", a, i, o)
                }
            }
        }
        "GetBlockLengthPrefixCode" => {
            let len = mag(r, 25) as u32;
            let (c, n, e) = brotli::enc::brotli_bit_stream::verif_hooks::block_length_prefix_code(len);
            format!("{} 0 0 0 => {} {} {}", len, c, n, e)
        }
        "encode_base_128" => {
            let v = mag(r, 64);
            let (n, b) = brotli::enc::brotli_bit_stream::verif_hooks::base_128(v);
            format!("{} => {} {}", v, n, ints(&b))
        }
        "BrotliConvertBitDepthsToSymbols" => {
            // a prefix-free set of depths (Kraft sum <= 1) so that the u16 code arithmetic stays in range
            let n = r.range(1, 40) as usize;
            let mut depth = vec![0u8; n];
            let mut budget: u32 = 1 << 15;
            for d in depth.iter_mut() {
                if r.below(4) == 0 {
                    continue;
                }
                let k = r.range(1, 15) as u8;
                let cost = 1u32 << (15 - k as u32);
                if cost <= budget {
                    budget -= cost;
                    *d = k;
                }
            }
            let mut bits = vec![0u16; n];
            entropy_encode::BrotliConvertBitDepthsToSymbols(&depth, n, &mut bits);
            format!("{} {} {} => {}", lst(&depth), n, lst(&vec![0u16; n]), ints(&bits))
        }
        "BrotliSetDepth" => {
            // a random binary tree with `leaves` leaves, built bottom-up like BrotliCreateHuffmanTree does
            let leaves = r.range(1, 12) as usize;
            let mut pool: Vec<HuffmanTree> = (0..leaves).map(|i| HuffmanTree::new(1, -1, i as i16)).collect();
            let mut roots: Vec<usize> = (0..leaves).collect();
            while roots.len() > 1 {
                let i = r.below(roots.len() as u64) as usize;
                let a = roots.swap_remove(i);
                let j = r.below(roots.len() as u64) as usize;
                let b = roots.swap_remove(j);
                pool.push(HuffmanTree::new(2, a as i16, b as i16));
                roots.push(pool.len() - 1);
            }
            let p0 = roots[0] as i32;
            let max_depth = r.range(0, 6) as i32;
            let mut depth = vec![0u8; leaves];
            let pl: Vec<String> = pool.iter().map(|t| format!("{{ total_count_ := {}, index_left_ := {}, index_right_or_value_ := {} }}",
                t.total_count_, li(t.index_left_ as i64), li(t.index_right_or_value_ as i64))).collect();
            let ok = entropy_encode::BrotliSetDepth(p0, &mut pool, &mut depth, max_depth);
            format!("{} [{}] {} {} => {} {}", p0, pl.join(", "), lst(&vec![0u8; leaves]), max_depth, ok as u8, ints(&depth))
        }
        "new_with_window_size" => {
            let w = r.range(10, 30) as u8;
            let bc = BroCatli::new_with_window_size(w);
            let mut buf = [0u8; 24];
            bc.serialize_to_buffer(&mut buf).unwrap();
            format!("{} => 1 {}", w, ints(&buf))
        }
        "deserialize_serialize" => {
            let mut buf = [0u8; 24];
            for b in buf.iter_mut() {
                *b = if r.below(3) == 0 { r.below(256) as u8 } else { r.below(6) as u8 };
            }
            let bc = BroCatli::deserialize_from_buffer(&buf).unwrap();
            let mut out = [0u8; 24];
            bc.serialize_to_buffer(&mut out).unwrap();
            format!("{} => 1 {}", lst(&buf), ints(&out))
        }
        "finish" => {
            // a state reached by new_with_window_size, finished into a buffer of random capacity
            let w = r.range(10, 30) as u8;
            let cap = r.range(0, 4) as usize;
            let mut bc = BroCatli::new_with_window_size(w);
            let mut out = vec![0u8; cap];
            let mut off = 0usize;
            let res = bc.finish(&mut out, &mut off) as u32;
            let mut buf = [0u8; 24];
            bc.serialize_to_buffer(&mut buf).unwrap();
            format!("{} {} => {} {} {} 1 {}", w, lst(&vec![0u8; cap]), res, off, ints(&out), ints(&buf))
        }
        "MakeUncompressedStream" => {
            let big = r.below(8) == 0;
            let n = if big { r.range(65530, 66000) as usize } else { r.range(0, 300) as usize };
            if big {
                // long inputs are given by a formula (a list literal of that size is too slow to elaborate) and
                // compared by length, header and a digest (the Lean side computes the same)
                let (a, b) = (r.range(1, 250), r.range(0, 250));
                let input: Vec<u8> = (0..n as u64).map(|i| ((i * a + b) % 251) as u8).collect();
                let mut out = vec![0u8; n + 16];
                let k = brotli::enc::encode::verif_make_uncompressed_stream(&input, &mut out);
                let s: u64 = out.iter().enumerate().fold(0u64, |acc, (i, x)| (acc + (i as u64 + 1) * (*x as u64)) % 1000003);
                format!("((List.range {}).map (fun i ↦ (i * {} + {}) % 251)) {} (List.replicate {} 0) => {} {} {}", n, a, b, n, n + 16, k, ints(&out[..8]), s)
            } else {
                let input: Vec<u8> = (0..n).map(|_| r.below(256) as u8).collect();
                let mut out = vec![0u8; n + 16];
                let k = brotli::enc::encode::verif_make_uncompressed_stream(&input, &mut out);
                format!("{} {} (List.replicate {} 0) => {} {}", lst(&input), n, n + 16, k, ints(&out))
            }
        }
        "FixedQueue" => {
            // a random push / pop sequence; the answers of every operation
            use brotli::enc::fixed_queue::FixedQueue;
            let mut q: FixedQueue<usize> = FixedQueue::new();
            let n = r.range(1, 60) as usize;
            let mut ops = Vec::new();
            let mut res = Vec::new();
            for _ in 0..n {
                if r.below(5) < 3 {
                    let v = r.below(1000) as usize;
                    ops.push(format!("{}", v + 1));
                    res.push(format!("{}", q.push(v).is_ok() as u8));
                } else {
                    ops.push("0".to_string());
                    match q.pop() {
                        Some(v) => res.push(format!("1 {}", v)),
                        None => res.push("0".to_string()),
                    }
                }
                res.push(format!("{} {}", q.size(), q.can_push() as u8));
            }
            format!("[{}] => {}", ops.join(", "), res.join(" "))
        }
        _ => return None,
    })
}

pub fn run_cmd(args: &Args) {
    let name = args.rest.first().cloned().unwrap_or_default();
    let count: usize = args.rest.get(1).and_then(|s| s.parse().ok()).unwrap_or(200);
    let mut r = Rng::new(args.seed ^ 0x7273326c65616e);
    for _ in 0..count {
        let line = std::panic::catch_unwind(std::panic::AssertUnwindSafe(|| one(&name, &mut r)));
        match line {
            Ok(Some(l)) => println!("{}", l),
            Ok(None) => {
                println!("unknown-function {}", name);
                return;
            }
            Err(_) => println!("panic"),
        }
    }
}
