//! First decoder oracle: brotli-decompressor (in-process, streaming API).
use brotli::{BrotliDecompressStream, BrotliResult, BrotliState};
use alloc_stdlib::StandardAlloc;
use brotli::HuffmanCode;

#[derive(Debug, PartialEq)]
pub enum DResult { Ok(Vec<u8>), Error(Vec<u8>), NeedsMoreInput(Vec<u8>), TooBig }

/// Streaming decode with an optional custom dictionary. Trailing bytes after the end of the
/// stream count as an error.
pub fn decode_dict(data: &[u8], dict: &[u8], max_out: usize) -> DResult {
    let r = std::panic::catch_unwind(|| {
        let mut state = if dict.is_empty() {
            BrotliState::new(StandardAlloc::default(), StandardAlloc::default(), StandardAlloc::default())
        } else {
            let d: <StandardAlloc as alloc_no_stdlib::Allocator<u8>>::AllocatedMemory = alloc_stdlib::heap_alloc::WrapBox::<u8>::from(dict.to_vec());
            BrotliState::new_with_custom_dictionary(StandardAlloc::default(), StandardAlloc::default(), StandardAlloc::default(), d)
        };
        let mut out: Vec<u8> = Vec::new();
        let mut buf = vec![0u8; 1 << 13];
        let mut avail_in = data.len();
        let mut in_off = 0usize;
        loop {
            let mut avail_out = buf.len();
            let mut out_off = 0usize;
            let mut written = 0usize;
            let r = BrotliDecompressStream(&mut avail_in, &mut in_off, data, &mut avail_out, &mut out_off, &mut buf, &mut written, &mut state);
            out.extend_from_slice(&buf[..out_off]);
            if out.len() > max_out { return DResult::TooBig; }
            match r {
                BrotliResult::ResultSuccess => return if avail_in == 0 { DResult::Ok(out) } else { DResult::Error(out) },
                BrotliResult::NeedsMoreInput => return DResult::NeedsMoreInput(out),
                BrotliResult::NeedsMoreOutput => continue,
                BrotliResult::ResultFailure => return DResult::Error(out),
            }
        }
    });
    match r { Ok(x) => x, Err(_) => DResult::Error(vec![]) }
}
pub fn decode(data: &[u8], max_out: usize) -> DResult { decode_dict(data, &[], max_out) }

/// Both decoders must accept and agree. Returns Err(description) otherwise.
pub fn decode_both(data: &[u8], large_window: bool, expect: &[u8]) -> Result<(), String> {
    let max = expect.len() + (1 << 16);
    // brotli-decompressor allocates (and zeroes) the whole declared window up front: for the
    // large-window form (up to 1 GiB) only libbrotlidec is used
    if !(large_window && crate::gdec::available()) { match decode(data, max) {
        DResult::Ok(v) => { if v != expect { return Err(format!("brotli-decompressor decoded {} bytes != expected {} bytes (first diff at {})", v.len(), expect.len(), first_diff(&v, expect))); } }
        other => return Err(format!("brotli-decompressor: {}", short(&other))),
    } }
    if crate::gdec::available() {
        match crate::gdec::decode(data, large_window, max) {
            crate::gdec::GResult::Ok(v) => { if v != expect { return Err(format!("libbrotlidec decoded {} bytes != expected {} (first diff at {})", v.len(), expect.len(), first_diff(&v, expect))); } }
            crate::gdec::GResult::Error => return Err("libbrotlidec: error".into()),
            crate::gdec::GResult::NeedsMoreInput(_) => return Err("libbrotlidec: truncated stream".into()),
            crate::gdec::GResult::TooBig => return Err("libbrotlidec: output too big".into()),
        }
    }
    Ok(())
}
pub fn first_diff(a: &[u8], b: &[u8]) -> usize {
    a.iter().zip(b.iter()).position(|(x, y)| x != y).unwrap_or(a.len().min(b.len()))
}
fn short(r: &DResult) -> String {
    match r { DResult::Ok(v) => format!("ok({})", v.len()), DResult::Error(v) => format!("error after {} bytes", v.len()), DResult::NeedsMoreInput(v) => format!("truncated stream ({} bytes decoded)", v.len()), DResult::TooBig => "too big".into() }
}
